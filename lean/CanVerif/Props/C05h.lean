import CanVerif.Model.DbcFile
import CanVerif.Proofs.DbcRoundtrip
/-!
# C05 — the DBC round trip as a theorem about the whole reader: frames, signals, senders, comments

`writeCore` is the part of `dbc.dump` that writes the frame section, the `BO_TX_BU_` lines, the comments of the frames and the comments
of the signals, the `VAL_`, `SIG_VALTYPE_`, `SIG_GROUP_` and `SG_MUL_VAL_` lines (in that order, as the writer does); `readFile` is the line loop of `dbc.load` (Model/DbcFile.lean, tied to the real reader
on every generated file).  For every list of frames - unbounded in the number of frames, signals, senders and comment lines - inside the
envelope `WFrame.wf` (well-formed lines, numbers that denote pairwise different identifiers, pairwise different senders, pairwise
different signal names within a frame, comments the statement can carry), reading what was written builds exactly these frames.
The attribute statements are covered statement by statement (Props/C05b-e, C05g) and by the file-level
fold (Props/C05f); that their folds give the matrix back, and the post-processing, are decided by the round-trip observation.
-/
namespace CanVerif.C05h
open CanVerif CanVerif.Dbc CanVerif.Dbc.FileProofs

/-- the core round trip -/
theorem dbc_roundtrip_core (ps : List (WFrame × (Nat × Bool))) (hwf : ∀ p ∈ ps, p.1.wf p.2 = true)
    (hdist : ps.Pairwise fun p q => p.2 ≠ q.2) :
    (readFile (writeCore (ps.map (·.1)))).frames = ps.map (fun p => p.1.expect p.2) ∧
    (readFile (writeCore (ps.map (·.1)))).pending = none :=
  roundtrip_core ps hwf hdist

/-- a frame of the file only sees the statements written for it: one section of the file, folded over any frame -/
theorem section_reaches_only_its_frame (sec : WFrame → List Item)
    (hsec : ∀ f it, it ∈ sec f → ∃ g, itemFrameUpd it = some (f.bo.id, g))
    (ps : List (WFrame × (Nat × Bool))) (hnum : ∀ p ∈ ps, keyOfCompound p.1.bo.id = some p.2)
    (hdist : ps.Pairwise fun p q => p.2 ≠ q.2) (p : WFrame × (Nat × Bool)) (hp : p ∈ ps) (a : RFrame) (ha : a.key = p.2) :
    (ps.flatMap fun q => sec q.1).foldl (fun acc it => itemUpd it acc) a = (sec p.1).foldl (fun acc it => itemUpd it acc) a :=
  sec_fold sec hsec ps hnum hdist p hp a ha

/-- the frames after any sequence of statements about frames and signals (senders, comments, value tables): every frame goes through the
updates of the statements that name its identifier, in their order -/
theorem frames_after_statements (its : List Item) (m : RMatrix) (hu : KeysUnique m) (hall : ∀ it ∈ its, (itemFrameUpd it).isSome = true) :
    (its.foldl applyItem m).frames = m.frames.map fun f => its.foldl (fun acc it => itemUpd it acc) f :=
  frames_after_items its m hu hall

/-! ## non-vacuity: a concrete file inside the envelope, written and read back by the kernel -/

def exSg (name : String) (start : Nat) : SgLine :=
  { name := name.toList, tag := .none, start := start, size := 8, little := true, signed := false,
    factor := ⟨false, 5, -1⟩, offset := ⟨false, 0, 0⟩, min := ⟨false, 0, 0⟩, max := ⟨false, 100, 0⟩, unit := "km/h".toList,
    receivers := ["ECU_B".toList] }

def exFrames : List (WFrame × (Nat × Bool)) :=
  [({ bo := ⟨291, "Engine".toList, 8, "ECU_A".toList⟩,
      sigs := [{ sg := exSg "Speed" 0, comment := some "vehicle speed\nsecond line".toList, values := [(255, "invalid".toList), (0, "stand \"still\"".toList)] },
               { sg := { exSg "Rpm" 8 with size := 32 }, isFloat := true }],
      moreSenders := ["Gateway".toList], comment := some "engine data".toList,
      groups := [{ name := "Grp".toList, id := 1, members := ["Rpm".toList, "Speed".toList] }] }, (291, false)),
   ({ bo := ⟨2147483939, "EngineExt".toList, 8, "ECU_A".toList⟩, sigs := [{ sg := exSg "Speed" 0 }] }, (291, true))]

example : exFrames.all (fun p => p.1.wf p.2) = true := by decide +kernel
example : (writeCore (exFrames.map (·.1))).map String.ofList =
    ["BO_ 291 Engine: 8 ECU_A", " SG_ Speed : 0|8@1+ (0.5,0) [0|100] \"km/h\" ECU_B", " SG_ Rpm : 8|32@1+ (0.5,0) [0|100] \"km/h\" ECU_B", "",
     "BO_ 2147483939 EngineExt: 8 ECU_A", " SG_ Speed : 0|8@1+ (0.5,0) [0|100] \"km/h\" ECU_B", "",
     "BO_TX_BU_ 291 : ECU_A,Gateway;", "CM_ BO_ 291  \"engine data\";", "CM_ SG_ 291 Speed \"vehicle speed", "second line\";",
     "VAL_ 291 Speed 255 \"invalid\" 0 \"stand \\\"still\\\"\";", "SIG_VALTYPE_ 291 Rpm : 1;", "SIG_GROUP_ 291 Grp 1 : Rpm Speed;"] := by
  decide +kernel
example : (readFile (writeCore (exFrames.map (·.1)))).frames = exFrames.map (fun p => p.1.expect p.2) := by decide +kernel
/-- without pairwise different identifiers the statement does not hold: two frames under one number, the comment of the first goes to the
second (the last frame registered under an identifier is the one the reader finds) -/
example : ((readFile (writeCore [{ bo := ⟨5, "A".toList, 8, "E1".toList⟩, sigs := [], comment := some "for A".toList },
    { bo := ⟨5, "B".toList, 8, "E1".toList⟩, sigs := [] }])).frames.map fun f => (f.name, f.comment)) =
    [("A".toList, none), ("B".toList, some "for A".toList)] := by decide +kernel

end CanVerif.C05h
