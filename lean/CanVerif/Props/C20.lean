import CanVerif.Model.DbcLines
/-!
# C20 — readers tolerate bad lines and truncation (DBC line dispatcher)

What is proved here concerns the control skeleton of the DBC reader: a line that starts with no known
keyword, or whose statement pattern does not match (truncated statement, wrong field type), leaves
the reader state untouched, so inserting any number of such lines anywhere between other lines does
not change the result of loading; and loading a prefix of a file is loading the file up to there
(the reader is a left fold, so every statement wholly inside the prefix has taken effect exactly as
in the complete file up to that point).  That the real handlers write nothing before a failing
pattern match, the multi-line comment state, and the post-processing after the fold
(which must not raise - fix 7112423) are tied by the correspondence check (partial).
-/
namespace CanVerif.C20
open CanVerif

variable {σ : Type}

/-- a bad line for reader `r`: unknown keyword, or a known keyword whose pattern does not match -/
def BadLine (r : Reader σ) (b : List Char) : Prop :=
  classify b = .unknown ∨ r.matchesPattern (classify b) b = false

/-- A bad line is a no-op on the reader state. -/
theorem bad_line_is_noop (r : Reader σ) (st : σ) (b : List Char) (hb : BadLine r b) : stepLine r st b = st := by
  unfold stepLine
  by_cases he : (stripWs b).isEmpty = true
  · simp [he]
  · simp only [he, Bool.false_eq_true, if_false]
    rcases hb with hb | hb
    · simp [hb]
    · by_cases hk : (classify b == LineKind.unknown) = true
      · simp [hk]
      · simp [hk, hb]

/-- Loading ignores bad lines wherever they stand: removing all bad lines from a file does not change
the result (any multiset of insertions at any positions). -/
theorem bad_lines_ignored (r : Reader σ) (isBad : List Char → Bool) (hbad : ∀ b, isBad b = true → BadLine r b)
    (init : σ) (lines : List (List Char)) :
    loadLines r init lines = loadLines r init (lines.filter fun l => !isBad l) := by
  unfold loadLines
  induction lines generalizing init with
  | nil => rfl
  | cons l rest ih =>
    simp only [List.foldl_cons, List.filter_cons]
    by_cases hl : isBad l = true
    · simp only [hl, Bool.not_true, Bool.false_eq_true, if_false]
      rw [bad_line_is_noop r init l (hbad l hl)]
      exact ih init
    · have : isBad l = false := by simpa using hl
      simp only [this, Bool.not_false, if_true, List.foldl_cons]
      exact ih _

/-- Truncation between lines: the state after a prefix of the file is exactly the state the complete
load passes through at that point; the rest of the file is applied on top of it. -/
theorem prefix_state (r : Reader σ) (init : σ) (pre post : List (List Char)) :
    loadLines r init (pre ++ post) = loadLines r (loadLines r init pre) post := by
  unfold loadLines; exact List.foldl_append

/-- A property of the state that every step preserves (e.g. "frame F with signal s at this placement is
present" for handlers that never modify existing layout fields) still holds after loading any
continuation - in particular it holds for the complete file if it holds after the prefix. -/
theorem prefix_monotone (r : Reader σ) (P : σ → Prop) (hstep : ∀ st l, P st → P (stepLine r st l))
    (st : σ) (post : List (List Char)) (h : P st) : P (loadLines r st post) := by
  unfold loadLines
  induction post generalizing st with
  | nil => exact h
  | cons l rest ih => exact ih _ (hstep st l h)

/-- the dispatcher recognises exactly the statement keywords; some closed instances (non-vacuity and
the fault kind "unknown keyword") -/
theorem classify_examples :
    classify "BO_ 16 F: 8 E1".toList = .bo ∧ classify " SG_ s : 0|8@1+ (1,0) [0|0] \"\" E1".toList = .sg ∧
    classify "BA_DEF_ BO_ \"X\" INT 0 1;".toList = .baDefTyped ∧ classify "BA_DEF_  \"X\" INT 0 1;".toList = .baDef ∧
    classify "BA_DEF_DEF_ \"X\" 1;".toList = .baDefDef ∧ classify "FOO_ 1 2 3;".toList = .unknown ∧
    classify "BO_TX_BU_ 16 : A,B;".toList = .boTxBu ∧ classify "BOX_ 16".toList = .unknown ∧
    classify "SG_MUL_VAL_ 1 a b 1-1;".toList = .sgMulVal ∧ classify "VAL_TABLE_ t 0 \"a\";".toList = .valTable := by
  decide

/-- which mismatching statements are reported ("error with line no") and which are silently skipped -/
theorem mismatch_reporting :
    onMismatch .bo = .errorPrinted ∧ onMismatch .sg = .errorPrinted ∧ onMismatch .ev = .errorPrinted ∧
    onMismatch .cmSg = .silent ∧ onMismatch .val = .silent ∧ onMismatch .sgMulVal = .silent := by
  decide

end CanVerif.C20
