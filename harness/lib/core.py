"""Core of the verification harness: proof audit (P), correspondence (K), spec-on-implementation
oracle (S), verdict, evidence, replay.  See DESIGN.md section 2.2."""
import collections
import hashlib
import json
import multiprocessing
import os
import random
import re
import subprocess
import sys
import time
import traceback

ROOT = os.path.dirname(os.path.dirname(os.path.dirname(os.path.abspath(__file__))))
LEAN = os.path.join(ROOT, "lean")
DRIVER = os.path.join(LEAN, ".lake", "build", "bin", "candriver")
STD_AXIOMS = {"propext", "Classical.choice", "Quot.sound"}
NWORKERS = min(16, os.cpu_count() or 4)


class Infra(Exception):
    """the check itself could not run (exit 2)"""


def canon(x):
    return json.dumps(x, sort_keys=True, separators=(",", ":"))


# ---------------------------------------------------------------------------------------------
# P: proofs
# ---------------------------------------------------------------------------------------------
BAD_TOKENS = re.compile(r"\b(sorry|admit|native_decide|implemented_by|bv_decide)\b|^\s*axiom\s|\bunsafe\s|maxHeartbeats\s+0\b")


def strip_lean_comments(src):
    out = []
    i = 0
    depth = 0
    n = len(src)
    while i < n:
        if src.startswith("/-", i):
            depth += 1
            i += 2
        elif depth and src.startswith("-/", i):
            depth -= 1
            i += 2
        elif depth:
            if src[i] == "\n":
                out.append("\n")
            i += 1
        elif src.startswith("--", i):
            while i < n and src[i] != "\n":
                i += 1
        else:
            out.append(src[i])
            i += 1
    return "".join(out)


def obligations(pid, extra=()):
    """theorem names declared in Props/<pid>.lean and in the shared files named by the property module (machine-extracted)"""
    out = []
    for mod in (pid,) + tuple(extra):
        path = os.path.join(LEAN, "CanVerif", "Props", mod + ".lean")
        if not os.path.exists(path):
            continue
        src = strip_lean_comments(open(path).read())
        names = re.findall(r"^\s*theorem\s+([A-Za-z_][A-Za-z0-9_'.]*)", src, re.M)
        out += ["CanVerif.%s.%s" % (mod, n) for n in names]
    return out


def proof_audit(pid, extra=(), recheck=False):
    """returns dict(ok, obligations, discharged, axioms, problems); recheck: replay the compiled modules of the property in
    leanchecker, the toolchain's independent re-checker of .olean files (thorough tier)"""
    res = {"ok": False, "obligations": [], "discharged": [], "axioms": {}, "problems": [], "leanchecker": None}
    try:
        status = open(os.path.join(LEAN, ".lake", "last_build.status")).read().strip()
    except OSError:
        status = "?"
    if status != "0":
        log = ""
        try:
            log = open(os.path.join(LEAN, ".lake", "last_build.log")).read()[-3000:]
        except OSError:
            pass
        res["problems"].append("lake build failed: " + log)
        return res
    # forbidden tokens anywhere in the library
    for dirpath, _, files in os.walk(os.path.join(LEAN, "CanVerif")):
        for f in files:
            if f.endswith(".lean"):
                src = strip_lean_comments(open(os.path.join(dirpath, f)).read())
                for ln, line in enumerate(src.split("\n"), 1):
                    if BAD_TOKENS.search(line):
                        res["problems"].append("forbidden token in %s:%d: %s" % (f, ln, line.strip()[:80]))
    obs = obligations(pid, extra)
    res["obligations"] = obs
    if not obs:
        res["problems"].append("no theorems found in Props/%s.lean" % pid)
        return res
    audit = "".join("import CanVerif.Props.%s\n" % mod for mod in (pid,) + tuple(extra)) + "".join("#print axioms %s\n" % o for o in obs)
    audit_path = os.path.join(LEAN, ".lake", "Audit_%s_%d.lean" % (pid, os.getpid()))
    with open(audit_path, "w") as f:
        f.write(audit)
    try:
        p = subprocess.run(["lake", "env", "lean", audit_path], cwd=LEAN, capture_output=True, text=True, timeout=600)
    finally:
        try:
            os.unlink(audit_path)
        except OSError:
            pass
    out = p.stdout + p.stderr
    text = out.replace("\n  ", " ").replace("\n ", " ")
    for o in obs:
        m = re.search(r"'%s' depends on axioms: \[([^\]]*)\]" % re.escape(o), text)
        if m:
            ax = [a.strip() for a in m.group(1).split(",") if a.strip()]
        elif re.search(r"'%s' does not depend on any axioms" % re.escape(o), text):
            ax = []
        else:
            res["problems"].append("theorem %s does not check: %s" % (o, out[-500:]))
            continue
        res["axioms"][o] = ax
        extra = set(ax) - STD_AXIOMS
        if extra:
            res["problems"].append("theorem %s uses non-standard axioms %s" % (o, sorted(extra)))
        else:
            res["discharged"].append(o)
    if recheck and not res["problems"]:
        mods = ["CanVerif.Props.%s" % mod for mod in (pid,) + tuple(extra)]
        try:
            p = subprocess.run(["lake", "env", "leanchecker"] + mods, cwd=LEAN, capture_output=True, text=True, timeout=1500)
            res["leanchecker"] = {"modules": mods, "exit": p.returncode}
            if p.returncode != 0:
                res["problems"].append("leanchecker rejects %s: %s" % (mods, (p.stdout + p.stderr)[-800:]))
        except (OSError, subprocess.TimeoutExpired) as e:
            res["leanchecker"] = {"modules": mods, "exit": None, "note": "not run: %s" % type(e).__name__}
    res["ok"] = not res["problems"]
    return res


# ---------------------------------------------------------------------------------------------
# driver
# ---------------------------------------------------------------------------------------------
def run_driver(lines):
    """lines: list of json strings; returns list of parsed outputs"""
    if not lines:
        return []
    if not os.path.exists(DRIVER):
        raise Infra("driver not built: " + DRIVER)
    p = subprocess.run([DRIVER], input=("\n".join(lines) + "\n").encode(), capture_output=True, timeout=3600)
    if p.returncode != 0:
        raise Infra("driver crashed: rc=%s %s" % (p.returncode, p.stderr.decode(errors="replace")[-2000:]))
    outs = p.stdout.decode().split("\n")
    if outs and outs[-1] == "":
        outs.pop()
    if len(outs) != len(lines):
        raise Infra("driver returned %d lines for %d inputs; stderr=%s" % (len(outs), len(lines), p.stderr.decode(errors="replace")[-1000:]))
    return [json.loads(o) for o in outs]


def evaluate(prop, cases):
    """run impl + driver over a list of cases; returns list of result dicts"""
    lines = []
    impls = []
    for case in cases:
        try:
            impl = prop.observe(case)
        except Infra:
            raise
        except Exception as e:  # the harness itself failed to observe: treat as impl error observation
            impl = {"exc": type(e).__name__ + ": " + str(e)[:200]}
        impls.append(impl)
        lines.append(canon({"p": prop.PID, "op": case["op"], "c": case["c"], "i": impl}))
    outs = run_driver(lines)
    res = []
    for case, impl, out in zip(cases, impls, outs):
        if "err" in out and set(impl.keys()) == {"exc"}:
            # the implementation raised while it was being observed (not one of the declared errors a harness module records
            # itself): on this input the property is not met - the code crashes where it should answer
            res.append({"case": case, "impl": impl, "model": None, "spec": "fail: the implementation raised while being observed: " + impl["exc"],
                        "k_ok": False, "s_ok": False})
            continue
        if "err" in out and os.environ.get("VERIF_STRICT_DRIVER") != "1":
            # the judge cannot read what was observed (a number where a text is expected, a negative position, a missing record):
            # an observation outside the shape every observation on the unchanged code has.  Reported as a failure of the property on
            # this input, with the driver's message; VERIF_STRICT_DRIVER=1 turns it back into an infrastructure error (harness debugging)
            res.append({"case": case, "impl": impl, "model": None,
                        "spec": "fail: the observation is outside the domain of the specification (%s)" % out["err"][:160],
                        "k_ok": False, "s_ok": False})
            continue
        if "err" in out:
            raise Infra("driver rejected case %s: %s" % (canon(case)[:300], out["err"]))
        k_ok = canon(prop.project(impl)) == canon(out["m"])
        s_ok = out["s"] == "ok"
        res.append({"case": case, "impl": impl, "model": out["m"], "spec": out["s"], "k_ok": k_ok, "s_ok": s_ok})
    return res


def _shard_worker(args):
    modname, tier, seed, shard, nshards, mode, extra = args
    try:
        import importlib
        prop = importlib.import_module("props." + modname)
        rng = random.Random((seed * 1000003 + shard) * 7919 + 17)
        if mode == "gen":
            cases = list(prop.gen(rng, tier, shard, nshards))
        else:  # neighbourhood search around disagreeing cases
            cases = []
            for base in extra:
                cases.extend(prop.neighbours(base, rng, shard, nshards))
        t0 = time.time()
        results = []
        B = 5000
        for k in range(0, len(cases), B):
            results.extend(evaluate(prop, cases[k:k + B]))
        dist = collections.Counter()
        seen = set()
        nontrivial = 0
        bad = []
        samples = []
        for r in results:
            crashed = r.get("model") is None and not r["s_ok"]
            if crashed:
                # the observation itself raised (already judged as a failure): no feature extraction on a missing observation
                dist["observation-raised"] += 1
            else:
                for key in prop.features(r["case"], r["impl"]):
                    dist[key] += 1
            h = hashlib.blake2b(canon(r["case"]).encode(), digest_size=8).digest()
            if h not in seen:
                seen.add(h)
                if not crashed and prop.nontrivial(r["case"], r["impl"]):
                    nontrivial += 1
            if not (r["k_ok"] and r["s_ok"]):
                if len(bad) < 200:
                    bad.append(r)
            elif len(samples) < 2 and rng.random() < 0.01:
                samples.append({"case": r["case"], "impl": r["impl"]})
        if not samples and results:
            samples.append({"case": results[0]["case"], "impl": results[0]["impl"]})
        return {"n": len(results), "distinct": len(seen), "hashes": seen if len(seen) < 400000 else None,
                "nontrivial": nontrivial, "dist": dist, "bad": bad, "samples": samples,
                "nbad_k": sum(1 for r in results if not r["k_ok"]), "nbad_s": sum(1 for r in results if not r["s_ok"]),
                "wall": time.time() - t0}
    except Infra as e:
        return {"infra": str(e)}
    except Exception:
        return {"infra": traceback.format_exc()}


def run_sharded(modname, tier, seed, nshards, mode="gen", extra=None):
    args = [(modname, tier, seed, s, nshards, mode, extra) for s in range(nshards)]
    if nshards == 1:
        outs = [_shard_worker(args[0])]
    else:
        ctx = multiprocessing.get_context("fork")
        with ctx.Pool(min(NWORKERS, nshards)) as pool:
            outs = pool.map(_shard_worker, args)
    for o in outs:
        if "infra" in o:
            raise Infra(o["infra"])
    tot = {"n": 0, "distinct": 0, "nontrivial": 0, "dist": collections.Counter(), "bad": [], "samples": [],
           "nbad_k": 0, "nbad_s": 0}
    for o in outs:
        for k in ("n", "distinct", "nontrivial", "nbad_k", "nbad_s"):
            tot[k] += o[k]
        tot["dist"].update(o["dist"])
        tot["bad"].extend(o["bad"])
        tot["samples"].extend(o["samples"][:1])
    return tot


# ---------------------------------------------------------------------------------------------
# known findings
# ---------------------------------------------------------------------------------------------
def load_known(pid):
    path = os.path.join(ROOT, "known_findings.json")
    if not os.path.exists(path):
        return []
    data = json.load(open(path))
    return [e for e in data.get("findings", []) if e.get("property") == pid]


def write_replay(pid, seed, tag, payload):
    d = os.path.join(ROOT, "replays")
    os.makedirs(d, exist_ok=True)
    name = "%s-%s-%s.json" % (pid, seed, tag)
    path = os.path.join(d, name)
    with open(path, "w") as f:
        json.dump(payload, f, indent=1, sort_keys=True, default=str)
    return os.path.relpath(path, ROOT)


def shrink(prop, r):
    """greedy shrinking with the property's own candidate generator"""
    if not hasattr(prop, "shrink_candidates"):
        return r
    cur = r
    for _ in range(200):
        improved = False
        cands = list(prop.shrink_candidates(cur["case"]))
        if not cands:
            break
        try:
            rs = evaluate(prop, cands)
        except Infra:
            break
        for c in rs:
            if (not c["s_ok"]) == (not cur["s_ok"]) and (not c["k_ok"] or not c["s_ok"]):
                if (not cur["s_ok"] and not c["s_ok"]) or (cur["s_ok"] and not c["k_ok"]):
                    cur = c
                    improved = True
                    break
        if not improved:
            break
    return cur


# ---------------------------------------------------------------------------------------------
# main check
# ---------------------------------------------------------------------------------------------
def run_check(prop, tier, seed):
    t0 = time.time()
    pid = prop.PID
    modname = prop.__name__.split(".")[-1]
    violations = []      # (line, )
    known_lines = []
    known = load_known(pid)
    open_ids = {e["id"]: e for e in known if e.get("status") == "open"}

    audit = proof_audit(pid, getattr(prop, "EXTRA_PROPS", ()), recheck=(tier == "thorough"))

    # corpus first
    corpus_dir = os.path.join(ROOT, "corpus", pid)
    corpus_cases = []
    if os.path.isdir(corpus_dir):
        for f in sorted(os.listdir(corpus_dir)):
            if f.endswith(".json"):
                d = json.load(open(os.path.join(corpus_dir, f)))
                corpus_cases.append(d["case"] if "case" in d else d)
    corpus_res = evaluate(prop, corpus_cases) if corpus_cases else []

    nshards = getattr(prop, "NSHARDS", {}).get(tier, NWORKERS)
    tot = run_sharded(modname, tier, seed, nshards)
    bad = [r for r in corpus_res if not (r["k_ok"] and r["s_ok"])] + tot["bad"]
    n_eval = tot["n"] + len(corpus_res)

    s_fail = [r for r in bad if not r["s_ok"]]
    k_fail = [r for r in bad if r["s_ok"] and not r["k_ok"]]
    searched = 0

    def classify(r):
        if hasattr(prop, "classify"):
            return prop.classify(r["case"], r["impl"], r["spec"])
        return None

    def report_s(rs):
        by_id = collections.OrderedDict()
        for r in rs:
            cid = classify(r)
            by_id.setdefault(cid, []).append(r)
        for cid, group in by_id.items():
            if cid is not None and cid in open_ids:
                known_lines.append("KNOWN-FINDING: property=%s %s (%d cases, e.g. %s)" % (
                    pid, open_ids[cid]["what"], len(group), canon(group[0]["case"])[:160]))
                continue
            if os.environ.get("VERIF_DEBUG"):
                sys.stderr.write("unclassified spec failure before shrinking: %s | %s\n" % (group[0]["spec"], canon(group[0]["case"])[:3000]))
            r = shrink(prop, group[0])
            path = write_replay(pid, seed, "S%d" % len(violations), {
                "property": pid, "seed": seed, "kind": "spec-fails-on-implementation", "class": cid,
                "case": r["case"], "impl": r["impl"], "model": r["model"], "spec": r["spec"],
                "how": "./check %s --replay <this file>" % pid,
                "recipe": prop.recipe(r["case"]) if hasattr(prop, "recipe") else None})
            violations.append("VIOLATION property=%s replay=%s" % (pid, path))

    if s_fail:
        report_s(s_fail)
    if k_fail and not violations:
        # correspondence broke, spec still fine on what we saw: enlarged search near the disagreements
        bases = [r["case"] for r in k_fail[:40]]
        if hasattr(prop, "neighbours"):
            tot2 = run_sharded(modname, tier, seed + 1, NWORKERS, mode="nb", extra=bases)
            searched = tot2["n"]
            n_eval += tot2["n"]
            s2 = [r for r in tot2["bad"] if not r["s_ok"]]
        else:
            s2 = []
        s2_new = [r for r in s2 if classify(r) not in open_ids]
        if s2_new:
            report_s(s2_new)
        else:
            kf = [r for r in k_fail if not (hasattr(prop, "k_known") and prop.k_known(r) in open_ids)]
            for r in k_fail:
                if hasattr(prop, "k_known") and prop.k_known(r) in open_ids:
                    known_lines.append("KNOWN-FINDING: property=%s %s" % (pid, open_ids[prop.k_known(r)]["what"]))
            if kf:
                r = shrink(prop, kf[0])
                path = write_replay(pid, seed, "K0", {
                    "property": pid, "seed": seed, "kind": "correspondence-broken",
                    "what": "model and implementation disagree on %d of %d cases; the theorems of Props/%s.lean no longer "
                            "speak about this code. Neighbourhood search (%d cases) found no input on which the "
                            "specification fails." % (tot["nbad_k"], tot["n"], pid, searched),
                    "correspondence": getattr(prop, "CORRESPONDENCE", prop.PID + " model vs implementation"),
                    "case": r["case"], "impl": r["impl"], "model": r["model"], "spec": r["spec"],
                    "how": "./check %s --replay <this file>" % pid})
                violations.append("VIOLATION property=%s replay=%s no-failing-input-found" % (pid, path))
    if not audit["ok"] and not violations:
        path = write_replay(pid, seed, "P0", {
            "property": pid, "seed": seed, "kind": "proof-obligation-broken",
            "problems": audit["problems"], "obligations": audit["obligations"], "discharged": audit["discharged"],
            "what": "search over %d implementation cases found no failing input" % n_eval})
        if any("lake build failed" in p for p in audit["problems"]):
            raise Infra("lean build failed in /verif: " + audit["problems"][0][-1500:])
        violations.append("VIOLATION property=%s replay=%s no-failing-input-found" % (pid, path))

    seen_lines = set()
    for l in known_lines:
        key = l.split(" (")[0]
        if key not in seen_lines:
            seen_lines.add(key)
            print(l)
    for l in violations:
        print(l)

    ev = {
        "property_id": pid, "tier": tier, "seed": seed, "level": "proof",
        "coverage": {
            "obligations": len(audit["obligations"]), "discharged": len(audit["discharged"]),
            "obligation_names": audit["obligations"],
            "axioms": sorted({a for v in audit["axioms"].values() for a in v}),
            "checker_cmd": "cd lean && lake build CanVerif && lake env lean <generated '#print axioms' file for Props/%s.lean>" % pid,
            "leanchecker": audit.get("leanchecker"),
            "trusted_base": getattr(prop, "TRUSTED", []) + [
                "Lean 4.33.0 kernel; axioms at most propext, Classical.choice, Quot.sound (audited per theorem on this run)",
                "hand-written Lean model tied to /repo by the correspondence check below (differential, generator-bounded)",
                "Python harness (harness/), JSON line protocol, native driver candriver"],
            "evaluations": n_eval,
            "distinct_nontrivial": tot["nontrivial"],
            "distinct_cases": tot["distinct"],
            "rule": prop.RULE,
            "samples": tot["samples"][:3],
            "distribution": dict(sorted(tot["dist"].items())),
            "corpus_cases": len(corpus_res),
            "correspondence_disagreements": tot["nbad_k"],
            "spec_failures_on_impl": tot["nbad_s"],
            "disagreements_checked": searched,
            "exhaustive": bool(getattr(prop, "EXHAUSTIVE", {}).get(tier, False)),
            "partial": getattr(prop, "PARTIAL", []),
            "known_findings_reported": len(seen_lines),
        },
        "assumptions": getattr(prop, "ASSUMPTIONS", []),
        "wall_s": round(time.time() - t0, 2),
        "violations": len(violations),
    }
    os.makedirs(os.path.join(ROOT, "evidence"), exist_ok=True)
    with open(os.path.join(ROOT, "evidence", pid + ".json"), "w") as f:
        json.dump(ev, f, indent=1, sort_keys=True, default=str)
    if not violations:
        print("OK property=%s tier=%s seed=%d obligations=%d/%d cases=%d nontrivial=%d wall=%.1fs" % (
            pid, tier, seed, len(audit["discharged"]), len(audit["obligations"]), n_eval, tot["nontrivial"], time.time() - t0))
    return 1 if violations else 0


def run_replay(prop, path):
    d = json.load(open(path))
    if "case" not in d:
        print("replay file names a broken proof obligation, not a case: %s" % d.get("problems"))
        audit = proof_audit(prop.PID, getattr(prop, "EXTRA_PROPS", ()))
        return 0 if audit["ok"] else 1
    r = evaluate(prop, [d["case"]])[0]
    print(json.dumps({"case": r["case"], "impl": r["impl"], "model": r["model"], "spec": r["spec"],
                      "k_ok": r["k_ok"], "s_ok": r["s_ok"]}, indent=1, default=str))
    if not r["s_ok"] or not r["k_ok"]:
        print("VIOLATION property=%s replay=%s%s" % (prop.PID, path, "" if not r["s_ok"] else " no-failing-input-found"))
        return 1
    print("replay passes on the current tree")
    return 0
