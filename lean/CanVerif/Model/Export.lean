import CanVerif.Model.EcuOps
/-!
# Model of the writers' footprint on their argument (C14)

Each writer of `canmatrix.formats` is modelled by (a) the in-place normalisation it performs on the
matrix it works on and (b) whether it works on the caller's object or on a deep copy of it.
After fixes 34d278b (arxml), f12a9c7 (fibex), 23d5820 (kcd) every normalising writer copies first
(dbc and dbf always did); csv, json, scapy, sym, wireshark, xls only read.
The second half models the one place where a writer iterated over a Python `set` of multiplexer
values (sym, fix 36c900f): the iteration order is an arbitrary permutation of the distinct values.
-/
namespace CanVerif

inductive Writer
  | arxml | csv | dbc | dbf | fibex | json | jsonAll | jsonCanard | kcd | scapy | sym | wireshark | xls
  deriving Repr, DecidableEq, Inhabited

/-- arxml: `frame.add_receiver(rec)` for every receiver of every signal -/
def completeReceivers (m : EMat) : EMat :=
  { m with frames := m.frames.map fun f =>
      { f with receivers := f.sigs.foldl (fun acc s => s.receivers.foldl addIfAbsent acc) f.receivers } }

/-- fibex: a frame whose name was already seen gets the first free suffix `_2`, `_3`, … -/
def uniqueFrameNames (m : EMat) : EMat :=
  let step := fun (acc : List String × List EFrame) (f : EFrame) =>
    if acc.1.contains f.name then
      let rec pick (fuel k : Nat) : String :=
        match fuel with
        | 0 => f.name ++ "_" ++ toString k
        | fuel + 1 => if acc.1.contains (f.name ++ "_" ++ toString k) then pick fuel (k + 1) else f.name ++ "_" ++ toString k
      let nn := pick (acc.1.length + 1) 2
      (acc.1 ++ [nn], acc.2 ++ [{ f with name := nn }])
    else (acc.1 ++ [f.name], acc.2 ++ [f])
  { m with frames := (m.frames.foldl step ([], [])).2 }

/-- kcd (`CanCluster.update_frames`): senders/receivers of a later frame of the same name are merged into the first one -/
def mergeEqualNamed (m : EMat) : EMat :=
  let merged := m.frames.foldl (fun (acc : List EFrame) f =>
    match acc.find? (·.name == f.name) with
    | none => acc ++ [f]
    | some _ => acc.map fun g => if g.name == f.name then
        { g with transmitters := f.transmitters.foldl addIfAbsent g.transmitters,
                 receivers := f.receivers.foldl addIfAbsent g.receivers } else g) []
  -- the frames stay in the matrix; the first of each name carries the merged lists
  { m with frames := m.frames.map fun f => match merged.find? (·.name == f.name) with
      | some g => if (m.frames.find? (·.name == f.name)) == some f then g else f
      | none => f }

/-- the normalisation a writer applies to the matrix object it works on -/
def normalise : Writer → EMat → EMat
  | .arxml => completeReceivers
  | .fibex => uniqueFrameNames
  | .kcd => mergeEqualNamed
  | _ => id

/-- does the writer work on a deep copy of its argument (after the fixes) -/
def copiesFirst : Writer → Bool
  | .arxml | .fibex | .kcd | .dbc | .dbf => true
  | _ => false

/-- exporting: (the caller's matrix afterwards, the matrix the file is written from) -/
def exportEffect (w : Writer) (m : EMat) : EMat × EMat :=
  if copiesFirst w then (m, normalise w m) else (normalise w m, normalise w m)

/-- the pre-fix behaviour of the three writers that normalised the caller's object -/
def exportEffectPreFix (w : Writer) (m : EMat) : EMat × EMat := (normalise w m, normalise w m)

/-! ## iteration over a set of multiplexer values (sym) -/

/-- insertion sort (what `sorted()` returns for distinct ints) -/
def insertSorted (x : Int) : List Int → List Int
  | [] => [x]
  | y :: t => if x ≤ y then x :: y :: t else y :: insertSorted x t

def sortInts (l : List Int) : List Int := l.foldr insertSorted []

/-- the mux groups are written in the order in which the values are iterated: after the fix,
`sorted(set(values))`, where `iter` is the arbitrary order in which the set yields its elements -/
def symGroupOrder (iter : List Int) : List Int := sortInts iter

/-- pre-fix: the iteration order of the set itself -/
def symGroupOrderPreFix (iter : List Int) : List Int := iter

end CanVerif
