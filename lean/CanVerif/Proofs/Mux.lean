import CanVerif.Model.Codec
import CanVerif.Props.C01
/-! helper lemmas for C03: dictionaries, `pickAll`, and the walk through nested multiplexers -/
namespace CanVerif

/-! ## dictionaries -/

theorem mem_dictSet {d : List (String × Int)} {k : String} {v : Int} {kv : String × Int}
    (h : kv ∈ dictSet d k v) : kv ∈ d ∨ kv = (k, v) := by
  unfold dictSet at h
  split at h
  · simp only [List.mem_map] at h
    obtain ⟨x, hx, hxe⟩ := h
    split at hxe
    · right; exact hxe.symm
    · left; rw [← hxe]; exact hx
  · simp only [List.mem_append, List.mem_singleton] at h
    exact h

theorem key_dictSet_self (d : List (String × Int)) (k : String) (v : Int) :
    ∃ kv ∈ dictSet d k v, kv.1 = k := by
  unfold dictSet
  split
  · rename_i h
    simp only [List.any_eq_true, beq_iff_eq] at h
    obtain ⟨x, hx, hxk⟩ := h
    refine ⟨(k, v), ?_, rfl⟩
    simp only [List.mem_map]
    exact ⟨x, hx, by simp [hxk]⟩
  · exact ⟨(k, v), by simp, rfl⟩

theorem key_dictSet_mono {d : List (String × Int)} (k : String) (v : Int) {k' : String}
    (h : ∃ kv ∈ d, kv.1 = k') : ∃ kv ∈ dictSet d k v, kv.1 = k' := by
  obtain ⟨x, hx, hxk⟩ := h
  unfold dictSet
  split
  · by_cases hk : x.1 = k
    · refine ⟨(k, v), ?_, by rw [← hxk, hk]⟩
      simp only [List.mem_map]
      exact ⟨x, hx, by simp [hk]⟩
    · refine ⟨x, ?_, hxk⟩
      simp only [List.mem_map]
      exact ⟨x, hx, by simp [hk]⟩
  · exact ⟨x, by simp [hx], hxk⟩

theorem dictGet_isSome_iff (d : List (String × Int)) (k : String) :
    (dictGet d k).isSome ↔ ∃ kv ∈ d, kv.1 = k := by
  simp [dictGet]

theorem dictGet_some_mem {d : List (String × Int)} {k : String} {v : Int}
    (h : dictGet d k = some v) : (k, v) ∈ d := by
  unfold dictGet at h
  obtain ⟨a, ha, hav⟩ := Option.map_eq_some_iff.mp h
  have h1 := List.find?_some ha
  have h2 := List.mem_of_find?_eq_some ha
  simp only [beq_iff_eq] at h1
  have : a = (k, v) := by cases a; simp_all
  rw [← this]; exact h2

theorem name_inj {sigs : List Sig} (hnd : (sigs.map (·.name)).Nodup) {a b : Sig}
    (ha : a ∈ sigs) (hb : b ∈ sigs) (h : a.name = b.name) : a = b := by
  induction sigs with
  | nil => simp at ha
  | cons x t ih =>
    simp only [List.map_cons, List.nodup_cons, List.mem_map, not_exists, not_and] at hnd
    simp only [List.mem_cons] at ha hb
    rcases ha with rfl | ha <;> rcases hb with rfl | hb
    · rfl
    · exact absurd h.symm (hnd.1 b hb)
    · exact absurd h (hnd.1 a ha)
    · exact ih hnd.2 ha hb

/-- lookup in the dictionary produced by `unpack` -/
theorem dictGet_map_nodup (sigs : List Sig) (g : Sig → Int) (hnd : (sigs.map (·.name)).Nodup)
    {s : Sig} (hs : s ∈ sigs) : dictGet (sigs.map fun s => (s.name, g s)) s.name = some (g s) := by
  induction sigs with
  | nil => simp at hs
  | cons x t ih =>
    simp only [List.map_cons, List.nodup_cons, List.mem_map, not_exists, not_and] at hnd
    simp only [List.mem_cons] at hs
    by_cases hx : x.name = s.name
    · have : s = x := by
        rcases hs with rfl | hs
        · rfl
        · exact absurd hx.symm (hnd.1 s hs)
      subst this
      simp [dictGet]
    · have hs' : s ∈ t := by
        rcases hs with rfl | hs
        · exact absurd rfl hx
        · exact hs
      have := ih hnd.2 hs'
      simp only [dictGet, List.map_cons] at this ⊢
      rw [List.find?_cons_of_neg (by simpa using hx)]
      exact this

theorem unpack_ok (f : Frame) (data : List Nat) (hnd : (f.sigs.map (·.name)).Nodup)
    (hct : f.isContainer = false) (hlen : data.length = f.size) :
    f.unpack data false false = .ok (f.sigs.map fun s => (s.name, rawOf s data)) := by
  unfold Frame.unpack
  rw [C01.length_rule_equal _ _ _ _ hlen]
  have := C01.dictSet_fold_nodup f.sigs (fun s => rawOf s data) [] hnd (by simp)
  simp only [List.nil_append] at this
  simp [hct, this]

/-! ## `pickAll` -/

theorem pickAll_eq_fold (D : List (String × Int)) (g : Sig → Int) (l : List Sig)
    (init : List (String × Int)) (h : ∀ s ∈ l, dictGet D s.name = some (g s)) :
    pickAll D l init = .ok (l.foldl (fun a s => dictSet a s.name (g s)) init) := by
  unfold pickAll
  induction l generalizing init with
  | nil => rfl
  | cons x t ih =>
    simp only [List.foldlM_cons, List.foldl_cons]
    rw [h x (by simp)]
    exact ih _ (fun s hs => h s (by simp [hs]))

theorem fold_dictSet_mem (g : Sig → Int) (l : List Sig) (init : List (String × Int))
    {kv : String × Int} (h : kv ∈ l.foldl (fun a s => dictSet a s.name (g s)) init) :
    kv ∈ init ∨ ∃ s ∈ l, kv = (s.name, g s) := by
  induction l generalizing init with
  | nil => left; exact h
  | cons x t ih =>
    simp only [List.foldl_cons] at h
    rcases ih _ h with h1 | ⟨s, hs, he⟩
    · rcases mem_dictSet h1 with h2 | h2
      · left; exact h2
      · right; exact ⟨x, by simp, h2⟩
    · right; exact ⟨s, by simp [hs], he⟩

theorem fold_dictSet_key_mono (g : Sig → Int) (l : List Sig) (init : List (String × Int))
    {k : String} (h : ∃ kv ∈ init, kv.1 = k) :
    ∃ kv ∈ l.foldl (fun a s => dictSet a s.name (g s)) init, kv.1 = k := by
  induction l generalizing init with
  | nil => exact h
  | cons x t ih =>
    simp only [List.foldl_cons]
    exact ih _ (key_dictSet_mono _ _ h)

theorem fold_dictSet_key_mem (g : Sig → Int) (l : List Sig) (init : List (String × Int))
    {s : Sig} (hs : s ∈ l) :
    ∃ kv ∈ l.foldl (fun a s => dictSet a s.name (g s)) init, kv.1 = s.name := by
  induction l generalizing init with
  | nil => simp at hs
  | cons x t ih =>
    simp only [List.foldl_cons]
    simp only [List.mem_cons] at hs
    rcases hs with rfl | hs
    · exact fold_dictSet_key_mono g t _ (key_dictSet_self _ _ _)
    · exact ih _ hs

/-! ## counting -/

theorem countP_lt_of {α : Type} {l : List α} {p q : α → Bool} (hpq : ∀ x ∈ l, p x = true → q x = true)
    {a : α} (ha : a ∈ l) (hqa : q a = true) (hpa : p a = false) : l.countP p < l.countP q := by
  induction l with
  | nil => simp at ha
  | cons b t ih =>
    simp only [List.countP_cons]
    have hmono : t.countP p ≤ t.countP q :=
      List.countP_mono_left (fun x hx => hpq x (by simp [hx]))
    by_cases hab : a = b
    · subst hab
      simp [hqa, hpa]; omega
    · have hat : a ∈ t := by
        simp only [List.mem_cons] at ha
        rcases ha with h | h
        · exact absurd h hab
        · exact h
      have := ih (fun x hx => hpq x (by simp [hx])) hat
      have hb := hpq b (by simp)
      cases hpb : p b
      · simp; split <;> omega
      · simp [hb hpb]; omega

/-! ## the walk through nested multiplexers -/

/-- `Below m s`: `s` is `m` itself or hangs, through a chain of bindings whose ranges contain the
payload's selector values, below `m` -/
inductive Below (f : Frame) (data : List Nat) : Sig → Sig → Prop
  | self (m : Sig) : m ∈ f.sigs → Below f data m m
  | step (m c s : Sig) : m ∈ f.sigs → c ∈ f.sigs → c.muxerFor = some m.name →
      c.muxInRange (some (rawOf m data)) = true → Below f data c s → Below f data m s

theorem Below.mem_right {f : Frame} {data : List Nat} {m s : Sig} (h : Below f data m s) : s ∈ f.sigs := by
  induction h with
  | self m hm => exact hm
  | step m c s _ _ _ _ _ ih => exact ih

theorem Below.snoc {f : Frame} {data : List Nat} {a m s : Sig} (h : Below f data a m)
    (hs : s ∈ f.sigs) (hb : s.muxerFor = some m.name)
    (hin : s.muxInRange (some (rawOf m data)) = true) : Below f data a s := by
  induction h with
  | self m hm => exact .step m s s hm hs hb hin (.self s hs)
  | step a c m ha hc hcb hcin _ ih => exact .step a c s ha hc hcb hcin (ih hb hin)

section walk
variable {f : Frame} {data : List Nat}
variable (hnd : (f.sigs.map (·.name)).Nodup)
variable (hpar : ∀ s ∈ f.sigs, ∀ m, s.muxerFor = some m → ∃ p ∈ f.sigs, p.name = m ∧ p.isMuxer = true)
variable (hone : ∀ c ∈ f.sigs, ∀ c' ∈ f.sigs, c.isMuxer = true → c'.isMuxer = true →
      c.muxerFor = c'.muxerFor → c.muxerFor ≠ none →
      ∀ v : Int, c.muxInRange (some v) = true → c'.muxInRange (some v) = true → c = c')

include hnd hpar in
/-- unfolding `Below` at its head: the element itself, a non-multiplexer child in range, or
something below a nested multiplexer in range -/
theorem Below.cases_head {sub s : Sig} (h : Below f data sub s) :
    s = sub ∨
    (s ∈ f.sigs ∧ s.muxerFor = some sub.name ∧ s.muxInRange (some (rawOf sub data)) = true ∧ s.isMuxer = false) ∨
    (∃ c ∈ f.sigs, c.isMuxer = true ∧ c.muxerFor = some sub.name ∧
        c.muxInRange (some (rawOf sub data)) = true ∧ Below f data c s) := by
  cases h with
  | self _ _ => left; rfl
  | step _ c _ hm hc hcb hcin hcs =>
    right
    by_cases hcm : c.isMuxer = true
    · right; exact ⟨c, hc, hcm, hcb, hcin, hcs⟩
    · left
      have hcm' : c.isMuxer = false := by simpa using hcm
      cases hcs with
      | self _ _ => exact ⟨hc, hcb, hcin, hcm'⟩
      | step _ c' _ _ hc' hcb' _ _ =>
        obtain ⟨p, hp, hpn, hpm⟩ := hpar c' hc' c.name hcb'
        have : p = c := name_inj hnd hp hc hpn
        subst this
        rw [hpm] at hcm'; cases hcm'

theorem mem_filterForMultiplexer_some (f : Frame) (n : String) (v : Int) (s : Sig) :
    s ∈ f.filterForMultiplexer (some n) (some v) ↔
      s ∈ f.sigs ∧ ((s.muxInRange (some v) = true ∧ s.muxerFor = some n ∧ s.isMuxer = false) ∨ s.name = n) := by
  simp [Frame.filterForMultiplexer, List.mem_filter, and_assoc]

include hnd hpar hone in
theorem walk_spec (rank : String → Nat)
    (hr : ∀ s ∈ f.sigs, ∀ m, s.muxerFor = some m → rank m < rank s.name)
    (fuel : Nat) (sub : Sig) (vals : List (String × Int)) (filt : List Sig)
    (hsub : sub ∈ f.sigs)
    (hfuel : f.sigs.countP (fun s => decide (rank sub.name ≤ rank s.name)) ≤ fuel) :
    ∃ vals' filt',
      complexWalk f (f.sigs.map fun s => (s.name, rawOf s data)) fuel (some sub) vals filt = .ok (vals', filt') ∧
      (∀ s, s ∈ filt' ↔ s ∈ filt ∨ Below f data sub s) ∧
      (∀ kv ∈ vals', kv ∈ vals ∨ ∃ m, Below f data sub m ∧ kv = (m.name, rawOf m data)) := by
  induction fuel generalizing sub vals filt with
  | zero =>
    have : 0 < f.sigs.countP (fun s => decide (rank sub.name ≤ rank s.name)) :=
      List.countP_pos_iff.mpr ⟨sub, hsub, by simp⟩
    omega
  | succ fuel ih =>
    unfold complexWalk
    rw [dictGet_map_nodup f.sigs (fun s => rawOf s data) hnd hsub]
    simp only
    -- membership in this round's filter
    have hF : ∀ s, s ∈ f.filterForMultiplexer (some sub.name) (some (rawOf sub data)) →
        Below f data sub s := by
      intro s hs
      rw [mem_filterForMultiplexer_some] at hs
      obtain ⟨hsm, h | h⟩ := hs
      · exact .step sub s s hsub hsm h.2.1 h.1 (.self s hsm)
      · have : s = sub := name_inj hnd hsm hsub h
        subst this; exact .self s hsm
    have hself : sub ∈ f.filterForMultiplexer (some sub.name) (some (rawOf sub data)) := by
      rw [mem_filterForMultiplexer_some]; exact ⟨hsub, Or.inr rfl⟩
    cases hnext : f.getSubMultiplexer (some sub.name) (some (rawOf sub data)) with
    | none =>
      refine ⟨_, _, by rw [complexWalk], ?_, ?_⟩
      · intro s
        simp only [List.mem_append]
        constructor
        · rintro (h | h)
          · left; exact h
          · right; exact hF s h
        · rintro (h | h)
          · left; exact h
          · right
            rcases Below.cases_head hnd hpar h with rfl | ⟨h1, h2, h3, h4⟩ | ⟨c, hc, hcm, hcb, hcin, _⟩
            · exact hself
            · rw [mem_filterForMultiplexer_some]; exact ⟨h1, Or.inl ⟨h3, h2, h4⟩⟩
            · exfalso
              unfold Frame.getSubMultiplexer at hnext
              rw [List.find?_eq_none] at hnext
              exact hnext c hc (by simp [hcm, hcb, hcin])
      · intro kv hkv
        rcases mem_dictSet hkv with h | h
        · left; exact h
        · right; exact ⟨sub, .self sub hsub, h⟩
    | some n =>
      have hnp := List.find?_some (by unfold Frame.getSubMultiplexer at hnext; exact hnext)
      have hnm : n ∈ f.sigs := List.mem_of_find?_eq_some (by unfold Frame.getSubMultiplexer at hnext; exact hnext)
      simp only [Bool.and_eq_true, beq_iff_eq] at hnp
      obtain ⟨⟨hnmux, hnb⟩, hnin⟩ := hnp
      have hrank : rank sub.name < rank n.name := hr n hnm sub.name hnb
      have hfuel' : f.sigs.countP (fun s => decide (rank n.name ≤ rank s.name)) ≤ fuel := by
        have := countP_lt_of (l := f.sigs) (p := fun s => decide (rank n.name ≤ rank s.name))
          (q := fun s => decide (rank sub.name ≤ rank s.name))
          (fun x _ hx => by simp only [decide_eq_true_eq] at hx ⊢; omega)
          hsub (by simp) (by simp only [decide_eq_false_iff_not]; omega)
        omega
      obtain ⟨vals', filt', hw, hfilt, hvals⟩ := ih n (dictSet vals sub.name (rawOf sub data))
        (filt ++ f.filterForMultiplexer (some sub.name) (some (rawOf sub data))) hnm hfuel'
      refine ⟨vals', filt', hw, ?_, ?_⟩
      · intro s
        rw [hfilt s]
        simp only [List.mem_append]
        constructor
        · rintro ((h | h) | h)
          · left; exact h
          · right; exact hF s h
          · right; exact .step sub n s hsub hnm hnb hnin h
        · rintro (h | h)
          · left; left; exact h
          · rcases Below.cases_head hnd hpar h with rfl | ⟨h1, h2, h3, h4⟩ | ⟨c, hc, hcm, hcb, hcin, hcs⟩
            · left; right; exact hself
            · left; right; rw [mem_filterForMultiplexer_some]; exact ⟨h1, Or.inl ⟨h3, h2, h4⟩⟩
            · right
              have : c = n := hone c hc n hnm hcm hnmux (by rw [hcb, hnb]) (by rw [hcb]; simp)
                (rawOf sub data) hcin hnin
              subst this; exact hcs
      · intro kv hkv
        rcases hvals kv hkv with h | ⟨m, hm, he⟩
        · rcases mem_dictSet h with h | h
          · left; exact h
          · right; exact ⟨sub, .self sub hsub, h⟩
        · right; exact ⟨m, .step sub n m hsub hnm hnb hnin hm, he⟩

end walk

end CanVerif
