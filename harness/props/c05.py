"""C05 - DBC round trip is lossless and its output is a fixed point."""
import contextlib
import io
import copy as _copy
import json
import re

import canmatrix.formats
import canmatrix.formats.dbc
from lib import dbcgen as G
from lib import dbcsnap
from lib import matrices as M

PID = "C05"
EXTRA_PROPS = ("Num", "C05b", "C05c", "C05d", "C05e", "C05f", "C05g", "C05h", "C05i", "C05j", "C05k", "C05l", "C05m", "C05n", "C05o", "C05p", "C05q", "C05r")
RULE = ("case 'rt' = a generated matrix of DBC-expressible content (identifier names incl. names longer than 32 characters, ECU names "
        "of >= 2 characters, standard/extended ids, CAN FD and J1939 frames, simple and extended multiplexing, float signals, limits, "
        "start values inside the limits and on the raw grid, cycle times, value tables with quotes, comments over several lines with "
        "blank lines/indentation/quotes/semicolons, INT/HEX/FLOAT/STRING/ENUM attributes with and without defaults on matrix, ECU, "
        "frame and signal level, carrier definitions brought along, several senders, signal groups, global value tables, environment "
        "variables, signals without frame; file encoding latin-1 or utf-8, comment encoding equal or utf-8 in a latin-1 file): written "
        "with canmatrix.formats.dump, read with loads, written again; observed: exception, 'error with line no' on stdout, byte "
        "equality of the two files, every path on which the normal forms (carrier attributes folded) differ. case 'file' = the frame "
        "section of that file (BO_/SG_ lines) against the Lean writer and reader of Model/DbcText.lean. cases 'sg'/'bo'/'val'/'tx'/'vt'/'mul'/'def'/'dd'/'ba'/'cm'/'vtab'/'grp' = one "
        "statement (SG_, BO_, VAL_, BO_TX_BU_, SIG_VALTYPE_, SG_MUL_VAL_, BA_DEF_, BA_DEF_DEF_, BA_ of user attributes on all levels, CM_ comments over one or several lines, VAL_TABLE_, SIG_GROUP_): the line "
        "in the file against the Lean writer, and what the real reader makes of it alone against the Lean reader. case 'whole' = the whole file - as "
        "written (variant 0), with bad and stray lines inserted, also ones naming the file's own frames and signals (variant 1), with lines dropped, "
        "repeated and the file cut inside a line (variant 2) - read by dbc.load, the matrix it has built when its line loop ends (before the "
        "post-processing; taken without touching the reader, lib/dbcsnap.py) and the number of 'error with line no' against Model/DbcFile.lean readFile. "
        "Non-trivial = distinct case.")
PARTIAL = ["theorems: every statement kind parse(render) = id, the whole file as a fold of effects (Props/C05f), statements hit exactly their targets "
           "(C05g), the core round trip frames/signals/senders/comments/value tables (C05h), three facts about the post-processing (C05i); not carried "
           "by a theorem: that the folds of the attribute / group / multiplex statements give the matrix back, the numeric part of the post-processing "
           "(cycle times, start values, ENUM conversion, multiplex bookkeeping), EV_ statements and the text encodings: decided by the round-trip "
           "observation (S); the line loop and the name / reference part of the post-processing are models compared with dbc.load",
           "the statement patterns are regular expressions in the source and deterministic tokenizers in the model; they are compared "
           "line by line, not derived"]
ASSUMPTIONS = ["envelope: names unique within their first 32 characters; text without a backslash directly before a quote (the writer does "
               "not escape backslashes, the format cannot carry it); units and attribute texts in the file encoding; a file whose comments "
               "use another encoding is latin-1 with utf-8 comments (every byte sequence decodes as latin-1)",
               "initial values on the raw grid inside the limits; float signals start at small dyadic values"]
TRUSTED = ["Python re module; codecs", "harness normal form lib/dbcgen.py:norm (folds GenMsgCycleTime, GenSigCycleTime, GenSigStartValue, "
           "VFrameFormat, BusType, ProtocolType, System*LongSymbol)"]
CORRESPONDENCE = "the matrix dbc.load returns (names, senders, receivers, ECU list, comments, text attributes, signals without frame) == CanVerif.Dbc.postProcess (readFile lines); frame section + BO_TX_BU_ + frame and signal comments of the real file == CanVerif.Dbc.writeCore; whole files (as written and damaged) read by dbc.load == CanVerif.Dbc.readFile; frame section lines and their reading == CanVerif.Dbc.writeFrames / readFrames / renderSg / parseSg / renderBo / parseBo / renderVal / parseVal"
NSHARDS = {"quick": 16, "thorough": 16}

FLAVOURS = [None] * 17 + ["quote_semicolon", "env_long", "long_ecu_prefix"]
_cache = {}


def exact(d):
    """sign, digits, exponent of a Decimal exactly as held (no normalisation: str() depends on it)"""
    t = G.D(d).as_tuple()
    return [bool(t.sign), "".join(map(str, t.digits)), int(t.exponent)]


def out_name(name):
    return name[:32]


def sg_fields(s):
    tag = None
    if s.mux_val is not None and s.multiplex == "Multiplexor":
        tag = ["mM", int(s.mux_val)]
    elif s.mux_val is not None:
        tag = ["m", int(s.mux_val)]
    elif s.multiplex == "Multiplexor":
        tag = "M"
    return {"name": out_name(s.name), "tag": tag, "start": int(s.get_startbit(bit_numbering=1)), "size": int(s.size), "little": bool(s.is_little_endian),
            "signed": bool(s.is_signed), "factor": exact(s.factor), "offset": exact(s.offset), "min": exact(s.min), "max": exact(s.max),
            "unit": s.unit or "", "receivers": list(s.receivers) or ["Vector__XXX"]}


def blocks_of(db):
    """what the frame section must say, from the matrix through its public API"""
    out = []
    frames = [(f.arbitration_id.to_compound_integer(), f) for f in db.frames]
    for cid, f in frames:
        out.append({"bo": {"id": cid, "name": out_name(f.name), "size": int(f.size), "tx": f.transmitters[0] if f.transmitters else "Vector__XXX"},
                    "sigs": [sg_fields(s) for s in f.signals]})
    if db.signals:
        out.append({"bo": {"id": 0xC0000000, "name": "VECTOR__INDEPENDENT_SIG_MSG", "size": 0, "tx": "Vector__XXX"},
                    "sigs": [sg_fields(s) for s in db.signals]})
    return out


def load_lines(lines, enc):
    out = io.StringIO()
    with contextlib.redirect_stdout(out):
        db = canmatrix.formats.dbc.load(io.BytesIO("\n".join(lines).encode(enc) + b"\n"), dbcImportEncoding=enc)
    return db, out.getvalue()


def real_sg(s):
    return sg_fields(s)


def real_blocks(lines, enc):
    db, out = load_lines(lines, enc)
    res = []
    frames = list(db.frames)
    for f in frames:
        cid = f.arbitration_id.to_compound_integer()
        res.append({"bo": {"id": cid, "name": f.name, "size": int(f.size), "tx": f.transmitters[0] if f.transmitters else "Vector__XXX"},
                    "sigs": [real_sg(s) for s in f.signals]})
    if db.signals:
        res.append({"bo": {"id": 0xC0000000, "name": "VECTOR__INDEPENDENT_SIG_MSG", "size": 0, "tx": "Vector__XXX"},
                    "sigs": [real_sg(s) for s in db.signals]})
    return res


class _CopyShim(object):
    """stands in for the module `copy` inside formats/dbc.py while the file is written: the matrix `dump` works on (its deep copy of the
    caller's matrix, with the definitions and attributes the writer adds) is kept for the attribute sections of the core writer model"""

    def __init__(self):
        self.first = None

    def deepcopy(self, x, *a):
        y = _copy.deepcopy(x, *a)
        if self.first is None and isinstance(x, canmatrix.CanMatrix):
            self.first = y
        return y

    def __getattr__(self, n):
        return getattr(_copy, n)


def attr_section(work):
    """the attribute definitions, defaults, ECU attributes and matrix attributes of the writer's working matrix, in the order and with the
    value texts `dump` writes (definitions level by level sorted by name; one default per name, the first level wins, sorted by name;
    texts of STRING attributes in quotes); None when a text holds a line break (those files are decided by the whole-file round trip)"""
    try:
        defs, defaults = [], {}
        for lvl, dd in (("frame", work.frame_defines), ("signal", work.signal_defines), ("ecu", work.ecu_defines), ("env", work.env_defines),
                        ("global", work.global_defines)):
            for name, d in sorted(dd.items()):
                defs.append({"level": lvl, "name": name, "definition": d.definition})
                if name not in defaults and d.defaultValue is not None:
                    defaults[name] = {"name": name, "text": d.type in ("ENUM", "STRING"), "value": str(d.defaultValue)}

        def written(v, is_string):
            if is_string:
                return '"' + v + '"'
            if v is None:
                return '""'
            return str(v)
        ecus = {}
        for e in work.ecus:
            ecus.setdefault(e.name, [])
            ecus[e.name] += [[k, written(v, work.ecu_defines[k].type == "STRING")] for k, v in sorted(e.attributes.items())]
        ga = [[k, written(v, work.global_defines[k].type == "STRING")] for k, v in sorted(work.attributes.items())]
        # the attributes of frames and signals, frame by frame in the order of the frame section (the pseudo frame of the signals without
        # frame is the last frame of the working matrix); a float is written through format_float, an attribute of a signal only if defined
        frames = []
        for fr in work.frames:
            fa = [[k, written(v, work.frame_defines[k].type == "STRING")] for k, v in sorted(fr.attributes.items())]
            sa = []
            for sg in fr.signals:
                one = []
                for k, v in sorted(sg.attributes.items()):
                    if isinstance(v, float):
                        v = canmatrix.formats.dbc.format_float(v)
                    if k in work.signal_defines:
                        one.append([k, written(v, work.signal_defines[k].type == "STRING")])
                sa.append(one)
            frames.append({"attrs": fa, "sigs": sa})
        # the value tables of the matrix: sorted by name, rows in the order of the dictionary, keys printed with str() (None when a key
        # is negative or no integer: the writer model's tables have natural keys)
        tables = []
        for tname in sorted(work.value_tables):
            rows = work.value_tables[tname]
            if not all(isinstance(k, int) and not isinstance(k, bool) and k >= 0 for k in rows):
                tables = None
                break
            tables.append({"name": tname, "entries": [[int(k), str(v)] for k, v in rows.items()]})
        sec = {"defs": defs, "defaults": [defaults[k] for k in sorted(defaults)], "gattrs": ga, "ecuattrs": ecus,
               "ecunames": [e.name for e in work.ecus], "frames": frames, "tables": tables, "has_env": bool(work.env_vars)}
        if any(ch in json.dumps(sec) for ch in ("\\n", "\\r")):
            return None
        return sec
    except Exception:  # noqa
        return None


def prep_objects(before, work):
    """frames and ECUs of the caller's matrix next to what `dump` made of them in its working matrix: the name and the long-name attribute
    (Model/DbcPrep.lean prepLong); only identifier-like names (the writer replaces other characters in frame names)"""
    out = []
    nf = sum(1 for x in before if x[0] == "frame")
    wf = list(work.frames)[:nf]
    we = list(work.ecus)
    objs = wf + we
    if len(objs) != len(before):
        return []
    for (kind, name, attrs), o in zip(before, objs):
        if not re.match(r"^[A-Za-z_][A-Za-z0-9_]*$", name):
            continue
        attr = "SystemMessageLongSymbol" if kind == "frame" else "SystemNodeLongSymbol"
        lv = o.attributes.get(attr)
        out.append({"kind": kind, "name": name, "attrs": attrs, "wname": o.name, "wlong": None if lv is None else str(lv)})
    return out


def run(desc):
    key = json.dumps(desc, sort_keys=True)
    if key in _cache:
        return _cache[key]
    res = {"exc": None}
    try:
        db = G.build(desc)
        enc, cenc = desc["enc"], desc.get("cenc", desc["enc"])
        db_before = [("frame", f.name, [[str(k), str(v)] for k, v in f.attributes.items()]) for f in db.frames] + \
                    [("ecu", e.name, [[str(k), str(v)] for k, v in e.attributes.items()]) for e in db.ecus]
        shim = _CopyShim()
        canmatrix.formats.dbc.copy = shim
        try:
            b1 = M.export_bytes(db, "dbc", dbcExportEncoding=enc, dbcExportCommentEncoding=cenc)
        finally:
            canmatrix.formats.dbc.copy = _copy
        res["attrsec"] = attr_section(shim.first) if shim.first is not None else None
        res["prep"] = prep_objects(db_before, shim.first) if shim.first is not None else []
        dbs, out = M.import_bytes(b1, "dbc", dbcImportEncoding=enc, dbcImportCommentEncoding=cenc)
        db2 = list(dbs.values())[0] if isinstance(dbs, dict) else dbs
        b2 = M.export_bytes(db2, "dbc", dbcExportEncoding=enc, dbcExportCommentEncoding=cenc)
        keep = G.carrier_defines(db)
        a = dict(G.flatten(G.norm(db, keep)))
        b = dict(G.flatten(G.norm(db2, keep)))
        diffs = [[p, str(a.get(p))[:80], str(b.get(p))[:80]] for p in sorted(set(a) | set(b)) if a.get(p) != b.get(p)]
        lines = b1.decode(enc, "replace").split("\n")
        first = next((i for i, l in enumerate(lines) if l.startswith("BO_ ")), None)
        end = next((i for i, l in enumerate(lines) if i > (first or 0) and re.match(r"^(BO_TX_BU_ |CM_ |BA_DEF_|BA_ |VAL_ |SIG_|SG_MUL|EV_ )", l)), len(lines))
        while end > 0 and lines[end - 1] == "":
            end -= 1
        res.update({"b1": b1, "err": "error with line no" in out, "errtext": out[:200], "fixed": b1 == b2, "diffs": diffs, "db": db, "lines": lines,
                    "first": first, "end": end, "blocks": blocks_of(db),
                    "first_diff_line": next((repr(x)[:120] + " | " + repr(y)[:120] for x, y in zip(b1.split(b"\n"), b2.split(b"\n")) if x != y), None)})
    except Exception as e:  # noqa
        import traceback
        res["exc"] = type(e).__name__ + ": " + str(e)[:160] + " @ " + traceback.format_exc().strip().split("\n")[-3].strip()[:120]
    if len(_cache) > 8:
        _cache.clear()
    _cache[key] = res
    return res


def gen(rng, tier, shard, nshards):
    total = {"quick": 640, "thorough": 8000}[tier] // nshards + 1
    for _ in range(total):
        desc = G.gen_desc(rng, {"flavour": rng.choice(FLAVOURS)})
        yield from cases_of(desc, rng)
        for _k in range(3):
            yield {"op": "start", "c": gen_start(rng)}


def gen_start(rng):
    """one integer signal with scaling, limits on the raw grid, an initial value inside them; optionally a default on the definition"""
    size = rng.randint(1, 16)
    signed = rng.random() < 0.4
    factor = rng.choice(["1", "0.5", "2", "0.25", "-1", "-0.5", "10", "0.1"])
    offset = rng.choice(["0", "0", "-40", "1.5", "100", "-0.5"])
    lo, hi = (-(1 << (size - 1)), (1 << (size - 1)) - 1) if signed else (0, (1 << size) - 1)
    a, b = sorted([rng.randint(lo, hi), rng.randint(lo, hi)])
    if rng.random() < 0.3:
        a, b = lo, hi
    f_, o_ = G.D(factor), G.D(offset)
    pa, pb = sorted([a * f_ + o_, b * f_ + o_])
    r = rng.choice([a, b, rng.randint(a, b), max(a, min(b, 0))])
    return {"size": size, "signed": signed, "factor": exact(factor), "offset": exact(offset), "min": exact(pa), "max": exact(pb),
            "initial": exact(r * f_ + o_), "dflt": rng.choice([None, None, exact("0"), exact("1")]),
            "strs": {"factor": factor, "offset": offset, "min": str(pa), "max": str(pb), "initial": str(r * f_ + o_)}}


def observe_start(c):
    import canmatrix.canmatrix as cm
    db = cm.CanMatrix()
    if c["dflt"] is not None:
        db.add_signal_defines("GenSigStartValue", "FLOAT 0 100000000000")
        db.add_define_default("GenSigStartValue", str(G.D((-1 if c["dflt"][0] else 1) * int(c["dflt"][1])).scaleb(c["dflt"][2])))
    st = c["strs"]
    fr = cm.Frame("F", arbitration_id=cm.ArbitrationId(5, False), size=8)
    sg = cm.Signal("s", start_bit=0, size=c["size"], is_little_endian=True, is_signed=c["signed"], factor=G.D(st["factor"]), offset=G.D(st["offset"]),
                   min=G.D(st["min"]), max=G.D(st["max"]))
    sg.initial_value = G.D(st["initial"])
    fr.add_signal(sg)
    db.add_frame(fr)
    try:
        data = M.export_bytes(db, "dbc")
        m = re.search(rb'^BA_ "GenSigStartValue" SG_ 5 s (\S+);', data, re.M)
        dbs, _ = M.import_bytes(data, "dbc")
        db2 = list(dbs.values())[0] if isinstance(dbs, dict) else dbs
        back = db2.frames[0].signals[0].initial_value
        return {"attr": int(G.D(m.group(1).decode())) if m else None, "initial": M.dec_tuple(back) and [bool(M.dec_tuple(back)[0]), M.dec_tuple(back)[1], M.dec_tuple(back)[2]]}
    except Exception as e:  # noqa
        return {"exc": type(e).__name__ + ": " + str(e)[:120], "attr": None, "initial": None}


def cases_of(desc, rng=None):
    yield {"op": "rt", "c": {"m": desc}}
    r = run(desc)
    if r["exc"] or desc.get("flavour"):
        return
    yield {"op": "file", "c": {"m": desc, "blocks": r["blocks"]}}
    # the core of the writer (frame section, BO_TX_BU_ lines, frame comments, signal comments) against Model/DbcFile.lean writeCore
    cc = {"m": desc, "frames": core_frames(r["db"], r["blocks"]),
          "ecus": [{"name": e.name[:32], "comment": (e.comment or None)} for e in r["db"].ecus]}
    sec = r.get("attrsec")
    if sec is not None and sec["ecunames"] == [e["name"] for e in cc["ecus"]] and len(set(sec["ecunames"])) == len(sec["ecunames"]):
        # attribute definitions, defaults, ECU attributes and matrix attributes (Model/DbcFile.lean writeCoreD)
        for e in cc["ecus"]:
            e["attrs"] = sec["ecuattrs"].get(e["name"], [])
        cc.update({"defs": sec["defs"], "defaults": sec["defaults"], "gattrs": sec["gattrs"]})
        fr = sec.get("frames")
        if fr is not None and len(fr) == len(cc["frames"]) and all(len(a["sigs"]) == len(b["sigs"]) for a, b in zip(fr, cc["frames"])):
            # the attributes of frames and signals (Model/DbcFile.lean writeCoreF)
            for a, b in zip(fr, cc["frames"]):
                b["attrs"] = a["attrs"]
                for x, y in zip(a["sigs"], b["sigs"]):
                    y["attrs"] = x
            cc["fattrs"] = True
            if sec.get("tables") is not None:
                # the value tables of the matrix: the whole file (Model/DbcFile.lean writeCoreH)
                cc["tables"] = sec["tables"]
                if not sec.get("has_env"):
                    # no environment variables: the model writes the file line for line (writeDbc), compared with the whole file
                    cc["exact"] = True
    yield {"op": "core", "c": cc}
    # what the writer does to long names before it writes (Model/DbcPrep.lean), per frame and ECU: the long ones first
    objs = sorted(r.get("prep") or [], key=lambda o: -len(o["name"]))[:4]
    for o in objs:
        yield {"op": "prep", "c": {"m": desc, "kind": o["kind"], "name": o["name"], "attrs": o["attrs"]}}
    # the file as a whole against the reader model of Model/DbcFile.lean: as written, and damaged (lines inserted, dropped, cut)
    for variant in range(3):
        vseed = rng.randrange(1 << 30) if rng is not None else 1
        yield {"op": "whole", "c": {"m": desc, "variant": variant, "vseed": vseed}}
        if variant < 2:
            # ... and the matrix dbc.load returns against the model of the post-processing (Model/DbcPost.lean)
            yield {"op": "post", "c": {"m": desc, "variant": variant, "vseed": vseed}}
    for bi, b in enumerate(r["blocks"]):
        if rng is None or rng.random() < 0.5:
            yield {"op": "bo", "c": {"m": desc, "bi": bi, "bo": b["bo"]}}
        for si, s in enumerate(b["sigs"]):
            if rng is None or rng.random() < 0.5:
                yield {"op": "sg", "c": {"m": desc, "bi": bi, "si": si, "sg": s}}
    db = r["db"]
    vals = []
    for cid, f in [(f.arbitration_id.to_compound_integer(), f) for f in db.frames]:
        for s in f.signals:
            if s.values:
                vals.append({"id": cid, "name": out_name(s.name), "entries": [[int(k), v] for k, v in sorted(s.values.items(), key=lambda kv: int(kv[0]))]})
    for v in vals[:3]:
        if "\\" not in "".join(t for _, t in v["entries"]):
            yield {"op": "val", "c": {"m": desc, "val": v}}
    # attribute statements: definitions, defaults, values (user attributes; the carriers Gen*/System* are the writer's own)
    kw = {"frame": "BO_", "signal": "SG_", "ecu": "BU_", "global": ""}
    kinds = {}
    defs_text = {}
    nd = 0
    for lvl in ("frame", "signal", "ecu", "global"):
        for name, definition, default in desc["defines"][lvl]:
            kinds[(lvl, name)] = definition.split()[0]
            defs_text[(lvl, name)] = definition
            if name.startswith("Gen") or nd >= 4:
                continue
            nd += 1
            yield {"op": "def", "c": {"m": desc, "def": {"level": lvl, "name": name, "definition": definition}}}
            if default is not None:
                yield {"op": "dd", "c": {"m": desc, "dd": {"name": name, "text": definition.split()[0] in ("STRING", "ENUM"), "value": default}}}

    def written(lvl, name, v):
        k = kinds.get((lvl, name))
        if k == "STRING":
            return '"%s"' % v
        if k == "ENUM":
            vals = G.enum_values_of(defs_text.get((lvl, name), "ENUM "))
            return str(vals.index(v)) if v in vals else str(v)
        return str(v)
    bas = []

    def user(attrs):
        return [(k, v) for k, v in sorted(attrs.items()) if not (k.startswith("Gen") or k.startswith("System") or k in ("VFrameFormat", "BusType", "ProtocolType"))]
    # (the values are taken from the matrix as built: add_attribute strips blanks at the ends of a value)
    for k, v in user(db.attributes):
        bas.append({"attr": k, "target": ["global"], "value": written("global", k, v)})
    for e in db.ecus:
        if len(e.name) > 32:
            continue                # long ECU names travel in SystemNodeLongSymbol: decided by the whole-file round trip
        for k, v in user(e.attributes):
            bas.append({"attr": k, "target": ["ecu", e.name], "value": written("ecu", k, v)})
    for f in db.frames:
        cid = f.arbitration_id.to_compound_integer()
        for k, v in user(f.attributes):
            bas.append({"attr": k, "target": ["frame", cid], "value": written("frame", k, v)})
        for sg in f.signals:
            for k, v in user(sg.attributes):
                bas.append({"attr": k, "target": ["signal", cid, out_name(sg.name)], "value": written("signal", k, v)})
    if rng is not None:
        rng.shuffle(bas)
    for b in bas[:5]:
        if "\n" in b["value"] or "\\" in b["value"]:
            continue            # texts over several lines and backslashes: decided by the whole-file round trip
        yield {"op": "ba", "c": {"m": desc, "ba": b}}
    # comments (texts in ASCII without carriage returns; the encodings are the whole-file case's business)
    cms = []
    for f in db.frames:
        cid = f.arbitration_id.to_compound_integer()
        if f.comment:
            cms.append({"head": "CM_ BO_ %d" % cid, "text": f.comment})
        for sg in f.signals:
            if sg.comment:
                cms.append({"head": "CM_ SG_ %d %s" % (cid, out_name(sg.name)), "text": sg.comment})
    for e in db.ecus:
        if e.comment and len(e.name) <= 32:
            cms.append({"head": "CM_ BU_ %s" % e.name, "text": e.comment})
    if rng is not None:
        rng.shuffle(cms)
    ncm = 0
    for cmt in cms:
        if ncm < 4 and all(ord(ch) < 128 for ch in cmt["text"]) and "\r" not in cmt["text"]:
            ncm += 1
            yield {"op": "cm", "c": {"m": desc, "cm": cmt}}
    # global value tables and signal groups
    for tname, tab in sorted(db.value_tables.items())[:2]:
        if all("\\" not in str(t) and "\n" not in str(t) for t in tab.values()):
            yield {"op": "vtab", "c": {"m": desc, "vtab": {"name": tname, "entries": [[str(k), str(t)] for k, t in tab.items()]}}}
    ng = 0
    for f in db.frames:
        for g in f.signalGroups:
            if ng < 3:
                ng += 1
                yield {"op": "grp", "c": {"m": desc, "grp": {"frame": f.arbitration_id.to_compound_integer(), "name": g.name, "id": int(g.id),
                                                              "members": [out_name(x.name) for x in g.signals]}}}
    # further statements: senders beyond the first, float types, extended multiplexing bindings
    n = {"tx": 0, "vt": 0, "mul": 0}
    for f in db.frames:
        cid = f.arbitration_id.to_compound_integer()
        if len(f.transmitters) > 1 and n["tx"] < 3:
            n["tx"] += 1
            yield {"op": "tx", "c": {"m": desc, "tx": {"id": cid, "ecus": list(f.transmitters)}}}
        for s in f.signals:
            if s.is_float and n["vt"] < 3:
                n["vt"] += 1
                yield {"op": "vt", "c": {"m": desc, "vt": {"id": cid, "name": out_name(s.name), "double": int(s.size) > 32}}}
            if f.is_complex_multiplexed and s.muxer_for_signal is not None and n["mul"] < 3:
                n["mul"] += 1
                yield {"op": "mul", "c": {"m": desc, "mul": {"id": cid, "sig": out_name(s.name), "muxer": s.muxer_for_signal,
                                                              "ranges": [[int(a), int(b)] for a, b in s.mux_val_grp]}}}


BAD_LINES = ['FOO_ 1 2 3;', 'BO_ 12x Name: 8 E1', 'BO_ 4096 TooBig: 8 E1', ' SG_ broken : 0|8@1+ (1,0) [0|0] "" E1 extra', ' SG_ cut : 0|8@1+ (1,',
             'BO_TX_BU_ 99999 : A,B;', 'BO_TX_BU_ : A;', 'CM_ SG_ 99999 nosuch "comment";', 'CM_ BO_ 99999 "no such frame";', 'CM_ BU_ NoSuchEcu "text";',
             'CM_ BO_ 99999 "opens', 'CM_ BU_ NoSuchEcu "opens', 'CM_ SG_ 99999 s "opens', 'CM_  BO_ abc "x";', 'VAL_ 99999 nosuch 1 "a" ;', 'VAL_ 1 x 1 "unterminated',
             'VAL_TABLE_ Tab9 1 "one" 0 "zero" ;', 'VAL_TABLE_ broken', 'BA_DEF_ BO_ "NewInt" INT 0 10;', 'BA_DEF_ BO_ "BadInt" INT 0;', 'BA_DEF_ SG_  "NewEnum" ENUM "a","b";',
             'BA_DEF_  "GlobalStr" STRING ;', 'BA_DEF_DEF_ "NewInt" 5;', 'BA_DEF_DEF_ "Nowhere" "x";', 'BA_ "NewInt" BO_ 99999 3;', 'BA_ "NewInt" BO_ abc;', 'BA_ "GlobalStr" "some text";',
             'BA_ "X" SG_ 99999 s 1;', 'BA_ "X" BU_ NoSuchEcu 1;', 'BA_ "X" BU_;', 'BA_ broken', 'SIG_GROUP_ 99999 G 1 : a b;', 'SIG_GROUP_ broken', 'SIG_VALTYPE_ 99999 s : 1;',
             'SIG_VALTYPE_ broken', 'SG_MUL_VAL_ 99999 a b 1-1;', 'SG_MUL_VAL_ 1 a b x-y;', 'SG_MUL_VAL_ broken', 'BU_: Extra1 Extra2 X', 'NS_ :', 'VERSION "x"']


def damage(lines, variant, vseed, db):
    """variant 0: the file as written; 1: bad and stray lines inserted (also ones that refer to the file's own frames and signals);
    2: lines dropped, the file cut inside a line, good statements repeated"""
    import random
    rng = random.Random(vseed)
    lines = list(lines)
    if variant == 0:
        return lines
    ids = [f.arbitration_id.to_compound_integer() for f in db.frames] or [1]
    names = [(f.arbitration_id.to_compound_integer(), s.name[:32]) for f in db.frames for s in f.signals] or [(1, "s")]
    ecus = [e.name[:32] for e in db.ecus] or ["E1"]
    own = ['CM_ BO_ %d "replaced comment";' % rng.choice(ids), 'CM_ SG_ %d %s "sig comment ""quoted";' % rng.choice(names), 'CM_ BU_ %s "ecu comment";' % rng.choice(ecus),
           'CM_ BO_ %d "first line' % rng.choice(ids), 'CM_ SG_ %d %s "first line' % rng.choice(names), 'second line";', 'BA_DEF_ BO_ "NewInt" INT 0 10;',
           'BA_ "NewInt" BO_ %d 7;' % rng.choice(ids), 'BA_ "NewInt" BO_ %d seven;' % rng.choice(ids), 'BA_ "NewInt" BO_ %d 7.5;' % rng.choice(ids),
           'VAL_ %d %s 3 "three" 1 "one" ;' % rng.choice(names), 'SIG_VALTYPE_ %d %s : 1;' % rng.choice(names), 'SIG_VALTYPE_ %d nosuch : 1;' % rng.choice(ids),
           'SG_MUL_VAL_ %d %s Mux 1-2, 5-5;' % rng.choice(names), 'SG_MUL_VAL_ %d %s Mux 1-x;' % rng.choice(names), 'SIG_GROUP_ %d Grp 3 : %s nosuch;' % rng.choice(names),
           'BO_TX_BU_ %d : %s,%s;' % (rng.choice(ids), rng.choice(ecus), rng.choice(ecus)), ' SG_ late : 0|1@1+ (1,0) [0|1] "" Vector__XXX', 'BO_ %d Twin: 8 Vector__XXX' % rng.choice(ids)]
    if variant == 1:
        for _ in range(rng.randint(1, 6)):
            lines.insert(rng.randrange(len(lines) + 1), rng.choice(BAD_LINES + own))
        return lines
    for _ in range(rng.randint(0, 3)):
        if lines:
            del lines[rng.randrange(len(lines))]
    for _ in range(rng.randint(0, 2)):
        if lines:
            lines.insert(rng.randrange(len(lines) + 1), rng.choice(lines))
    if lines and rng.random() < 0.6:
        k = rng.randrange(len(lines))
        lines = lines[:k] + [lines[k][:rng.randrange(len(lines[k]) + 1)]]
    return lines


def observe_whole(c, r):
    enc = c["m"]["enc"]
    cenc = c["m"].get("cenc", enc)
    text = r["b1"].decode(enc, "replace")
    if cenc != enc and any(ord(ch) > 127 for ch in text):
        return {"skipped": "comment encoding differs from the file encoding"}
    if any(ch in text for ch in "\x0b\x0c\x1c\x1d\x1e\x1f\x85\xa0"):
        return {"skipped": "blank characters beyond the ASCII ones (str.strip and bytes.strip differ)"}
    lines = damage(text.split("\n"), c["variant"], c["vseed"], r["db"])
    try:
        data = "\n".join(lines).encode(enc)
    except UnicodeError:
        return {"skipped": "not encodable"}
    o = dbcsnap.load_snapshot(data, enc)
    if o["snap"] is None:
        return {"skipped": "no snapshot: " + str(o["exc"])}
    return {"lines": o["lines"], "snap": o["snap"]}


def core_frames(db, blocks):
    """the frames as the core of the writer sees them: BO_ line, SG_ lines with the signals' comments, further senders, comment"""
    out = []
    objs = list(db.frames) + ([None] if db.signals else [])
    for b, f in zip(blocks, objs):
        sigs = list(f.signals) if f is not None else list(db.signals)
        out.append({"bo": b["bo"], "sigs": [{"sg": sg, "comment": (s.comment or None),
                                             "values": [[int(k), str(t)] for k, t in sorted(s.values.items(), key=lambda kv: int(kv[0]))],
                                             "float": bool(s.is_float),
                                             "muxer": (s.muxer_for_signal if (f is not None and f.is_complex_multiplexed) else None),
                                             "ranges": ([[int(a), int(b)] for a, b in s.mux_val_grp]
                                                        if (f is not None and f.is_complex_multiplexed and s.muxer_for_signal is not None) else [])}
                                            for sg, s in zip(b["sigs"], sigs)],
                    "groups": [{"name": g.name, "id": int(g.id), "members": [out_name(x.name) for x in g.signals]} for g in (f.signalGroups if f is not None else [])],
                    "more": list(f.transmitters[1:]) if f is not None else [], "comment": (f.comment or None) if f is not None else None})
    return out


def observe_core(c, r):
    """the lines of those kinds in the real file, in the file's order"""
    enc = c["m"]["enc"]
    cenc = c["m"].get("cenc", enc)
    text = r["b1"].decode(enc, "replace")
    if cenc != enc and any(ord(ch) > 127 for ch in text):
        return {"skipped": "comment encoding differs from the file encoding"}
    lines = r["lines"]
    if c.get("exact"):
        return {"core": lines[:-1] if lines and lines[-1] == "" else list(lines)}
    out = list(section_lines(r))
    kinds = ("CM_ BO_ ", "CM_ SG_ ")
    if c.get("ecus") is not None:
        # the `BU_:` line with the empty line behind it, and the comments of the ECUs (Model/DbcFile.lean writeCoreE)
        k = next((i for i, l in enumerate(lines) if l.startswith("BU_:")), None)
        head = lines[k:k + 2] if k is not None else []
        if c.get("tables") is not None:
            head += [l for l in lines if l.startswith("VAL_TABLE_ ")] + [""]
        out = head + out
        kinds = ("CM_ BO_ ", "CM_ SG_ ", "CM_ BU_ ")
    out += [l for l in lines if l.startswith("BO_TX_BU_ ")]
    attr = []
    if c.get("defs") is not None:
        attr = [l for l in lines if l.startswith("BA_DEF_ ")] + [l for l in lines if l.startswith("BA_DEF_DEF_ ")]
        attr += [l for l in lines if re.match(r'BA_ "[^"]*" BU_ ', l)] + [l for l in lines if re.match(r'BA_ "[^"]*"   ', l)]
        if c.get("fattrs"):
            attr += [l for l in lines if re.match(r'BA_ "[^"]*" BO_ ', l)] + [l for l in lines if re.match(r'BA_ "[^"]*" SG_ ', l)]
    vals = [l for l in lines if re.match(r"VAL_ \d+ ", l)]
    vals += [l for l in lines if l.startswith("SIG_VALTYPE_ ")] + [l for l in lines if l.startswith("SIG_GROUP_ ")] + [l for l in lines if l.startswith("SG_MUL_VAL_ ")]
    for kind in kinds:
        k = 0
        while k < len(lines):
            if lines[k].startswith(kind):
                out.append(lines[k])
                while not re.search(r'" *;\s*$', lines[k]) and k + 1 < len(lines):
                    k += 1
                    out.append(lines[k])
            k += 1
    return {"core": out + attr + vals}


def observe_post(c, r):
    enc = c["m"]["enc"]
    cenc = c["m"].get("cenc", enc)
    text = r["b1"].decode(enc, "replace")
    if cenc != enc and any(ord(ch) > 127 for ch in text):
        return {"skipped": "comment encoding differs from the file encoding"}
    if any(ch in text for ch in "\x0b\x0c\x1c\x1d\x1e\x1f\x85\xa0"):
        return {"skipped": "blank characters beyond the ASCII ones (str.strip and bytes.strip differ)"}
    lines = damage(text.split("\n"), c["variant"], c["vseed"], r["db"])
    try:
        data = "\n".join(lines).encode(enc)
    except UnicodeError:
        return {"skipped": "not encodable"}
    o = dbcsnap.load_final(data, enc)
    if o["final"] is None:
        return {"skipped": "load raised: " + str(o["exc"])}
    return {"lines": o["lines"], "final": o["final"]}


def section_lines(r):
    if r["first"] is None:
        return []
    return r["lines"][r["first"]:r["end"]] + [""]


def observe(case):
    c = case["c"]
    op = case["op"]
    if op == "start":
        return observe_start(c)
    r = run(c["m"])
    if op == "rt":
        if r["exc"]:
            return {"exc": r["exc"], "err": False, "fixed": False, "diffs": []}
        return {"exc": None, "err": r["err"], "fixed": r["fixed"], "diffs": r["diffs"][:8], "paths": [d[0] for d in r["diffs"]][:200],
                "errtext": r["errtext"] if r["err"] else None, "first_diff_line": r["first_diff_line"]}
    enc = c["m"]["enc"]
    if r["exc"]:
        return {"exc": r["exc"]}
    sec = section_lines(r)
    if op == "whole":
        return observe_whole(c, r)
    if op == "core":
        return observe_core(c, r)
    if op == "prep":
        o = next((x for x in (r.get("prep") or []) if x["kind"] == c["kind"] and x["name"] == c["name"]), None)
        if o is None:
            return {"skipped": "object not found in the working matrix"}
        return {"name": o["wname"], "long": o["wlong"]}
    if op == "post":
        return observe_post(c, r)
    if op == "file":
        upto = r["lines"][:r["end"]]
        return {"section": sec, "lines": upto, "read": real_blocks(upto, enc)}
    # position of the statement's line inside the section
    pos = 0
    blocks = r["blocks"]
    if op in ("sg", "bo"):
        for bi, b in enumerate(blocks):
            if bi == c["bi"]:
                break
            pos += len(b["sigs"]) + 2
        if op == "bo":
            line = sec[pos]
            # (with one signal: the dummy frame of the signals without frame disappears when it is empty)
            rb = real_blocks([line, ' SG_ x : 0|1@1+ (1,0) [0|1] "" X'], enc)
            return {"line": line, "parsed": rb[0]["bo"] if rb else None}
        line = sec[pos + 1 + c["si"]]
        rb = real_blocks(["BO_ 1 F: 64 X", line], enc)
        return {"line": line, "parsed": rb[0]["sigs"][0] if rb and rb[0]["sigs"] else None}
    if op == "val":
        v = c["val"]
        line = next((l for l in r["lines"] if l.startswith("VAL_ %d %s " % (v["id"], v["name"]))), None)
        if line is None:
            return {"line": "", "parsed": None}
        db, _ = load_lines(["BO_ %d F: 64 X" % v["id"], " SG_ %s : 0|1@1+ (1,0) [0|1] \"\" X" % v["name"], line], enc)
        fr = db.frames[0] if db.frames else None
        sg = (fr.signals[0] if fr and fr.signals else None) or (db.signals[0] if db.signals else None)
        return {"line": line, "parsed": {"id": v["id"], "name": v["name"], "entries": [[int(k), t] for k, t in sg.values.items()]} if sg is not None else None}
    if op == "vtab":
        v = c["vtab"]
        line = next((l for l in r["lines"] if l.startswith("VAL_TABLE_ %s " % v["name"]) or l == "VAL_TABLE_ %s;" % v["name"]), None)
        if line is None:
            return {"line": "", "parsed": None}
        import canmatrix.canmatrix as _cm
        seen = {}
        orig_add = _cm.CanMatrix.add_value_table

        def rec(self, name, value_dict):          # what the statement hands over, before add_value_table turns the keys into numbers
            seen[name] = [[str(k), str(t)] for k, t in value_dict.items()]
            return orig_add(self, name, value_dict)
        _cm.CanMatrix.add_value_table = rec
        try:
            load_lines([line], enc)
        finally:
            _cm.CanMatrix.add_value_table = orig_add
        return {"line": line, "parsed": {"name": v["name"], "entries": seen[v["name"]]} if v["name"] in seen else None}
    if op == "grp":
        g = c["grp"]
        line = next((l for l in r["lines"] if l.startswith("SIG_GROUP_ %d %s " % (g["frame"], g["name"]))), None)
        if line is None:
            return {"line": "", "parsed": None}
        ctx = ["BO_ %d F: 64 Vector__XXX" % g["frame"]] + [' SG_ %s : %d|1@1+ (1,0) [0|1] "" Vector__XXX' % (mname, k) for k, mname in enumerate(g["members"])] + [""]
        db2, _ = load_lines(ctx + [line], enc)
        gs = db2.frames[0].signalGroups if db2.frames else []
        if not gs:
            return {"line": line, "parsed": None}
        return {"line": line, "parsed": {"frame": g["frame"], "name": gs[0].name, "id": int(gs[0].id), "members": [x.name for x in gs[0].signals]}}
    if op == "cm":
        cmt = c["cm"]
        mo = None
        idx = None
        for k, l in enumerate(r["lines"]):
            mo = re.match(re.escape(cmt["head"]) + r' +"', l)     # (the writer puts one or two blanks in front of the quote)
            if mo:
                idx = k
                break
        if idx is None:
            return {"lines": [], "parsed": None}
        start = mo.group(0)
        n = cmt["text"].count("\n") + 1
        lines = list(r["lines"][idx:idx + n])
        body = [lines[0][len(start):]] + lines[1:]
        kind = cmt["head"].split()[1]
        parts = cmt["head"].split()
        ctx = {"BO_": ["BO_ %s F: 8 Vector__XXX" % parts[2], ""],
               "SG_": ["BO_ %s F: 8 Vector__XXX" % parts[2], ' SG_ %s : 0|1@1+ (1,0) [0|1] "" Vector__XXX' % (parts[3] if len(parts) > 3 else "s"), ""],
               "BU_": ["BU_: %s" % parts[2], ""]}[kind]
        db2, _ = load_lines(ctx + lines + ["", "BA_DEF_  \"Z\" INT 0 1;"], enc)
        if kind == "BO_":
            got = db2.frames[0].comment if db2.frames else None
        elif kind == "SG_":
            got = db2.frames[0].signals[0].comment if db2.frames and db2.frames[0].signals else None
        else:
            got = db2.ecus[0].comment if db2.ecus else None
        return {"lines": body, "parsed": got if got else None}
    if op == "def":
        d = c["def"]
        kwd = {"frame": "BO_", "signal": "SG_", "ecu": "BU_", "global": ""}[d["level"]]
        line = next((l for l in r["lines"] if l.startswith('BA_DEF_ %s "%s" ' % (kwd, d["name"]))), None)
        if line is None:
            return {"line": "", "parsed": None}
        db, _ = load_lines([line], enc)
        got = None
        for lvl, dd in (("frame", db.frame_defines), ("signal", db.signal_defines), ("ecu", db.ecu_defines), ("global", db.global_defines)):
            if d["name"] in dd:
                got = {"level": lvl, "name": d["name"], "definition": dd[d["name"]].definition}
        return {"line": line, "parsed": got}
    if op == "dd":
        d = c["dd"]
        line = next((l for l in r["lines"] if l.startswith('BA_DEF_DEF_ "%s" ' % d["name"])), None)
        if line is None:
            return {"line": "", "parsed": None}
        db, _ = load_lines(['BA_DEF_ BO_ "%s" STRING;' % d["name"], line], enc)
        dv = db.frame_defines[d["name"]].defaultValue if d["name"] in db.frame_defines else None
        return {"line": line, "parsed": {"name": d["name"], "value": dv} if dv is not None else None}
    if op == "ba":
        b = c["ba"]
        t = b["target"]
        mid = {"global": "  ", "ecu": "BU_ %s " % (t[1] if len(t) > 1 else ""), "frame": "BO_ %s " % (t[1] if len(t) > 1 else ""),
               "signal": "SG_ %s %s " % ((t[1], t[2]) if len(t) > 2 else ("", ""))}[t[0]]
        line = next((l for l in r["lines"] if l.startswith('BA_ "%s" %s' % (b["attr"], mid))), None)
        if line is None:
            return {"line": "", "parsed": None}
        # read the line alone after the objects it refers to; the attribute is defined as a text so that nothing is converted
        ctx = {"global": ['BA_DEF_  "%s" STRING;' % b["attr"]],
               "ecu": ['BU_: %s' % (t[1] if len(t) > 1 else ""), 'BA_DEF_ BU_ "%s" STRING;' % b["attr"]],
               "frame": ['BO_ %s F: 8 Vector__XXX' % (t[1] if len(t) > 1 else 0), "", 'BA_DEF_ BO_ "%s" STRING;' % b["attr"]],
               "signal": ['BO_ %s F: 8 Vector__XXX' % (t[1] if len(t) > 1 else 0), ' SG_ %s : 0|1@1+ (1,0) [0|1] "" Vector__XXX' % (t[2] if len(t) > 2 else "s"), "",
                          'BA_DEF_ SG_ "%s" STRING;' % b["attr"]]}[t[0]]
        import canmatrix.formats.dbc as _dbc
        stored = {}
        orig = {}
        # the value as stored by the statement itself (before the post-processing strips the quotes of text attributes)
        for cls in (canmatrix.canmatrix.Frame, canmatrix.canmatrix.Signal, canmatrix.canmatrix.Ecu, canmatrix.canmatrix.CanMatrix):
            orig[cls] = cls.add_attribute

            def rec(self, attribute, value, _cls=cls):
                stored[attribute] = str(value).strip()
                return orig[_cls](self, attribute, value)
            cls.add_attribute = rec
        try:
            db, _ = load_lines(ctx + [line], enc)
        finally:
            for cls, f in orig.items():
                cls.add_attribute = f
        if b["attr"] not in stored:
            return {"line": line, "parsed": None}
        return {"line": line, "parsed": {"attr": b["attr"], "target": t, "value": stored[b["attr"]]}}
    if op == "tx":
        t = c["tx"]
        line = next((l for l in r["lines"] if l.startswith("BO_TX_BU_ %d " % t["id"])), None)
        if line is None:
            return {"line": "", "parsed": None}
        db, _ = load_lines(["BO_ %d F: 8 Vector__XXX" % t["id"], "", line], enc)
        return {"line": line, "parsed": {"id": t["id"], "ecus": list(db.frames[0].transmitters)} if db.frames else None}
    if op == "vt":
        v = c["vt"]
        line = next((l for l in r["lines"] if l.startswith("SIG_VALTYPE_ %d %s " % (v["id"], v["name"]))), None)
        if line is None:
            return {"line": "", "parsed": None}
        db, _ = load_lines(["BO_ %d F: 64 X" % v["id"], " SG_ %s : 0|%d@1+ (1,0) [0|1] \"\" X" % (v["name"], 64 if v["double"] else 32), "", line], enc)
        sg = db.frames[0].signals[0] if db.frames and db.frames[0].signals else None
        return {"line": line, "parsed": {"id": v["id"], "name": sg.name, "float": bool(sg.is_float)} if sg is not None else None}
    if op == "mul":
        v = c["mul"]
        line = next((l for l in r["lines"] if l.startswith("SG_MUL_VAL_ %d %s " % (v["id"], v["sig"]))), None)
        if line is None:
            return {"line": "", "parsed": None}
        db, _ = load_lines(["BO_ %d F: 64 X" % v["id"], " SG_ %s m0 : 8|8@1+ (1,0) [0|1] \"\" X" % v["sig"], "", line], enc)
        sg = db.frames[0].signals[0] if db.frames and db.frames[0].signals else None
        if sg is None or sg.muxer_for_signal is None:
            return {"line": line, "parsed": None}
        return {"line": line, "parsed": {"id": v["id"], "sig": sg.name, "muxer": sg.muxer_for_signal, "ranges": [[int(a), int(b)] for a, b in sg.mux_val_grp]}}
    raise ValueError(op)


def project(impl):
    if "fixed" in impl or "exc" in impl and len(impl) == 1:
        return {}
    if "attr" in impl:
        return {"attr": impl["attr"], "initial": impl["initial"]}
    if "skipped" in impl:
        return {}
    if "snap" in impl:
        return {"snap": impl["snap"]}
    if "core" in impl:
        return {"core": impl["core"]}
    if "final" in impl:
        return {"final": impl["final"]}
    if "long" in impl:
        return {"name": impl["name"], "long": impl["long"]}
    if "section" in impl:
        return {"section": impl["section"], "read": impl["read"]}
    if "lines" in impl:
        return {"lines": impl["lines"], "parsed": impl.get("parsed")}
    return {"line": impl.get("line"), "parsed": impl.get("parsed")}


def features(case, impl):
    c = case["c"]
    yield "op=" + case["op"]
    if case["op"] == "start":
        yield "start:default=%s" % ("none" if c["dflt"] is None else "given")
        yield "start:written=%s" % (impl.get("attr") is not None)
        return
    if case["op"] == "rt":
        m = c["m"]
        yield "enc=%s/%s" % (m["enc"], m.get("cenc"))
        yield "flavour=%s" % m.get("flavour")
        yield "frames=%d" % min(len(m["frames"]), 4)
        for f in m["frames"]:
            if f["fd"]:
                yield "frame:fd"
            if f["j1939"]:
                yield "frame:j1939"
            if f["complex"]:
                yield "frame:extended-mux"
            elif any(s["mux"] == "Multiplexor" for s in f["signals"]):
                yield "frame:simple-mux"
            if len(f["name"]) > 32:
                yield "frame:long-name"
            if len(f["transmitters"]) > 1:
                yield "frame:several-senders"
            if f["groups"]:
                yield "frame:signal-group"
            if f["attrs"]:
                yield "frame:attributes"
            if "\n" in (f["comment"] or ""):
                yield "frame:multi-line-comment"
            for s in f["signals"]:
                if s["float"]:
                    yield "signal:float"
                if len(s["name"]) > 32:
                    yield "signal:long-name"
                if s["values"]:
                    yield "signal:values"
                if s["attrs"]:
                    yield "signal:attributes"
                if s["initial"]:
                    yield "signal:initial!=0"
                if s["min"] is not None:
                    yield "signal:explicit-limits"
                if "\n" in (s["comment"] or ""):
                    yield "signal:multi-line-comment"
        for lvl in ("frame", "signal", "ecu", "global"):
            for d in m["defines"][lvl]:
                yield "define:%s:%s%s" % (lvl, d[1].split()[0], "" if d[2] is None else "+default")
        if m["free"]:
            yield "free-signals"
        if m["env"]:
            yield "env-vars"
        if m["value_tables"]:
            yield "value-tables"
        if m["gattrs"]:
            yield "global-attributes"
        if impl.get("exc"):
            yield "exception"
    elif case["op"] == "prep":
        yield "prep:%s name %s 32 characters" % (c["kind"], "longer than" if len(c["name"]) > 32 else "up to")
    elif case["op"] == "core":
        yield "core:frames=%d" % min(len(c["frames"]), 5)
        if c.get("ecus") is not None:
            yield "core:ecus=%d" % min(len(c["ecus"]), 5)
            if any(e["comment"] for e in c["ecus"]):
                yield "core:ecu-comment"
            if any(e["comment"] and "\n" in e["comment"] for e in c["ecus"]):
                yield "core:ecu-comment-over-several-lines"
        if c.get("defs") is not None:
            yield "core:defs=%d" % min(len(c["defs"]) // 4 * 4, 20)
            yield "core:defaults=%d" % min(len(c["defaults"]) // 4 * 4, 20)
            if c["gattrs"]:
                yield "core:matrix-attributes"
            if any(e.get("attrs") for e in c["ecus"]):
                yield "core:ecu-attributes"
        if c.get("tables") is not None:
            yield "core:value-tables=%d" % min(len(c["tables"]), 4)
        yield "core:whole file line for line" if c.get("exact") else "core:lines by kind"
        if c.get("fattrs"):
            yield "core:frame-attributes=%d" % min(sum(len(f.get("attrs", [])) for f in c["frames"]) // 4 * 4, 20)
            yield "core:signal-attributes=%d" % min(sum(len(sg.get("attrs", [])) for f in c["frames"] for sg in f["sigs"]) // 8 * 8, 40)
        if any(f["more"] for f in c["frames"]):
            yield "core:several-senders"
        if any(f["comment"] and "\n" in f["comment"] for f in c["frames"]) or any(s["comment"] and "\n" in s["comment"] for f in c["frames"] for s in f["sigs"]):
            yield "core:comment-over-several-lines"
    elif case["op"] == "post":
        yield "post:variant=%d" % c["variant"]
        if "skipped" in impl:
            yield "post:skipped(%s)" % impl["skipped"][:40]
    elif case["op"] == "whole":
        yield "whole:variant=%d" % c["variant"]
        if "skipped" in impl:
            yield "whole:skipped(%s)" % impl["skipped"][:40]
        elif "snap" in impl:
            yield "whole:errors=%d" % min(impl["snap"]["errors"], 4)
            yield "whole:frames=%d" % min(len(impl["snap"]["frames"]), 5)
    elif case["op"] == "sg":
        s = c["sg"]
        yield "sg:tag=%s" % (s["tag"] if isinstance(s["tag"], (str, type(None))) else s["tag"][0])
        yield "sg:%s" % ("intel" if s["little"] else "motorola")
        if s["factor"][2] != 0:
            yield "sg:fractional-or-exponent-factor"


def nontrivial(case, impl):
    return True


def classify(case, impl, spec):
    """known findings are identified by the content that triggers them; every differing path must be explained by it"""
    if case["op"] != "rt" or impl.get("exc") or impl.get("err"):
        return None
    m = case["c"]["m"]
    paths = impl.get("paths", [])
    comments = [f["comment"] or "" for f in m["frames"]] + [s["comment"] or "" for f in m["frames"] for s in f["signals"]] + \
               [s["comment"] or "" for s in m["free"]] + [e["comment"] or "" for e in m["ecus"]]
    if any(re.search(r'"\s*;', t) for t in comments) and paths and all(p.endswith("/comment") for p in paths):
        return "C05-comment-quote-semicolon"
    if any(len(n) > 32 for n in m["env"]) and all(p.startswith("/env") for p in paths):
        return "C05-envvar-long-name"
    longs = [e["name"] for e in m["ecus"] if len(e["name"]) > 32]
    if len({n[:32] for n in longs}) < len(longs) and all(p.startswith("/ecus") or p.endswith("/receivers") or p.endswith("/transmitters") for p in paths):
        return "C05-long-ecu-names-common-prefix"
    return None


def recipe(case):
    return ("python: from lib import dbcgen as G; db = G.build(case['c']['m']); canmatrix.formats.dump(db, f, 'dbc', dbcExportEncoding=enc); "
            "db2 = canmatrix.formats.loads_flat(bytes, 'dbc', dbcImportEncoding=enc); compare G.norm(db) with G.norm(db2), dump again and compare bytes")
