import CanVerif.Model.Glob
/-!
# Independent specification of the bulk operations (C17): "all and only the matching objects"

Written from the documented meaning: a pattern `abc*` selects names starting with `abc` and replaces
that prefix; `*abc` selects names ending with `abc` and replaces that suffix; a plain name selects
the object of that name (signal names are unique within a frame, frame names within the matrix).
-/
namespace CanVerif.SpecBulk

abbrev Nm := List Char

structure KSig where
  name : Nm
  size : Nat
  attrs : List (Nm × Nm)
  deriving Repr, DecidableEq, Inhabited

structure KFrame where
  name : Nm
  attrs : List (Nm × Nm)
  sigs : List KSig
  deriving Repr, DecidableEq, Inhabited

structure KMat where
  frames : List KFrame
  ecus : List (Nm × List (Nm × Nm))
  frameDefs : List Nm
  ecuDefs : List Nm
  sigDefs : List Nm
  deriving Repr, DecidableEq, Inhabited

def sameSet (a b : List Nm) : Bool := a.all b.contains && b.all a.contains

def newName (old new name : Nm) : Nm :=
  if old.getLast? == some '*' then
    let pre := old.dropLast
    if pre.isPrefixOf name then new ++ name.drop pre.length else name
  else if old.head? == some '*' then
    let suf := old.drop 1
    if suf.isSuffixOf name then name.take (name.length - suf.length) ++ new else name
  else if name == old then new else name

def zeroOk (b a : KMat) : Bool :=
  a.frames == b.frames.map (fun f => { f with sigs := f.sigs.filter (fun s => s.size != 0) }) &&
  a.ecus == b.ecus && a.frameDefs == b.frameDefs && a.ecuDefs == b.ecuDefs && a.sigDefs == b.sigDefs

/-- precisely the definitions no object uses disappear; objects are untouched -/
def obsoleteOk (b a : KMat) : Bool :=
  a.frames == b.frames && a.ecus == b.ecus &&
  sameSet a.frameDefs (b.frameDefs.filter fun d => b.frames.any fun f => f.attrs.any (·.1 == d)) &&
  sameSet a.ecuDefs (b.ecuDefs.filter fun d => b.ecus.any fun e => e.2.any (·.1 == d)) &&
  sameSet a.sigDefs (b.sigDefs.filter fun d => b.frames.any fun f => f.sigs.any fun s => s.attrs.any (·.1 == d))

def others (b a : KMat) : Bool :=
  a.ecus == b.ecus && a.frameDefs == b.frameDefs && a.ecuDefs == b.ecuDefs && a.sigDefs == b.sigDefs

def delSignalOk (b : KMat) (p : Nm) (a : KMat) : Bool :=
  others b a &&
  a.frames == b.frames.map fun f =>
    { f with sigs := f.sigs.filter fun s => !globMatch (String.ofList p) (String.ofList s.name) }

def renameSignalOk (b : KMat) (o n : Nm) (a : KMat) : Bool :=
  others b a &&
  a.frames == b.frames.map fun f => { f with sigs := f.sigs.map fun s => { s with name := newName o n s.name } }

def renameFrameOk (b : KMat) (o n : Nm) (a : KMat) : Bool :=
  others b a && a.frames == b.frames.map fun f => { f with name := newName o n f.name }

def delFrameOk (b : KMat) (n : Nm) (a : KMat) : Bool :=
  others b a && a.frames == b.frames.filter (fun f => f.name != n)

def delSigAttrsOk (b : KMat) (ns : List Nm) (a : KMat) : Bool :=
  others b a &&
  a.frames == b.frames.map fun f =>
    { f with sigs := f.sigs.map fun s => { s with attrs := s.attrs.filter fun kv => !ns.contains kv.1 } }

def delFrameAttrsOk (b : KMat) (ns : List Nm) (a : KMat) : Bool :=
  others b a &&
  a.frames == b.frames.map fun f => { f with attrs := f.attrs.filter fun kv => !ns.contains kv.1 }

/-- every attribute still present has its definition (the DBC writer's dictionary lookups succeed) -/
def exportable (m : KMat) : Bool :=
  m.frames.all (fun f => f.attrs.all (fun kv => m.frameDefs.contains kv.1)) &&
  m.ecus.all (fun e => e.2.all (fun kv => m.ecuDefs.contains kv.1)) &&
  m.frames.all (fun f => f.sigs.all fun s => s.attrs.all (fun kv => m.sigDefs.contains kv.1))

end CanVerif.SpecBulk
