"""C14 - exporting never changes the matrix and is deterministic."""
import copy as pycopy
import json
import os
import subprocess
import sys

import canmatrix.canmatrix as cm
from lib import frames as F
from lib import matrices as M

PID = "C14"
RULE = ("case 'exp' = (matrix, ordered pair of writers (w1, w2) out of arxml, csv, dbc, dbf, fibex, json, json-all, json-canard, kcd, "
        "scapy, sym, wireshark, xls): normal form of the argument (everything incl. list orders, attributes, definitions) before "
        "and after w1; bytes of w2 after w1 against bytes of w2 on a fresh copy; w1 twice; decoding of a payload before/after. "
        "Matrices include long names (> 32 characters), free signals, cycle times, duplicate frame names, receiver lists not yet "
        "propagated to the frames, multiplex groups with many values, attributes with definitions. quick: every ordered pair on 1 "
        "matrix per shard + random pairs; thorough: every ordered pair on 20 matrices. case 'seeds' = the same exports in "
        "The 'seeds' case also exports every matrix in the long-running process after a variant of it (same names, other value texts, comments, units) and compares with a fresh process. The process state decoding depends on (decimal context) is compared before and after every export; comments over two lines occur. subprocesses under 6 (thorough: 12) values of PYTHONHASHSEED, always including a frame with 15 multiplex groups. One matrix in seven has a frame whose length was never set (0) although it has signals. Non-trivial = every distinct case (each exercises >= 1 writer).")
EXHAUSTIVE = {"quick": False, "thorough": False}
PARTIAL = ["the writers' footprint on their argument is recorded in the model by hand (copiesFirst/normalise); that the record is complete "
           "is established only by this correspondence check - the theorems carry least here",
           "xlsx, yaml, ldf, eds writers are not importable in this environment and are outside the quantifier"]
ASSUMPTIONS = ["matrices every listed writer accepts (no extended multiplexing)"]
TRUSTED = ["hashlib, subprocess"]
CORRESPONDENCE = "formats.dump leaves its argument's normal form unchanged == CanVerif.exportEffect (Model/Export.lean)"

WRITERS = {
    "arxml": ("arxml", {}), "csv": ("csv", {}), "dbc": ("dbc", {}), "dbf": ("dbf", {}), "fibex": ("fibex", {}),
    "json": ("json", {}), "json-all": ("json", {"jsonExportAll": True}), "json-canard": ("json", {"jsonExportCanard": True}),
    "kcd": ("kcd", {}), "scapy": ("scapy", {}), "sym": ("sym", {}), "wireshark": ("wireshark", {}), "xls": ("xls", {}),
}
WKEYS = sorted(WRITERS)


def gen_desc(rng, many_groups=False, common_prefix=False):
    d = M.gen_matrix(rng, {"floats": False, "limits": True, "cycle": True, "maxframes": 4, "multiline_comments": True})
    while common_prefix and len(d["frames"]) < 2:
        d = M.gen_matrix(rng, {"floats": False, "limits": True, "cycle": True, "maxframes": 4, "multiline_comments": True})
    d["opts"] = {"update": rng.random() < 0.5}
    fr = d["frames"]
    if rng.random() < 0.4 and fr:
        fr[0]["name"] = "A_very_long_frame_name_exceeding_thirty_two_chars"
        if fr[0]["signals"]:
            fr[0]["signals"][0]["name"] = "a_signal_name_that_is_longer_than_32_characters"
    r2 = 0.0 if common_prefix else rng.random()
    if r2 < 0.15 and len(fr) >= 2:
        # names longer than 32 characters that agree in their first 32 characters (also ECUs and signals)
        fr[0]["name"] = "A_very_long_frame_name_exceeding_thirty_two_chars_first"
        fr[1]["name"] = "A_very_long_frame_name_exceeding_thirty_two_chars_second"
        if len(fr[0]["signals"]) >= 2:
            fr[0]["signals"][0]["name"] = "a_signal_name_that_is_longer_than_32_characters_x"
            fr[0]["signals"][1]["name"] = "a_signal_name_that_is_longer_than_32_characters_y"
    elif r2 < 0.5 and len(fr) >= 2:
        fr[1]["name"] = fr[0]["name"]          # duplicate frame names
        fr[1]["transmitters"] = sorted(set(fr[1]["transmitters"]) | {"Gw"})
    if (many_groups or rng.random() < 0.3) and fr:
        # a frame with many multiplex groups (sym writes one block per group)
        f = fr[-1]
        used = set()
        mx = M.gen_signal(rng, "mxs", f["size"], used, {"maxwidth": 8, "floats": False, "values": False})
        if mx and f["size"] >= 2:
            mx["size"], mx["start"], mx["little"], mx["signed"], mx["mux"] = 8, 0, True, False, "Multiplexor"
            sigs = [mx]
            allv = [0, 1, 2, 3, 5, 6, 7, 8, 13, 21, 34, 55, 89, 144, 233]
            for v in (allv if many_groups else rng.sample(allv, rng.randint(3, 15))):
                sigs.append({"name": "m%d" % v, "start": 8, "size": 4, "little": True, "signed": False, "float": False, "factor": "1", "offset": "0",
                             "unit": "", "receivers": [], "comment": None, "mux": v, "values": {}, "min": None, "max": None})
            f["signals"] = sigs
    d["free"] = [{"name": "free%d" % k, "size": rng.randint(1, 8)} for k in range(rng.choice([0, 0, 1, 2]))]
    d["attrs"] = rng.random() < 0.5
    if fr and rng.random() < 0.15:
        # a frame whose length was never set (0) although it has signals: the writers must not set it either
        rng.choice(fr)["size"] = 0
    return d


def build(d):
    db = M.build(d, update=d.get("opts", {}).get("update", True))
    for s in d.get("free", []):
        db.add_signal(cm.Signal(s["name"], size=s["size"]))
    if d.get("attrs"):
        db.add_frame_defines("GenMsgSendType", 'ENUM "cyclic","spontaneous"')
        db.add_define_default("GenMsgSendType", "cyclic")
        db.add_signal_defines("GenSigNote", "STRING")
        db.add_ecu_defines("NodeLayer", "INT 0 10")
        db.add_global_defines("BusName", "STRING")
        db.add_attribute("BusName", "bus")
        for k, f in enumerate(db.frames):
            if k % 2 == 0:
                f.add_attribute("GenMsgSendType", "spontaneous")
            for s in f.signals[:1]:
                s.add_attribute("GenSigNote", "note")
        for e in db.ecus[:1]:
            e.add_attribute("NodeLayer", "3")
    return db


def gen(rng, tier, shard, nshards):
    nmat = 1 if tier == "quick" else 20 // nshards + 1
    for _ in range(nmat):
        d = gen_desc(rng)
        for w1 in WKEYS:
            for w2 in WKEYS:
                yield {"op": "exp", "c": {"m": d, "w1": w1, "w2": w2}}
    for _ in range({"quick": 60, "thorough": 600}[tier] // nshards + 1):
        yield {"op": "exp", "c": {"m": gen_desc(rng), "w1": rng.choice(WKEYS), "w2": rng.choice(WKEYS)}}
    if shard < 2:
        ms = [gen_desc(rng, many_groups=(k == 0), common_prefix=(k == 1)) for k in range(3 if tier == "quick" else 10)]
        # seeds 19, 23, 40 give three further iteration orders of {'Multiplexor', 0, 1, 2, 3, 5, …, 233} on CPython 3.12 (found by search)
        seeds = [0, 19, 23, 40, 7, 31] if tier == "quick" else [0, 19, 23, 40, 7, 31, 35, 47, 51, 54, 59, 1]
        if shard == 1:
            seeds = [rng.randrange(10000) for _ in seeds]
        yield {"op": "seeds", "c": {"ms": ms, "seeds": seeds}}


def neighbours(case, rng, shard, nshards):
    if case["op"] != "exp":
        return
    for _ in range(40 // nshards + 1):
        yield {"op": "exp", "c": {"m": gen_desc(rng), "w1": case["c"]["w1"], "w2": case["c"]["w2"]}}
        yield {"op": "exp", "c": {"m": case["c"]["m"], "w1": case["c"]["w1"], "w2": rng.choice(WKEYS)}}


def decode_all(db):
    out = []
    for f in db.frames:
        if f.is_complex_multiplexed:
            continue
        try:
            d = f.decode(bytes([0xA5, 0x3C, 0x96, 0x0F, 0xF0, 0x55, 0xAA, 0x81] * 8)[:f.size])
            out.append(sorted((k, str(v.raw_value)) for k, v in d.items()))
        except Exception as e:  # noqa
            out.append("EXC:" + type(e).__name__)
    return out


def process_state():
    """what decoding depends on besides the matrix: the arithmetic context of the decimal module"""
    import decimal
    ctx = decimal.getcontext()
    return [ctx.prec, ctx.rounding, ctx.Emin, ctx.Emax, ctx.capitals, ctx.clamp, sorted(str(t) for t, on in ctx.traps.items() if on)]


def observe(case):
    c = case["c"]
    if case["op"] == "seeds":
        worker = os.path.join(os.path.dirname(os.path.dirname(os.path.abspath(__file__))), "lib", "export_worker.py")
        results = []
        for seed in c["seeds"]:
            env = dict(os.environ, PYTHONHASHSEED=str(seed), PYTHONDONTWRITEBYTECODE="1")
            p = subprocess.run([sys.executable, worker], input=json.dumps(c["ms"]).encode(), capture_output=True, env=env, timeout=600)
            if p.returncode != 0:
                raise RuntimeError("export worker failed: " + p.stderr.decode()[-500:])
            results.append(json.loads(p.stdout.decode().strip().split("\n")[-1]))
        differs = sorted({w for r in results[1:] for w in r if r[w] != results[0][w]})
        # ... and on nothing the process exported before: in this (long-running) process a variant of each matrix (same names,
        # other value texts, comments and lengths) is exported first, then the matrix itself; a fresh process exported only the matrix
        import copy as pycopy
        import hashlib
        for k, d in enumerate(c["ms"]):
            v = pycopy.deepcopy(d)
            for f in v["frames"]:
                f["comment"] = "variant"
                for sg in f["signals"]:
                    sg["values"] = {key: val + "_variant" for key, val in sg.get("values", {}).items()}
                    sg["unit"] = "var"
                    sg["comment"] = "variant comment"
            for key, (fmt, opts) in WRITERS.items():
                try:
                    M.export_bytes(build(v), fmt, **opts)
                    h = hashlib.sha256(M.export_bytes(build(d), fmt, **opts)).hexdigest()
                except Exception as e:  # noqa
                    h = "EXC:" + type(e).__name__
                if h != results[0][key][k]:
                    differs.append("after-a-variant:" + key)
        differs = sorted(set(differs))
        return {"same": not differs, "differs": differs}
    f1, o1 = WRITERS[c["w1"]]
    f2, o2 = WRITERS[c["w2"]]
    db = build(c["m"])
    before = M.normal_form(db, "all")
    dec_before = decode_all(db)
    ctx_before = process_state()
    b1 = M.export_bytes(db, f1, **o1)
    after = M.normal_form(db, "all")
    dec_after = decode_all(db)
    ctx_after = process_state()
    b2 = M.export_bytes(db, f2, **o2)
    fresh = build(c["m"])
    b2_fresh = M.export_bytes(fresh, f2, **o2)
    b1_again = M.export_bytes(build(c["m"]), f1, **o1)
    r = {"unchanged": before == after, "second_same": b2 == b2_fresh, "twice_same": b1 == b1_again, "decode_same": dec_before == dec_after and ctx_before == ctx_after}
    if ctx_before != ctx_after:
        r["process_state"] = [str(ctx_before), str(ctx_after)]
    if not r["unchanged"]:
        r["diff"] = [k for k in before if before[k] != after[k]]
    return r


def project(impl):
    if "same" in impl:
        return {"same": impl["same"]}
    return {k: impl[k] for k in ("unchanged", "second_same", "twice_same", "decode_same")}


def features(case, impl):
    yield "op=" + case["op"]
    if case["op"] == "exp":
        yield "w1=" + case["c"]["w1"]
        m = case["c"]["m"]
        names = [f["name"] for f in m["frames"]]
        if len(set(names)) < len(names):
            yield "duplicate frame names"
        if not m.get("opts", {}).get("update", True):
            yield "receivers not propagated"
        if m.get("free"):
            yield "free signals"


def nontrivial(case, impl):
    return True


def classify(case, impl, spec):
    return None
