import CanVerif.Model.Copy
/-!
# Helper lemmas for C12 (copy_frame / merge)
-/
namespace CanVerif

/-! ## attribute dictionaries -/

/-- looking a key up after a key-preserving map -/
theorem find?_key_map {β : Type} (l : List (String × β)) (g : String × β → String × β)
    (hg : ∀ kv, (g kv).1 = kv.1) (k : String) :
    (l.map g).find? (fun kv => kv.1 == k) = (l.find? (fun kv => kv.1 == k)).map g := by
  rw [List.find?_map]
  congr 2
  funext kv
  simp [hg]

theorem find?_key_none_of_any {β : Type} (l : List (String × β)) (k : String)
    (h : l.any (fun kv => kv.1 == k) = false) : l.find? (fun kv => kv.1 == k) = none := by
  rw [List.find?_eq_none]
  intro x hx
  rw [List.any_eq_false] at h
  exact h x hx

theorem find?_key_some_of_any {β : Type} (l : List (String × β)) (k : String)
    (h : l.any (fun kv => kv.1 == k) = true) : ∃ v, l.find? (fun kv => kv.1 == k) = some (k, v) := by
  cases hf : l.find? (fun kv => kv.1 == k) with
  | none =>
    rw [List.find?_eq_none] at hf
    rw [List.any_eq_true] at h
    obtain ⟨x, hx, hp⟩ := h
    exact absurd hp (hf x hx)
  | some kv =>
    have := List.find?_some hf
    simp only [beq_iff_eq] at this
    exact ⟨kv.2, by rw [← this]⟩

theorem attrGet_attrSet_self (l : Attrs) (a v : String) : attrGet (attrSet l a v) a = some v := by
  unfold attrSet attrGet
  split
  · rename_i h
    rw [find?_key_map _ _ (by intro kv; split <;> simp_all)]
    obtain ⟨w, hw⟩ := find?_key_some_of_any l a h
    simp [hw]
  · rename_i h
    have h' := find?_key_none_of_any l a (by cases hh : l.any (fun kv => kv.1 == a) <;> simp_all)
    simp [List.find?_append, h']

theorem attrGet_attrSet_of_ne (l : Attrs) (a v k : String) (hk : k ≠ a) :
    attrGet (attrSet l a v) k = attrGet l k := by
  unfold attrSet attrGet
  have hak : (a == k) = false := by simpa using fun h => hk h.symm
  split
  · rw [find?_key_map _ _ (by intro kv; split <;> simp_all)]
    cases hf : l.find? (fun kv => kv.1 == k) with
    | none => rfl
    | some kv =>
      have := List.find?_some hf
      simp only [beq_iff_eq] at this
      have h2 : ¬ kv.1 = a := by rw [this]; exact hk
      simp [h2]
  · simp [List.find?_append, hak]

/-! ## definition dictionaries -/

theorem defGet_append_of_some (d e : Defs) (k : String) (x : Define) (h : defGet d k = some x) :
    defGet (d ++ e) k = some x := by
  unfold defGet at *
  cases hf : d.find? (fun kv => kv.1 == k) with
  | none => simp [hf] at h
  | some kv => simp [List.find?_append, hf] at h ⊢; exact h

theorem defHas_of_defGet (d : Defs) (k : String) (x : Define) (h : defGet d k = some x) : defHas d k = true := by
  unfold defGet at h
  unfold defHas
  cases hh : d.any (fun kv => kv.1 == k) with
  | true => rfl
  | false => simp [find?_key_none_of_any d k hh] at h

theorem defGet_defUpdate (d : Defs) (a : String) (g : Define → Define) (k : String) :
    defGet (defUpdate d a g) k = (defGet d k).map (fun df => if k = a then g df else df) := by
  unfold defGet defUpdate
  rw [find?_key_map _ _ (by intro kv; split <;> simp_all)]
  cases hf : d.find? (fun kv => kv.1 == k) with
  | none => rfl
  | some kv =>
    have := List.find?_some hf
    simp only [beq_iff_eq] at this
    by_cases h : k = a
    · simp [this, h]
    · have h2 : ¬ kv.1 = a := by rw [this]; exact h
      simp [h2, h]

/-- `d'` still has every definition of `d`, with the same default and kind -/
def DefsPres (d d' : Defs) : Prop :=
  ∀ k df, defGet d k = some df → ∃ df', defGet d' k = some df' ∧ df'.default = df.default ∧ df'.kind = df.kind

theorem DefsPres.refl (d : Defs) : DefsPres d d := fun _ df h => ⟨df, h, rfl, rfl⟩

theorem DefsPres.trans {a b c : Defs} (h1 : DefsPres a b) (h2 : DefsPres b c) : DefsPres a c := by
  intro k df h
  obtain ⟨df1, g1, e1, e1'⟩ := h1 k df h
  obtain ⟨df2, g2, e2, e2'⟩ := h2 k df1 g1
  exact ⟨df2, g2, e2.trans e1, e2'.trans e1'⟩

theorem addDefine_pres (d : Defs) (k : String) (sd : Define) : DefsPres d (addDefine d k sd) := by
  intro k' df h
  unfold addDefine
  split
  · exact ⟨df, h, rfl, rfl⟩
  · exact ⟨df, defGet_append_of_some _ _ _ _ h, rfl, rfl⟩

theorem defUpdate_pres (d : Defs) (a : String) (g : Define → Define)
    (hg : ∀ df, (g df).default = df.default ∧ (g df).kind = df.kind) : DefsPres d (defUpdate d a g) := by
  intro k df h
  refine ⟨_, by rw [defGet_defUpdate, h]; rfl, ?_, ?_⟩ <;> split <;> simp [hg]

theorem enumUpdate_pres (d : Defs) (a : String) (v : Option String) : DefsPres d (enumUpdate d a v) := by
  unfold enumUpdate
  cases v with
  | none => exact DefsPres.refl d
  | some val =>
    apply defUpdate_pres
    intro df
    split <;> simp

theorem copyAttr_pres (srcAttrs : Attrs) (srcDefs tgtDefs : Defs) (objAttrs : Attrs) (a : String) (sd : Define) :
    DefsPres tgtDefs (copyAttr srcAttrs srcDefs tgtDefs objAttrs a sd).1 := by
  unfold copyAttr
  split
  · exact DefsPres.refl _
  · simp only
    split
    · exact (addDefine_pres _ _ _).trans (enumUpdate_pres _ _ _)
    · exact addDefine_pres _ _ _

theorem defGet_enumUpdate_default (d : Defs) (a : String) (v : Option String) :
    (defGet (enumUpdate d a v) a).bind (·.default) = (defGet d a).bind (·.default) := by
  cases h : defGet d a with
  | none =>
    cases v with
    | none => simp [enumUpdate, h]
    | some val => simp [enumUpdate, defGet_defUpdate, h]
  | some df =>
    obtain ⟨df', h1, h2, _⟩ := enumUpdate_pres d a v a df h
    simp [h1, h2]

/-! ## structure of `copyEcu` / `copyFrame` -/

theorem foldl_inv {α β : Type} (P : β → Prop) (f : β → α → β) (h : ∀ b a, P b → P (f b a)) :
    ∀ (l : List α) (b : β), P b → P (l.foldl f b)
  | [], _, hb => hb
  | a :: l, b, hb => foldl_inv P f h l (f b a) (h b a hb)

theorem setEcuAttrs_append (E rest : List CEcu) (n : String) (a : Attrs)
    (h : ∀ e ∈ E, (e.name == n) = false) : setEcuAttrs (E ++ rest) n a = E ++ setEcuAttrs rest n a := by
  induction E with
  | nil => rfl
  | cons e E ih =>
    have he := h e (by simp)
    simp only [List.cons_append, setEcuAttrs, he]
    rw [ih (fun x hx => h x (by simp [hx]))]
    rfl

theorem setFrameAttrs_append (F rest : List CFrame) (id : Nat) (ext : Bool) (a : Attrs)
    (h : ∀ f ∈ F, (f.id == id && f.ext == ext) = false) :
    setFrameAttrs (F ++ rest) id ext a = F ++ setFrameAttrs rest id ext a := by
  induction F with
  | nil => rfl
  | cons e E ih =>
    have he := h e (by simp)
    simp only [List.cons_append, setFrameAttrs, he]
    rw [ih (fun x hx => h x (by simp [hx]))]
    rfl

theorem setSigAttrs_append (F rest : List CFrame) (id : Nat) (ext : Bool) (sn : String) (a : Attrs)
    (h : ∀ f ∈ F, (f.id == id && f.ext == ext) = false) :
    setSigAttrs (F ++ rest) id ext sn a = F ++ setSigAttrs rest id ext sn a := by
  induction F with
  | nil => rfl
  | cons e E ih =>
    have he := h e (by simp)
    simp only [List.cons_append, setSigAttrs, he]
    rw [ih (fun x hx => h x (by simp [hx]))]
    rfl

/-- same identifier, name, body, senders and signals (name, body, receivers) -/
def CoreEq (f g : CFrame) : Prop :=
  g.id = f.id ∧ g.ext = f.ext ∧ g.name = f.name ∧ g.body = f.body ∧ g.transmitters = f.transmitters ∧
  g.sigs.map (fun s => (s.name, s.body, s.receivers)) = f.sigs.map (fun s => (s.name, s.body, s.receivers))

theorem setSigAttrs_go_core (sn : String) (a : Attrs) (l : List CSig) :
    (setSigAttrs.go sn a l).map (fun s => (s.name, s.body, s.receivers)) = l.map (fun s => (s.name, s.body, s.receivers)) := by
  induction l with
  | nil => rfl
  | cons s r ih =>
    unfold setSigAttrs.go
    split
    · rfl
    · simp [ih]

theorem setFrameAttrs_single (g : CFrame) (id : Nat) (ext : Bool) (a : Attrs) :
    ∃ g', setFrameAttrs [g] id ext a = [g'] ∧ ∀ f, CoreEq f g → CoreEq f g' := by
  unfold setFrameAttrs
  split
  · exact ⟨_, rfl, fun f h => h⟩
  · exact ⟨_, rfl, fun f h => h⟩

theorem setSigAttrs_single (g : CFrame) (id : Nat) (ext : Bool) (sn : String) (a : Attrs) :
    ∃ g', setSigAttrs [g] id ext sn a = [g'] ∧ ∀ f, CoreEq f g → CoreEq f g' := by
  unfold setSigAttrs
  split
  · refine ⟨_, rfl, fun f h => ?_⟩
    obtain ⟨h1, h2, h3, h4, h5, h6⟩ := h
    exact ⟨h1, h2, h3, h4, h5, by simp only [setSigAttrs_go_core]; exact h6⟩
  · exact ⟨_, rfl, fun f h => h⟩

/-- what a copying step may do to the matrix outside its frame list -/
structure Rel (t t' : CMat) : Prop where
  ecus : t.ecus <+: t'.ecus
  fd : DefsPres t.frameDefs t'.frameDefs
  sd : DefsPres t.sigDefs t'.sigDefs
  ed : DefsPres t.ecuDefs t'.ecuDefs

theorem Rel.refl (t : CMat) : Rel t t := ⟨List.prefix_refl _, DefsPres.refl _, DefsPres.refl _, DefsPres.refl _⟩

theorem Rel.trans {a b c : CMat} (h1 : Rel a b) (h2 : Rel b c) : Rel a c :=
  ⟨h1.ecus.trans h2.ecus, h1.fd.trans h2.fd, h1.sd.trans h2.sd, h1.ed.trans h2.ed⟩

/-! ### copyEcu -/

def ecuAttrStep (src : CMat) (ecu : CEcu) (t : CMat) (kv : String × Define) : CMat :=
  match t.ecuByName ecu.name with
  | none => t
  | some te =>
    let (d, a) := copyAttr ecu.attrs src.ecuDefs t.ecuDefs te.attrs kv.1 kv.2
    { t with ecuDefs := d, ecus := setEcuAttrs t.ecus ecu.name a }

theorem copyEcu_eq (src tgt : CMat) (ecu : CEcu) :
    copyEcu src tgt ecu = src.ecuDefs.foldl (ecuAttrStep src ecu)
      (if tgt.ecus.any (·.name == ecu.name) then tgt else { tgt with ecus := tgt.ecus ++ [ecu] }) := rfl

theorem ecuByName_none {t : CMat} {n : String} (h : t.ecuByName n = none) :
    ∀ e ∈ t.ecus, (e.name == n) = false := by
  unfold CMat.ecuByName at h
  rw [List.find?_eq_none] at h
  intro e he
  simpa using h e he

theorem copyEcu_rel (src t : CMat) (ecu : CEcu) (h : t.ecuByName ecu.name = none) :
    (copyEcu src t ecu).frames = t.frames ∧ Rel t (copyEcu src t ecu) := by
  have hE := ecuByName_none h
  rw [copyEcu_eq]
  have hany : t.ecus.any (·.name == ecu.name) = false := by
    rw [List.any_eq_false]; intro x hx; simpa using hE x hx
  rw [hany]
  simp only [Bool.false_eq_true, if_false]
  let P : CMat → Prop := fun r =>
    r.frames = t.frames ∧ (∃ rest, r.ecus = t.ecus ++ rest) ∧ r.frameDefs = t.frameDefs ∧
    r.sigDefs = t.sigDefs ∧ DefsPres t.ecuDefs r.ecuDefs
  have hP : P (src.ecuDefs.foldl (ecuAttrStep src ecu) { t with ecus := t.ecus ++ [ecu] }) := by
    apply foldl_inv P
    · intro r kv ⟨h1, ⟨rest, h2⟩, h3, h4, h5⟩
      unfold ecuAttrStep
      split
      · exact ⟨h1, ⟨rest, h2⟩, h3, h4, h5⟩
      · refine ⟨h1, ?_, h3, h4, ?_⟩
        · show ∃ rest', setEcuAttrs r.ecus ecu.name _ = _ ++ rest'
          rw [h2, setEcuAttrs_append _ _ _ _ hE]
          exact ⟨_, rfl⟩
        · exact h5.trans (copyAttr_pres _ _ _ _ _ _)
    · exact ⟨rfl, ⟨[ecu], rfl⟩, rfl, rfl, DefsPres.refl _⟩
  obtain ⟨h1, ⟨rest, h2⟩, h3, h4, h5⟩ := hP
  refine ⟨h1, ⟨?_, ?_, ?_, h5⟩⟩
  · rw [h2]; exact List.prefix_append _ _
  · rw [h3]; exact DefsPres.refl _
  · rw [h4]; exact DefsPres.refl _

/-! ### copyFrame -/

def ecuStep (src : CMat) (t : CMat) (n : String) : CMat :=
  match src.ecuByName n, t.ecuByName n with
  | some se, none => copyEcu src t se
  | _, _ => t

def fdStep (src : CMat) (frame : CFrame) (t : CMat) (kv : String × Define) : CMat :=
  match t.frameById frame.id frame.ext with
  | none => t
  | some tf =>
    let (d, a) := copyAttr frame.attrs src.frameDefs t.frameDefs tf.attrs kv.1 kv.2
    { t with frameDefs := d, frames := setFrameAttrs t.frames frame.id frame.ext a }

def sdStep (src : CMat) (frame : CFrame) (sg : CSig) (t : CMat) (kv : String × Define) : CMat :=
  match (t.frameById frame.id frame.ext).bind (fun tf => tf.sigs.find? (·.name == sg.name)) with
  | none => t
  | some ts =>
    let (d, a) := copyAttr sg.attrs src.sigDefs t.sigDefs ts.attrs kv.1 kv.2
    { t with sigDefs := d, frames := setSigAttrs t.frames frame.id frame.ext sg.name a }

/-- the matrix `copy_frame` produces when it accepts `frame` -/
def copyBody (src tgt : CMat) (frame : CFrame) : CMat :=
  let t0 : CMat := { tgt with frames := tgt.frames ++ [frame] }
  let t1 := (frame.transmitters ++ frame.sigs.flatMap (·.receivers)).foldl (ecuStep src) t0
  let t2 := src.frameDefs.foldl (fdStep src frame) t1
  frame.sigs.foldl (fun t sg => src.sigDefs.foldl (sdStep src frame sg) t) t2

theorem copyFrame_eq (src tgt : CMat) (id : Nat) (ext : Bool) :
    copyFrame src tgt id ext =
      match src.frameById id ext with
      | none => none
      | some frame =>
        if (tgt.frameById frame.id frame.ext).isSome then some (tgt, false)
        else some (copyBody src tgt frame, true) := rfl

theorem ecuStep_rel (src t : CMat) (n : String) : (ecuStep src t n).frames = t.frames ∧ Rel t (ecuStep src t n) := by
  unfold ecuStep
  split
  · rename_i se h1 h2
    have hn : se.name = n := by
      have := List.find?_some h1
      simpa using this
    exact copyEcu_rel src t se (by rw [hn]; exact h2)
  · exact ⟨rfl, Rel.refl t⟩

/-- the frame list is the old one plus one frame that agrees with `frame` on everything but attributes -/
def FInv (F : List CFrame) (frame : CFrame) (t : CMat) : Prop := ∃ g, t.frames = F ++ [g] ∧ CoreEq frame g

theorem fdStep_inv (src : CMat) (frame : CFrame) (F : List CFrame)
    (hF : ∀ f ∈ F, (f.id == frame.id && f.ext == frame.ext) = false) (t : CMat) (kv : String × Define)
    (h : FInv F frame t) : FInv F frame (fdStep src frame t kv) ∧ Rel t (fdStep src frame t kv) := by
  unfold fdStep
  split
  · exact ⟨h, Rel.refl t⟩
  · obtain ⟨g, hg, hc⟩ := h
    refine ⟨?_, ⟨List.prefix_refl _, copyAttr_pres _ _ _ _ _ _, DefsPres.refl _, DefsPres.refl _⟩⟩
    obtain ⟨g', e1, e2⟩ := setFrameAttrs_single g frame.id frame.ext
      (copyAttr frame.attrs src.frameDefs t.frameDefs _ kv.1 kv.2).2
    refine ⟨g', ?_, e2 _ hc⟩
    show setFrameAttrs t.frames _ _ _ = _
    rw [hg, setFrameAttrs_append _ _ _ _ _ hF, e1]

theorem sdStep_inv (src : CMat) (frame : CFrame) (sg : CSig) (F : List CFrame)
    (hF : ∀ f ∈ F, (f.id == frame.id && f.ext == frame.ext) = false) (t : CMat) (kv : String × Define)
    (h : FInv F frame t) : FInv F frame (sdStep src frame sg t kv) ∧ Rel t (sdStep src frame sg t kv) := by
  unfold sdStep
  split
  · exact ⟨h, Rel.refl t⟩
  · obtain ⟨g, hg, hc⟩ := h
    refine ⟨?_, ⟨List.prefix_refl _, DefsPres.refl _, copyAttr_pres _ _ _ _ _ _, DefsPres.refl _⟩⟩
    obtain ⟨g', e1, e2⟩ := setSigAttrs_single g frame.id frame.ext sg.name
      (copyAttr sg.attrs src.sigDefs t.sigDefs _ kv.1 kv.2).2
    refine ⟨g', ?_, e2 _ hc⟩
    show setSigAttrs t.frames _ _ _ _ = _
    rw [hg, setSigAttrs_append _ _ _ _ _ _ hF, e1]

theorem copyBody_spec (src tgt : CMat) (frame : CFrame) (h : tgt.frameById frame.id frame.ext = none) :
    FInv tgt.frames frame (copyBody src tgt frame) ∧ Rel tgt (copyBody src tgt frame) := by
  have hF : ∀ f ∈ tgt.frames, (f.id == frame.id && f.ext == frame.ext) = false := by
    unfold CMat.frameById at h
    rw [List.find?_eq_none] at h
    intro f hf
    simpa using h f hf
  let Q : CMat → Prop := fun t => FInv tgt.frames frame t ∧ Rel tgt t
  show Q (copyBody src tgt frame)
  unfold copyBody
  simp only
  apply foldl_inv Q
  · intro t sg ht
    apply foldl_inv Q
    · intro t kv ⟨h1, h2⟩
      have := sdStep_inv src frame sg tgt.frames hF t kv h1
      exact ⟨this.1, h2.trans this.2⟩
    · exact ht
  apply foldl_inv Q
  · intro t kv ⟨h1, h2⟩
    have := fdStep_inv src frame tgt.frames hF t kv h1
    exact ⟨this.1, h2.trans this.2⟩
  apply foldl_inv Q
  · intro t n ⟨⟨g, h1, hc⟩, h2⟩
    have := ecuStep_rel src t n
    exact ⟨⟨g, by rw [this.1]; exact h1, hc⟩, h2.trans this.2⟩
  · exact ⟨⟨frame, rfl, rfl, rfl, rfl, rfl, rfl, rfl⟩, ⟨List.prefix_refl _, DefsPres.refl _, DefsPres.refl _, DefsPres.refl _⟩⟩

end CanVerif
