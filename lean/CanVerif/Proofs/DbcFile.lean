import CanVerif.Model.DbcFile
import CanVerif.Proofs.DbcStmt
import CanVerif.Proofs.DbcAttr
import CanVerif.Proofs.DbcTables
import CanVerif.Proofs.DbcComment
import CanVerif.Proofs.DbcVal
import CanVerif.Proofs.DbcText
/-!
# The DBC reader as a whole (Model/DbcFile.lean): every statement the writer emits is taken by the dispatcher for what it is and
handed to its own parser (`scan_*`), and the file is read as the fold of the statements' effects.
-/
namespace CanVerif.Dbc.FileProofs
open CanVerif CanVerif.Dbc CanVerif.Dbc.CommentProofs CanVerif.Num

/-- ends in a semicolon -/
def EndsSemi (s : Str) : Prop := s.getLast? = some ';'
theorem EndsSemi.one : EndsSemi [';'] := rfl
theorem EndsSemi.append (a : Str) {b : Str} (h : EndsSemi b) : EndsSemi (a ++ b) := by
  unfold EndsSemi at *; rw [List.getLast?_append, h]; rfl
theorem EndsSemi.cons (c : Char) {b : Str} (h : EndsSemi b) : EndsSemi (c :: b) := EndsSemi.append [c] h

macro "ends_semi" : tactic =>
  `(tactic| repeat (first | exact EndsSemi.one | apply EndsSemi.cons | apply EndsSemi.append))

/-- a line that starts with a letter and ends with a semicolon is its own stripped form -/
theorem stripWs_semi (s : Str) (a : Char) (h1 : s.head? = some a) (ha : isWs a = false) (h2 : EndsSemi s) :
    stripWs s = s := stripWs_id s a ';' h1 h2 ha (by decide)

theorem ofList_eq_iff (l : List Char) (s : String) : String.ofList l = s ↔ l = s.toList :=
  ⟨fun h => by rw [← h, String.toList_ofList], fun h => by rw [h, String.ofList_toList]⟩

/-- the keyword test of the `BA_DEF_` dispatcher on character lists -/
theorem kw_contains (l : List Char) :
    ["SG_", "BO_", "BU_", "EV_"].contains (String.ofList l) =
      (l == ['S','G','_'] || (l == ['B','O','_'] || (l == ['B','U','_'] || l == ['E','V','_']))) := by
  have e1 : "SG_".toList = ['S','G','_'] := by decide
  have e2 : "BO_".toList = ['B','O','_'] := by decide
  have e3 : "BU_".toList = ['B','U','_'] := by decide
  have e4 : "EV_".toList = ['E','V','_'] := by decide
  simp only [List.contains_cons, List.contains_nil, Bool.or_false]
  have h : ∀ (s : String) (t : List Char), s.toList = t → (String.ofList l == s) = (l == t) := by
    intro s t ht
    by_cases hh : String.ofList l = s
    · have h1 := (ofList_eq_iff l s).1 hh
      have h2 : l = t := by rw [h1, ht]
      rw [beq_iff_eq.2 hh, beq_iff_eq.2 h2]
    · have h2 : ¬ l = t := fun e => hh ((ofList_eq_iff l s).2 (by rw [e, ht]))
      rw [beq_eq_false_iff_ne.2 hh, beq_eq_false_iff_ne.2 h2]
  rw [h _ _ e1, h _ _ e2, h _ _ e3, h _ _ e4]

/-! ## one lemma per statement kind: `scanLine (render x) = item x` -/

theorem scan_tx (t : TxLine) (h : wfTx t = true) : scanLine (renderTx t) = .item (.tx t) := by
  have hp := StmtProofs.parseTx_renderTx t h
  have hs : stripWs (renderTx t) = renderTx t := by
    apply stripWs_semi _ 'B' (by rw [StmtProofs.renderTx_eq]; rfl) (by decide)
    rw [StmtProofs.renderTx_eq]; ends_semi
  have hc : classify (renderTx t) = .boTxBu := by
    unfold classify; rw [hs, StmtProofs.renderTx_eq]; simp [startsWith]
  unfold scanLine
  simp only [hs, hc, hp]
  rw [StmtProofs.renderTx_eq]; simp

theorem scan_valtype (v : ValTypeLine) (h : wfValType v = true) :
    scanLine (renderValType v) = .item (.valtype v.id v.name) := by
  have hp := StmtProofs.parseValType_renderValType v h
  have hs : stripWs (renderValType v) = renderValType v := by
    apply stripWs_semi _ 'S' (by rw [StmtProofs.renderValType_eq]; rfl) (by decide)
    rw [StmtProofs.renderValType_eq]; ends_semi
  have hc : classify (renderValType v) = .sigValtype := by
    unfold classify; rw [hs, StmtProofs.renderValType_eq]; simp [startsWith, cmClass]
  unfold scanLine
  simp only [hs, hc, hp]
  rw [StmtProofs.renderValType_eq]; simp

theorem scan_mul (m : MulLine) (h : wfMul m = true) (hne : m.ranges ≠ []) : scanLine (renderMul m) = .item (.mul m) := by
  have hp := StmtProofs.parseMul_renderMul m h hne
  have hs : stripWs (renderMul m) = renderMul m := by
    apply stripWs_semi _ 'S' (by rw [StmtProofs.renderMul_eq]; rfl) (by decide)
    rw [StmtProofs.renderMul_eq]; ends_semi
  have hc : classify (renderMul m) = .sgMulVal := by
    unfold classify; rw [hs, StmtProofs.renderMul_eq]; simp [startsWith, cmClass]
  unfold scanLine
  simp only [hs, hc, hp]
  rw [StmtProofs.renderMul_eq]; simp

theorem scan_defdef (d : DefDefLine) (h : wfDefDef d = true) :
    scanLine (renderDefDef d) = .item (.defdef d.name d.value) := by
  have hp := AttrProofs.parseDefDef_renderDefDef d h
  have hs : stripWs (renderDefDef d) = renderDefDef d := by
    apply stripWs_semi _ 'B' (by rw [AttrProofs.renderDefDef_eq]; rfl) (by decide)
    rw [AttrProofs.renderDefDef_eq]; ends_semi
  have hc : classify (renderDefDef d) = .baDefDef := by
    have hd : ∀ r : Str, EndsSemi r → stripWs ('D' :: 'E' :: 'F' :: '_' :: ' ' :: r) = 'D' :: 'E' :: 'F' :: '_' :: ' ' :: r :=
      fun r hr => stripWs_semi _ 'D' rfl (by decide) (by ends_semi; exact hr)
    unfold classify; rw [hs, AttrProofs.renderDefDef_eq]
    simp only [startsWith, cmClass, List.drop_succ_cons, List.drop_zero, kw_contains]
    rw [hd _ (by ends_semi)]
    simp
  unfold scanLine
  simp only [hs, hc, hp]
  rw [AttrProofs.renderDefDef_eq]; simp

theorem scan_vt (v : VtLine) (h : wfVt v = true) : scanLine (renderVt v) = .item (.vt v) := by
  have hp := TableProofs.parseVt_renderVt v h
  obtain ⟨name, es⟩ := v
  have hs : stripWs (renderVt ⟨name, es⟩) = renderVt ⟨name, es⟩ := by
    apply stripWs_semi _ 'V' (by rw [TableProofs.renderVt_eq]; rfl) (by decide)
    rw [TableProofs.renderVt_eq]; ends_semi
  have hc : classify (renderVt ⟨name, es⟩) = .valTable := by
    unfold classify; rw [hs, TableProofs.renderVt_eq]; simp [startsWith, cmClass]
  unfold scanLine
  simp only [hs, hc, hp]
  rw [TableProofs.renderVt_eq]; simp

theorem scan_grp (g : GroupLine) (h : wfGroup g = true) : scanLine (renderGroup g) = .item (.grp g) := by
  have hp := TableProofs.parseGroup_renderGroup g h
  have hs : stripWs (renderGroup g) = renderGroup g := by
    apply stripWs_semi _ 'S' (by rw [TableProofs.renderGroup_eq]; rfl) (by decide)
    rw [TableProofs.renderGroup_eq]; ends_semi
  have hc : classify (renderGroup g) = .sigGroup := by
    unfold classify; rw [hs, TableProofs.renderGroup_eq]; simp [startsWith, cmClass]
  unfold scanLine
  simp only [hs, hc, hp]
  rw [TableProofs.renderGroup_eq]; simp

def kwTest (l : Str) : Bool := l == ['S','G','_'] || (l == ['B','O','_'] || (l == ['B','U','_'] || l == ['E','V','_']))

theorem classify_badef (l r : Str) (h : stripWs l = 'B' :: 'A' :: '_' :: 'D' :: 'E' :: 'F' :: '_' :: r) :
    classify l = if kwTest ((stripWs r).take 3) then .baDefTyped
      else if r.head? = some ' ' then .baDef
      else if r.take 5 = ['D', 'E', 'F', '_', ' '] then .baDefDef else .unknown := by
  unfold classify
  rw [h]
  simp only [startsWith, cmClass, List.drop_succ_cons, List.drop_zero, kw_contains, kwTest]
  cases r with
  | nil => simp
  | cons c t =>
    by_cases hk : kwTest ((stripWs (c :: t)).take 3) = true
    · unfold kwTest at hk; simp [hk]
    · unfold kwTest at hk
      simp only [hk]
      by_cases hc : c = ' '
      · subst hc; simp
      · simp [hc]

theorem stripWs_sp_semi (a : Char) (r : Str) (ha : isWs a = false) (hr : EndsSemi r) : stripWs (' ' :: a :: r) = a :: r := by
  rw [stripWs_drop_ws ' ' _ (by decide)]
  exact stripWs_semi _ a rfl ha (EndsSemi.cons a hr)

theorem scan_def (d : DefLine) (h : wfDef d = true) : scanLine (renderDef d) = .item (.adef d) := by
  have hp := AttrProofs.parseDef_renderDef d h
  have hs : stripWs (renderDef d) = renderDef d := by
    apply stripWs_semi _ 'B' (by rw [AttrProofs.renderDef_eq]; rfl) (by decide)
    rw [AttrProofs.renderDef_eq]; ends_semi
  have hc : classify (renderDef d) = .baDefTyped ∨ classify (renderDef d) = .baDef := by
    obtain ⟨lvl, name, dfn⟩ := d
    have hn : name ≠ [] := by
      intro e; subst e; simp [wfDef, wfAttrName] at h
    rw [classify_badef _ _ (by rw [hs, AttrProofs.renderDef_eq])]
    cases lvl
    case global =>
      right
      have e : stripWs (' ' :: (Level.global.keyword ++ ' ' :: '"' :: (name ++ '"' :: ' ' :: (dfn ++ [';'])))) = '"' :: (name ++ '"' :: ' ' :: (dfn ++ [';'])) := by
        show stripWs (' ' :: ' ' :: '"' :: _) = _
        rw [stripWs_drop_ws ' ' _ (by decide)]
        exact stripWs_sp_semi '"' _ (by decide) (by ends_semi)
      simp only [e]
      cases name with
      | nil => exact absurd rfl hn
      | cons c t => simp [kwTest]
    case ecu =>
      left
      have e : stripWs (' ' :: (Level.ecu.keyword ++ ' ' :: '"' :: (name ++ '"' :: ' ' :: (dfn ++ [';'])))) = 'B' :: 'U' :: '_' :: ' ' :: '"' :: (name ++ '"' :: ' ' :: (dfn ++ [';'])) := by
        show stripWs (' ' :: 'B' :: _) = _
        exact stripWs_sp_semi 'B' _ (by decide) (by ends_semi)
      simp [e, kwTest]
    case frame =>
      left
      have e : stripWs (' ' :: (Level.frame.keyword ++ ' ' :: '"' :: (name ++ '"' :: ' ' :: (dfn ++ [';'])))) = 'B' :: 'O' :: '_' :: ' ' :: '"' :: (name ++ '"' :: ' ' :: (dfn ++ [';'])) := by
        show stripWs (' ' :: 'B' :: _) = _
        exact stripWs_sp_semi 'B' _ (by decide) (by ends_semi)
      simp [e, kwTest]
    case signal =>
      left
      have e : stripWs (' ' :: (Level.signal.keyword ++ ' ' :: '"' :: (name ++ '"' :: ' ' :: (dfn ++ [';'])))) = 'S' :: 'G' :: '_' :: ' ' :: '"' :: (name ++ '"' :: ' ' :: (dfn ++ [';'])) := by
        show stripWs (' ' :: 'S' :: _) = _
        exact stripWs_sp_semi 'S' _ (by decide) (by ends_semi)
      simp [e, kwTest]
    case env =>
      left
      have e : stripWs (' ' :: (Level.env.keyword ++ ' ' :: '"' :: (name ++ '"' :: ' ' :: (dfn ++ [';'])))) = 'E' :: 'V' :: '_' :: ' ' :: '"' :: (name ++ '"' :: ' ' :: (dfn ++ [';'])) := by
        show stripWs (' ' :: 'E' :: _) = _
        exact stripWs_sp_semi 'E' _ (by decide) (by ends_semi)
      simp [e, kwTest]
  have hne : (renderDef d).isEmpty = false := by rw [AttrProofs.renderDef_eq]; rfl
  unfold scanLine
  rcases hc with hc | hc <;> simp only [hs, hc, hp, hne] <;> simp

theorem scan_ba (b : BaLine) (h : wfBa b = true) : scanLine (renderBa b) = .item (.ba b) := by
  have hp := AttrProofs.parseBa_renderBa b h
  obtain ⟨attr, tgt, v⟩ := b
  have key : ∀ r : Str, EndsSemi r → scanLine ('B' :: 'A' :: '_' :: ' ' :: '"' :: r) =
      match parseBa ('B' :: 'A' :: '_' :: ' ' :: '"' :: r) with
      | some b => .item (.ba b)
      | none => if baMismatch ('B' :: 'A' :: '_' :: ' ' :: '"' :: r) == .errorPrinted then .error else .skip := by
    intro r hr
    have hs : stripWs ('B' :: 'A' :: '_' :: ' ' :: '"' :: r) = 'B' :: 'A' :: '_' :: ' ' :: '"' :: r :=
      stripWs_semi _ 'B' rfl (by decide) (by ends_semi; exact hr)
    have hc : classify ('B' :: 'A' :: '_' :: ' ' :: '"' :: r) = .ba := by
      unfold classify; rw [hs]; simp [startsWith, cmClass]
    unfold scanLine
    simp only [hs, hc]
    simp only [List.isEmpty_cons, Bool.false_eq_true, if_false]
    rfl
  cases tgt with
  | global => rw [AttrProofs.renderBa_global] at hp ⊢; rw [key _ (by ends_semi), hp]
  | ecu n => rw [AttrProofs.renderBa_ecu] at hp ⊢; rw [key _ (by ends_semi), hp]
  | frame id => rw [AttrProofs.renderBa_frame] at hp ⊢; rw [key _ (by ends_semi), hp]
  | signal id n => rw [AttrProofs.renderBa_signal] at hp ⊢; rw [key _ (by ends_semi), hp]

theorem scan_bo (b : BoLine) (h : wfBo b = true) : scanLine (renderBo b) = .item (.bo b) := by
  have hp := parseBo_renderBo b h
  have hc := classify_renderBo b h
  have hs := stripWs_renderBo b h
  have hne : (renderBo b).isEmpty = false := by rw [renderBo_eq]; rfl
  rw [hs] at hp
  unfold scanLine
  simp only [hc, hs, hne, hp]
  simp

theorem scan_sg (s : SgLine) (h : wfSg s = true) : scanLine (renderSg s) = .item (.sg (rereadSg s)) := by
  have hp := parseSg_renderSg s h
  have hc := classify_renderSg s h
  obtain ⟨_, _, h3, h4⟩ := wfSg_unpack h
  have hne : (stripWs (renderSg s)).isEmpty = false := by rw [stripWs_renderSg s h3 h4]; rfl
  unfold scanLine
  simp only [hc, hp, hne]
  simp

theorem lit_val : "VAL_ ".toList = ['V', 'A', 'L', '_', ' '] := by decide

theorem scan_val (v : ValLine) (h : wfVal v = true) (hne : v.entries ≠ []) : scanLine (renderVal v) = .item (.val v) := by
  have hp := ValProofs.val_line_roundtrip_of_ne v h hne
  obtain ⟨r, hr, he⟩ : ∃ r, renderVal v = 'V' :: 'A' :: 'L' :: '_' :: ' ' :: r ∧ EndsSemi r := by
    refine ⟨natDigits v.id ++ ' ' :: v.name ++ (v.entries.flatMap fun (k, t) => ' ' :: intDigits k ++ " \"".toList ++ escapeQuotes t ++ ['"']) ++ [';'], ?_, by ends_semi⟩
    unfold renderVal
    rw [lit_val]
    simp only [List.append_assoc, List.cons_append, List.nil_append]
  have hs : stripWs (renderVal v) = renderVal v := by
    rw [hr]; exact stripWs_semi _ 'V' rfl (by decide) (by ends_semi; exact he)
  have hc : classify (renderVal v) = .val := by
    unfold classify; rw [hs, hr]; simp [startsWith, cmClass]
  rw [hs] at hp
  unfold scanLine
  simp only [hs, hc, hp]
  rw [hr]; simp

theorem dropWhile_append_stop (p : Char → Bool) (u v : Str) (c : Char) (hv : v.head? = some c) (hc : p c = false) :
    (u ++ v).dropWhile p = u.dropWhile p ++ v := by
  induction u with
  | nil =>
    cases v with
    | nil => simp at hv
    | cons x t => simp at hv; subst hv; simp [hc]
  | cons a u ih =>
    by_cases ha : p a = true
    · simp [ha, ih]
    · simp [ha]

/-- a head that begins and ends with a non-blank character is kept by `strip()`; only the end of the body is stripped -/
theorem stripWs_head_body (a b : Str) (x y : Char) (hx : a.head? = some x) (hy : a.getLast? = some y)
    (hxw : isWs x = false) (hyw : isWs y = false) : stripWs (a ++ b) = a ++ rstripWs b := by
  unfold stripWs rstripWs
  have e1 : (a ++ b).dropWhile isWs = a ++ b := by
    cases a with
    | nil => simp at hx
    | cons c t => simp at hx; subst hx; simp [hxw]
  rw [e1, List.reverse_append]
  have hh : a.reverse.head? = some y := by rw [List.head?_reverse]; exact hy
  rw [dropWhile_append_stop isWs b.reverse a.reverse y hh hyw]
  simp


/-! ## `BU_:` -/

theorem lit_bu : "BU_: ".toList = ['B', 'U', '_', ':', ' '] := by decide

theorem renderBu_shift (names : List Str) :
    (' ' :: names.flatMap fun n => n ++ [' ']) = (names.flatMap fun n => ' ' :: n) ++ [' '] := by
  induction names with
  | nil => rfl
  | cons n r ih =>
    have : n ++ ' ' :: (r.flatMap fun n => n ++ [' ']) = n ++ ((r.flatMap fun n => ' ' :: n) ++ [' ']) := by rw [ih]
    simp only [List.flatMap_cons, List.append_assoc, List.cons_append, List.nil_append, List.singleton_append]
    rw [this]

theorem lastOK_members (names : List Str) (hne : names ≠ []) (h : ∀ n ∈ names, isIdent n = true) :
    LastOK (names.flatMap fun n => ' ' :: n) := by
  induction names with
  | nil => exact absurd rfl hne
  | cons n r ih =>
    simp only [List.flatMap_cons]
    cases r with
    | nil => simp only [List.flatMap_nil, List.append_nil]; exact LastOK.cons ' ' (LastOK.of_isIdent (h n (by simp)))
    | cons m r' => exact LastOK.append _ (ih (by simp) (fun x hx => h x (List.mem_cons_of_mem _ hx)))

theorem stripWs_renderBu (names : List Str) (h : ∀ n ∈ names, isIdent n = true) :
    stripWs (renderBu names) = 'B' :: 'U' :: '_' :: ':' :: (names.flatMap fun n => ' ' :: n) := by
  unfold renderBu
  rw [lit_bu]
  simp only [List.cons_append, List.nil_append]
  rw [renderBu_shift]
  have e : 'B' :: 'U' :: '_' :: ':' :: ((names.flatMap fun n => ' ' :: n) ++ [' ']) =
      ('B' :: 'U' :: '_' :: ':' :: (names.flatMap fun n => ' ' :: n)) ++ [' '] := by simp
  rw [e]
  cases names with
  | nil => decide
  | cons n r =>
    obtain ⟨c, hc, hi⟩ := (lastOK_members (n :: r) (by simp) h).cons ':' |>.cons '_' |>.cons 'U' |>.cons 'B'
    rw [stripWs_head_body _ _ 'B' c rfl hc (by decide) (identChar_not_ws hi)]
    simp [rstripWs, isWs]

theorem scan_bu (names : List Str) (h : ∀ n ∈ names, isIdent n = true ∧ n.length ≥ 2) :
    scanLine (renderBu names) = .item (.bu names) := by
  have hid : ∀ n ∈ names, isIdent n = true := fun n hn => (h n hn).1
  have hs := stripWs_renderBu names hid
  have hc : classify (renderBu names) = .bu := by
    unfold classify; rw [hs]; simp [startsWith, cmClass]
  unfold scanLine
  simp only [hs, hc]
  simp only [List.isEmpty_cons, Bool.false_eq_true, if_false]
  congr 2
  unfold parseBu splitRaw
  simp only [List.drop_succ_cons, List.drop_zero]
  rw [TableProofs.splitRaw_go_members names [] (fun m hm c hc => identChar_ne_space (isIdent_all (hid m hm) c hc))]
  simp only [List.reverse_nil, List.filter_cons]
  have hnil : ((stripWs ([] : Str)).length > 1) = False := by simp [stripWs]
  simp only [show decide ((stripWs ([] : Str)).length > 1) = false by decide, Bool.false_eq_true, if_false]
  apply List.filter_eq_self.mpr
  intro n hn
  rw [stripWs_ident (hid n hn)]
  have := (h n hn).2
  simp only [gt_iff_lt, decide_eq_true_eq]
  omega

/-! ## the file as a fold of effects -/

theorem addDefine_pending (m : RMatrix) (d : DefLine) : (addDefine m d).pending = m.pending := by
  unfold addDefine
  repeat' split
  all_goals rfl

theorem applyCore_pending (m : RMatrix) (it : Item) (h : m.pending = none) (hi : ∀ hd first, it ≠ .cmOpen hd first) :
    (applyCore m it).pending = none := by
  cases it with
  | cmOpen hd first => exact absurd rfl (hi hd first)
  | cm hd text => cases hd <;> (simp only [applyCore]; repeat' split) <;> exact h
  | adef d => simp only [applyCore]; rw [addDefine_pending]; exact h
  | _ =>
    simp only [applyCore]
    repeat' split
    all_goals exact h

theorem applyItem_pending (m : RMatrix) (it : Item) (h : m.pending = none) (hi : ∀ hd first, it ≠ .cmOpen hd first) :
    (applyItem m it).pending = none := by
  unfold applyItem
  repeat' split
  all_goals first | exact h | exact applyCore_pending m it h hi

theorem item_not_open (s : Stmt) (it : Item) (h : s.item = some it) : ∀ hd first, it ≠ .cmOpen hd first := by
  intro hd first e
  subst e
  cases s <;> simp [Stmt.item] at h

/-- the scan of a written statement -/
theorem scan_stmt (s : Stmt) (h : s.wf = true) :
    scanLine s.line = match s.item with
      | some it => .item it
      | none => .skip := by
  cases s with
  | bo b => exact scan_bo b h
  | sg s => exact scan_sg s h
  | gap => simp [Stmt.line, Stmt.item, scanLine, stripWs]
  | tx t => exact scan_tx t h
  | val v =>
    simp only [Stmt.wf, Bool.and_eq_true, Bool.not_eq_true', List.isEmpty_eq_false_iff] at h
    exact scan_val v h.1 h.2
  | vt v => exact scan_vt v h
  | adef d => exact scan_def d h
  | defdef d => exact scan_defdef d h
  | ba b => exact scan_ba b h
  | grp g => exact scan_grp g h
  | valtype v => exact scan_valtype v h
  | mul m =>
    simp only [Stmt.wf, Bool.and_eq_true, Bool.not_eq_true', List.isEmpty_eq_false_iff] at h
    exact scan_mul m h.1 h.2
  | bu names =>
    simp only [Stmt.wf, List.all_eq_true, Bool.and_eq_true, decide_eq_true_eq] at h
    exact scan_bu names h

theorem step_stmt (m : RMatrix) (s : Stmt) (hm : m.pending = none) (h : s.wf = true) :
    stepFile m s.line = applyStmt m s := by
  unfold stepFile applyStmt
  rw [hm, scan_stmt s h]
  cases s.item <;> rfl

theorem applyStmt_pending (m : RMatrix) (s : Stmt) (hm : m.pending = none) : (applyStmt m s).pending = none := by
  unfold applyStmt
  cases hi : s.item with
  | none => exact hm
  | some it => exact applyItem_pending m it hm (item_not_open s it hi)

/-- the file is read as the fold of the statements' effects -/
theorem read_statements (ss : List Stmt) (h : ∀ s ∈ ss, s.wf = true) (m : RMatrix) (hm : m.pending = none) :
    (writeStmts ss).foldl stepFile m = ss.foldl applyStmt m := by
  induction ss generalizing m with
  | nil => rfl
  | cons s ss ih =>
    simp only [writeStmts, List.map_cons, List.foldl_cons]
    rw [step_stmt m s hm (h s (by simp))]
    exact ih (fun x hx => h x (List.mem_cons_of_mem _ hx)) _ (applyStmt_pending m s hm)

theorem step_skip (m : RMatrix) (b : Str) (hm : m.pending = none) (hb : scanLine b = .skip) : stepFile m b = m := by
  unfold stepFile; rw [hm, hb]

theorem step_error (m : RMatrix) (b : Str) (hm : m.pending = none) (hb : scanLine b = .error) : stepFile m b = m.err := by
  unfold stepFile; rw [hm, hb]

theorem writeStmts_cons_inv {l : Str} {ls : List Str} {ss : List Stmt} (h : l :: ls = writeStmts ss) :
    ∃ s ss', ss = s :: ss' ∧ l = s.line ∧ ls = writeStmts ss' := by
  cases ss with
  | nil => simp [writeStmts] at h
  | cons s ss' =>
    simp only [writeStmts, List.map_cons, List.cons.injEq] at h
    exact ⟨s, ss', rfl, h.1, h.2⟩

/-- lines that the reader skips (unknown keyword, empty, a pattern that fails behind a guard), scattered anywhere between the
statements, do not change what is read -/
theorem read_with_skipped (isBad : Str → Bool) (hbad : ∀ b, isBad b = true → scanLine b = .skip)
    (ls : List Str) (ss : List Stmt) (hl : ls.filter (fun l => !isBad l) = writeStmts ss) (h : ∀ s ∈ ss, s.wf = true)
    (m : RMatrix) (hm : m.pending = none) :
    ls.foldl stepFile m = ss.foldl applyStmt m := by
  induction ls generalizing ss m with
  | nil =>
    cases ss with
    | nil => rfl
    | cons s ss' => simp [writeStmts] at hl
  | cons l ls ih =>
    by_cases hb : isBad l = true
    · simp only [List.filter_cons, hb, Bool.not_true, Bool.false_eq_true, if_false] at hl
      rw [List.foldl_cons, step_skip m l hm (hbad l hb)]
      exact ih ss hl h m hm
    · have hb' : isBad l = false := by simpa using hb
      simp only [List.filter_cons, hb', Bool.not_false, if_true] at hl
      obtain ⟨s, ss', rfl, rfl, hrest⟩ := writeStmts_cons_inv hl
      rw [List.foldl_cons, List.foldl_cons, step_stmt m s hm (h s (by simp))]
      exact ih ss' hrest (fun x hx => h x (List.mem_cons_of_mem _ hx)) _ (applyStmt_pending m s hm)

/-- cutting the file between two statements: what has been read from the prefix is what the complete file passes through -/
theorem read_prefix (pre post : List Stmt) :
    readFile (writeStmts (pre ++ post)) = (writeStmts post).foldl stepFile (readFile (writeStmts pre)) := by
  unfold readFile writeStmts
  rw [List.map_append, List.foldl_append]

/-! ## the error counter is write-only -/

/-- the same matrix with `k` more printed errors -/
def addErr (m : RMatrix) (k : Nat) : RMatrix := { m with errors := m.errors + k }

@[simp] theorem addErr_frames (m : RMatrix) (k : Nat) : (addErr m k).frames = m.frames := rfl
@[simp] theorem addErr_ecus (m : RMatrix) (k : Nat) : (addErr m k).ecus = m.ecus := rfl
@[simp] theorem addErr_defs (m : RMatrix) (k : Nat) : (addErr m k).defs = m.defs := rfl
@[simp] theorem addErr_attrs (m : RMatrix) (k : Nat) : (addErr m k).attrs = m.attrs := rfl
@[simp] theorem addErr_tables (m : RMatrix) (k : Nat) : (addErr m k).tables = m.tables := rfl
@[simp] theorem addErr_cur (m : RMatrix) (k : Nat) : (addErr m k).cur = m.cur := rfl
@[simp] theorem addErr_pending (m : RMatrix) (k : Nat) : (addErr m k).pending = m.pending := rfl
@[simp] theorem frameIdx_addErr (m : RMatrix) (k n : Nat) : frameIdx (addErr m k) n = frameIdx m n := rfl
@[simp] theorem ecuIdx_addErr (m : RMatrix) (k : Nat) (n : Str) : ecuIdx (addErr m k) n = ecuIdx m n := rfl
@[simp] theorem numericOk_addErr (m : RMatrix) (k : Nat) (l : Level) (a v : Str) : numericOk (addErr m k) l a v = numericOk m l a v := rfl

theorem addErr_err (m : RMatrix) (k : Nat) : (addErr m k).err = addErr m.err k := by
  simp [addErr, RMatrix.err, Nat.add_right_comm]

macro "close_err" : tactic =>
  `(tactic| first | rfl | (simp only [addErr, RMatrix.err, RMatrix.modFrame, Nat.add_right_comm]; done) | (simp only [addErr, RMatrix.err, RMatrix.modFrame, Nat.add_right_comm]; rfl))

theorem addDefine_addErr (m : RMatrix) (k : Nat) (d : DefLine) : addDefine (addErr m k) d = addErr (addDefine m d) k := by
  unfold addDefine
  by_cases h1 : (m.defs.any fun x => x.level == d.level && x.name == d.name) = true
  · have h1' : ((addErr m k).defs.any fun x => x.level == d.level && x.name == d.name) = true := h1
    rw [if_pos h1', if_pos h1]
  · have h1' : ¬ ((addErr m k).defs.any fun x => x.level == d.level && x.name == d.name) = true := h1
    rw [if_neg h1', if_neg h1]
    by_cases h2 : (!defineOk d.definition) = true
    · rw [if_pos h2, if_pos h2]; exact addErr_err m k
    · rw [if_neg h2, if_neg h2]; rfl

theorem applyCore_addErr (m : RMatrix) (k : Nat) (it : Item) : applyCore (addErr m k) it = addErr (applyCore m it) k := by
  cases it with
  | cm hd text =>
    cases hd <;> simp only [applyCore, frameIdx_addErr, ecuIdx_addErr, addErr_frames, addErr_ecus] <;> (repeat' split) <;> close_err
  | cmOpen hd text =>
    cases hd <;> simp only [applyCore, frameIdx_addErr, ecuIdx_addErr, addErr_frames, addErr_ecus] <;> (repeat' split) <;> close_err
  | adef d => simp only [applyCore]; exact addDefine_addErr m k d
  | ba b =>
    obtain ⟨attr, tgt, v⟩ := b
    cases tgt with
    | global =>
      simp only [applyCore]
      by_cases h : numericOk m .global attr v = true
      · have h' : numericOk (addErr m k) .global attr v = true := h
        rw [if_pos h', if_pos h]; rfl
      · have h' : ¬ numericOk (addErr m k) .global attr v = true := h
        rw [if_neg h', if_neg h]; exact addErr_err m k
    | ecu n =>
      simp only [applyCore]
      by_cases h : (!numericOk m .ecu attr v) = true
      · have h' : (!numericOk (addErr m k) .ecu attr v) = true := h
        rw [if_pos h', if_pos h]; exact addErr_err m k
      · have h' : ¬ (!numericOk (addErr m k) .ecu attr v) = true := h
        rw [if_neg h', if_neg h]
        simp only [ecuIdx_addErr, addErr_ecus]
        split <;> close_err
    | frame id =>
      simp only [applyCore]
      by_cases h : (!numericOk m .frame attr v) = true
      · have h' : (!numericOk (addErr m k) .frame attr v) = true := h
        rw [if_pos h', if_pos h]; exact addErr_err m k
      · have h' : ¬ (!numericOk (addErr m k) .frame attr v) = true := h
        rw [if_neg h', if_neg h]
        simp only [frameIdx_addErr]
        split <;> close_err
    | signal id n =>
      simp only [applyCore]
      by_cases h : (!numericOk m .signal attr v) = true
      · have h' : (!numericOk (addErr m k) .signal attr v) = true := h
        rw [if_pos h', if_pos h]; exact addErr_err m k
      · have h' : ¬ (!numericOk (addErr m k) .signal attr v) = true := h
        rw [if_neg h', if_neg h]
        simp only [frameIdx_addErr, addErr_frames]
        (repeat' split) <;> close_err
  | defdef name value =>
    simp only [applyCore]
    by_cases h : ([Level.signal, Level.frame, Level.ecu, Level.global].all fun l => numericOk m l name value) = true
    · have h' : ([Level.signal, Level.frame, Level.ecu, Level.global].all fun l => numericOk (addErr m k) l name value) = true := h
      rw [if_pos h', if_pos h]; rfl
    · have h' : ¬ ([Level.signal, Level.frame, Level.ecu, Level.global].all fun l => numericOk (addErr m k) l name value) = true := h
      rw [if_neg h', if_neg h]; exact addErr_err m k
  | mulBad id =>
    simp only [applyCore]
    by_cases h : (frameIdx m id).isSome = true
    · have h' : (frameIdx (addErr m k) id).isSome = true := h
      rw [if_pos h', if_pos h]; close_err
    · have h' : ¬ (frameIdx (addErr m k) id).isSome = true := h
      rw [if_neg h', if_neg h]; rfl
  | _ =>
    simp only [applyCore, frameIdx_addErr, addErr_frames, addErr_ecus, addErr_defs, addErr_tables, addErr_cur]
    repeat' split
    all_goals close_err

theorem applyItem_addErr (m : RMatrix) (k : Nat) (it : Item) : applyItem (addErr m k) it = addErr (applyItem m it) k := by
  unfold applyItem
  cases it.frameNo with
  | none => exact applyCore_addErr m k it
  | some n =>
    simp only
    by_cases h : (keyOfCompound n).isNone = true
    · rw [if_pos h, if_pos h]
      cases it <;> first | rfl | exact addErr_err m k
    · rw [if_neg h, if_neg h]; exact applyCore_addErr m k it

theorem closeComment_addErr (m : RMatrix) (k : Nat) (t : CmTarget) (text : Str) :
    closeComment (addErr m k) t text = addErr (closeComment m t text) k := by
  unfold closeComment
  cases t with
  | sig fi si => cases si <;> rfl
  | frame fi => cases fi <;> rfl
  | ecu ei => rfl

/-- the error counter is write-only: a step on a matrix with `k` more errors is the step with `k` more errors -/
theorem stepFile_addErr (m : RMatrix) (k : Nat) (line : Str) : stepFile (addErr m k) line = addErr (stepFile m line) k := by
  unfold stepFile
  simp only [addErr_pending]
  cases hp : m.pending with
  | some p =>
    obtain ⟨t, acc⟩ := p
    simp only
    by_cases he : endsStatement line = true
    · rw [if_pos he, if_pos he]; exact closeComment_addErr m k t _
    · rw [if_neg he, if_neg he]; rfl
  | none =>
    simp only
    cases scanLine line with
    | skip => rfl
    | error => exact addErr_err m k
    | item it => exact applyItem_addErr m k it

theorem foldl_addErr (m : RMatrix) (k : Nat) (ls : List Str) : ls.foldl stepFile (addErr m k) = addErr (ls.foldl stepFile m) k := by
  induction ls generalizing m with
  | nil => rfl
  | cons l ls ih => rw [List.foldl_cons, List.foldl_cons, stepFile_addErr, ih]

theorem addErr_zero (m : RMatrix) : addErr m 0 = m := rfl
theorem addErr_addErr (m : RMatrix) (a b : Nat) : addErr (addErr m a) b = addErr m (a + b) := by
  simp [addErr, Nat.add_assoc]
theorem err_eq_addErr (m : RMatrix) : m.err = addErr m 1 := rfl

/-- bad lines of both kinds - skipped ones and ones whose handler raises - scattered anywhere between the statements: the result is the
fold of the statements' effects, with one more printed error per raising line and no other difference -/
theorem read_with_bad (isBad : Str → Bool) (hbad : ∀ b, isBad b = true → scanLine b = .skip ∨ scanLine b = .error)
    (ls : List Str) (ss : List Stmt) (hl : ls.filter (fun l => !isBad l) = writeStmts ss) (h : ∀ s ∈ ss, s.wf = true)
    (m : RMatrix) (hm : m.pending = none) :
    ls.foldl stepFile m = addErr (ss.foldl applyStmt m) (ls.filter fun l => isBad l && scanLine l == .error).length := by
  induction ls generalizing ss m with
  | nil =>
    cases ss with
    | nil => rfl
    | cons s ss' => simp [writeStmts] at hl
  | cons l ls ih =>
    by_cases hb : isBad l = true
    · simp only [List.filter_cons, hb, Bool.not_true, Bool.false_eq_true, if_false] at hl
      rw [List.foldl_cons]
      rcases hbad l hb with hs | he
      · rw [step_skip m l hm hs, ih ss hl h m hm]
        simp [hb, hs]
      · rw [step_error m l hm he, err_eq_addErr, foldl_addErr, ih ss hl h m hm, addErr_addErr]
        simp [hb, he]
    · have hb' : isBad l = false := by simpa using hb
      simp only [List.filter_cons, hb', Bool.not_false, if_true] at hl
      obtain ⟨s, ss', rfl, rfl, hrest⟩ := writeStmts_cons_inv hl
      rw [List.foldl_cons, List.foldl_cons, step_stmt m s hm (h s (by simp))]
      rw [ih ss' hrest (fun x hx => h x (List.mem_cons_of_mem _ hx)) _ (applyStmt_pending m s hm)]
      simp [hb']

/-! ## comments over one or several lines at file level -/

/-- the follow-up lines of a comment at file level: the middle lines are appended, the last one closes the comment -/
theorem pending_lines (m : RMatrix) (tgt : CmTarget) (mid : List Str) (last acc : Str)
    (hmid : ∀ l ∈ mid, endsStatement (escapeQuotes l) = false) (hlast : last.getLast? ≠ some '\\') :
    (mid.map escapeQuotes ++ [escapeQuotes last ++ ['"', ';']]).foldl stepFile { m with pending := some (tgt, acc) } =
      closeComment m tgt (acc ++ '\n' :: joinLines (mid ++ [last])) := by
  induction mid generalizing acc with
  | nil =>
    simp only [List.map_nil, List.nil_append, List.foldl_cons, List.foldl_nil, joinLines]
    unfold stepFile
    simp only [endsStatement_close, if_true]
    rw [unescape_escape_close _ hlast]
    have e : acc ++ '\n' :: (last ++ ['"', ';']) = (acc ++ '\n' :: last) ++ ['"', ';'] := by simp
    rw [e, dropClosing_close]
    rfl
  | cons l mid ih =>
    simp only [List.map_cons, List.cons_append, List.foldl_cons]
    have hstep : stepFile { m with pending := some (tgt, acc) } (escapeQuotes l) =
        { m with pending := some (tgt, acc ++ '\n' :: l) } := by
      unfold stepFile
      simp only [hmid l (by simp), unescape_escape, Bool.false_eq_true, if_false]
    rw [hstep, ih _ (fun x hx => hmid x (List.mem_cons_of_mem _ hx)), joinLines_cons l _ (by simp)]
    simp

theorem lit_cm_bo : "CM_ BO_ ".toList = ['C', 'M', '_', ' ', 'B', 'O', '_', ' '] := by decide
theorem lit_cm_sg : "CM_ SG_ ".toList = ['C', 'M', '_', ' ', 'S', 'G', '_', ' '] := by decide
theorem lit_cm_bu : "CM_ BU_ ".toList = ['C', 'M', '_', ' ', 'B', 'U', '_', ' '] := by decide
theorem lit_sq2 : "  \"".toList = [' ', ' ', '"'] := by decide
theorem lit_sq1 : " \"".toList = [' ', '"'] := by decide

theorem tokenSp_tok (tok r : Str) (hne : tok ≠ []) (h : ∀ c ∈ tok, isBlank c = false) :
    tokenSp (tok ++ ' ' :: r) = some (tok, skipSp r) := by
  unfold tokenSp
  rw [StmtProofs.span_tok tok r h]
  cases tok with
  | nil => exact absurd rfl hne
  | cons c t => rfl

theorem isDig_not_blank {c : Char} (h : IsDig c) : isBlank c = false := by
  cases hb : isBlank c with
  | false => rfl
  | true =>
    exfalso
    simp only [isBlank, isWs, Bool.or_eq_true, beq_iff_eq] at hb
    rcases hb with (((((rfl | rfl) | rfl) | rfl)) | rfl) | rfl <;> (revert h; unfold IsDig; decide)

theorem digits_not_blank (n : Nat) : ∀ c ∈ natDigits n, isBlank c = false :=
  fun c hc => isDig_not_blank (natDigits_allDig n c hc)

theorem ident_not_blank {s : Str} (h : isIdent s = true) : ∀ c ∈ s, isBlank c = false :=
  fun c hc => ValProofs.isBlank_of_identChar c (isIdent_all h c hc)

/-- the head of a frame comment is read back, whatever follows the opening quote -/
theorem parseCmHead_bo (id : Nat) (body : Str) :
    parseCmHead .cmBo (renderCmHead (.bo id) ++ body) = some (some (.bo id), body) := by
  unfold parseCmHead renderCmHead
  rw [lit_cm_bo, lit_sq2]
  simp only [List.cons_append, List.nil_append, List.append_assoc, List.drop_succ_cons, List.drop_zero]
  rw [skipSp_space, skipSp_of_ne 'B' _ (by decide)]
  simp only [List.drop_succ_cons, List.drop_zero]
  rw [skipSp_space, skipSp_natDigits]
  rw [tokenSp_tok (natDigits id) _ (natDigits_ne_nil id) (digits_not_blank id)]
  rw [skipSp_space, skipSp_of_ne '"' _ (by decide)]
  simp only [digitsToNat_natDigits', Option.map_some]

theorem parseCmHead_sg (id : Nat) (name body : Str) (hn : isIdent name = true) :
    parseCmHead .cmSg (renderCmHead (.sg id name) ++ body) = some (some (.sg id name), body) := by
  unfold parseCmHead renderCmHead
  rw [lit_cm_sg, lit_sq1]
  simp only [List.cons_append, List.nil_append, List.append_assoc, List.drop_succ_cons, List.drop_zero]
  rw [skipSp_space, skipSp_of_ne 'S' _ (by decide)]
  simp only [List.drop_succ_cons, List.drop_zero]
  rw [skipSp_space, skipSp_natDigits]
  rw [tokenSp_tok (natDigits id) _ (natDigits_ne_nil id) (digits_not_blank id)]
  have hne := isIdent_ne_nil hn
  obtain ⟨c, t, rfl⟩ := List.exists_cons_of_ne_nil hne
  have hc : c ≠ ' ' := identChar_ne_space (isIdent_all hn c (by simp))
  rw [List.cons_append, skipSp_of_ne c _ hc, ← List.cons_append]
  simp only
  rw [tokenSp_tok (c :: t) _ (by simp) (ident_not_blank hn)]
  rw [skipSp_of_ne '"' _ (by decide)]
  simp only [digitsToNat_natDigits', Option.map_some]

theorem parseCmHead_bu (name body : Str) (hn : isIdent name = true) :
    parseCmHead .cmBu (renderCmHead (.bu name) ++ body) = some (some (.bu name), body) := by
  unfold parseCmHead renderCmHead
  rw [lit_cm_bu, lit_sq1]
  simp only [List.cons_append, List.nil_append, List.append_assoc, List.drop_succ_cons, List.drop_zero]
  rw [skipSp_space, skipSp_of_ne 'B' _ (by decide)]
  simp only [List.drop_succ_cons, List.drop_zero]
  have hne := isIdent_ne_nil hn
  obtain ⟨c, t, rfl⟩ := List.exists_cons_of_ne_nil hne
  have hc : c ≠ ' ' := identChar_ne_space (isIdent_all hn c (by simp))
  rw [skipSp_space, List.cons_append, skipSp_of_ne c _ hc, ← List.cons_append]
  rw [tokenSp_tok (c :: t) _ (by simp) (ident_not_blank hn)]
  rw [skipSp_of_ne '"' _ (by decide)]
  rfl

/-- the kind of line a comment head makes -/
def kindOfHead : CmHead → LineKind
  | .sg _ _ => .cmSg
  | .bo _ => .cmBo
  | .bu _ => .cmBu

theorem parseCmHead_render (h : CmHead) (body : Str) (hw : wfCmHead h = true) :
    parseCmHead (kindOfHead h) (renderCmHead h ++ body) = some (some h, body) := by
  cases h with
  | sg id name => exact parseCmHead_sg id name body hw
  | bo id => exact parseCmHead_bo id body
  | bu name => exact parseCmHead_bu name body hw

theorem renderCmHead_shape (h : CmHead) :
    ∃ x r, renderCmHead h = 'C' :: 'M' :: '_' :: ' ' :: x :: (r ++ ['"']) ∧
      ((h = h ∧ x = 'S' ∧ ∃ r', r = 'G' :: '_' :: ' ' :: r' ∧ kindOfHead h = .cmSg) ∨
       (x = 'B' ∧ ∃ r', r = 'O' :: '_' :: ' ' :: r' ∧ kindOfHead h = .cmBo) ∨
       (x = 'B' ∧ ∃ r', r = 'U' :: '_' :: ' ' :: r' ∧ kindOfHead h = .cmBu)) := by
  cases h with
  | sg id name =>
    refine ⟨'S', 'G' :: '_' :: ' ' :: (natDigits id ++ ' ' :: name ++ [' ']), ?_, Or.inl ⟨rfl, rfl, _, rfl, rfl⟩⟩
    unfold renderCmHead; rw [lit_cm_sg, lit_sq1]; simp
  | bo id =>
    refine ⟨'B', 'O' :: '_' :: ' ' :: (natDigits id ++ [' ', ' ']), ?_, Or.inr (Or.inl ⟨rfl, _, rfl, rfl⟩)⟩
    unfold renderCmHead; rw [lit_cm_bo, lit_sq2]; simp
  | bu name =>
    refine ⟨'B', 'U' :: '_' :: ' ' :: (name ++ [' ']), ?_, Or.inr (Or.inr ⟨rfl, _, rfl, rfl⟩)⟩
    unfold renderCmHead; rw [lit_cm_bu, lit_sq1]; simp

theorem head_first_last (h : CmHead) : (renderCmHead h).head? = some 'C' ∧ (renderCmHead h).getLast? = some '"' := by
  obtain ⟨x, r, hr, _⟩ := renderCmHead_shape h
  rw [hr]
  refine ⟨rfl, ?_⟩
  have : 'C' :: 'M' :: '_' :: ' ' :: x :: (r ++ ['"']) = ('C' :: 'M' :: '_' :: ' ' :: x :: r) ++ ['"'] := by simp
  rw [this, List.getLast?_append]; rfl

theorem classify_head (h : CmHead) (rest : Str) (l : Str) (hs : stripWs l = renderCmHead h ++ rest) :
    classify l = kindOfHead h := by
  obtain ⟨x, r, hr, hk⟩ := renderCmHead_shape h
  unfold classify
  rw [hs, hr]
  rcases hk with ⟨_, rfl, r', rfl, hk⟩ | ⟨rfl, r', rfl, hk⟩ | ⟨rfl, r', rfl, hk⟩ <;> rw [hk] <;> simp [startsWith, cmClass]

/-- a comment that fits one line -/
theorem scan_cm_one (h : CmHead) (t : Str) (hw : wfCmHead h = true) :
    scanLine (renderCmHead h ++ (escapeQuotes t ++ ['"', ';'])) = .item (.cm h t) := by
  obtain ⟨h1, h2⟩ := head_first_last h
  have hs : stripWs (renderCmHead h ++ (escapeQuotes t ++ ['"', ';'])) = renderCmHead h ++ (escapeQuotes t ++ ['"', ';']) := by
    rw [stripWs_head_body _ _ 'C' '"' h1 h2 (by decide) (by decide), rstripWs_close]
  have hc := classify_head h _ _ hs
  have hne : (renderCmHead h ++ (escapeQuotes t ++ ['"', ';'])).isEmpty = false := by
    cases hh : renderCmHead h with
    | nil => rw [hh] at h1; simp at h1
    | cons c r => rfl
  have hcl : closeOnLine (escapeQuotes t ++ ['"', ';']) = some (escapeQuotes t) := by
    have := close_on_line (escapeQuotes t)
    rwa [rstripWs_close] at this
  unfold scanLine
  simp only [hs, hne, hc]
  cases h <;> simp only [kindOfHead, Bool.false_eq_true, if_false] <;>
    (first
      | (rw [show LineKind.cmSg = kindOfHead (.sg _ _) from rfl, parseCmHead_render _ _ hw])
      | (rw [show LineKind.cmBo = kindOfHead (.bo _) from rfl, parseCmHead_render _ _ hw])
      | (rw [show LineKind.cmBu = kindOfHead (.bu _) from rfl, parseCmHead_render _ _ hw])) <;>
    simp only [hcl, unescape_escape]

theorem lstripWs_head (h : CmHead) (rest : Str) : lstripWs (renderCmHead h ++ rest) = renderCmHead h ++ rest := by
  obtain ⟨x, r, hr, _⟩ := renderCmHead_shape h
  rw [hr]; rfl

/-- the first line of a comment that runs over several lines -/
theorem scan_cm_open (h : CmHead) (l0 : Str) (hw : wfCmHead h = true) (h0 : quoteThenSemi l0 = false) :
    scanLine (renderCmHead h ++ escapeQuotes l0) = .item (.cmOpen h l0) := by
  obtain ⟨h1, h2⟩ := head_first_last h
  have hs : stripWs (renderCmHead h ++ escapeQuotes l0) = renderCmHead h ++ rstripWs (escapeQuotes l0) :=
    stripWs_head_body _ _ 'C' '"' h1 h2 (by decide) (by decide)
  have hc := classify_head h _ _ hs
  have hne : (renderCmHead h ++ rstripWs (escapeQuotes l0)).isEmpty = false := by
    cases hh : renderCmHead h with
    | nil => rw [hh] at h1; simp at h1
    | cons c r => rfl
  have hcl := first_line_open l0 h0
  unfold scanLine
  simp only [hs, hne, hc, lstripWs_head]
  cases h <;> simp only [kindOfHead, Bool.false_eq_true, if_false] <;>
    (first
      | (rw [show LineKind.cmSg = kindOfHead (.sg _ _) from rfl, parseCmHead_render _ _ hw, parseCmHead_render _ _ hw])
      | (rw [show LineKind.cmBo = kindOfHead (.bo _) from rfl, parseCmHead_render _ _ hw, parseCmHead_render _ _ hw])
      | (rw [show LineKind.cmBu = kindOfHead (.bu _) from rfl, parseCmHead_render _ _ hw, parseCmHead_render _ _ hw])) <;>
    simp only [hcl, unescape_escape]

theorem pending_none_eq (m : RMatrix) (hm : m.pending = none) : { m with pending := none } = m := by
  cases m; simp_all

theorem frameIdx_some_key (m : RMatrix) (id fi : Nat) (h : frameIdx m id = some fi) : (keyOfCompound id).isSome = true := by
  unfold frameIdx at h
  cases hk : keyOfCompound id with
  | none => rw [hk] at h; simp at h
  | some k => rfl

/-- opening a comment over several lines and closing it with the complete text is giving the comment on one line -/
def cmOpenOk (m : RMatrix) : CmHead → Bool
  | .sg id _ => (frameIdx m id).isSome
  | .bo id => (keyOfCompound id).isSome
  | .bu name => (ecuIdx m name).isSome

theorem open_close (m : RMatrix) (h : CmHead) (l0 text : Str) (hm : m.pending = none) (hok : cmOpenOk m h = true) :
    ∃ m' tgt, applyItem m (.cmOpen h l0) = { m' with pending := some (tgt, l0) } ∧
      closeComment m' tgt text = applyItem m (.cm h text) := by
  cases h with
  | sg id name =>
    simp only [cmOpenOk] at hok
    obtain ⟨fi, hfi⟩ := Option.isSome_iff_exists.mp hok
    have hk := frameIdx_some_key m id fi hfi
    have hkn : ((keyOfCompound id).isNone) = false := by
      cases hkk : keyOfCompound id with
      | none => rw [hkk] at hk; simp at hk
      | some k => rfl
    refine ⟨{ m with cur := some fi }, .sig fi ((m.frames[fi]?).bind (sigIdx · name)), ?_, ?_⟩
    · simp only [applyItem, Item.frameNo, hkn, Bool.false_eq_true, if_false, applyCore, hfi]
    · simp only [applyItem, Item.frameNo, hkn, Bool.false_eq_true, if_false, applyCore, hfi, closeComment]
      cases hsi : (m.frames[fi]?).bind (sigIdx · name) with
      | none => simp only [hm]
      | some si => simp only [hm]
  | bo id =>
    simp only [cmOpenOk] at hok
    have hkn : ((keyOfCompound id).isNone) = false := by
      cases hkk : keyOfCompound id with
      | none => rw [hkk] at hok; simp at hok
      | some k => rfl
    refine ⟨{ m with cur := frameIdx m id }, .frame (frameIdx m id), ?_, ?_⟩
    · simp only [applyItem, Item.frameNo, hkn, Bool.false_eq_true, if_false, applyCore]
    · simp only [applyItem, Item.frameNo, hkn, Bool.false_eq_true, if_false, applyCore, closeComment]
      cases hfi : frameIdx m id with
      | none => simp only [hm]
      | some fi => simp only [hm]
  | bu name =>
    simp only [cmOpenOk] at hok
    obtain ⟨ei, hei⟩ := Option.isSome_iff_exists.mp hok
    refine ⟨m, .ecu ei, ?_, ?_⟩
    · simp only [applyItem, Item.frameNo, applyCore, hei]
    · simp only [applyItem, Item.frameNo, applyCore, hei, closeComment]
      simp only [hm]

theorem stepFile_none (m : RMatrix) (l : Str) (hm : m.pending = none) :
    stepFile m l = match scanLine l with
      | .skip => m
      | .error => m.err
      | .item it => applyItem m it := by
  unfold stepFile; rw [hm]; rfl

/-- a comment statement - on one line or over several - read at a point where it can be recognised has the effect of giving the
comment to its object -/
theorem fold_cm (m : RMatrix) (h : CmHead) (text : Str) (hm : m.pending = none)
    (hok : (FileStmt.cm h text).okIn m = true) :
    (cmLines h text).foldl stepFile m = applyItem m (.cm h text) := by
  simp only [FileStmt.okIn, Bool.and_eq_true, Bool.or_eq_true, Bool.not_eq_true'] at hok
  obtain ⟨⟨hw, hwf⟩, hmulti⟩ := hok
  obtain ⟨hne, hnl, hjoin⟩ := lines_of text
  cases hls : splitLines text with
  | nil => exact absurd hls hne
  | cons l0 tl =>
    rw [hls] at hnl hjoin
    cases tl with
    | nil =>
      simp only [joinLines] at hjoin
      subst hjoin
      have hr := render_lines [] l0 (by simpa using hnl)
      simp only [List.nil_append, joinLines, List.map_nil] at hr
      unfold cmLines
      rw [hr]
      simp only [List.foldl_cons, List.foldl_nil]
      rw [stepFile_none _ _ hm, scan_cm_one h l0 hw]
    | cons l1 r =>
      have hcontains : text.contains '\n' = true := by
        rw [← hjoin]
        simp [joinLines]
      have hok' : cmOpenOk m h = true := by
        rcases hmulti with hc | hc
        · rw [hcontains] at hc; exact absurd hc (by decide)
        · cases h <;> exact hc
      unfold wfComment at hwf
      rw [hls] at hwf
      simp only [Bool.and_eq_true, Bool.not_eq_true', List.all_eq_true, bne_iff_ne, ne_eq] at hwf
      obtain ⟨_, ⟨h0, hmid⟩, hbs⟩ := hwf
      obtain ⟨mid, last, hml, hdl⟩ := snoc_of_cons l1 r
      rw [hdl] at hmid
      rw [hml] at hnl hjoin
      have hlast : last.getLast? ≠ some '\\' := by
        intro hc
        have := getLast_joinLines (l0 :: mid) last _ hc
        rw [List.cons_append, hjoin] at this
        exact hbs this
      have hr := render_lines (l0 :: mid) last (by simpa using hnl)
      rw [List.cons_append, hjoin, List.map_cons, List.cons_append] at hr
      unfold cmLines
      rw [hr]
      simp only [List.foldl_cons]
      rw [stepFile_none _ _ hm, scan_cm_open h l0 hw h0]
      simp only
      obtain ⟨m', tgt, hopen, hclose⟩ := open_close m h l0 text hm hok'
      rw [hopen, pending_lines m' tgt mid last l0 hmid hlast]
      rw [← hclose]
      congr 1
      rw [← hjoin, joinLines_cons l0 _ (by simp)]

theorem apply_pending (m : RMatrix) (f : FileStmt) (hm : m.pending = none) : (f.apply m).pending = none := by
  cases f with
  | one s => exact applyStmt_pending m s hm
  | cm h text => exact applyItem_pending m (.cm h text) hm (by intro hd first e; cases e)

theorem fold_stmt (m : RMatrix) (f : FileStmt) (hm : m.pending = none) (hok : f.okIn m = true) :
    f.lines.foldl stepFile m = f.apply m := by
  cases f with
  | one s =>
    simp only [FileStmt.lines, List.foldl_cons, List.foldl_nil, FileStmt.apply]
    exact step_stmt m s hm hok
  | cm h text => exact fold_cm m h text hm hok

/-- the whole file, comments over several lines included: reading what was written is the fold of the statements' effects -/
theorem read_file (fs : List FileStmt) (m : RMatrix) (hm : m.pending = none) (hok : okFile m fs = true) :
    (writeFile fs).foldl stepFile m = fs.foldl FileStmt.apply m := by
  induction fs generalizing m with
  | nil => rfl
  | cons f fs ih =>
    simp only [okFile, Bool.and_eq_true] at hok
    simp only [writeFile, List.flatMap_cons, List.foldl_append, List.foldl_cons]
    rw [fold_stmt m f hm hok.1]
    exact ih _ (apply_pending m f hm) hok.2

end CanVerif.Dbc.FileProofs
