import CanVerif.Model.Codec
/-!
# Model of the multiplex bookkeeping done by the DBC reader (formats/dbc.py SG_ tag parsing ~599-647,
SG_MUL_VAL_ ~900-918) and `Frame.multiplex_signals` (canmatrix.py ~1674), and of
`Signal.multiplex_setter` (constructor path).
-/
namespace CanVerif

/-- the multiplexer indicator of a DBC `SG_` line: nothing, `M`, `m<n>`, `m<n>M` -/
inductive SgTag
  | plain
  | M
  | m (n : Int)
  | mM (n : Int)
  deriving Repr, DecidableEq, Inhabited

/-- effect of the tag on a freshly constructed signal; second component: the line sets
`frame.is_complex_multiplexed` -/
def applyTag (s : Sig) : SgTag → Sig × Bool
  | .plain => ({ s with isMuxer := false, muxVal := none }, false)
  | .M => ({ s with isMuxer := true, muxVal := none }, false)
  | .m n => ({ s with isMuxer := false, muxVal := some n }, false)
  | .mM n => ({ s with isMuxer := true, muxVal := some n }, true)

/-- `SG_MUL_VAL_ <id> <signal> <muxer> a-b, c-d;` on the frame's signals (first signal of that name) -/
def applyMulVal (sigs : List Sig) (sigName muxer : String) (ranges : List (Int × Int)) : List Sig :=
  match sigs with
  | [] => []
  | s :: t =>
    if s.name == sigName then { s with muxerFor := some muxer, muxValGrp := s.muxValGrp ++ ranges } :: t
    else s :: applyMulVal t sigName muxer ranges

/-- `Frame.multiplex_signals` -/
def multiplexSignals (sigs : List Sig) : List Sig :=
  match sigs.find? (·.isMuxer) with
  | none => sigs
  | some mx =>
    sigs.map fun s =>
      if s.isMuxer || s.muxerFor.isSome then s
      else if s.muxVal.isSome then { s with muxerFor := some mx.name } else s

/-- what the DBC reader builds for one frame: `SG_` lines, then `SG_MUL_VAL_` lines, then
the post-processing call of `multiplex_signals` -/
def dbcMuxFrame (size : Nat) (lines : List (Sig × SgTag)) (mulvals : List (String × String × List (Int × Int))) : Frame :=
  let tagged := lines.map fun (s, t) => applyTag s t
  let sigs0 := tagged.map (·.1)
  let cx0 := tagged.any (·.2)
  let sigs1 := mulvals.foldl (fun acc mv => applyMulVal acc mv.1 mv.2.1 mv.2.2) sigs0
  let cx := cx0 || !mulvals.isEmpty
  { size := size, sigs := multiplexSignals sigs1, complexMux := cx }

end CanVerif
