import CanVerif.Model.Dec
import CanVerif.Spec.Scaling
import CanVerif.Proofs.Dec
/-! exactness of `Dec.div` when the quotient is a finite decimal (for Props/C15.lean `compu_rational_exact`) -/
namespace CanVerif

/-- a nonzero number is at least `10^(digits − 1)` -/
theorem pow_nd_pred_le (c : Nat) (hc : c ≠ 0) : 10 ^ (nd c - 1) ≤ c := by
  apply Nat.le_of_not_lt
  intro hlt
  by_cases h1 : nd c - 1 = 0
  · rw [h1] at hlt; simp at hlt; exact hc hlt
  · have := (nd_le_iff c (nd c - 1) (by omega)).2 hlt
    have := nd_pos c
    omega

namespace Dec

/-- one stripping step -/
theorem reduceExact_step (f m : Nat) (e ideal : Int) (hm : m ≠ 0) (h : e < ideal) :
    reduceExact (f + 1) (m * 10) e ideal = reduceExact f m (e + 1) ideal := by
  have hne : m * 10 ≠ 0 := Nat.mul_ne_zero hm (by omega)
  rw [reduceExact]
  simp only [h, decide_true, Nat.mul_mod_left, beq_self_eq_true, Bool.and_self]
  rw [Nat.mul_div_cancel _ (by omega)]
  simp only [Bool.true_and, bne_iff_ne, ne_eq, hne, not_false_eq_true, if_true]

/-- `k` known trailing zeros below the ideal exponent are stripped -/
theorem reduceExact_strip_pre (k : Nat) : ∀ (fuel n : Nat) (e ideal : Int), n ≠ 0 → k ≤ fuel → e + (k : Int) ≤ ideal →
    reduceExact fuel (n * 10 ^ k) e ideal = reduceExact (fuel - k) n (e + (k : Int)) ideal := by
  induction k with
  | zero =>
    intro fuel n e ideal _ _ _
    simp
  | succ k ih =>
    intro fuel n e ideal hn hf hid
    cases fuel with
    | zero => omega
    | succ f =>
      have hq : n * 10 ^ (k + 1) = n * 10 ^ k * 10 := by rw [Nat.pow_succ, Nat.mul_assoc]
      have hne : n * 10 ^ k ≠ 0 := Nat.mul_ne_zero hn (Nat.ne_of_gt (Nat.pow_pos (by omega)))
      rw [hq, reduceExact_step f _ e ideal hne (by omega), ih f n (e + 1) ideal hn (by omega) (by omega)]
      have h1 : f + 1 - (k + 1) = f - k := by omega
      have h2 : e + 1 + (k : Int) = e + ((k + 1 : Nat) : Int) := by omega
      rw [h1, h2]

/-- stripping keeps the value: the result is `(q', e + k)` with `q' · 10^k = q` -/
theorem reduceExact_value : ∀ (fuel q : Nat) (e ideal : Int),
    ∃ k : Nat, (reduceExact fuel q e ideal).1 * 10 ^ k = q ∧ (reduceExact fuel q e ideal).2 = e + (k : Int) := by
  intro fuel
  induction fuel with
  | zero =>
    intro q e ideal
    exact ⟨0, by simp [reduceExact], by simp [reduceExact]⟩
  | succ f ih =>
    intro q e ideal
    rw [reduceExact]
    split
    · rename_i hc
      simp only [Bool.and_eq_true, decide_eq_true_eq, beq_iff_eq, bne_iff_ne, ne_eq] at hc
      obtain ⟨k, h1, h2⟩ := ih (q / 10) (e + 1) ideal
      refine ⟨k + 1, ?_, ?_⟩
      · rw [Nat.pow_succ, ← Nat.mul_assoc, h1]
        have := hc.1.2
        omega
      · rw [h2]; omega
    · exact ⟨0, by simp, by simp⟩

/-- `j < shift`: the quotient digits fit into the shifted dividend -/
theorem div_shift_bound (ac bc q j : Nat) (ha0 : ac ≠ 0) (hq : ac * 10 ^ j = bc * q) (hqn : nd q ≤ PREC) :
    nd ac - 1 + j < nd bc + PREC := by
  have h1 : 10 ^ (nd ac - 1) ≤ ac := pow_nd_pred_le ac ha0
  have h2 : bc < 10 ^ nd bc := lt_pow_nd bc
  have h3 : q < 10 ^ PREC := (nd_le_iff q PREC (by decide)).1 hqn
  have h4 : bc * q < 10 ^ nd bc * 10 ^ PREC := Nat.mul_lt_mul'' h2 h3
  have h5 : 10 ^ (nd ac - 1) * 10 ^ j ≤ ac * 10 ^ j := Nat.mul_le_mul_right _ h1
  rw [← Nat.pow_add] at h4 h5
  rw [hq] at h5
  exact (Nat.pow_lt_pow_iff_right (by omega : 1 < 10)).1 (Nat.lt_of_le_of_lt h5 h4)

/-- When `a.coeff · 10^j = b.coeff · q` with `q` of at most 28 digits, the division returns `q` up to trailing zeros moved
into the exponent. -/
theorem div_exact_value (a b : Dec) (q j : Nat) (hb : b.coeff ≠ 0)
    (ha : nd a.coeff ≤ PREC) (hq : a.coeff * 10 ^ j = b.coeff * q) (hqn : nd q ≤ PREC) :
    ∃ q' k : Nat, div a b = ⟨a.neg != b.neg, q', a.exp - b.exp - (j : Int) + (k : Int)⟩ ∧ q' * 10 ^ k = q := by
  have hpow : ∀ m : Nat, 0 < 10 ^ m := fun m => Nat.pow_pos (by omega)
  by_cases h0 : a.coeff = 0
  · have hq0 : q = 0 := by
      rw [h0, Nat.zero_mul] at hq
      rcases Nat.mul_eq_zero.1 hq.symm with h | h
      · exact absurd h hb
      · exact h
    refine ⟨0, j, ?_, by simp [hq0]⟩
    rw [div_zero_coeff a b h0]
    congr 1
    omega
  · have hq0 : q ≠ 0 := by
      intro h
      rw [h, Nat.mul_zero] at hq
      rcases Nat.mul_eq_zero.1 hq with h | h
      · exact h0 h
      · exact absurd h (Nat.ne_of_gt (hpow j))
    have hjb := div_shift_bound a.coeff b.coeff q j h0 hq hqn
    have hnda := nd_pos a.coeff
    obtain ⟨d, hd⟩ : ∃ d : Nat, (nd b.coeff : Int) - (nd a.coeff : Int) + (PREC : Int) + 1 = ((j + d : Nat) : Int) :=
      ⟨nd b.coeff + PREC + 1 - nd a.coeff - j, by omega⟩
    have hprod : a.coeff * 10 ^ (j + d) = b.coeff * (q * 10 ^ d) := by
      rw [Nat.pow_add, ← Nat.mul_assoc, hq, Nat.mul_assoc]
    have hqv : a.coeff * 10 ^ (j + d) / b.coeff = q * 10 ^ d := by
      rw [hprod, Nat.mul_div_cancel_left _ (Nat.pos_of_ne_zero hb)]
    have hrv : a.coeff * 10 ^ (j + d) % b.coeff = 0 := by
      rw [hprod, Nat.mul_mod_right]
    have hfuel : d ≤ nd (q * 10 ^ d) + 1 := by
      have : 10 ^ d ≤ q * 10 ^ d := Nat.le_mul_of_pos_left _ (Nat.pos_of_ne_zero hq0)
      have := lt_nd_of_pow_le this
      omega
    obtain ⟨k, hk1, hk2⟩ := reduceExact_value (nd (q * 10 ^ d) + 1 - d) q
      (a.exp - b.exp - ((j + d : Nat) : Int) + (d : Int)) (a.exp - b.exp)
    have hle : (reduceExact (nd (q * 10 ^ d) + 1 - d) q
        (a.exp - b.exp - ((j + d : Nat) : Int) + (d : Int)) (a.exp - b.exp)).1 ≤ q := by
      have := Nat.le_mul_of_pos_right (reduceExact (nd (q * 10 ^ d) + 1 - d) q
        (a.exp - b.exp - ((j + d : Nat) : Int) + (d : Int)) (a.exp - b.exp)).1 (hpow k)
      rw [hk1] at this
      exact this
    have hndq := Nat.le_trans (nd_mono hle) hqn
    refine ⟨_, k, ?_, hk1⟩
    unfold div
    rw [if_neg h0]
    simp only [hd]
    have hge : ((j + d : Nat) : Int) ≥ 0 := by omega
    rw [if_pos hge]
    simp only [Int.toNat_natCast, hqv, hrv]
    rw [reduceExact_strip_pre d _ q _ _ hq0 hfuel (by omega)]
    simp only [bne_self_eq_false, Bool.false_eq_true, if_false]
    rw [fix_of_nd_le _ _ _ hndq, hk2]
    congr 1
    omega

end Dec

/-- value form: `a / b` denotes exactly `±q · 10^(a.exp − b.exp − j)` -/
theorem div_exact_eqv (a b : Dec) (q j : Nat) (hb : b.coeff ≠ 0)
    (ha : nd a.coeff ≤ PREC) (hq : a.coeff * 10 ^ j = b.coeff * q) (hqn : nd q ≤ PREC) :
    Spec.Ex.eqv ⟨if (Dec.div a b).neg then -((Dec.div a b).coeff : Int) else ((Dec.div a b).coeff : Int), (Dec.div a b).exp⟩
      ⟨(if a.neg != b.neg then -(q : Int) else (q : Int)), a.exp - b.exp - (j : Int)⟩ = true := by
  obtain ⟨q', k, hdiv, hval⟩ := Dec.div_exact_value a b q j hb ha hq hqn
  rw [hdiv]
  unfold Spec.Ex.eqv
  simp only []
  have hmin : min (a.exp - b.exp - (j : Int) + (k : Int)) (a.exp - b.exp - (j : Int)) = a.exp - b.exp - (j : Int) := by omega
  rw [hmin]
  have e1 : (a.exp - b.exp - (j : Int) + (k : Int) - (a.exp - b.exp - (j : Int))).toNat = k := by omega
  have e2 : (a.exp - b.exp - (j : Int) - (a.exp - b.exp - (j : Int))).toNat = 0 := by omega
  rw [e1, e2, ← hval]
  cases (a.neg != b.neg) <;> simp [Int.natCast_mul, Int.neg_mul]

end CanVerif
