import CanVerif.Model.Dec
/-! helper lemmas for C04: digit counts, the rounding step, exact addition and exact division -/
namespace CanVerif

/-! ## number of digits -/

theorem ndAux_pos (fuel c : Nat) : 1 ≤ ndAux fuel c := by
  cases fuel with
  | zero => simp [ndAux]
  | succ f => unfold ndAux; split <;> omega

theorem ndAux_le_iff (fuel : Nat) : ∀ c n, c ≤ fuel → 1 ≤ n → (ndAux fuel c ≤ n ↔ c < 10 ^ n) := by
  induction fuel with
  | zero =>
    intro c n hc hn
    have : c = 0 := by omega
    subst this
    simp [ndAux, hn, Nat.pow_pos]
  | succ f ih =>
    intro c n hc hn
    unfold ndAux
    split
    · rename_i h10
      have : 10 ^ 1 ≤ 10 ^ n := Nat.pow_le_pow_right (by omega) hn
      constructor
      · intro _; omega
      · intro _; exact hn
    · rename_i h10
      have hpos := ndAux_pos f (c / 10)
      cases n with
      | zero => omega
      | succ m =>
        cases m with
        | zero =>
          constructor
          · intro h; omega
          · intro h; simp at h; omega
        | succ k =>
          have hle : c / 10 ≤ f := by omega
          have := ih (c / 10) (k + 1) hle (by omega)
          rw [Nat.add_le_add_iff_right, this, Nat.div_lt_iff_lt_mul (by omega), @Nat.pow_succ 10 (k + 1)]

theorem nd_pos (c : Nat) : 1 ≤ nd c := ndAux_pos c c

theorem nd_le_iff (c n : Nat) (hn : 1 ≤ n) : nd c ≤ n ↔ c < 10 ^ n :=
  ndAux_le_iff c c n (Nat.le_refl c) hn

theorem lt_pow_nd (c : Nat) : c < 10 ^ nd c :=
  (nd_le_iff c (nd c) (nd_pos c)).1 (Nat.le_refl _)

theorem nd_mono {a b : Nat} (h : a ≤ b) : nd a ≤ nd b :=
  (nd_le_iff a (nd b) (nd_pos b)).2 (Nat.lt_of_le_of_lt h (lt_pow_nd b))

theorem lt_nd_of_pow_le {c k : Nat} (h : 10 ^ k ≤ c) : k < nd c := by
  cases k with
  | zero => exact nd_pos c
  | succ j =>
    apply Nat.lt_of_not_le
    intro hle
    have := (nd_le_iff c (j + 1) (by omega)).1 hle
    omega


namespace Dec

/-! ## the rounding step -/

theorem fix_of_nd_le (neg : Bool) (c : Nat) (e : Int) (h : nd c ≤ PREC) : fix neg c e = ⟨neg, c, e⟩ := by
  unfold fix
  split
  · subst_vars; rfl
  · simp [h]

theorem fix_of_dvd (neg : Bool) (c : Nat) (e : Int) (hc : c ≠ 0) (hlong : PREC < nd c)
    (hdvd : 10 ^ (nd c - PREC) ∣ c) :
    fix neg c e = ⟨neg, c / 10 ^ (nd c - PREC), e + ((nd c - PREC : Nat) : Int)⟩ := by
  have hr : c % 10 ^ (nd c - PREC) = 0 := Nat.mod_eq_zero_of_dvd hdvd
  have hhalf : 0 < 5 * 10 ^ (nd c - PREC - 1) := Nat.mul_pos (by omega) (Nat.pow_pos (by omega))
  have hq : nd (c / 10 ^ (nd c - PREC)) ≤ PREC := by
    rw [nd_le_iff _ _ (by decide), Nat.div_lt_iff_lt_mul (Nat.pow_pos (by omega)), ← Nat.pow_add]
    have : PREC + (nd c - PREC) = nd c := by omega
    rw [this]; exact lt_pow_nd c
  unfold fix
  rw [if_neg hc]
  simp only []
  rw [if_neg (by omega), hr]
  have h1 : ¬ (0 > 5 * 10 ^ (nd c - PREC - 1)) := by omega
  have h2 : ((0 : Nat) == 5 * 10 ^ (nd c - PREC - 1)) = false := by
    simp; omega
  simp [h2]
  intro hcontra; omega

/-! ## signed mantissa, alignment, exact addition -/

def smant (d : Dec) : Int := if d.neg then -(d.coeff : Int) else (d.coeff : Int)

theorem aligned_eq (a : Dec) (e : Int) : aligned a e = smant a * (10 : Int) ^ (a.exp - e).toNat := by
  unfold aligned smant
  cases a.neg <;> simp [Int.neg_mul]

theorem natAbs_smant (a : Dec) : (smant a).natAbs = a.coeff := by
  unfold smant; cases a.neg <;> simp

theorem smant_negate (o : Dec) : smant { o with neg := !o.neg } = -smant o := by
  unfold smant
  cases o.neg <;> simp

theorem add_spec (a b : Dec)
    (h : nd (aligned a (min a.exp b.exp) + aligned b (min a.exp b.exp)).natAbs ≤ PREC) :
    (add a b).exp = min a.exp b.exp ∧
    smant (add a b) = aligned a (min a.exp b.exp) + aligned b (min a.exp b.exp) ∧
    (add a b).coeff = (aligned a (min a.exp b.exp) + aligned b (min a.exp b.exp)).natAbs := by
  unfold add
  simp only []
  split
  · rename_i hs
    rw [fix_of_nd_le _ _ _ (by decide), hs]
    simp [smant]
  · rename_i hs
    rw [fix_of_nd_le _ _ _ h]
    simp only [smant, true_and, and_true]
    split
    · rename_i hneg; simp at hneg; omega
    · rename_i hneg; simp at hneg; omega

/-! ## exact division -/

theorem reduceExact_strip (k : Nat) : ∀ (fuel n t : Nat) (e ideal : Int), n ≠ 0 → k ≤ fuel → ideal = e + k →
    reduceExact fuel (n * 10 ^ (t + k)) e ideal = (n * 10 ^ t, ideal) := by
  induction k with
  | zero =>
    intro fuel n t e ideal hn hf hid
    have : ideal = e := by omega
    subst this
    cases fuel with
    | zero => simp [reduceExact]
    | succ f => simp [reduceExact]
  | succ k ih =>
    intro fuel n t e ideal hn hf hid
    cases fuel with
    | zero => omega
    | succ f =>
      have hq : n * 10 ^ (t + (k + 1)) = n * 10 ^ (t + k) * 10 := by
        rw [← Nat.add_assoc, Nat.pow_succ, Nat.mul_assoc]
      have hne : n * 10 ^ (t + k) * 10 ≠ 0 :=
        Nat.mul_ne_zero (Nat.mul_ne_zero hn (Nat.ne_of_gt (Nat.pow_pos (by omega)))) (by omega)
      unfold reduceExact
      rw [hq]
      have h1 : e < ideal := by omega
      simp only [h1, decide_true, Nat.mul_mod_left, beq_self_eq_true, Bool.and_self, bne_iff_ne, ne_eq, hne,
        not_false_eq_true, if_true, Bool.true_and]
      rw [Nat.mul_div_cancel _ (by omega)]
      exact ih f n t (e + 1) ideal hn (by omega) (by omega)

theorem div_exact (a b : Dec) (N j : Nat) (hN : N ≠ 0) (hb : b.coeff ≠ 0)
    (hc : a.coeff = N * b.coeff * 10 ^ j) (he : a.exp - b.exp = -(j : Int)) (hnd : nd a.coeff ≤ PREC) :
    div a b = ⟨a.neg != b.neg, N * 10 ^ j, -(j : Int)⟩ := by
  have hpow : ∀ m : Nat, 0 < 10 ^ m := fun m => Nat.pow_pos (by omega)
  have ha : a.coeff ≠ 0 := by
    rw [hc]; exact Nat.mul_ne_zero (Nat.mul_ne_zero hN hb) (Nat.ne_of_gt (hpow j))
  obtain ⟨sh, hsh⟩ : ∃ sh : Nat, (nd b.coeff : Int) - (nd a.coeff : Int) + (PREC : Int) + 1 = (sh : Int) ∧ 1 ≤ sh :=
    ⟨nd b.coeff + PREC + 1 - nd a.coeff, by omega, by omega⟩
  have hprod : a.coeff * 10 ^ sh = b.coeff * (N * 10 ^ (j + sh)) := by
    rw [hc, Nat.pow_add]
    simp only [Nat.mul_assoc, Nat.mul_left_comm]
  have hqv : a.coeff * 10 ^ sh / b.coeff = N * 10 ^ (j + sh) := by
    rw [hprod, Nat.mul_div_cancel_left _ (Nat.pos_of_ne_zero hb)]
  have hrv : a.coeff * 10 ^ sh % b.coeff = 0 := by
    rw [hprod, Nat.mul_mod_right]
  have hfuel : sh ≤ nd (N * 10 ^ (j + sh)) + 1 := by
    have : 10 ^ sh ≤ N * 10 ^ (j + sh) := by
      rw [Nat.pow_add, ← Nat.mul_assoc]
      exact Nat.le_mul_of_pos_left _ (Nat.mul_pos (Nat.pos_of_ne_zero hN) (hpow j))
    have := lt_nd_of_pow_le this
    omega
  have hle : N * 10 ^ j ≤ a.coeff := by
    rw [hc, Nat.mul_assoc]
    apply Nat.mul_le_mul_left
    exact Nat.le_mul_of_pos_left _ (Nat.pos_of_ne_zero hb)
  have hndq : nd (N * 10 ^ j) ≤ PREC := Nat.le_trans (nd_mono hle) hnd
  unfold div
  rw [if_neg ha]
  simp only [hsh.1]
  have hge : (sh : Int) ≥ 0 := by omega
  rw [if_pos hge]
  simp only [Int.toNat_natCast, hqv, hrv]
  rw [reduceExact_strip sh _ N j _ _ hN hfuel (by omega)]
  simp only [bne_self_eq_false, Bool.false_eq_true, if_false]
  rw [fix_of_nd_le _ _ _ hndq, he]

theorem div_zero_coeff (a b : Dec) (h : a.coeff = 0) : div a b = ⟨a.neg != b.neg, 0, a.exp - b.exp⟩ := by
  unfold div; simp [h]

/-! ## rounding to an integer -/

theorem roundInt_zero (neg : Bool) (e : Int) : roundInt ⟨neg, 0, e⟩ = 0 := by
  unfold roundInt
  have hhalf : 0 < 5 * 10 ^ ((-e).toNat - 1) := Nat.mul_pos (by omega) (Nat.pow_pos (by omega))
  have h2 : ((0 : Nat) == 5 * 10 ^ ((-e).toNat - 1)) = false := by simp; omega
  have h1 : ¬ (0 > 5 * 10 ^ ((-e).toNat - 1)) := by omega
  cases neg <;> simp [h2]

theorem roundInt_shifted (neg : Bool) (N j : Nat) :
    roundInt ⟨neg, N * 10 ^ j, -(j : Int)⟩ = if neg then -(N : Int) else (N : Int) := by
  unfold roundInt
  cases j with
  | zero => simp
  | succ k =>
    have hneg : ¬ (-((k + 1 : Nat) : Int) ≥ 0) := by omega
    have hhalf : 0 < 5 * 10 ^ k := Nat.mul_pos (by omega) (Nat.pow_pos (by omega))
    have h2 : ((0 : Nat) == 5 * 10 ^ k) = false := by simp; omega
    have h1 : ¬ (0 > 5 * 10 ^ k) := by omega
    simp only [hneg, if_false, Int.neg_neg, Int.toNat_natCast, Nat.add_sub_cancel,
      Nat.mul_mod_left, Nat.mul_div_cancel _ (Nat.pow_pos (by omega : 0 < 10)), h2, Bool.false_and, Bool.or_false]
    simp [h1]

/-- dividing `n · f · 10^j` (held exactly, with at most 28 digits) by `f` and rounding gives `n` -/
theorem roundInt_div_exact (a f : Dec) (n : Int) (j : Nat) (hf : f.coeff ≠ 0)
    (hm : smant a = n * smant f * (10 : Int) ^ j) (he : a.exp - f.exp = -(j : Int))
    (hnd : nd a.coeff ≤ PREC) : roundInt (div a f) = n := by
  by_cases hn : n = 0
  · subst hn
    have h0 : a.coeff = 0 := by
      have := natAbs_smant a
      rw [hm] at this
      simpa using this.symm
    rw [div_zero_coeff a f h0, roundInt_zero]
  · have hcoeff : a.coeff = n.natAbs * f.coeff * 10 ^ j := by
      have := natAbs_smant a
      rw [hm, Int.natAbs_mul, Int.natAbs_mul, natAbs_smant, Int.natAbs_pow] at this
      simpa using this.symm
    have hN : n.natAbs ≠ 0 := by omega
    rw [div_exact a f n.natAbs j hN hf hcoeff he hnd, roundInt_shifted]
    have hX : (0 : Int) < (f.coeff : Int) * (10 : Int) ^ j :=
      Int.mul_pos (by omega) (Int.pow_pos (by omega))
    have h1 : 0 < n → 0 < n * ((f.coeff : Int) * (10 : Int) ^ j) := fun h => Int.mul_pos h hX
    have h2 : n < 0 → n * ((f.coeff : Int) * (10 : Int) ^ j) < 0 := fun h => Int.mul_neg_of_neg_of_pos h hX
    have hm' : smant a = if f.neg then -(n * ((f.coeff : Int) * (10 : Int) ^ j)) else n * ((f.coeff : Int) * (10 : Int) ^ j) := by
      rw [hm]; unfold smant
      cases f.neg <;> simp [Int.mul_assoc, Int.neg_mul, Int.mul_neg]
    have hapos : 0 < a.coeff := by
      rw [hcoeff]
      exact Nat.mul_pos (Nat.mul_pos (by omega) (by omega)) (Nat.pow_pos (by omega))
    unfold smant at hm'
    cases ha : a.neg <;> cases hfn : f.neg <;> simp [ha, hfn] at hm' ⊢ <;> omega

end Dec

end CanVerif
