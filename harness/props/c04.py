"""C04 - physical scaling is exact decimal arithmetic and invertible."""
import copy as _copy
import decimal
import struct

import canmatrix.canmatrix as cm

# the decimal context of the thread as it is once the library is imported.  Every observation starts from a copy of it, so that a case
# carries everything its result depends on (a replay in a fresh process sees what the sweep saw); whatever the library does to the
# context while a case is observed stays in force for the rest of that case
_CTX0 = decimal.getcontext().copy()

PID = "C04"
RULE = ("ops: 'dec' = primitives of the decimal model (add/sub/mul/div/round) on random operands with 1..30 digit coefficients, "
        "exponents -20..20, zeros, both signs (validates Model/Dec.lean against the decimal module incl. inexact cases); "
        "'scale' = (integer signal width 1..64 signed/unsigned, non-zero factor and offset with 1..12 significant digits, exponents "
        "-10..6 (one in ten: -40..-11 or 7..20), both signs, optional value table; raw value: every raw for widths <= 12 in thorough / <= 6 in quick, boundaries "
        "and random interior otherwise) observing raw2phys, phys2raw(raw2phys), named_value, default min/max, raw range; "
        "Value tables (one in two sigdescs) have 1..5 keys of the raw range and, nine in twenty of them, 1..3 integer keys outside it, anywhere in "
        "the table: the other reading of a bit pattern of the signal's width (raw + 2^size for a negative raw of a signed signal, raw - 2^size "
        "for an upper-half raw of an unsigned one), the same low bits in a wider number (raw + j*2^size, j in -2..3), the sign-extended / all-ones "
        "pattern of a byte, word, double-word container, keys just beyond the bounds, 2^size, 255, 65535, -1, -128; the raw value that shares "
        "the low `size` bits with such a key and one of its neighbours are among the raw values of wide signals (all raw values anyway for widths "
        "<= 6 / 12).  Keys are handed to add_values as int, hexadecimal text, decimal text or Decimal (three tables in ten), to the constructor as "
        "int or decimal text.  A label whose key lies outside the raw range converts through Signal.phys2raw only (a payload cannot carry the key). "
        "Value tables include labels that differ in letter case or blanks only; another signal with the same labels on other keys converts first. 'label' = value-table label to raw key. "
        "Paths ('via'): the physical and the named value are read through Signal.raw2phys, through DecodedSignal.phys_value / named_value, through "
        "Frame.decode(bytes)[name] (frame with a second signal of another scaling) or through CanMatrix.decode(id, bytes)[name]; a label goes "
        "through Signal.phys2raw or through Frame.encode({name: label}). "
        "Histories ('hist', three sigdescs in five): the Signal object has a life before it reaches the state under test: constructed with another "
        "width / signedness / factor / offset / value table (limits given or computed by the constructor, table given to the constructor or added), "
        "used in that state (set_min/set_max(None), calc_min, calc_max, calculate_raw_range, conversions both ways, named decoding, label "
        "conversion, deepcopy), re-dimensioned by attribute assignment through up to two earlier states, value table emptied / replaced and "
        "filled anew; the default limits are then recomputed by a generated sequence of set_min(None) / set_max(None) / calc_min() / calc_max() "
        "calls in any order (maximum alone first, minimum first, repeated), before or after the conversions.  The case sent to the judge is the "
        "final state; what the object was before must not show. "
        "What scaling does not depend on: the signal carries a unit (one in two: a common unit text, or the tail / the whole of one of its own "
        "labels, so that labels end with the unit: 'SNA' with 'A', '100%' with '%', '12.5 km/h' with 'km/h') and a comment, given to the "
        "constructor or assigned later; labels include texts that read like a number with a unit. "
        "Other signals of the process ('others', one case in three): one or two IEEE float signals (32 / 64 bit, own factor and offset) or a "
        "64 bit integer signal are used first - raw2phys, DecodedSignal.phys_value / named_value, phys2raw(raw2phys), Frame.decode, "
        "CanMatrix.decode, Frame.encode - before the signal under test is built (its default limits are computed afterwards) or between "
        "construction and conversion; in the frame paths the neighbour signal is a byte-wide integer or a float32 / float64 signal whose "
        "physical value is read before or after that of the signal under test.  Every observation starts from the decimal context the "
        "thread had when the library was imported. "
        "Shared tables ('share', three cases in ten, empty tables included): the table object the signal under test is constructed from "
        "(constructor argument, int or decimal-text keys) has other holders - the caller keeps its dict, a sibling signal of another scaling is "
        "constructed from the same dict before or after, a sibling is constructed from Signal.values of the signal under test or the signal "
        "under test from the sibling's, the dict is registered with CanMatrix.add_value_table and both signals are constructed from "
        "db.value_tables[name] - and one or two of the holders change THEIR table after the signal under test exists, right after construction "
        "or after its first conversions: a label added on the raw value under test / on a bound / on a new key (dict assignment, "
        "Signal.add_values of the sibling), an entry removed, the table cleared or cleared and refilled for the next signal.  The case sent to "
        "the judge is the table the signal under test was given. "
        "Non-trivial = distinct case with a non-integer factor or non-zero offset.")
EXHAUSTIVE = {"quick": False, "thorough": False}
PARTIAL = ["float signals (raw value converted through Decimal(float)) are outside this property (integer signals); they occur as other "
           "signals of the same process / frame, their own results are not judged (only the neighbour of the frame paths, on a dyadic value)",
           "cases whose exact product or sum needs more than 28 significant digits are outside the stated domain; they are still "
           "compared with the model (correspondence) but not judged by the Spec"]
ASSUMPTIONS = ["default decimal context (prec=28, ROUND_HALF_EVEN, no traps for Inexact/Rounded)"]
TRUSTED = ["the decimal module (libmpdec) is modelled in full for + - * / and round(); agreement is checked on every run"]
CORRESPONDENCE = "decimal arithmetic and Signal.raw2phys/phys2raw/min/max, DecodedSignal.named_value == Model/Dec.lean"


def tri(d):
    t = d.as_tuple()
    return [bool(t.sign), "".join(map(str, t.digits)), t.exponent]


def dec_of(t):
    return decimal.Decimal((1 if t[0] else 0, tuple(int(ch) for ch in t[1]), t[2]))


def rand_coeff(rng, maxd):
    nd = rng.randint(1, maxd)
    c = rng.choice(["0", str(rng.randrange(10 ** (nd - 1), 10 ** nd)), "9" * nd, "1" + "0" * (nd - 1), "5" + "0" * (nd - 1), "25", "5", "1"])
    return c.lstrip("0") or "0"


def rand_dec(rng, maxd=30, elo=-20, ehi=20):
    return [rng.random() < 0.4, rand_coeff(rng, maxd), rng.randint(elo, ehi)]


def rand_factor(rng):
    while True:
        c = rng.random()
        if c < 0.25:
            t = [rng.random() < 0.15, rng.choice(["1", "2", "5", "25", "125", "1", "10"]), rng.randint(-6, 2)]
        elif c < 0.4:
            t = [rng.random() < 0.15, rng.choice(["3", "7", "12345", "999999999999", "390625", "6103515625"]), rng.randint(-10, 3)]
        elif c < 0.5:
            # very small and very large magnitudes (a factor is any non-zero decimal number, not "about one")
            t = [rng.random() < 0.2, rng.choice(["1", "25", "3", rand_coeff(rng, 6)]), rng.choice([rng.randint(-40, -11), rng.randint(-18, -14), rng.randint(7, 20)])]
        else:
            t = [rng.random() < 0.2, rand_coeff(rng, 12), rng.randint(-10, 6)]
        if t[1] != "0":
            return t


def rand_offset(rng):
    if rng.random() < 0.3:
        return [False, "0", 0]
    return [rng.random() < 0.5, rand_coeff(rng, 12), rng.randint(-10, 6)]


KEY_FORMS = ["int", "int", "hex", "str", "dec"]


def raw_bounds(size, signed):
    return (-(1 << (size - 1)), (1 << (size - 1)) - 1) if signed else (0, (1 << size) - 1)


def rand_foreign_key(rng, size, signed):
    """an integer outside the raw range of the signal, as value tables carry them"""
    lo, hi = raw_bounds(size, signed)
    m = 1 << size
    c = rng.random()
    if c < 0.45:
        # the other reading of a bit pattern of the same width
        if signed:
            k = rng.choice([-1, -2, lo, lo + 1, rng.randint(lo, -1)]) + m
        else:
            half = (hi + 1) // 2
            k = rng.choice([hi, hi - 1, half, rng.randint(half, hi)]) - m
    elif c < 0.65:
        # the same low bits in a wider number
        k = rng.choice([lo, hi, 0, 1, rng.randint(lo, hi)]) + rng.choice([-2, -1, 1, 2, 3]) * m
    elif c < 0.8:
        k = rng.choice([hi + 1, lo - 1, hi + 2, lo - 2])
    elif c < 0.9:
        # a negative raw value sign-extended / an all-ones pattern in a byte, word, double word container
        w = rng.choice([w for w in (8, 16, 32, 64) if w > size] or [128])
        k = rng.choice([(1 << w) - 1, (1 << w) - 2, (lo + (1 << w)) if signed else -(1 << (w - 1))])
    else:
        k = rng.choice([m, -m, 2 * m - 1, 255, 65535, -1, -128])
    return k if not lo <= k <= hi else None


def bit_twin(k, size, signed):
    """the raw value of the range that has the same low `size` bits as the integer k"""
    lo, _ = raw_bounds(size, signed)
    return ((k - lo) % (1 << size)) + lo


def rand_sigdesc(rng, width=None):
    size = width or rng.choice([1, 2, 3, 7, 8, 12, 16, 31, 32, 33, 63, 64, rng.randint(1, 64)])
    signed = rng.random() < 0.5
    values = []
    if rng.random() < 0.5:
        lo, hi = (-(1 << (size - 1)), (1 << (size - 1)) - 1) if signed else (0, (1 << size) - 1)
        keys = []
        for _ in range(rng.randint(1, 5)):
            k = rng.choice([lo, hi, 0, 1, rng.randint(lo, hi)])
            if lo <= k <= hi and k not in keys:
                keys.append(k)
        # a description may be empty; descriptions that differ in letter case or in blanks are different descriptions
        labels = ["On", "Off", "Error", "SNA", "Init", "On", "", "0", "two words", "on", "ON", " On", "off",
                  "100%", "12.5 km/h", "Pass", "Warm", "1 A", "-3", "INV"]
        # a value table is a mapping from integers to texts: it may list keys that no raw value of the range equals (the unsigned bit
        # pattern of a negative raw value, the signed reading of a pattern of the upper half, the pattern in a wider container, keys
        # just beyond the range).  Such a key labels nothing: the raw value that shares its bit pattern decodes to its own label or to
        # the scaled number
        if rng.random() < 0.45:
            for _ in range(rng.randint(1, 3)):
                k = rand_foreign_key(rng, size, signed)
                if k is not None and k not in keys:
                    keys.insert(rng.randint(0, len(keys)), k)
        values = [[k, rng.choice(labels)] for k in keys]
    sd = {"size": size, "signed": signed, "factor": rand_factor(rng), "offset": rand_offset(rng), "values": values}
    # how a key is handed to the library (add_values takes an int, a decimal or hexadecimal text, a Decimal; the constructor's table
    # int or decimal text); the table that results is the same
    if values and rng.random() < 0.3:
        sd["keyform"] = [rng.choice(KEY_FORMS) for _ in values]
    # what scaling has nothing to do with: the unit text and the comment of the signal.  A label may end with the unit text or be the unit text
    c = rng.random()
    if c < 0.3:
        sd["unit"] = rng.choice(UNITS)
    elif c < 0.55 and values:
        lab = rng.choice(values)[1]
        if lab:
            sd["unit"] = lab[-rng.randint(1, len(lab)):]
    if rng.random() < 0.2:
        sd["comment"] = rng.choice(["", "scaled", "On", "factor 0.1 offset 5", "see SNA"])
    return sd


UNITS = ["A", "V", "%", "km/h", "s", "m", "rpm", "\u00b0C", "n", "f", "N", "t", "0", " ", "h"]
OTHER_KINDS = ["f32", "f64", "f32", "f64", "int"]
OTHER_USES = ["raw2phys", "decoded", "named", "back", "frame", "matrix", "encode"]
NEIGHBOURS = ["u8", "u8", "f32", "f64"]


def rand_others(rng):
    """other signals of the same process that are used before the signal under test converts: IEEE float signals, a wide integer signal"""
    out = []
    for _ in range(rng.choice([1, 1, 2])):
        out.append({"kind": rng.choice(OTHER_KINDS), "factor": rng.choice([[False, "1", 0], rand_factor(rng)]), "offset": rand_offset(rng),
                    "x": rng.choice([0, 1, -1, 171, rng.randint(-20000, 20000)]), "use": rng.choice(OTHER_USES),
                    "when": rng.choice(["before", "between"])})
    return out


def rand_env(rng, c):
    """the company the signal under test keeps: other signals used first, the kind of its neighbour in the frame paths"""
    if rng.random() < 0.35:
        c["others"] = rand_others(rng)
    if c.get("via") in ("frame", "matrix"):
        c["nb"] = rng.choice(NEIGHBOURS)
        c["nbfirst"] = rng.random() < 0.5
    return c


def raws_for(rng, sd, tier):
    size, signed = sd["size"], sd["signed"]
    lo, hi = (-(1 << (size - 1)), (1 << (size - 1)) - 1) if signed else (0, (1 << size) - 1)
    lim = 6 if tier == "quick" else 12
    if size <= lim:
        return list(range(lo, hi + 1))
    out = {lo, hi, 0, lo + 1, hi - 1, 1}
    for _ in range(4):
        out.add(rng.randint(lo, hi))
    for k, _ in sd["values"]:
        out.add(k)
        # a key outside the range: the raw values that share its bit pattern / lie next to it
        t = bit_twin(k, size, signed)
        out.add(t)
        if t != k:
            out.add(t + rng.choice([-1, 1]))
    return sorted(r for r in out if lo <= r <= hi)


# ---------------------------------------------------------------------------------------------
# histories: what the Signal object went through before it reached the state under test
# ---------------------------------------------------------------------------------------------
ATTRS = ["size", "signed", "factor", "offset"]
LIMIT_CALLS = ["min", "max", "cmin", "cmax"]        # set_min(None), set_max(None), calc_min(), calc_max()
POSITIONS = ["lo", "hi", "mid", "one", "zero"]


def rand_uses(rng, labels, nmax=4):
    """what an application does with a signal in some state: ask for limits and range, convert, decode names, copy"""
    out = []
    for _ in range(rng.randint(0, nmax)):
        c = rng.random()
        if c < 0.4:
            out.append([rng.choice(LIMIT_CALLS)])
        elif c < 0.5:
            out.append(["range"])
        elif c < 0.7:
            out.append(["conv", rng.choice(POSITIONS)])
        elif c < 0.8:
            out.append(["named", rng.choice(POSITIONS)])
        elif c < 0.9:
            out.append(["label", rng.choice(labels)] if labels else ["decoded", rng.choice(POSITIONS)])
        else:
            out.append(["copy"])
    return out


def rand_fin(rng):
    """the calls that recompute the default limits in the final state: at least one for each limit, in any order, possibly repeated"""
    fin = [rng.choice(["min", "cmin"]), rng.choice(["max", "cmax"])]
    if rng.random() < 0.6:
        fin.reverse()               # the maximum first (what canconvert's recalcSignalMaximums does on its own)
    if rng.random() < 0.3:
        fin.insert(rng.randint(0, 2), rng.choice(LIMIT_CALLS))
    return fin


def rand_hist(rng, sd):
    labels = sorted({v for _, v in sd["values"]})
    prev = []
    for _ in range(rng.choice([0, 1, 1, 1, 2])):
        st = {"size": sd["size"], "signed": sd["signed"], "factor": sd["factor"], "offset": sd["offset"]}
        for a in rng.sample(ATTRS, rng.choice([1, 1, 2, 3, 4])):
            if a == "size":
                st["size"] = rng.choice([1, 2, 7, 8, 12, 16, 32, 63, 64, rng.randint(1, 64), max(1, sd["size"] - 1), min(64, sd["size"] + 1)])
            elif a == "signed":
                st["signed"] = not sd["signed"]
            elif a == "factor":
                st["factor"] = rand_factor(rng)
            else:
                st["offset"] = rand_offset(rng)
        st["uses"] = rand_uses(rng, labels)
        # the same labels on other keys while the signal was something else
        st["vals"] = [[rng.choice([0, 1, 2, 3, rng.randint(0, 1 << (st["size"] - 1))]), lab] for lab in labels if rng.random() < 0.7]
        prev.append(st)
    had_vals = any(st["vals"] for st in prev)
    if had_vals:
        tab = rng.choice(["clear", "rebind", "del"])
    else:
        tab = rng.choice(["add", "add", "ctor"]) if not prev else "add"
    order = list(ATTRS)
    rng.shuffle(order)
    return {"ctor": rng.choice(["plain", "plain", "limits"]), "prev": prev, "order": order, "tab": tab,
            "uses": rand_uses(rng, labels, 2), "fin": rand_fin(rng), "conv": rng.choice(["after", "after", "before"])}


SHARE_HOWS = ["caller", "sibling", "sibling", "copyctor", "fromsib", "global"]
SHARE_HOLDERS = {"caller": ["caller"], "sibling": ["sibling", "sibling", "caller"], "copyctor": ["sibling", "sibling", "caller"],
                 "fromsib": ["sibling", "caller"], "global": ["global", "sibling", "caller"]}


def rand_share(rng, sd, raw=None, label=None):
    """the table object the signal under test is constructed from has other holders, and they go on using THEIR table: what they do
    to it after the signal under test exists is no business of that signal"""
    how = rng.choice(SHARE_HOWS)
    lo, hi = raw_bounds(sd["size"], sd["signed"])
    keys = [k for k, _ in sd["values"]]
    labels = [v for _, v in sd["values"]]
    muts = []
    for _ in range(rng.choice([1, 1, 2])):
        holder = rng.choice(SHARE_HOLDERS[how])
        c = rng.random()
        if c < 0.5 or not keys:
            if raw is not None:
                k = rng.choice([raw, raw, raw, lo, hi, 0 if lo <= 0 else lo])
            else:
                k = rng.choice([lo, hi, 0 if lo <= 0 else lo, min(1, hi), rng.randint(lo, hi)])
            lab = label if label is not None and rng.random() < 0.7 else rng.choice(["SNA", "Shared", "On"] + labels)
            muts.append([holder, "add", k, lab])
        elif c < 0.75:
            own = [k for k, v in sd["values"] if v == label]
            k = raw if raw in keys and rng.random() < 0.7 else rng.choice(own) if own and rng.random() < 0.7 else rng.choice(keys)
            muts.append([holder, "del", k])
        elif c < 0.9:
            muts.append([holder, "clear"])
        else:
            muts.append([holder, "reuse"])
    return {"how": how, "sibfirst": rng.random() < 0.5, "muts": muts, "when": rng.choice(["built", "built", "used"])}


VIAS = ["signal", "signal", "decoded", "decoded", "frame", "matrix"]
LABEL_VIAS = ["signal", "signal", "frame"]


def label_via(rng, sd, lab):
    """the path a label takes.  A payload holds raw values of the range only: a label whose key lies outside the range is converted by
    Signal.phys2raw (which yields the key as it stands); what Frame.encode makes of such a key is not a conversion of a label to its key"""
    via = rng.choice(LABEL_VIAS)
    lo, hi = raw_bounds(sd["size"], sd["signed"])
    if via == "frame" and any(v == lab and not lo <= k <= hi for k, v in sd["values"]):
        return "signal"
    return via


def gen(rng, tier, shard, nshards):
    total = {"quick": 20000, "thorough": 400000}[tier] // nshards
    for _ in range(total // 2):
        which = rng.choice(["add", "sub", "mul", "div", "round", "mul", "div"])
        a = rand_dec(rng) if which != "round" else rand_dec(rng, 24, -12, 5)
        b = rand_dec(rng)
        if which == "div" and b[1] == "0":
            b[1] = "7"
        if rng.random() < 0.2 and which in ("add", "sub"):
            # near cancellation / half-way cases
            b = [not a[0] if which == "add" else a[0], a[1], a[2] + rng.choice([0, 0, 1, -1])]
        yield {"op": "dec", "c": [which, a, b]}
    n = 0
    while n < total // 2:
        sd = rand_sigdesc(rng, width=rng.choice([None, None, rng.randint(1, 6 if tier == "quick" else 12)]))
        # two sigdescs in five are built afresh for every case (as before); the others have a history, a new one every few raw values
        with_hist = rng.random() < 0.6
        hist = None
        for i, r in enumerate(raws_for(rng, sd, tier)):
            n += 1
            c = {"sig": sd, "raw": r, "via": rng.choice(VIAS)}
            if with_hist:
                if i % 4 == 0:
                    hist = rand_hist(rng, sd)
                c["hist"] = hist
            if rng.random() < 0.3:
                c["share"] = rand_share(rng, sd, raw=r)
            yield {"op": "scale", "c": rand_env(rng, c)}
        if sd["values"]:
            for lab in sorted({v for _, v in sd["values"]} | {"NoSuchLabel"}):
                c = {"sig": sd, "label": lab, "via": label_via(rng, sd, lab)}
                if with_hist:
                    c["hist"] = rand_hist(rng, sd)
                if rng.random() < 0.3:
                    c["share"] = rand_share(rng, sd, label=lab)
                yield {"op": "label", "c": rand_env(rng, c)}


def neighbours(case, rng, shard, nshards):
    for _ in range(200 // nshards + 1):
        if case["op"] == "dec":
            yield {"op": "dec", "c": [case["c"][0], rand_dec(rng), [False, rand_coeff(rng, 30).replace("0", "7") if case["c"][0] == "div" else rand_coeff(rng, 30), rng.randint(-20, 20)]]}
        else:
            sd = rand_sigdesc(rng)
            for r in raws_for(rng, sd, "quick")[:6]:
                c = {"sig": sd, "raw": r, "via": rng.choice(VIAS)}
                if rng.random() < 0.6:
                    c["hist"] = rand_hist(rng, sd)
                if rng.random() < 0.3:
                    c["share"] = rand_share(rng, sd, raw=r)
                yield {"op": "scale", "c": rand_env(rng, c)}
            # the same signal and path as the disagreeing case, other raw values and other histories
            if case["op"] == "scale":
                sd0 = case["c"]["sig"]
                for r in raws_for(rng, sd0, "quick")[:4]:
                    c = {"sig": sd0, "raw": r, "via": case["c"].get("via", "signal")}
                    if "hist" in case["c"]:
                        c["hist"] = rng.choice([case["c"]["hist"], rand_hist(rng, sd0)])
                    for k in ("others", "nb", "nbfirst", "share"):
                        if k in case["c"]:
                            c[k] = case["c"][k]
                    yield {"op": "scale", "c": c}


def _dress(s, sd):
    """unit and comment assigned to the existing object"""
    if "unit" in sd:
        s.unit = sd["unit"]
    if "comment" in sd:
        s.add_comment(sd["comment"])


def _dress_kw(sd):
    """unit and comment as constructor arguments"""
    kw = {}
    if "unit" in sd:
        kw["unit"] = sd["unit"]
    if "comment" in sd:
        kw["comment"] = sd["comment"]
    return kw


def _key_as(k, form):
    """the key in the notation the case names"""
    if form == "hex":
        return hex(k)
    if form == "str":
        return str(k)
    if form == "dec":
        return decimal.Decimal(k)
    return k


def _add_values(s, sd):
    forms = sd.get("keyform") or []
    for i, (k, v) in enumerate(sd["values"]):
        s.add_values(_key_as(k, forms[i] if i < len(forms) else "int"), v)


def _ctor_table(sd):
    """the value table as a constructor argument: keys as int or as decimal text"""
    forms = sd.get("keyform") or []
    return {(str(k) if i < len(forms) and forms[i] in ("str", "hex") else k): v for i, (k, v) in enumerate(sd["values"])}


def mksig(sd):
    if sd["size"] % 2:
        s = cm.Signal("s", size=sd["size"], is_signed=sd["signed"], factor=dec_of(sd["factor"]), offset=dec_of(sd["offset"]), **_dress_kw(sd))
    else:
        # the signedness is assigned after construction and the default limits are computed anew, as an editor does
        s = cm.Signal("s", size=sd["size"], is_signed=not sd["signed"], factor=dec_of(sd["factor"]), offset=dec_of(sd["offset"]))
        s.is_signed = sd["signed"]
        s.set_min(None)
        s.set_max(None)
        _dress(s, sd)
    _add_values(s, sd)
    return s


ATTR_NAME = {"size": "size", "signed": "is_signed", "factor": "factor", "offset": "offset"}


def _attr_value(st, a):
    return dec_of(st[a]) if a in ("factor", "offset") else st[a]


def _assign(s, cur, new, order):
    """the object is re-dimensioned / re-scaled by attribute assignment, only what differs, in the order of the history"""
    for a in order:
        if cur[a] != new[a]:
            setattr(s, ATTR_NAME[a], _attr_value(new, a))


def _raw_at(s, pos):
    lo, hi = s.calculate_raw_range()
    lo, hi = int(lo), int(hi)
    return {"lo": lo, "hi": hi, "mid": (lo + hi) // 2, "one": min(1, hi), "zero": 0}[pos]


def _limit_call(s, name):
    """one of the four public ways to a default limit; returns the limit it yields"""
    if name == "min":
        v = s.set_min(None)
        return v if v is s.min or v == s.min else "<set_min(None) returned %r but min is %r>" % (v, s.min)
    if name == "max":
        v = s.set_max(None)
        return v if v is s.max or v == s.max else "<set_max(None) returned %r but max is %r>" % (v, s.max)
    if name == "cmin":
        return s.calc_min()
    return s.calc_max()


def _uses(s, uses):
    """what an application did with the object in an earlier state; returns the object that lives on (a deepcopy replaces it)"""
    for u in uses:
        try:
            k = u[0]
            if k in LIMIT_CALLS:
                _limit_call(s, k)
            elif k == "range":
                s.calculate_raw_range()
            elif k == "conv":
                r = _raw_at(s, u[1])
                s.phys2raw(s.raw2phys(r))
            elif k == "named":
                r = _raw_at(s, u[1])
                s.raw2phys(r, decode_to_str=True)
                cm.DecodedSignal(r, s).named_value
            elif k == "decoded":
                cm.DecodedSignal(_raw_at(s, u[1]), s).phys_value
            elif k == "label":
                s.phys2raw(u[1])
            elif k == "copy":
                s = _copy.deepcopy(s)
        except Exception:  # noqa  (an earlier state may be one in which a conversion is refused; that is not what is observed here)
            pass
    return s


class _Share(object):
    """the other holders of the table object the signal under test is constructed from"""

    def __init__(self, sh, sd):
        self.sh, self.sd = sh, sd
        self.tab = _ctor_table(sd)          # the caller's dict
        self.sib = self.db = None
        self.s = None

    def _sibling(self, table):
        sd = self.sd
        return cm.Signal("sib", size=sd["size"], is_signed=sd["signed"], factor=decimal.Decimal(3), offset=decimal.Decimal(7), values=table)

    def _source(self):
        return self.db.value_tables["T"] if self.db is not None else self.tab

    def table(self):
        """the object handed to the constructor of the signal under test"""
        how = self.sh["how"]
        if how == "global":
            self.db = cm.CanMatrix()
            self.db.add_value_table("T", self.tab)
        if how == "fromsib":
            self.sib = self._sibling(self.tab)
            return self.sib.values
        if how in ("sibling", "global") and self.sh["sibfirst"]:
            self.sib = self._sibling(self._source())
        return self._source()

    def after(self, s):
        """the signal under test exists (`s` is the object the constructor returned)"""
        how = self.sh["how"]
        if how == "copyctor":
            self.sib = self._sibling(s.values)
        elif how in ("sibling", "global") and self.sib is None:
            self.sib = self._sibling(self._source())

    def mutate(self):
        """the other holders change their table"""
        for m in self.sh["muts"]:
            holder, kind = m[0], m[1]
            sib = self.sib if holder == "sibling" else None
            d = sib.values if sib is not None else self.db.value_tables["T"] if holder == "global" and self.db is not None else self.tab
            if kind == "add":
                if sib is not None:
                    sib.add_values(m[2], m[3])
                else:
                    d[m[2] if not any(isinstance(k, str) for k in d) else str(m[2])] = m[3]
            elif kind == "del":
                d.pop(m[2], None)
                d.pop(str(m[2]), None)
            elif kind == "clear":
                d.clear()
            else:
                # the caller goes on using its dict for the next signal
                d.clear()
                d.update({0: "Closed", 1: "Open"})
                cm.Signal("next", size=1, is_signed=False, values=d)


def build(sd, hist, share=None):
    """the Signal object in state `sd` after the life `hist` (None: built afresh as before); `share`: the table comes from an object
    that has other holders"""
    if hist is None and share is not None:
        s = cm.Signal("s", size=sd["size"], is_signed=sd["signed"], factor=dec_of(sd["factor"]), offset=dec_of(sd["offset"]),
                      values=share.table(), **_dress_kw(sd))
        share.after(s)
        return s
    if hist is None:
        return mksig(sd)
    prev = hist["prev"]
    first = prev[0] if prev else sd
    kw = {}
    if hist["ctor"] == "limits":
        # limits given to the constructor: nothing is computed there
        kw["min"] = decimal.Decimal(0)
        kw["max"] = decimal.Decimal(1)
    if not prev and hist["tab"] == "ctor":
        kw["values"] = _ctor_table(sd)
    if hist["ctor"] == "plain":
        # unit and comment are there from the start (otherwise they are assigned when the final state is reached)
        kw.update(_dress_kw(sd))
    if share is not None:
        kw["values"] = share.table()
    s = cm.Signal("s", size=first["size"], is_signed=first["signed"], factor=dec_of(first["factor"]), offset=dec_of(first["offset"]), **kw)
    if share is not None:
        share.after(s)
    cur = first
    for i, st in enumerate(prev):
        if i:
            _assign(s, cur, st, hist["order"])
        for k, v in st["vals"]:
            s.add_values(k, v)
        s = _uses(s, st["uses"])
        cur = st
    if prev:
        _assign(s, cur, sd, hist["order"])
    if hist["ctor"] != "plain":
        _dress(s, sd)
    if hist["tab"] == "clear":
        s.values.clear()
    elif hist["tab"] == "rebind":
        s.values = {}
    elif hist["tab"] == "del":
        for k in list(s.values):
            del s.values[k]
    if not (not prev and hist["tab"] == "ctor"):
        _add_values(s, sd)
    return _uses(s, hist["uses"])


def _finish(s, hist):
    """recompute the default limits as the history says; returns (min, max) as the calls yielded them"""
    if hist is None:
        return s.min, s.max
    mn = mx = None
    for name in hist["fin"]:
        v = _limit_call(s, name)
        if name in ("min", "cmin"):
            mn = v
        else:
            mx = v
    return mn, mx


NB_FLOAT = -21.375      # the neighbour's raw value when it is a float signal (dyadic: Decimal(float) has six digits)


def _nb_tail(nb):
    """(payload bytes of the neighbour, its exact physical value)"""
    if nb == "u8":
        return bytearray([0xA5]), decimal.Decimal(0xA5 * 3 + 7)
    return bytearray(struct.pack("<f" if nb == "f32" else "<d", NB_FLOAT)), decimal.Decimal("-57.125")


def _in_frame(s, sd, matrix, nb="u8"):
    """the signal at the start of a frame of its own, followed by a signal of another scaling: byte-wide integer, or IEEE float (32 / 64 bit)"""
    nbytes = (sd["size"] + 7) // 8
    if nb == "u8":
        n = cm.Signal("n", start_bit=nbytes * 8, size=8, is_signed=False, factor=decimal.Decimal(3), offset=decimal.Decimal(7))
    else:
        n = cm.Signal("n", start_bit=nbytes * 8, size=32 if nb == "f32" else 64, is_float=True, factor=decimal.Decimal(3), offset=decimal.Decimal(7))
    f = cm.Frame("f", arbitration_id=cm.ArbitrationId(0x123, extended=False), size=nbytes + n.size // 8)
    f.add_signal(s)
    f.add_signal(n)
    if not matrix:
        return f, f.decode, f.encode
    db = cm.CanMatrix()
    db.add_frame(f)
    return f, (lambda data: db.decode(f.arbitration_id, data)), (lambda d: db.encode(f.arbitration_id, d))


def _use_other(o):
    """another signal of the process is used; what it yields is not what is observed here"""
    try:
        kind, x, use = o["kind"], o["x"], o["use"]
        size = 32 if kind == "f32" else 64
        t = cm.Signal("t", size=size, is_float=kind != "int", is_signed=True, factor=dec_of(o["factor"]), offset=dec_of(o["offset"]))
        t.add_values(171, "SNA")
        if kind == "int":
            rawv = x * 461168601842738      # up to 2^63
            data = bytearray(rawv.to_bytes(8, "little", signed=True))
        else:
            rawv = x / 8.0
            data = bytearray(struct.pack("<f" if kind == "f32" else "<d", rawv))
        if use == "raw2phys":
            t.raw2phys(rawv)
        elif use == "decoded":
            cm.DecodedSignal(rawv, t).phys_value
        elif use == "named":
            cm.DecodedSignal(rawv, t).named_value
        elif use == "back":
            t.phys2raw(t.raw2phys(rawv))
        else:
            g = cm.Frame("g", arbitration_id=cm.ArbitrationId(0x321, extended=False), size=size // 8)
            g.add_signal(t)
            if use == "frame":
                g.decode(data)["t"].phys_value
            elif use == "matrix":
                db = cm.CanMatrix()
                db.add_frame(g)
                db.decode(g.arbitration_id, data)["t"].named_value
            else:
                g.decode(g.encode({"t": t.raw2phys(rawv)}))["t"].phys_value
    except Exception:  # noqa
        pass


def _tri_or_text(v):
    return tri(v) if isinstance(v, decimal.Decimal) else ("<not a decimal number: %r>" % (v,))


def observe(case):
    decimal.setcontext(_CTX0.copy())
    op, c = case["op"], case["c"]
    if op == "dec":
        which = c[0]
        a = dec_of(c[1])
        if which == "round":
            return int(round(a))
        b = dec_of(c[2])
        r = {"add": a + b, "sub": a - b, "mul": a * b, "div": (a / b) if which == "div" else None}[which]
        return tri(r)
    sd, hist, via = c["sig"], c.get("hist"), c.get("via", "signal")
    others, nb = c.get("others", []), c.get("nb", "u8")
    s = mksig(sd)
    # another signal lives in the same process: same labels on other keys, other scaling.  It converts first; what one signal
    # converts is no business of another
    sd2 = dict(sd)
    vals = sd["values"]
    lo2, hi2 = s.calculate_raw_range()
    sd2["values"] = [[k2, v] for k2, v in zip([int(hi2) - i for i in range(len(vals))], [v for _, v in reversed(vals)]) if int(lo2) <= k2 <= int(hi2)]
    sd2["factor"] = [False, "3", 0]
    sd2["offset"] = [False, "7", 0]
    decoy = mksig(sd2)
    for o in others:
        if o["when"] == "before":
            _use_other(o)
    share = _Share(c["share"], sd) if c.get("share") else None
    s = build(sd, hist, share)
    if share is not None and (c["share"]["when"] == "built" or op == "label"):
        share.mutate()
    for o in others:
        if o["when"] != "before":
            _use_other(o)
    for k2, v2 in sd2["values"]:
        try:
            decoy.phys2raw(v2)
            decoy.raw2phys(k2, decode_to_str=True)
        except Exception:  # noqa
            pass
    early = hist is not None and hist["conv"] == "after"
    if early:
        mn, mx = _finish(s, hist)
    if op == "label":
        try:
            if via == "frame":
                # the label goes in through Frame.encode and the raw key is read back from the payload
                f, dec, enc = _in_frame(s, sd, False, nb)
                got = dec(enc({"s": c["label"]}))
                if c.get("nbfirst"):
                    got["n"].phys_value
                r = got["s"].raw_value
            else:
                r = s.phys2raw(c["label"])
        except Exception:  # noqa
            return None
        return int(r)
    raw = c["raw"]
    # conversions of other values first: the result for `raw` must not depend on what the signal object converted before
    lo0, hi0 = s.calculate_raw_range()
    for other in (int(lo0), int(hi0), raw + 1 if raw + 1 <= int(hi0) else raw - 1):
        try:
            s.phys2raw(s.raw2phys(other))
            s.raw2phys(other, decode_to_str=True)
        except Exception:  # noqa
            pass
    if share is not None and c["share"]["when"] != "built":
        share.mutate()
    # the physical and the named value, read on the path the case names
    if via == "signal":
        phys = s.raw2phys(raw)
        named = cm.DecodedSignal(raw, s).named_value
    elif via == "decoded":
        d = cm.DecodedSignal(raw, s)
        phys = d.phys_value
        named = d.named_value
    else:
        f, dec, enc = _in_frame(s, sd, via == "matrix", nb)
        nbytes = (sd["size"] + 7) // 8
        tail, nb_want = _nb_tail(nb)
        data = bytearray((raw & ((1 << sd["size"]) - 1)).to_bytes(nbytes, "little")) + tail
        got = dec(data)
        # the physical value of the neighbour is read before or after that of the signal under test
        if c.get("nbfirst"):
            nb_phys = got["n"].phys_value
        d = got["s"]
        phys = d.phys_value
        named = d.named_value
        if not c.get("nbfirst"):
            nb_phys = got["n"].phys_value
        if d.raw_value != raw or nb_phys != nb_want:
            phys = "<decoding the frame gave raw %r for %r, neighbour %r>" % (d.raw_value, raw, nb_phys)
    # the two ways to a named value (DecodedSignal.named_value, raw2phys(decode_to_str=True)) agree
    named2 = s.raw2phys(raw, decode_to_str=True)
    if isinstance(named, str) != isinstance(named2, str) or (isinstance(named, str) and named != named2):
        named = "<named_value and raw2phys(decode_to_str=True) disagree: %r / %r>" % (named, named2)
    back = int(s.phys2raw(phys)) if isinstance(phys, decimal.Decimal) else None
    if not early:
        mn, mx = _finish(s, hist)
    lo, hi = s.calculate_raw_range()
    return {"phys": _tri_or_text(phys), "back": back, "named": named if isinstance(named, str) else tri(named),
            "min": _tri_or_text(mn), "max": _tri_or_text(mx), "range": [int(lo), int(hi)]}


def project(impl):
    return impl


def features(case, impl):
    yield "op=" + case["op"]
    if case["op"] != "dec":
        c, sd = case["c"], case["c"]["sig"]
        u = sd.get("unit", "")
        labs = [v for _, v in sd["values"]]
        yield "unit: " + ("none" if not u else "a label ends with it" if any(v.endswith(u) for v in labs) else "no label ends with it")
        if case["op"] == "label" and u and c["label"].endswith(u):
            yield "label ends with the unit"
        if "comment" in sd:
            yield "signal has a comment"
        lo, hi = raw_bounds(sd["size"], sd["signed"])
        foreign = [k for k, _ in sd["values"] if not lo <= k <= hi]
        if sd["values"]:
            yield "value table: " + ("has keys outside the raw range" if foreign else "all keys in the raw range")
        if "keyform" in sd:
            yield "value-table keys handed over as: " + "+".join(sorted(set(sd["keyform"][:len(sd["values"])])))
        if case["op"] == "scale" and foreign:
            tw = [k for k in foreign if bit_twin(k, sd["size"], sd["signed"]) == c["raw"]]
            if tw:
                yield "raw value shares its bit pattern with a key outside the range, " + (
                    "has a label of its own" if any(k == c["raw"] for k, _ in sd["values"]) else "has no label")
        if case["op"] == "label" and any(v == c["label"] and not lo <= k <= hi for k, v in sd["values"]):
            yield "label sits on a key outside the raw range"
        if "share" in c:
            yield "table object shared: " + c["share"]["how"]
            for m in c["share"]["muts"]:
                yield "other holder changes its table: %s %s" % (m[0], m[1])
            yield "other holder changes its table %s" % ("right after construction" if c["share"]["when"] == "built" else "after the first conversions")
        else:
            yield "table object shared: no"
        kinds = sorted({"float" if o["kind"] != "int" else "integer" for o in c.get("others", [])})
        yield "other signals used first: " + ("+".join(kinds) if kinds else "none")
        for o in c.get("others", []):
            yield "other signal used %s construction" % ("before" if o["when"] == "before" else "after")
        if "nb" in c and c.get("via") in ("frame", "matrix"):
            yield "neighbour in the frame: %s, read %s" % ("float" if c["nb"] != "u8" else "integer", "first" if c.get("nbfirst") else "second")
    if case["op"] == "dec":
        yield "dec:" + case["c"][0]
    elif case["op"] == "scale":
        sd = case["c"]["sig"]
        yield "width<=12" if sd["size"] <= 12 else "width>12"
        yield "signed" if sd["signed"] else "unsigned"
        yield "factor-exp=%s" % ("neg" if sd["factor"][2] < 0 else "nonneg")
        yield "negative-factor" if sd["factor"][0] else "positive-factor"
        if sd["factor"][2] < -10 or sd["factor"][2] > 6:
            yield "factor-magnitude=extreme"
        yield "named=label" if isinstance(impl["named"], str) else "named=number"
        yield "via=" + case["c"].get("via", "signal")
        h = case["c"].get("hist")
        if h is None:
            yield "history=none"
        else:
            yield "history=%d earlier states" % len(h["prev"])
            yield "limits recomputed: %s first, %s the conversions" % ("maximum" if h["fin"][0] in ("max", "cmax") else "minimum", h["conv"])
            if any(st[a] != case["c"]["sig"][a] for st in h["prev"] for a in ("size", "signed")):
                yield "history: raw range changed"
            if any(st[a] != case["c"]["sig"][a] for st in h["prev"] for a in ("factor", "offset")):
                yield "history: scaling changed"
            if h["tab"] != "add":
                yield "history: value table " + h["tab"]
        if len(impl["phys"][1]) >= 28:
            yield "28-digit-result"


def nontrivial(case, impl):
    if case["op"] != "scale":
        return True
    sd = case["c"]["sig"]
    return sd["factor"][2] < 0 or sd["offset"][1] != "0" or sd["factor"][1] != "1"
