import CanVerif.Model.Compare
import CanVerif.Spec.CompareSpec
/-!
# Helper lemmas for C13 (comparison sound and complete)

Everything here is phrased with `reportsNothing` (Model/Compare.lean); `allEqual` of Props/C13.lean is
the same function and is identified with it there.
-/
namespace CanVerif
open SpecCompare

/-! ## generic list / lookup facts -/

theorem reportsNothingList_eq_all (l : List Res) : reportsNothingList l = l.all reportsNothing := by
  induction l with
  | nil => simp [reportsNothingList]
  | cons c rest ih => simp [reportsNothingList, ih]

theorem reportsNothing_node (r t : Option String) (cs : List Res) :
    reportsNothing (.node r t cs) = ((t.isNone || r == some "equal") && cs.all reportsNothing) := by
  simp [reportsNothing, reportsNothingList_eq_all]

theorem reportsNothing_leaf_ne (r t : String) (h : r ≠ "equal") : reportsNothing (leaf r t) = false := by
  simp [leaf, reportsNothing_node, h]

/-- first-match lookup in a dictionary with unique keys is membership -/
theorem lookup_eq_some_iff {κ β : Type} [BEq κ] [LawfulBEq κ] (l : List (κ × β))
    (h : (l.map (·.1)).Nodup) (k : κ) (v : β) :
    (l.find? (·.1 == k)).map (·.2) = some v ↔ (k, v) ∈ l := by
  induction l with
  | nil => simp
  | cons p l ih =>
    obtain ⟨k', v'⟩ := p
    simp only [List.map_cons, List.nodup_cons] at h
    by_cases hk : k' = k
    · subst hk
      have : ∀ w, (k', w) ∉ l := fun w hw => h.1 (List.mem_map.2 ⟨_, hw, rfl⟩)
      simp [this]
      exact eq_comm
    · have hk' : (k' == k) = false := by simpa using hk
      have : ¬ (k = k') := fun e => hk e.symm
      simp [hk', ih h.2, this]

theorem any_pair_iff {κ β : Type} [BEq κ] [LawfulBEq κ] [BEq β] [LawfulBEq β] (l : List (κ × β)) (k : κ) (v : β) :
    (l.any fun kw => kw.1 == k && kw.2 == v) = true ↔ (k, v) ∈ l := by
  simp only [List.any_eq_true, Bool.and_eq_true, beq_iff_eq]
  constructor
  · rintro ⟨⟨a, b⟩, hm, rfl, rfl⟩; exact hm
  · intro h; exact ⟨_, h, rfl, rfl⟩

theorem lookup_isSome {κ β : Type} [BEq κ] (l : List (κ × β)) (k : κ) :
    ((l.find? (·.1 == k)).map (·.2)).isSome = l.any (·.1 == k) := by
  rw [Bool.eq_iff_iff]; simp

theorem find?_self_of_nodup {α κ : Type} [BEq κ] [LawfulBEq κ] (f : α → κ) (l : List α)
    (h : (l.map f).Nodup) (x : α) (hx : x ∈ l) : l.find? (fun y => f y == f x) = some x := by
  induction l with
  | nil => cases hx
  | cons y l ih =>
    simp only [List.map_cons, List.nodup_cons] at h
    by_cases hy : f y = f x
    · rcases List.mem_cons.1 hx with rfl | hx'
      · simp
      · exact absurd (hy ▸ List.mem_map.2 ⟨x, hx', rfl⟩) h.1
    · rcases List.mem_cons.1 hx with rfl | hx'
      · exact absurd rfl hy
      · simp [hy, ih h.2 hx']

/-! ## dictionaries -/

theorem lookup_eq_none {κ β : Type} [BEq κ] [LawfulBEq κ] (l : List (κ × β)) (k : κ) :
    (l.find? (·.1 == k)).map (·.2) = none ↔ ¬ ∃ v, (k, v) ∈ l := by
  simp
  constructor
  · intro h v hv; exact h _ _ hv rfl
  · intro h a b hm e; subst e; exact h _ hm

theorem compareAttributes_ok (a1 a2 : KV) (h2 : (a2.map (·.1)).Nodup) :
    reportsNothing (compareAttributes a1 a2) = sameDict a1 a2 := by
  rw [Bool.eq_iff_iff]
  simp only [compareAttributes, reportsNothing_node, sameDict, List.all_append, List.all_filterMap]
  simp
  refine and_congr (forall_congr' fun a => forall_congr' fun b => imp_congr_right fun _ => ?_)
    (forall_congr' fun a => forall_congr' fun b => imp_congr_right fun _ => ?_)
  · rw [← lookup_eq_some_iff a2 h2]
    show _ ↔ kvGet a2 a = some b
    cases kvGet a2 a with
    | none => simp [reportsNothing_leaf_ne]
    | some v => by_cases hv : b = v <;> simp [hv, reportsNothing_leaf_ne, eq_comm]
  · have := lookup_eq_none a1 a
    change kvGet a1 a = none ↔ _ at this
    by_cases hex : ∃ x, (a, x) ∈ a1
    · rw [if_neg (by rw [this]; exact fun h => h hex)]; simp [hex]
    · rw [if_pos (by rw [this]; exact hex)]; simp [hex, reportsNothing_leaf_ne]

theorem compareValueTable_ok (a1 a2 : List (Int × String)) (h2 : (a2.map (·.1)).Nodup) :
    reportsNothing (compareValueTable a1 a2) = sameTable a1 a2 := by
  rw [Bool.eq_iff_iff]
  simp only [compareValueTable, reportsNothing_node, sameTable, List.all_append, List.all_filterMap]
  simp
  refine and_congr (forall_congr' fun a => forall_congr' fun b => imp_congr_right fun _ => ?_)
    (forall_congr' fun a => forall_congr' fun b => imp_congr_right fun _ => ?_)
  · rw [← lookup_eq_some_iff a2 h2]
    show _ ↔ vtGet a2 a = some b
    cases vtGet a2 a with
    | none => simp [reportsNothing_leaf_ne]
    | some v => by_cases hv : b = v <;> simp [hv, reportsNothing_leaf_ne, eq_comm]
  · have := lookup_eq_none a1 a
    change vtGet a1 a = none ↔ _ at this
    by_cases hex : ∃ x, (a, x) ∈ a1
    · rw [if_neg (by rw [this]; exact fun h => h hex)]; simp [hex]
    · rw [if_pos (by rw [this]; exact hex)]; simp [hex, reportsNothing_leaf_ne]

theorem compareDefineList_ok (t : String) (a1 a2 : List (String × QDef)) (h2 : (a2.map (·.1)).Nodup) :
    reportsNothing (compareDefineList t a1 a2) = sameDefs a1 a2 := by
  rw [Bool.eq_iff_iff]
  simp only [compareDefineList, reportsNothing_node, sameDefs, List.all_append, List.all_filterMap, List.all_flatMap]
  simp
  refine and_congr (forall_congr' fun a => forall_congr' fun b => imp_congr_right fun _ => ?_)
    (forall_congr' fun a => forall_congr' fun b => imp_congr_right fun _ => ?_)
  · rw [← lookup_eq_some_iff a2 h2]
    show _ ↔ defGetQ a2 a = some b
    cases defGetQ a2 a with
    | none => simp [reportsNothing_leaf_ne]
    | some v =>
      obtain ⟨d1, f1⟩ := b; obtain ⟨d2, f2⟩ := v
      by_cases h1 : d1 = d2 <;> by_cases h2' : f1 = f2 <;>
        simp [h1, h2', reportsNothing_leaf_ne] <;> (intros; first | exact fun e => h2' e.symm | exact fun e => h1 e.symm)
  · have := lookup_eq_none a1 a
    change defGetQ a1 a = none ↔ _ at this
    by_cases hex : ∃ x, (a, x) ∈ a1
    · rw [if_neg (by rw [this]; exact fun h => h hex)]; simp [hex]
    · rw [if_pos (by rw [this]; exact hex)]; simp [hex, reportsNothing_leaf_ne]

/-! ## components -/

theorem all_filterMap_ite_none {α : Type} (l : List α) (c : α → Bool) (f : α → Res)
    (hf : ∀ x, reportsNothing (f x) = false) :
    (l.filterMap fun x => if c x then none else some (f x)).all reportsNothing = l.all c := by
  induction l with
  | nil => simp
  | cons x l ih =>
    cases hc : c x <;> simp [hc, ih, hf]

theorem all_filterMap_ite_some {α : Type} (l : List α) (c : α → Bool) (f : α → Res)
    (hf : ∀ x, reportsNothing (f x) = false) :
    (l.filterMap fun x => if c x then some (f x) else none).all reportsNothing = l.all (fun x => !c x) := by
  induction l with
  | nil => simp
  | cons x l ih =>
    cases hc : c x <;> simp [hc, ih, hf]

theorem all_ite_singleton (c : Bool) (r : Res) (hr : reportsNothing r = false) :
    (if c then [r] else []).all reportsNothing = !c := by
  cases c <;> simp [hr]

theorem compareSignalGroup_ok (g h : QGroup) : reportsNothing (compareSignalGroup g h) = groupAgree g h := by
  simp only [compareSignalGroup, reportsNothing_node, groupAgree, sameSet, List.all_append]
  rw [all_filterMap_ite_none _ _ _ (fun _ => reportsNothing_leaf_ne _ _ (by decide)),
      all_filterMap_ite_none _ _ _ (fun _ => reportsNothing_leaf_ne _ _ (by decide)),
      all_ite_singleton _ _ (reportsNothing_leaf_ne _ _ (by decide)),
      all_ite_singleton _ _ (reportsNothing_leaf_ne _ _ (by decide))]

  simp [bne, Bool.and_assoc]

theorem all_ite_leaf (c : Bool) (r t : String) (hr : r ≠ "equal") :
    (if c then [leaf r t] else []).all reportsNothing = !c :=
  all_ite_singleton _ _ (reportsNothing_leaf_ne _ _ hr)

theorem all_filterMap_leaf_none {α : Type} (l : List α) (c : α → Bool) (r : String) (g : α → String) (hr : r ≠ "equal") :
    (l.filterMap fun x => if c x then none else some (leaf r (g x))).all reportsNothing = l.all c :=
  all_filterMap_ite_none _ _ _ (fun _ => reportsNothing_leaf_ne _ _ hr)

theorem all_filterMap_leaf_some {α : Type} (l : List α) (c : α → Bool) (r : String) (g : α → String) (hr : r ≠ "equal") :
    (l.filterMap fun x => if c x then some (leaf r (g x)) else none).all reportsNothing = l.all (fun x => !c x) :=
  all_filterMap_ite_some _ _ _ (fun _ => reportsNothing_leaf_ne _ _ hr)

theorem all_ite_nil_else (c : Bool) (L : List Res) :
    (if c = true then [] else L).all reportsNothing = (c || L.all reportsNothing) := by
  cases c <;> simp

theorem all_congr_mem {α : Type} {l : List α} {f g : α → Bool} (h : ∀ x ∈ l, f x = g x) : l.all f = l.all g := by
  induction l with
  | nil => rfl
  | cons x l ih =>
    simp only [List.all_cons, h x (List.mem_cons_self ..)]
    rw [ih fun y hy => h y (List.mem_cons_of_mem _ hy)]

theorem compareSignal_ok (ign : Ign) (s t : QSig) (ha : (t.attrs.map (·.1)).Nodup) (hv : (t.values.map (·.1)).Nodup) :
    reportsNothing (compareSignal ign s t) = sigAgree ign s t := by
  simp only [compareSignal, reportsNothing_node, sigAgree, sameSet, List.all_append]
  simp only [all_ite_leaf, all_filterMap_leaf_none, ne_eq, String.reduceEq, not_false_eq_true,
    all_ite_nil_else, List.all_cons, List.all_nil, Bool.and_true, compareAttributes_ok _ _ ha, compareValueTable_ok _ _ hv]
  cases ign.igComment <;> cases s.comment <;> cases t.comment <;> simp [bne, Bool.and_assoc]
  rename_i a b; by_cases h : a = b <;> simp [h, reportsNothing_leaf_ne]

theorem not_isNone_find? {α : Type} (l : List α) (p : α → Bool) : (!(l.find? p).isNone) = l.any p := by
  rw [Bool.eq_iff_iff]; simp

/-! the `match`-children of `compareFrame` / `frameAgree`, named so that lemmas can mention them -/
def sigChild (ign : Ign) (g : QFrame) (s1 : QSig) : Res :=
  match g.sigs.find? (·.name == s1.name) with
  | none => leaf "deleted" "SIGNAL"
  | some s2 => compareSignal ign s1 s2
def sigSpec (ign : Ign) (g : QFrame) (s : QSig) : Bool :=
  match g.sigs.find? (·.name == s.name) with
  | some t => sigAgree ign s t
  | none => false
def groupChild (g : QFrame) (g1 : QGroup) : Res :=
  match g.groups.find? (·.name == g1.name) with
  | none => leaf "removed" "Signalgroup"
  | some g2 => compareSignalGroup g1 g2
def groupSpec (g : QFrame) (x : QGroup) : Bool :=
  match g.groups.find? (·.name == x.name) with
  | some y => groupAgree x y
  | none => false

theorem compareFrame_eq (ign : Ign) (f1 f2 : QFrame) : compareFrame ign f1 f2 =
  .node (some "equal") (some "FRAME")
    ((f1.sigs.map (sigChild ign f2)) ++
     (if f1.name != f2.name then [leaf "changed" "Name"] else []) ++
     (if f1.size != f2.size then [leaf "changed" "dlc"] else []) ++
     (if f1.id != f2.id then [leaf "changed" "ID"] else []) ++
     (if f1.ext != f2.ext then [leaf "changed" "FRAME"] else []) ++
     (if ign.igComment then [] else
        if f1.comment.getD "" != f2.comment.getD "" then [leaf "changed" "FRAME"] else []) ++
     (f2.sigs.filterMap fun s2 => if (f1.sigs.find? (·.name == s2.name)).isNone then some (leaf "added" "SIGNAL") else none) ++
     (if ign.igAttr then [] else [compareAttributes f1.attrs f2.attrs]) ++
     (f1.transmitters.filterMap fun t => if f2.transmitters.contains t then none else some (leaf "removed" "Frame-Transmitter")) ++
     (f2.transmitters.filterMap fun t => if f1.transmitters.contains t then none else some (leaf "added" "Frame-Transmitter")) ++
     (f1.groups.map (groupChild f2)) ++
     (f2.groups.filterMap fun g2 => if (f1.groups.find? (·.name == g2.name)).isNone then some (leaf "added" "Signalgroup") else none)) := rfl

theorem frameAgree_eq (ign : Ign) (f g : QFrame) : frameAgree ign f g =
  (f.name == g.name && f.size == g.size && f.id == g.id && f.ext == g.ext &&
  (ign.igComment || f.comment.getD "" == g.comment.getD "") &&
  (f.sigs.all (sigSpec ign g)) &&
  (g.sigs.all fun t => f.sigs.any (·.name == t.name)) &&
  (ign.igAttr || sameDict f.attrs g.attrs) &&
  sameSet f.transmitters g.transmitters &&
  (f.groups.all (groupSpec g)) &&
  (g.groups.all fun y => f.groups.any (·.name == y.name))) := rfl

theorem compareFrame_ok (ign : Ign) (f g : QFrame) (ha : (g.attrs.map (·.1)).Nodup)
    (hs : ∀ t ∈ g.sigs, (t.attrs.map (·.1)).Nodup ∧ (t.values.map (·.1)).Nodup) :
    reportsNothing (compareFrame ign f g) = frameAgree ign f g := by
  have h1 : f.sigs.all (reportsNothing ∘ sigChild ign g) = f.sigs.all (sigSpec ign g) := by
    apply all_congr_mem
    intro s _
    simp only [Function.comp_apply, sigChild, sigSpec]
    cases h : g.sigs.find? (·.name == s.name) with
    | none => simp [reportsNothing_leaf_ne]
    | some t =>
      have := hs t (List.mem_of_find?_eq_some h)
      simp [compareSignal_ok _ _ _ this.1 this.2]
  have h2 : f.groups.all (reportsNothing ∘ groupChild g) = f.groups.all (groupSpec g) := by
    apply all_congr_mem
    intro s _
    simp only [Function.comp_apply, groupChild, groupSpec]
    cases h : g.groups.find? (·.name == s.name) with
    | none => simp [reportsNothing_leaf_ne]
    | some t => simp [compareSignalGroup_ok]
  rw [compareFrame_eq, frameAgree_eq]
  simp only [reportsNothing_node, sameSet, List.all_append, List.all_map]
  simp only [all_ite_leaf, all_filterMap_leaf_none, all_filterMap_leaf_some, ne_eq, String.reduceEq, not_false_eq_true,
    all_ite_nil_else, List.all_cons, List.all_nil, Bool.and_true, compareAttributes_ok _ _ ha, h1, h2, not_isNone_find?]
  simp only [bne, Bool.not_not, Option.isNone_some, Bool.false_or, beq_self_eq_true, Bool.true_and]
  ac_rfl

/-! ## propagation -/

mutual
/-- this node and every descendant has a type -/
def typedAll : Res → Bool
  | .node _ t cs => t.isSome && typedAllList cs
def typedAllList : List Res → Bool
  | [] => true
  | c :: rest => typedAll c && typedAllList rest
end

/-- every non-root node has a type -/
def typedBelow : Res → Bool
  | .node _ _ cs => typedAllList cs

mutual
theorem propagate_typed : (c : Res) → typedAll c = true →
    reportsNothing (propagate c).1 = reportsNothing c ∧ ((propagate c).2 = 0 ↔ reportsNothing c = true)
  | .node r t cs => by
    intro h
    simp only [typedAll, Bool.and_eq_true] at h
    obtain ⟨ih1, ih2⟩ := propagateList_typed cs h.2
    obtain ⟨tt, rfl⟩ := Option.isSome_iff_exists.1 h.1
    rcases hp : propagateList cs with ⟨cs', n⟩
    rw [hp] at ih1 ih2
    simp only [propagate, hp, reportsNothing] 
    simp only at ih1 ih2
    by_cases hn : n = 0
    · subst hn
      have := ih2.1 rfl
      simp [ih1, this]
    · have : reportsNothingList cs = false := by
        cases hh : reportsNothingList cs
        · rfl
        · exact absurd (ih2.2 hh) hn
      simp [ih1, this, hn]
theorem propagateList_typed : (cs : List Res) → typedAllList cs = true →
    reportsNothingList (propagateList cs).1 = reportsNothingList cs ∧
      ((propagateList cs).2 = 0 ↔ reportsNothingList cs = true)
  | [] => by intro _; simp [propagateList, reportsNothingList]
  | c :: rest => by
    intro h
    simp only [typedAllList, Bool.and_eq_true] at h
    obtain ⟨a1, a2⟩ := propagate_typed c h.1
    obtain ⟨b1, b2⟩ := propagateList_typed rest h.2
    rcases hp : propagate c with ⟨c', n⟩
    rcases hq : propagateList rest with ⟨r', m⟩
    rw [hp] at a1 a2; rw [hq] at b1 b2
    simp only at a1 a2 b1 b2
    simp only [propagateList, hp, hq, reportsNothingList, a1, b1, Nat.add_eq_zero_iff, a2, b2, Bool.and_eq_true, true_and]
end

theorem propagate_reports_typed (t : Res) (h : typedBelow t = true) :
    reportsNothing (propagate t).1 = reportsNothing t := by
  obtain ⟨r, ty, cs⟩ := t
  cases ty with
  | some tt => exact (propagate_typed _ (by simpa [typedAll, typedBelow] using h)).1
  | none =>
    have := (propagateList_typed cs h).1
    rcases hp : propagateList cs with ⟨cs', n⟩
    rw [hp] at this
    simpa [propagate, hp, reportsNothing] using this

/-! ## every tree built by the model is typed below the root -/

theorem typedAllList_eq_all (l : List Res) : typedAllList l = l.all typedAll := by
  induction l with
  | nil => simp [typedAllList]
  | cons c rest ih => simp [typedAllList, ih]

theorem typedAll_node (r t : Option String) (cs : List Res) :
    typedAll (.node r t cs) = (t.isSome && cs.all typedAll) := by
  simp [typedAll, typedAllList_eq_all]

theorem typedAll_leaf (r t : String) : typedAll (leaf r t) = true := by simp [leaf, typedAll_node]

theorem typed_ite_leaf (c : Prop) [Decidable c] (r t : String) : (if c then [leaf r t] else []).all typedAll = true := by
  split <;> simp [typedAll_leaf]

theorem typed_ite_nil (c : Bool) (L : List Res) : (if c = true then [] else L).all typedAll = (c || L.all typedAll) := by
  cases c <;> simp

theorem typed_filterMap {α : Type} (l : List α) (f : α → Option Res) (h : ∀ x r, f x = some r → typedAll r = true) :
    (l.filterMap f).all typedAll = true := by
  simp only [List.all_eq_true, List.mem_filterMap]
  rintro r ⟨x, _, hx⟩; exact h x r hx

theorem typed_filterMap_none {α : Type} (l : List α) (c : α → Prop) [DecidablePred c] (r : String) (g : α → String) :
    (l.filterMap fun x => if c x then none else some (leaf r (g x))).all typedAll = true := by
  apply typed_filterMap; intro x r h; split at h <;> simp at h; subst h; exact typedAll_leaf ..

theorem typed_filterMap_some {α : Type} (l : List α) (c : α → Prop) [DecidablePred c] (r : String) (g : α → String) :
    (l.filterMap fun x => if c x then some (leaf r (g x)) else none).all typedAll = true := by
  apply typed_filterMap; intro x r h; split at h <;> simp at h; subst h; exact typedAll_leaf ..

theorem typed_map {α : Type} (l : List α) (f : α → Res) (h : ∀ x, typedAll (f x) = true) :
    (l.map f).all typedAll = true := by
  simp [h]

theorem compareAttributes_typed (a1 a2 : KV) : typedAll (compareAttributes a1 a2) = true := by
  simp only [compareAttributes, typedAll_node, List.all_append, Option.isSome_some, Bool.true_and, Bool.and_eq_true]
  refine ⟨typed_filterMap _ _ ?_, typed_filterMap_some ..⟩
  intro x r h
  split at h
  · simp at h; subst h; exact typedAll_leaf ..
  · split at h <;> simp at h; subst h; exact typedAll_leaf ..

theorem compareValueTable_typed (a1 a2 : List (Int × String)) : typedAll (compareValueTable a1 a2) = true := by
  simp only [compareValueTable, typedAll_node, List.all_append, Option.isSome_some, Bool.true_and, Bool.and_eq_true]
  refine ⟨typed_filterMap _ _ ?_, typed_filterMap_some ..⟩
  intro x r h
  split at h
  · simp at h; subst h; exact typedAll_leaf ..
  · split at h <;> simp at h; subst h; exact typedAll_leaf ..

theorem compareSignalGroup_typed (g h : QGroup) : typedAll (compareSignalGroup g h) = true := by
  simp only [compareSignalGroup, typedAll_node, List.all_append, typed_ite_leaf, typed_filterMap_none]
  simp

theorem compareDefineList_typed (t : String) (a1 a2 : List (String × QDef)) : typedAll (compareDefineList t a1 a2) = true := by
  simp only [compareDefineList, typedAll_node, List.all_append, Option.isSome_some, Bool.true_and, Bool.and_eq_true]
  refine ⟨?_, typed_filterMap_some ..⟩
  rw [List.all_flatMap]
  apply List.all_eq_true.2
  intro x _
  split
  · simp [typedAll_leaf]
  · simp only [List.all_append, typed_ite_leaf, Bool.and_self]

theorem compareSignal_typed (ign : Ign) (s t : QSig) : typedAll (compareSignal ign s t) = true := by
  simp only [compareSignal, typedAll_node, List.all_append, typed_ite_leaf, typed_filterMap_none, typed_ite_nil,
    List.all_cons, List.all_nil, compareAttributes_typed, compareValueTable_typed]
  cases ign.igComment <;> cases s.comment <;> cases t.comment <;> simp [typedAll_leaf]

theorem compareFrame_typed (ign : Ign) (f g : QFrame) : typedAll (compareFrame ign f g) = true := by
  have h1 : ∀ s, typedAll (sigChild ign g s) = true := by
    intro s; unfold sigChild; split
    · exact typedAll_leaf ..
    · exact compareSignal_typed ..
  have h2 : ∀ s, typedAll (groupChild g s) = true := by
    intro s; unfold groupChild; split
    · exact typedAll_leaf ..
    · exact compareSignalGroup_typed ..
  rw [compareFrame_eq]
  simp only [typedAll_node, List.all_append, typed_ite_leaf, typed_filterMap_none, typed_filterMap_some, typed_ite_nil,
    List.all_cons, List.all_nil, compareAttributes_typed, typed_map _ _ h1, typed_map _ _ h2]
  simp

theorem compareEcu_typed (ign : Ign) (e1 e2 : QEcu) : typedAll (compareEcu ign e1 e2) = true := by
  simp only [compareEcu, typedAll_node, List.all_append, typed_ite_leaf, typed_ite_nil,
    List.all_cons, List.all_nil, compareAttributes_typed]
  simp

/-! ## the whole matrix -/

theorem compareEcu_ok (ign : Ign) (e1 e2 : QEcu) (h : (e2.attrs.map (·.1)).Nodup) :
    reportsNothing (compareEcu ign e1 e2) =
      ((ign.igComment || e1.comment == e2.comment) && (ign.igAttr || sameDict e1.attrs e2.attrs)) := by
  simp only [compareEcu, reportsNothing_node, List.all_append]
  simp only [all_ite_leaf, ne_eq, String.reduceEq, not_false_eq_true,
    all_ite_nil_else, List.all_cons, List.all_nil, Bool.and_true, compareAttributes_ok _ _ h]
  simp [bne]

def frameChild (ign : Ign) (db2 : QMat) (f1 : QFrame) : Res :=
  match frameByName db2 f1.name with
  | some f2 => compareFrame ign f1 f2
  | none => match frameByIdQ db2 f1.id f1.ext with
    | some f2 => compareFrame ign f1 f2
    | none => leaf "deleted" "FRAME"
def frameSpec (ign : Ign) (b : QMat) (f : QFrame) : Bool :=
  match partner b f with
  | some g => frameAgree ign f g
  | none => false
def ecuChild (ign : Ign) (db2 : QMat) (e1 : QEcu) : Res :=
  match db2.ecus.find? (·.name == e1.name) with
  | none => leaf "deleted" "ecu"
  | some e2 => compareEcu ign e1 e2
def ecuSpec (ign : Ign) (b : QMat) (e : QEcu) : Bool :=
  match b.ecus.find? (·.name == e.name) with
  | some e' => (ign.igComment || e.comment == e'.comment) && (ign.igAttr || sameDict e.attrs e'.attrs)
  | none => false
def vtChild (db2 : QMat) (kv : String × List (Int × String)) : Res :=
  match (db2.valueTables.find? (·.1 == kv.1)).map (·.2) with
  | none => leaf "deleted" ("valuetable " ++ kv.1)
  | some v2 => compareValueTable kv.2 v2
def vtSpec (b : QMat) (kv : String × List (Int × String)) : Bool :=
  match b.valueTables.find? (·.1 == kv.1) with
  | some kw => sameTable kv.2 kw.2
  | none => false

/-- the result tree of `compareDb` before `propagate` -/
def compareDbPre (ign : Ign) (db1 db2 : QMat) : Res :=
  .node none none
    (db1.frames.map (frameChild ign db2) ++
     (db2.frames.filterMap fun f2 =>
        if (frameByName db1 f2.name).isNone && (frameByIdQ db1 f2.id f2.ext).isNone then some (leaf "added" "FRAME") else none) ++
     (if ign.igAttr then [] else [compareAttributes db1.attrs db2.attrs]) ++
     db1.ecus.map (ecuChild ign db2) ++
     (db2.ecus.filterMap fun e2 => if (db1.ecus.find? (·.name == e2.name)).isNone then some (leaf "added" "ecu") else none) ++
     (if ign.igDefine then [] else
      [compareDefineList "DefineList" db1.gdefs db2.gdefs, compareDefineList "ECU Defines" db1.edefs db2.edefs,
       compareDefineList "Frame Defines" db1.fdefs db2.fdefs, compareDefineList "Signal Defines" db1.sdefs db2.sdefs]) ++
     (if ign.igVt then [] else
      (db1.valueTables.map (vtChild db2)) ++
      (db2.valueTables.filterMap fun kv =>
        if (db1.valueTables.find? (·.1 == kv.1)).isNone then some (leaf "added" ("valuetable " ++ kv.1)) else none)))

theorem compareDb_eq (ign : Ign) (db1 db2 : QMat) : compareDb ign db1 db2 = (propagate (compareDbPre ign db1 db2)).1 := rfl

theorem agree_eq (ign : Ign) (a b : QMat) : agree ign a b =
  ((a.frames.all (frameSpec ign b)) &&
  (b.frames.all fun g => (partner a g).isSome) &&
  (ign.igAttr || sameDict a.attrs b.attrs) &&
  (a.ecus.all (ecuSpec ign b)) &&
  (b.ecus.all fun e' => a.ecus.any (·.name == e'.name)) &&
  (ign.igDefine || (sameDefs a.gdefs b.gdefs && sameDefs a.edefs b.edefs && sameDefs a.fdefs b.fdefs && sameDefs a.sdefs b.sdefs)) &&
  (ign.igVt ||
    ((a.valueTables.all (vtSpec b)) &&
     (b.valueTables.all fun kw => a.valueTables.any (·.1 == kw.1))))) := rfl


/-- every dictionary of the matrix has unique keys (raw form of `WfMat` in Props/C13.lean) -/
structure RawWf (m : QMat) : Prop where
  attrs : (m.attrs.map (·.1)).Nodup
  gdefs : (m.gdefs.map (·.1)).Nodup
  edefs : (m.edefs.map (·.1)).Nodup
  fdefs : (m.fdefs.map (·.1)).Nodup
  sdefs : (m.sdefs.map (·.1)).Nodup
  vts : (m.valueTables.map (·.1)).Nodup ∧ ∀ kv ∈ m.valueTables, (kv.2.map (·.1)).Nodup
  ecus : ∀ e ∈ m.ecus, (e.attrs.map (·.1)).Nodup
  frames : ∀ f ∈ m.frames, (f.attrs.map (·.1)).Nodup ∧ ∀ s ∈ f.sigs, (s.attrs.map (·.1)).Nodup ∧ (s.values.map (·.1)).Nodup

theorem frameChild_ok (ign : Ign) (b : QMat) (hb : RawWf b) (f : QFrame) :
    reportsNothing (frameChild ign b f) = frameSpec ign b f := by
  simp only [frameChild, frameSpec, partner, frameByName, frameByIdQ]
  cases h : b.frames.find? (·.name == f.name) with
  | some g =>
    have := hb.frames g (List.mem_of_find?_eq_some h)
    simp [compareFrame_ok _ _ _ this.1 this.2]
  | none =>
    simp only
    cases h' : b.frames.find? (fun g => g.id == f.id && g.ext == f.ext) with
    | some g =>
      have := hb.frames g (List.mem_of_find?_eq_some h')
      simp [compareFrame_ok _ _ _ this.1 this.2]
    | none => simp [reportsNothing_leaf_ne]

theorem ecuChild_ok (ign : Ign) (b : QMat) (hb : RawWf b) (e : QEcu) :
    reportsNothing (ecuChild ign b e) = ecuSpec ign b e := by
  simp only [ecuChild, ecuSpec]
  cases h : b.ecus.find? (·.name == e.name) with
  | some g => simp [compareEcu_ok _ _ _ (hb.ecus g (List.mem_of_find?_eq_some h))]
  | none => simp [reportsNothing_leaf_ne]

theorem vtChild_ok (b : QMat) (hb : RawWf b) (kv : String × List (Int × String)) :
    reportsNothing (vtChild b kv) = vtSpec b kv := by
  simp only [vtChild, vtSpec]
  cases h : b.valueTables.find? (·.1 == kv.1) with
  | some g => simp [compareValueTable_ok _ _ (hb.vts.2 g (List.mem_of_find?_eq_some h))]
  | none => simp [reportsNothing_leaf_ne]

theorem partner_isSome (a : QMat) (g : QFrame) :
    (!((frameByName a g.name).isNone && (frameByIdQ a g.id g.ext).isNone)) = (partner a g).isSome := by
  simp only [partner, frameByName, frameByIdQ]
  cases a.frames.find? (·.name == g.name) with
  | some f => simp
  | none => cases a.frames.find? (fun f => f.id == g.id && f.ext == g.ext) <;> simp

theorem compareDbPre_ok (ign : Ign) (a b : QMat) (hb : RawWf b) :
    reportsNothing (compareDbPre ign a b) = agree ign a b := by
  rw [agree_eq, compareDbPre]
  simp only [reportsNothing_node, List.all_append, List.all_map]
  simp only [all_filterMap_leaf_some, ne_eq, String.reduceEq, not_false_eq_true,
    all_ite_nil_else, List.all_cons, List.all_nil, Bool.and_true, List.all_append, List.all_map,
    compareAttributes_ok _ _ hb.attrs,
    compareDefineList_ok _ _ _ hb.gdefs, compareDefineList_ok _ _ _ hb.edefs, compareDefineList_ok _ _ _ hb.fdefs,
    compareDefineList_ok _ _ _ hb.sdefs, not_isNone_find?, partner_isSome]
  have h1 : a.frames.all (reportsNothing ∘ frameChild ign b) = a.frames.all (frameSpec ign b) :=
    all_congr_mem fun f _ => frameChild_ok ign b hb f
  have h2 : a.ecus.all (reportsNothing ∘ ecuChild ign b) = a.ecus.all (ecuSpec ign b) :=
    all_congr_mem fun f _ => ecuChild_ok ign b hb f
  have h3 : a.valueTables.all (reportsNothing ∘ vtChild b) = a.valueTables.all (vtSpec b) :=
    all_congr_mem fun f _ => vtChild_ok b hb f
  rw [h1, h2, h3]
  simp [Bool.and_assoc]


theorem compareDbPre_typed (ign : Ign) (a b : QMat) : typedBelow (compareDbPre ign a b) = true := by
  have h1 : ∀ f, typedAll (frameChild ign b f) = true := by
    intro f; unfold frameChild; split
    · exact compareFrame_typed ..
    · split
      · exact compareFrame_typed ..
      · exact typedAll_leaf ..
  have h2 : ∀ e, typedAll (ecuChild ign b e) = true := by
    intro e; unfold ecuChild; split
    · exact typedAll_leaf ..
    · exact compareEcu_typed ..
  have h3 : ∀ kv, typedAll (vtChild b kv) = true := by
    intro e; unfold vtChild; split
    · exact typedAll_leaf ..
    · exact compareValueTable_typed ..
  simp only [compareDbPre, typedBelow, typedAllList_eq_all, List.all_append, typed_filterMap_some, typed_ite_nil,
    List.all_cons, List.all_nil, compareAttributes_typed, compareDefineList_typed, typed_map _ _ h1, typed_map _ _ h2,
    typed_map _ _ h3]
  simp

/-- soundness and completeness in raw form -/
theorem compareDb_ok (ign : Ign) (a b : QMat) (hb : RawWf b) :
    reportsNothing (compareDb ign a b) = agree ign a b := by
  rw [compareDb_eq, propagate_reports_typed _ (compareDbPre_typed ..), compareDbPre_ok _ _ _ hb]


/-! ## reflexivity of `agree` -/

theorem sameDict_refl (a : KV) : sameDict a a = true := by
  simp only [sameDict, Bool.and_eq_true, List.all_eq_true, List.any_eq_true]
  exact ⟨fun kv h => ⟨kv, h, by simp⟩, fun kv h => ⟨kv, h, by simp⟩⟩

theorem sameTable_refl (a : List (Int × String)) : sameTable a a = true := by
  simp only [sameTable, Bool.and_eq_true, List.all_eq_true, List.any_eq_true]
  exact ⟨fun kv h => ⟨kv, h, by simp⟩, fun kv h => ⟨kv, h, by simp⟩⟩

theorem sameDefs_refl (a : List (String × QDef)) : sameDefs a a = true := by
  simp only [sameDefs, Bool.and_eq_true, List.all_eq_true, List.any_eq_true]
  exact ⟨fun kv h => ⟨kv, h, by simp⟩, fun kv h => ⟨kv, h, by simp⟩⟩

theorem sameSet_refl (a : List String) : sameSet a a = true := by
  simp [sameSet]

theorem sigAgree_refl (ign : Ign) (s : QSig) : sigAgree ign s s = true := by
  simp only [sigAgree, sameSet_refl, sameDict_refl, sameTable_refl]
  cases s.comment <;> simp

theorem groupAgree_refl (g : QGroup) : groupAgree g g = true := by
  simp [groupAgree, sameSet_refl]

theorem frameAgree_refl (ign : Ign) (f : QFrame) (hs : (f.sigs.map (·.name)).Nodup)
    (hg : (f.groups.map (·.name)).Nodup) : frameAgree ign f f = true := by
  have h1 : f.sigs.all (sigSpec ign f) = true := by
    apply List.all_eq_true.2
    intro s hm
    have h : f.sigs.find? (fun x => x.name == s.name) = some s := find?_self_of_nodup (·.name) _ hs s hm
    simp [sigSpec, h, sigAgree_refl]
  have h2 : f.groups.all (groupSpec f) = true := by
    apply List.all_eq_true.2
    intro s hm
    have h : f.groups.find? (fun x => x.name == s.name) = some s := find?_self_of_nodup (·.name) _ hg s hm
    simp [groupSpec, h, groupAgree_refl]
  have h3 : (f.sigs.all fun t => f.sigs.any (·.name == t.name)) = true := by
    simp only [List.all_eq_true, List.any_eq_true]; exact fun t h => ⟨t, h, by simp⟩
  have h4 : (f.groups.all fun t => f.groups.any (·.name == t.name)) = true := by
    simp only [List.all_eq_true, List.any_eq_true]; exact fun t h => ⟨t, h, by simp⟩
  rw [frameAgree_eq, h1, h2, h3, h4]
  simp [sameSet_refl, sameDict_refl]

theorem partner_self (a : QMat) (hn : (a.frames.map (·.name)).Nodup) (f : QFrame) (hf : f ∈ a.frames) :
    partner a f = some f := by
  have h : a.frames.find? (fun x => x.name == f.name) = some f := find?_self_of_nodup (·.name) _ hn f hf
  simp [partner, h]

theorem agree_refl_raw (ign : Ign) (a : QMat)
    (hfn : (a.frames.map (·.name)).Nodup) (hen : (a.ecus.map (·.name)).Nodup)
    (hsn : ∀ f ∈ a.frames, (f.sigs.map (·.name)).Nodup ∧ (f.groups.map (·.name)).Nodup)
    (hvt : (a.valueTables.map (·.1)).Nodup) : agree ign a a = true := by
  have h1 : a.frames.all (frameSpec ign a) = true := by
    apply List.all_eq_true.2
    intro f hf
    simp [frameSpec, partner_self a hfn f hf, frameAgree_refl ign f (hsn f hf).1 (hsn f hf).2]
  have h2 : (a.frames.all fun g => (partner a g).isSome) = true := by
    apply List.all_eq_true.2
    intro f hf
    simp [partner_self a hfn f hf]
  have h3 : a.ecus.all (ecuSpec ign a) = true := by
    apply List.all_eq_true.2
    intro e he
    have h : a.ecus.find? (fun x => x.name == e.name) = some e := find?_self_of_nodup (·.name) _ hen e he
    simp [ecuSpec, h, sameDict_refl]
  have h4 : (a.ecus.all fun e' => a.ecus.any (·.name == e'.name)) = true := by
    simp only [List.all_eq_true, List.any_eq_true]; exact fun t h => ⟨t, h, by simp⟩
  have h5 : a.valueTables.all (vtSpec a) = true := by
    apply List.all_eq_true.2
    intro kv hk
    have h : a.valueTables.find? (fun x => x.1 == kv.1) = some kv := find?_self_of_nodup (·.1) _ hvt kv hk
    simp [vtSpec, h, sameTable_refl]
  have h6 : (a.valueTables.all fun kw => a.valueTables.any (·.1 == kw.1)) = true := by
    simp only [List.all_eq_true, List.any_eq_true]; exact fun t h => ⟨t, h, by simp⟩
  rw [agree_eq, h1, h2, h3, h4, h5, h6]
  simp [sameDict_refl, sameDefs_refl]

/-! ## value tables ignored -/

def stripSig (s : QSig) : QSig := { s with values := [] }
def stripFrame (f : QFrame) : QFrame := { f with sigs := f.sigs.map stripSig }
def stripMat (a : QMat) : QMat := { a with valueTables := [], frames := a.frames.map stripFrame }

theorem sigAgree_strip (ign : Ign) (hv : ign.igVt = true) (s t : QSig) :
    sigAgree ign (stripSig s) (stripSig t) = sigAgree ign s t := by
  simp [sigAgree, stripSig, hv]

theorem sigSpec_strip (ign : Ign) (hv : ign.igVt = true) (g : QFrame) (s : QSig) :
    sigSpec ign (stripFrame g) (stripSig s) = sigSpec ign g s := by
  have h : (g.sigs.map stripSig).find? (fun x => x.name == s.name) =
      (g.sigs.find? (fun x => x.name == s.name)).map stripSig := by
    rw [List.find?_map]; rfl
  show (match (g.sigs.map stripSig).find? (fun x => x.name == s.name) with
    | some t => sigAgree ign (stripSig s) t
    | none => false) = _
  rw [h, sigSpec]
  cases g.sigs.find? (fun x => x.name == s.name) with
  | none => rfl
  | some t => exact sigAgree_strip ign hv s t

theorem frameAgree_strip (ign : Ign) (hv : ign.igVt = true) (f g : QFrame) :
    frameAgree ign (stripFrame f) (stripFrame g) = frameAgree ign f g := by
  rw [frameAgree_eq, frameAgree_eq]
  have h1 : (stripFrame f).sigs.all (sigSpec ign (stripFrame g)) = f.sigs.all (sigSpec ign g) := by
    show (f.sigs.map stripSig).all _ = _
    rw [List.all_map]
    exact all_congr_mem fun s _ => sigSpec_strip ign hv g s
  have h2 : ((stripFrame g).sigs.all fun t => (stripFrame f).sigs.any (·.name == t.name)) =
      (g.sigs.all fun t => f.sigs.any (·.name == t.name)) := by
    show ((g.sigs.map stripSig).all fun t => (f.sigs.map stripSig).any (·.name == t.name)) = _
    simp only [List.all_map, List.any_map]; rfl
  rw [h1, h2]
  rfl

theorem partner_strip (b : QMat) (f : QFrame) :
    partner (stripMat b) (stripFrame f) = (partner b f).map stripFrame := by
  have h1 : (b.frames.map stripFrame).find? (fun x => x.name == f.name) =
      (b.frames.find? (fun x => x.name == f.name)).map stripFrame := by
    rw [List.find?_map]; rfl
  have h2 : (b.frames.map stripFrame).find? (fun x => x.id == f.id && x.ext == f.ext) =
      (b.frames.find? (fun x => x.id == f.id && x.ext == f.ext)).map stripFrame := by
    rw [List.find?_map]; rfl
  show (match (b.frames.map stripFrame).find? (fun x => x.name == f.name) with
    | some g => some g
    | none => (b.frames.map stripFrame).find? (fun x => x.id == f.id && x.ext == f.ext)) = _
  rw [h1, h2, partner]
  cases b.frames.find? (fun x => x.name == f.name) <;> rfl

theorem agree_strip (ign : Ign) (hv : ign.igVt = true) (a b : QMat) :
    agree ign a b = agree ign (stripMat a) (stripMat b) := by
  rw [agree_eq, agree_eq]
  have h1 : (stripMat a).frames.all (frameSpec ign (stripMat b)) = a.frames.all (frameSpec ign b) := by
    show (a.frames.map stripFrame).all _ = _
    rw [List.all_map]
    apply all_congr_mem
    intro f _
    simp only [Function.comp_apply, frameSpec, partner_strip]
    cases partner b f with
    | none => rfl
    | some g => exact frameAgree_strip ign hv f g
  have h2 : ((stripMat b).frames.all fun g => (partner (stripMat a) g).isSome) =
      (b.frames.all fun g => (partner a g).isSome) := by
    show ((b.frames.map stripFrame).all _) = _
    rw [List.all_map]
    apply all_congr_mem
    intro f _
    simp [partner_strip]
  rw [h1, h2, hv]
  rfl

end CanVerif
