#!/bin/bash
# tools/seeds.sh [tier] [seeds...] : run every claimed check with several seeds on the current tree; print everything that is not OK
cd "$(dirname "$0")/.." || exit 2
tier="${1:-quick}"; shift
seeds="${@:-0 1 2 3 4}"
for pid in $(python3 -c "import json;print(' '.join(c['property_id'] for c in json.load(open('MANIFEST.json'))['checks']))"); do
  for s in $seeds; do
    out=$(VERIF_SEED=$s ./check $pid $tier 2>&1); rc=$?
    if [ $rc -ne 0 ]; then echo "[$pid seed=$s rc=$rc] $out" | head -5; fi
  done
done
echo "seeds sweep done"
