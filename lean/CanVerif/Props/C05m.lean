import CanVerif.Model.DbcFile
import CanVerif.Proofs.DbcErrors
import CanVerif.Props.C05l
/-!
# C05 — reading canmatrix's own DBC output reports no line error

`readFile` counts the `error with line no` messages of `dbc.load` (compared with the real reader's count on every generated file, also on
damaged ones: op `whole`).  For every matrix inside the envelope of `dbc_roundtrip_core_with_all_attributes` (Props/C05l) the count after
reading `writeCoreF` of it is zero - together with the matrix that was written.  The proof follows the statements through the file: the
identifiers of the frames and the names of their signals never change after the frame section (`Shaped`), so every later statement finds
its frame, the statements that would raise on a missing signal (`SIG_VALTYPE_`, `BA_ .. SG_`) find their signal, and every attribute value
is accepted by the definitions the file itself has built by then.
-/
namespace CanVerif.C05m
open CanVerif CanVerif.Dbc CanVerif.Dbc.FileProofs

theorem dbc_whole_matrix_roundtrip_without_line_error (es : List WEcu) (hes : wfEcus es = true) (ds : List DefLine) (hds : wfDefs ds = true)
    (dds : List DefDefLine) (hdds : wfDefaults ds dds = true)
    (ga : List (Str × Str)) (hga : wfAttrs (expectDefs ds dds) .global .global ga = true)
    (hea : ∀ e ∈ es, wfAttrs (expectDefs ds dds) .ecu (.ecu e.name) e.attrs = true)
    (ps : List (WFrame × (Nat × Bool))) (hwf : ∀ p ∈ ps, p.1.wf p.2 = true) (hdist : ps.Pairwise fun p q => p.2 ≠ q.2)
    (hfa : ∀ p ∈ ps, p.1.wfA (expectDefs ds dds) = true) :
    (readFile (writeCoreF es ds dds ga (ps.map (·.1)))).ecus = es.map WEcu.expectA ∧
    (readFile (writeCoreF es ds dds ga (ps.map (·.1)))).defs = expectDefs ds dds ∧
    (readFile (writeCoreF es ds dds ga (ps.map (·.1)))).attrs = attrsOf ga ∧
    (readFile (writeCoreF es ds dds ga (ps.map (·.1)))).frames = ps.map (fun p => p.1.expectA p.2) ∧
    (readFile (writeCoreF es ds dds ga (ps.map (·.1)))).pending = none ∧
    (readFile (writeCoreF es ds dds ga (ps.map (·.1)))).errors = 0 :=
  roundtrip_coreG es hes ds hds dds hdds ga hga hea ps hwf hdist hfa

/-- a statement whose frame (and, where it must, signal) exists and whose value is accepted prints no error -/
theorem statement_without_error (KS : List ((Nat × Bool) × List Str)) (m : RMatrix) (hP : Shaped KS m) (it : Item) (hf : fine KS it)
    (hok : baOk m.defs it = true) : (applyItem m it).errors = m.errors :=
  fine_errors KS m hP it hf hok

/-- no statement about a frame or a signal changes an identifier or the name of a signal -/
theorem statements_keep_identifiers_and_names (it : Item) (f : RFrame) : sigShape (itemUpdA it f) = sigShape f :=
  itemUpdA_shape it f

/-! ## non-vacuity, and what the hypotheses exclude -/

example : (readFile (writeCoreF CanVerif.C05k.exEcusA CanVerif.C05k.exDefs CanVerif.C05k.exDefaults CanVerif.C05k.exGlobal
    (CanVerif.C05l.exFramesA.map (·.1)))).errors = 0 := by decide +kernel
/-- a float type for a signal the frame does not have is a line error (the handler raises on `None`) -/
example : (readFile ["BO_ 291 Engine: 8 ECU_A".toList, " SG_ Speed : 0|8@1+ (0.5,0) [0|100] \"km/h\" ECU_B".toList, [],
    "SIG_VALTYPE_ 291 Rpm : 1;".toList]).errors = 1 := by decide +kernel
/-- a comment for a signal the frame does not have is not -/
example : (readFile ["BO_ 291 Engine: 8 ECU_A".toList, " SG_ Speed : 0|8@1+ (0.5,0) [0|100] \"km/h\" ECU_B".toList, [],
    "CM_ SG_ 291 Rpm \"x\";".toList]).errors = 0 := by decide +kernel

end CanVerif.C05m
