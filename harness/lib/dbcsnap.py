"""The matrix the real DBC reader has built when its line loop ends, before its post-processing - observed without touching the
reader: `load` creates its matrix with `canmatrix.CanMatrix()` and the first thing the post-processing does is
`list(db.env_vars.keys())`; the matrix handed out here carries a dictionary whose `keys()` records the projection at that moment.
If a reader does not pass that point (changed code) there is no snapshot and the caller skips the comparison."""
import contextlib
import io

import canmatrix
import canmatrix.formats.dbc
from lib import dbcgen as G


def exact(d):
    t = G.D(d).as_tuple()
    return [bool(t.sign), "".join(map(str, t.digits)), int(t.exponent)]


def _txt(x):
    return x if x else None


def sg_json(s):
    tag = None
    if s.mux_val is not None and s.multiplex == "Multiplexor":
        tag = ["mM", int(s.mux_val)]
    elif s.mux_val is not None:
        tag = ["m", int(s.mux_val)]
    elif s.multiplex == "Multiplexor":
        tag = "M"
    return {"name": s.name, "tag": tag, "start": int(s.get_startbit(bit_numbering=1)), "size": int(s.size), "little": bool(s.is_little_endian),
            "signed": bool(s.is_signed), "factor": exact(s.factor), "offset": exact(s.offset), "min": exact(s.min), "max": exact(s.max),
            "unit": s.unit or "", "receivers": list(s.receivers)}


def pairs(d):
    return [[str(k), str(v)] for k, v in d.items()]


def project(db):
    def sig(s):
        return {"sg": sg_json(s), "comment": _txt(s.comment), "attrs": pairs(s.attributes), "values": [[int(k), str(v)] for k, v in s.values.items()],
                "float": bool(s.is_float), "muxer": s.muxer_for_signal, "ranges": [[int(a), int(b)] for a, b in s.mux_val_grp]}

    def frame(f):
        return {"id": int(f.arbitration_id.id), "ext": bool(f.arbitration_id.extended), "name": f.name, "size": int(f.size), "tx": list(f.transmitters),
                "comment": _txt(f.comment), "attrs": pairs(f.attributes),
                "groups": [{"name": g.name, "id": int(g.id), "members": [x.name for x in g.signals]} for g in f.signalGroups],
                "complex": bool(f.is_complex_multiplexed), "sigs": [sig(s) for s in f.signals]}

    def defs(d):
        return [{"name": k, "definition": v.definition, "default": v.defaultValue} for k, v in d.items()]
    return {"ecus": [{"name": e.name, "comment": _txt(e.comment), "attrs": pairs(e.attributes)} for e in db.ecus],
            "frames": [frame(f) for f in db.frames],
            "defs": {"signal": defs(db.signal_defines), "frame": defs(db.frame_defines), "ecu": defs(db.ecu_defines), "global": defs(db.global_defines)},
            "attrs": pairs(db.attributes),
            "tables": [{"name": n, "entries": [[k if isinstance(k, int) else str(k), str(v)] for k, v in t.items()]} for n, t in db.value_tables.items()]}


class _Trigger(dict):
    def __init__(self, owner, sink):
        dict.__init__(self)
        self._owner = owner
        self._sink = sink

    def keys(self):
        if "snap" not in self._sink:
            try:
                self._sink["snap"] = project(self._owner)
            except Exception as e:  # noqa
                self._sink["snap_exc"] = type(e).__name__ + ": " + str(e)[:120]
        return dict.keys(self)


def split_lines(data):
    """the lines as `for line in f` yields them, without their line ends"""
    parts = data.split(b"\n")
    if parts and parts[-1] == b"":
        parts.pop()
    return [p.rstrip(b"\r\n") for p in parts]


def load_snapshot(data, enc):
    """returns {"lines": [...], "snap": projection | None, "errors": n, "exc": text | None}"""
    sink = {}
    real = canmatrix.CanMatrix

    def factory(*a, **k):
        db = real(*a, **k)
        if "made" not in sink:
            sink["made"] = True
            db.env_vars = _Trigger(db, sink)
        return db
    out = io.StringIO()
    exc = None
    canmatrix.CanMatrix = factory
    try:
        with contextlib.redirect_stdout(out):
            canmatrix.formats.dbc.load(io.BytesIO(data), dbcImportEncoding=enc, dbcImportCommentEncoding=enc)
    except Exception as e:  # noqa
        exc = type(e).__name__ + ": " + str(e)[:160]
    finally:
        canmatrix.CanMatrix = real
    snap = sink.get("snap")
    if snap is not None:
        snap["errors"] = out.getvalue().count("error with line no")
    return {"lines": [l.decode(enc) for l in split_lines(data)], "snap": snap, "exc": exc}


CARRIERS = ("VFrameFormat", "BusType", "ProtocolType")


def _kept(attrs, defines):
    out = []
    for k, v in attrs.items():
        k = str(k)
        if k.startswith("Gen") or k.startswith("System") or k in CARRIERS:
            continue
        d = defines.get(k)
        if d is not None and d.type == "ENUM":
            continue
        out.append([k, str(v)])
    return out


def project_final(db):
    """the matrix dbc.load returns: names, cycle times, senders, receivers, comments, attributes that are neither carriers nor of an ENUM type"""
    def sig(s):
        return {"name": s.name, "cycle": int(s.cycle_time), "receivers": list(s.receivers), "attrs": _kept(s.attributes, db.signal_defines),
                "comment": _txt(s.comment)}
    return {"ecus": [e.name for e in db.ecus],
            "frames": [{"id": int(f.arbitration_id.id), "ext": bool(f.arbitration_id.extended), "name": f.name, "cycle": int(f.cycle_time),
                        "tx": list(f.transmitters),
                        "rx": list(f.receivers), "attrs": _kept(f.attributes, db.frame_defines), "comment": _txt(f.comment),
                        "sigs": [sig(s) for s in f.signals]} for f in db.frames],
            "free": [sig(s) for s in db.signals],
            "attrs": _kept(db.attributes, db.global_defines)}


def load_final(data, enc):
    """returns {"lines", "final": projection | None, "exc"}"""
    out = io.StringIO()
    try:
        with contextlib.redirect_stdout(out):
            db = canmatrix.formats.dbc.load(io.BytesIO(data), dbcImportEncoding=enc, dbcImportCommentEncoding=enc)
        final = project_final(db)
        exc = None
    except Exception as e:  # noqa
        final, exc = None, type(e).__name__ + ": " + str(e)[:160]
    return {"lines": [l.decode(enc) for l in split_lines(data)], "final": final, "exc": exc}
