import CanVerif.Proofs.DbcRoundtripD
/-!
# The core round trip with the attributes of frames and signals
-/
namespace CanVerif.Dbc.FileProofs
open CanVerif CanVerif.Dbc

/-- `itemFrameUpd` with the attribute statements of frames and signals (their effect where the value is accepted) -/
def itemFrameUpdA : Item → Option (Nat × (RFrame → RFrame))
  | .ba ⟨k, .frame n, v⟩ => some (n, fun f => { f with attrs := assocSet f.attrs k (stripWs v) })
  | .ba ⟨k, .signal n name, v⟩ => some (n, modSigByName name fun s => { s with attrs := assocSet s.attrs k (stripWs v) })
  | it => itemFrameUpd it

def itemUpdA (it : Item) (f : RFrame) : RFrame :=
  match itemFrameUpdA it with
  | some (n, g) => updByNumber n g f
  | none => f

/-- is the value of an attribute statement of a frame or a signal accepted under these definitions? -/
def baOk (defs : List RDef) : Item → Bool
  | .ba ⟨k, .frame _, v⟩ => numericOk { defs := defs } .frame k v
  | .ba ⟨k, .signal _ _, v⟩ => numericOk { defs := defs } .signal k v
  | _ => true

theorem itemFrameUpdA_old (it : Item) (h : (itemFrameUpd it).isSome = true) : itemFrameUpdA it = itemFrameUpd it := by
  cases it with
  | ba b => simp [itemFrameUpd] at h
  | _ => rfl

theorem itemUpdA_old (it : Item) (h : (itemFrameUpd it).isSome = true) : itemUpdA it = itemUpd it := by
  funext f
  unfold itemUpdA itemUpd
  rw [itemFrameUpdA_old it h]
  cases itemFrameUpd it <;> rfl

theorem itemUpdA_key (it : Item) (f : RFrame) : (itemUpdA it f).key = f.key := by
  by_cases h : (itemFrameUpd it).isSome = true
  · rw [itemUpdA_old it h]; exact itemUpd_key it f
  · unfold itemUpdA
    cases it with
    | ba b =>
      obtain ⟨k, t, v⟩ := b
      cases t with
      | frame n => simp only [itemFrameUpdA, updByNumber]; split <;> rfl
      | signal n name => simp only [itemFrameUpdA, updByNumber]; split
                         · exact modSigByName_key _ _ f
                         · rfl
      | _ => rfl
    | _ => simp_all [itemFrameUpdA, itemFrameUpd]

/-- the frames after an attribute statement of a frame or a signal whose value is accepted -/
theorem baItem_frames (m : RMatrix) (hu : KeysUnique m) (b : BaLine) (n : Nat) (g : RFrame → RFrame)
    (hit : itemFrameUpdA (.ba b) = some (n, g)) (hok : baOk m.defs (.ba b) = true) :
    (applyItem m (.ba b)).frames = m.frames.map (updByNumber n g) := by
  obtain ⟨k, t, v⟩ := b
  cases t with
  | global => simp [itemFrameUpdA, itemFrameUpd] at hit
  | ecu e => simp [itemFrameUpdA, itemFrameUpd] at hit
  | frame id =>
    simp only [itemFrameUpdA, Option.some.injEq, Prod.mk.injEq] at hit; obtain ⟨rfl, rfl⟩ := hit
    have hnum : numericOk m .frame k v = true := (numericOk_defs { defs := m.defs } m rfl _ _ _).trans hok
    cases hfi : frameIdx m id with
    | none =>
      rw [no_frame_map m id _ hfi hu]
      simp only [applyItem, Item.frameNo, applyCore, hfi, hnum]
      split <;> rfl
    | some i =>
      have hkn := key_of_frameIdx m id i hfi
      rw [← modFrame_as_map m hu id i _ hfi]
      simp only [applyItem, Item.frameNo, hkn, Bool.false_eq_true, if_false, applyCore, hfi, hnum, Bool.not_true, RMatrix.modFrame]
  | signal id name =>
    simp only [itemFrameUpdA, Option.some.injEq, Prod.mk.injEq] at hit; obtain ⟨rfl, rfl⟩ := hit
    have hnum : numericOk m .signal k v = true := (numericOk_defs { defs := m.defs } m rfl _ _ _).trans hok
    cases hfi : frameIdx m id with
    | none =>
      rw [no_frame_map m id _ hfi hu]
      simp only [applyItem, Item.frameNo, applyCore, hfi, hnum]
      split <;> rfl
    | some i =>
      obtain ⟨a, ha⟩ := frameIdx_valid m hu id i hfi
      have hkn := key_of_frameIdx m id i hfi
      rw [← modFrame_as_map m hu id i _ hfi]
      simp only [applyItem, Item.frameNo, hkn, Bool.false_eq_true, if_false, applyCore, hfi, hnum, Bool.not_true, ha, Option.bind_some]
      cases hs : sigIdx a name with
      | none =>
        simp only [RMatrix.err]
        exact (modifyAt_id_at _ _ _ (fun b hb => by rw [ha] at hb; injection hb with hb; subst hb; simp [modSigByName, hs])).symm
      | some si =>
        simp only [RMatrix.modFrame]
        exact modifyAt_congr_at _ _ _ _ (fun b hb => by rw [ha] at hb; injection hb with hb; subst hb; simp [modSigByName, hs])

theorem itemUpdA_hit (it : Item) (n : Nat) (g : RFrame → RFrame) (f : RFrame) (h : itemFrameUpdA it = some (n, g))
    (hk : keyOfCompound n = some f.key) : itemUpdA it f = g f := by
  simp [itemUpdA, h, updByNumber, hk]

theorem itemUpdA_other (it : Item) (n : Nat) (g : RFrame → RFrame) (f : RFrame) (h : itemFrameUpdA it = some (n, g))
    (hk : keyOfCompound n ≠ some f.key) : itemUpdA it f = f := by
  simp [itemUpdA, h, updByNumber, hk]

theorem fold_skipA (its : List Item) (f : RFrame)
    (h : ∀ it ∈ its, ∃ n g, itemFrameUpdA it = some (n, g) ∧ keyOfCompound n ≠ some f.key) :
    its.foldl (fun acc it => itemUpdA it acc) f = f := by
  induction its with
  | nil => rfl
  | cons it its ih =>
    obtain ⟨n, g, hg, hk⟩ := h it (by simp)
    simp only [List.foldl_cons]
    rw [itemUpdA_other it n g f hg hk]
    exact ih (fun x hx => h x (List.mem_cons_of_mem _ hx))

theorem fold_keyA (its : List Item) (f : RFrame) : (its.foldl (fun acc it => itemUpdA it acc) f).key = f.key := by
  induction its generalizing f with
  | nil => rfl
  | cons it its ih => simp only [List.foldl_cons]; rw [ih, itemUpdA_key]

/-- one section of the file (the statements of one kind for all frames, frame by frame): a frame only sees the statements written for it -/
theorem sec_foldA (sec : WFrame → List Item)
    (hsec : ∀ f it, it ∈ sec f → ∃ g, itemFrameUpdA it = some (f.bo.id, g))
    (ps : List (WFrame × (Nat × Bool))) (hnum : ∀ p ∈ ps, keyOfCompound p.1.bo.id = some p.2)
    (hdist : ps.Pairwise fun p q => p.2 ≠ q.2) (p : WFrame × (Nat × Bool)) (hp : p ∈ ps) (a : RFrame) (ha : a.key = p.2) :
    (ps.flatMap fun q => sec q.1).foldl (fun acc it => itemUpdA it acc) a = (sec p.1).foldl (fun acc it => itemUpdA it acc) a := by
  induction ps generalizing a with
  | nil => simp at hp
  | cons q rest ih =>
    rw [List.pairwise_cons] at hdist
    simp only [List.flatMap_cons, List.foldl_append]
    rcases List.mem_cons.mp hp with rfl | hp'
    · -- the frame's own statements come first, the others are skipped
      apply fold_skipA
      intro it hit
      obtain ⟨r, hr, hir⟩ := List.mem_flatMap.mp hit
      obtain ⟨g, hg⟩ := hsec r.1 it hir
      refine ⟨_, g, hg, ?_⟩
      rw [hnum r (List.mem_cons_of_mem _ hr), fold_keyA, ha]
      intro e; injection e with e
      exact hdist.1 r hr e.symm
    · have hskip : (sec q.1).foldl (fun acc it => itemUpdA it acc) a = a := by
        apply fold_skipA
        intro it hit
        obtain ⟨g, hg⟩ := hsec q.1 it hit
        refine ⟨_, g, hg, ?_⟩
        rw [hnum q (by simp), ha]
        intro e; injection e with e
        exact hdist.1 p hp' e
      rw [hskip]
      exact ih (fun r hr => hnum r (List.mem_cons_of_mem _ hr)) hdist.2 hp' a ha


/-- attribute statements of frames and signals leave everything but the frames alone -/
theorem baItem_rest (m : RMatrix) (b : BaLine) (h : (itemFrameUpdA (.ba b)).isSome = true) :
    (applyItem m (.ba b)).defs = m.defs ∧ (applyItem m (.ba b)).ecus = m.ecus ∧ (applyItem m (.ba b)).attrs = m.attrs := by
  obtain ⟨k, t, v⟩ := b
  cases t with
  | global => simp [itemFrameUpdA, itemFrameUpd] at h
  | ecu e => simp [itemFrameUpdA, itemFrameUpd] at h
  | frame id => simp only [applyItem, Item.frameNo, applyCore]; repeat' split
                all_goals exact ⟨rfl, rfl, rfl⟩
  | signal id name => simp only [applyItem, Item.frameNo, applyCore]; repeat' split
                      all_goals exact ⟨rfl, rfl, rfl⟩

def isFrameBa : Item → Bool
  | .ba ⟨_, .frame _, _⟩ => true
  | .ba ⟨_, .signal _ _, _⟩ => true
  | _ => false

theorem isFrameBa_some (it : Item) (h : isFrameBa it = true) : ∃ b, it = .ba b ∧ (itemFrameUpdA (.ba b)).isSome = true := by
  cases it with
  | ba b =>
    obtain ⟨k, t, v⟩ := b
    cases t with
    | frame id => exact ⟨_, rfl, rfl⟩
    | signal id name => exact ⟨_, rfl, rfl⟩
    | _ => simp [isFrameBa] at h
  | _ => simp [isFrameBa] at h

/-- the matrix after attribute statements of frames and signals whose values are accepted -/
theorem ba_fold (its : List Item) (m : RMatrix) (hu : KeysUnique m) (hall : ∀ it ∈ its, isFrameBa it = true ∧ baOk m.defs it = true) :
    (its.foldl applyItem m).frames = m.frames.map (fun f => its.foldl (fun acc it => itemUpdA it acc) f) ∧
    (its.foldl applyItem m).defs = m.defs ∧ (its.foldl applyItem m).ecus = m.ecus ∧ (its.foldl applyItem m).attrs = m.attrs := by
  induction its generalizing m with
  | nil => simp
  | cons it its ih =>
    simp only [List.foldl_cons]
    obtain ⟨hfb, hok⟩ := hall it (by simp)
    obtain ⟨b, rfl, hsome⟩ := isFrameBa_some it hfb
    obtain ⟨p, hp⟩ := Option.isSome_iff_exists.mp hsome
    obtain ⟨n, g⟩ := p
    have h1 : (applyItem m (.ba b)).frames = m.frames.map (itemUpdA (.ba b)) := by
      rw [baItem_frames m hu b n g hp hok]
      apply List.map_congr_left
      intro f _
      simp [itemUpdA, hp]
    have hr := baItem_rest m b hsome
    have hu' : KeysUnique (applyItem m (.ba b)) := by
      apply keysUnique_of_keys m _ _ hu
      rw [h1, List.map_map]
      apply List.map_congr_left
      intro f _
      exact itemUpdA_key _ f
    have := ih (applyItem m (.ba b)) hu' (by
      intro x hx
      rw [hr.1]
      exact hall x (List.mem_cons_of_mem _ hx))
    refine ⟨?_, this.2.1.trans hr.1, this.2.2.1.trans hr.2.1, this.2.2.2.trans hr.2.2⟩
    rw [this.1, h1, List.map_map]
    rfl

/-! ## one frame under its attribute statements -/

def baItems (f : WFrame) : List Item := f.attrs.map fun kv => Item.ba ⟨kv.1, .frame f.bo.id, kv.2⟩
def sigBaItems (f : WFrame) : List Item := f.sigs.flatMap fun s => s.attrs.map fun kv => Item.ba ⟨kv.1, .signal f.bo.id s.sg.name, kv.2⟩

theorem baItems_eq (f : WFrame) : f.baStmts.filterMap FileStmt.toItem = baItems f := by
  unfold WFrame.baStmts baItems
  rw [List.filterMap_map]
  have e : (FileStmt.toItem ∘ fun kv : Str × Str => FileStmt.one (Stmt.ba ⟨kv.1, .frame f.bo.id, kv.2⟩)) =
      fun kv => some (Item.ba ⟨kv.1, .frame f.bo.id, kv.2⟩) := rfl
  rw [e, List.filterMap_eq_map']

theorem baItems_num (f : WFrame) (it : Item) (h : it ∈ baItems f) : ∃ g, itemFrameUpdA it = some (f.bo.id, g) := by
  obtain ⟨kv, _, rfl⟩ := List.mem_map.mp h
  exact ⟨_, rfl⟩

theorem sigBaItems_num (f : WFrame) (it : Item) (h : it ∈ sigBaItems f) : ∃ g, itemFrameUpdA it = some (f.bo.id, g) := by
  obtain ⟨s, _, hs⟩ := List.mem_flatMap.mp h
  obtain ⟨kv, _, rfl⟩ := List.mem_map.mp hs
  exact ⟨_, rfl⟩

/-- the `BA_ .. BO_` lines of a frame -/
theorem ba_section (n : Nat) (kvs : List (Str × Str)) (a : RFrame) (hk : keyOfCompound n = some a.key) :
    (kvs.map fun kv => Item.ba ⟨kv.1, .frame n, kv.2⟩).foldl (fun acc it => itemUpdA it acc) a =
      { a with attrs := kvs.foldl (fun x kv => assocSet x kv.1 (stripWs kv.2)) a.attrs } := by
  induction kvs generalizing a with
  | nil => rfl
  | cons kv rest ih =>
    simp only [List.map_cons, List.foldl_cons]
    rw [itemUpdA_hit _ n _ a rfl hk]
    exact ih { a with attrs := assocSet a.attrs kv.1 (stripWs kv.2) } hk

theorem sigIdx_modSig (a : RFrame) (j : Nat) (g : RSig → RSig) (hg : ∀ s, (g s).sg.name = s.sg.name) (name : Str) :
    sigIdx (a.modSig j g) name = sigIdx a name := by
  unfold sigIdx RFrame.modSig
  simp only
  have hmap : (modifyAt a.sigs j g).map (·.sg.name) = a.sigs.map (·.sg.name) := by
    generalize a.sigs = l
    induction l generalizing j with
    | nil => cases j <;> rfl
    | cons x r ih =>
      cases j with
      | zero => simp [modifyAt, hg]
      | succ i => simp only [modifyAt, List.map_cons]; rw [ih]
  have : ∀ (l : List RSig), l.findIdx? (fun s => s.sg.name == name) = (l.map (·.sg.name)).findIdx? (fun x => x == name) := by
    intro l
    induction l with
    | nil => rfl
    | cons x r ih => simp only [List.findIdx?_cons, List.map_cons]; rw [ih]
  rw [this, this, hmap]

/-- the `BA_ .. SG_` lines of one signal -/
theorem sigba_inner (n : Nat) (name : Str) (kvs : List (Str × Str)) (a : RFrame) (hk : keyOfCompound n = some a.key) (j : Nat)
    (hj : sigIdx a name = some j) :
    (kvs.map fun kv => Item.ba ⟨kv.1, .signal n name, kv.2⟩).foldl (fun acc it => itemUpdA it acc) a =
      a.modSig j fun s => { s with attrs := kvs.foldl (fun x kv => assocSet x kv.1 (stripWs kv.2)) s.attrs } := by
  induction kvs generalizing a with
  | nil =>
    simp only [List.map_nil, List.foldl_nil, RFrame.modSig]
    rw [modifyAt_id' _ _ _ (fun _ => rfl)]
  | cons kv rest ih =>
    simp only [List.map_cons, List.foldl_cons]
    rw [itemUpdA_hit _ n _ a rfl hk]
    simp only [modSigByName, hj]
    refine Eq.trans (ih (a.modSig j fun s => { s with attrs := assocSet s.attrs kv.1 (stripWs kv.2) }) hk
      ((sigIdx_modSig a j (fun s => { s with attrs := assocSet s.attrs kv.1 (stripWs kv.2) }) (fun _ => rfl) name).trans hj)) ?_
    simp only [RFrame.modSig, modifyAt_modifyAt]
    rfl

def atSig (s : WSig) : RSig := { sg := rereadSg s.sg, comment := s.comment, attrs := attrsOf s.attrs }

/-- the `BA_ .. SG_` lines of a frame, signal by signal -/
theorem sigba_section (n : Nat) (todo done : List WSig) (a : RFrame) (hk : keyOfCompound n = some a.key)
    (hs : a.sigs = done.map atSig ++ todo.map cmSig) (hnd : ((done ++ todo).map (·.sg.name)).Nodup) :
    (todo.flatMap fun s => s.attrs.map fun kv => Item.ba ⟨kv.1, .signal n s.sg.name, kv.2⟩).foldl (fun acc it => itemUpdA it acc) a =
      { a with sigs := (done ++ todo).map atSig } := by
  induction todo generalizing done a with
  | nil =>
    simp only [List.flatMap_nil, List.foldl_nil, List.append_nil]
    simp only [List.map_nil, List.append_nil] at hs
    cases a; simp_all
  | cons s rest ih =>
    simp only [List.flatMap_cons, List.foldl_append]
    have hnames : a.sigs.map (·.sg.name) = (done ++ s :: rest).map (·.sg.name) := by
      rw [hs]; simp [atSig, cmSig, rereadSg_name, Function.comp_def]
    have hget : a.sigs[done.length]? = some (cmSig s) := by rw [hs]; simp
    have hj : sigIdx a s.sg.name = some done.length := by
      have := lookup_signal a (namesUnique_of a _ hnames hnd) done.length (cmSig s) hget
      simpa [cmSig, rereadSg_name] using this
    rw [sigba_inner n s.sg.name s.attrs a hk done.length hj]
    have hmod : (a.modSig done.length fun x => { x with attrs := s.attrs.foldl (fun x kv => assocSet x kv.1 (stripWs kv.2)) x.attrs }).sigs =
        (done ++ [s]).map atSig ++ rest.map cmSig := by
      simp only [RFrame.modSig, hs]
      have e1 : done.map atSig ++ (s :: rest).map cmSig = done.map atSig ++ cmSig s :: rest.map cmSig := by simp
      have hl : done.length = (done.map atSig).length := by simp
      rw [e1, hl, modifyAt_mid]
      simp [atSig, cmSig, attrsOf]
    have := ih (done ++ [s]) _ (by exact hk) hmod (by simpa using hnd)
    rw [this]
    simp [RFrame.modSig]

/-! ## the sections behind the attribute statements do not look at attributes -/

/-- a frame with other attribute dictionaries: `A` for the frame, `B name` for its signals -/
def ovl (A : List (Str × Str)) (B : Str → List (Str × Str)) (F : RFrame) : RFrame :=
  { F with attrs := A, sigs := F.sigs.map fun s => { s with attrs := B s.sg.name } }

theorem modifyAt_map {α} (l : List α) (j : Nat) (g h : α → α) (hc : ∀ x, g (h x) = h (g x)) :
    modifyAt (l.map h) j g = (modifyAt l j g).map h := by
  induction l generalizing j with
  | nil => cases j <;> rfl
  | cons x r ih =>
    cases j with
    | zero => simp [modifyAt, hc]
    | succ i => simp only [modifyAt, List.map_cons]; rw [ih]

theorem sigIdx_ovl (A : List (Str × Str)) (B : Str → List (Str × Str)) (F : RFrame) (name : Str) : sigIdx (ovl A B F) name = sigIdx F name := by
  unfold sigIdx ovl
  simp only
  generalize F.sigs = l
  induction l with
  | nil => rfl
  | cons x r ih => simp only [List.map_cons, List.findIdx?_cons]; rw [ih]

theorem modSig_ovl (A : List (Str × Str)) (B : Str → List (Str × Str)) (F : RFrame) (j : Nat) (g : RSig → RSig)
    (hn : ∀ s, (g s).sg.name = s.sg.name) (hc : ∀ s a, g { s with attrs := a } = { g s with attrs := a }) :
    (ovl A B F).modSig j g = ovl A B (F.modSig j g) := by
  simp only [RFrame.modSig, ovl]
  rw [modifyAt_map]
  intro x
  rw [hc, hn]

theorem modSigByName_ovl (A : List (Str × Str)) (B : Str → List (Str × Str)) (F : RFrame) (name : Str) (g : RSig → RSig)
    (hn : ∀ s, (g s).sg.name = s.sg.name) (hc : ∀ s a, g { s with attrs := a } = { g s with attrs := a }) :
    modSigByName name g (ovl A B F) = ovl A B (modSigByName name g F) := by
  unfold modSigByName
  rw [sigIdx_ovl]
  cases sigIdx F name with
  | none => rfl
  | some j => exact modSig_ovl A B F j g hn hc

theorem groupOf_ovl (A : List (Str × Str)) (B : Str → List (Str × Str)) (F : RFrame) (g : GroupLine) : groupOf (ovl A B F) g = groupOf F g := by
  unfold groupOf
  simp only [sigIdx_ovl]

def isCItem : Item → Bool
  | .val _ => true
  | .valtype _ _ => true
  | .grp _ => true
  | .mul _ => true
  | _ => false

theorem itemUpd_ovl (it : Item) (h : isCItem it = true) (A : List (Str × Str)) (B : Str → List (Str × Str)) (F : RFrame) :
    itemUpd it (ovl A B F) = ovl A B (itemUpd it F) := by
  have hkey : (ovl A B F).key = F.key := rfl
  cases it with
  | val v =>
    simp only [itemUpd, itemFrameUpd, updByNumber, hkey]
    split
    · exact modSigByName_ovl A B F _ _ (fun _ => rfl) (fun _ _ => rfl)
    · rfl
  | valtype id name =>
    simp only [itemUpd, itemFrameUpd, updByNumber, hkey]
    split
    · exact modSigByName_ovl A B F _ _ (fun _ => rfl) (fun _ _ => rfl)
    · rfl
  | grp g =>
    simp only [itemUpd, itemFrameUpd, updByNumber, hkey]
    split
    · rw [groupOf_ovl]; rfl
    · rfl
  | mul ml =>
    simp only [itemUpd, itemFrameUpd, updByNumber, hkey]
    split
    · rw [sigIdx_ovl]
      cases sigIdx F ml.sig with
      | none => rfl
      | some j =>
        have := modSig_ovl A B F j (fun s => { s with muxer := some ml.muxer, ranges := s.ranges ++ ml.ranges }) (fun _ => rfl) (fun _ _ => rfl)
        simp only
        rw [this]
        rfl
    · rfl
  | _ => simp [isCItem] at h

theorem fold_ovl (its : List Item) (h : ∀ it ∈ its, isCItem it = true) (A : List (Str × Str)) (B : Str → List (Str × Str)) (F : RFrame) :
    its.foldl (fun acc it => itemUpd it acc) (ovl A B F) = ovl A B (its.foldl (fun acc it => itemUpd it acc) F) := by
  induction its generalizing F with
  | nil => rfl
  | cons it its ih =>
    simp only [List.foldl_cons]
    rw [itemUpd_ovl it (h it (by simp))]
    exact ih (fun x hx => h x (List.mem_cons_of_mem _ hx)) _

/-- the attribute dictionary of the signal of that name -/
def sigAttrsOf (f : WFrame) (name : Str) : List (Str × Str) :=
  match f.sigs.find? (fun s => s.sg.name == name) with
  | some s => attrsOf s.attrs
  | none => []

theorem sigAttrsOf_mem (f : WFrame) (hnd : (f.sigs.map (·.sg.name)).Nodup) (s : WSig) (hs : s ∈ f.sigs) :
    sigAttrsOf f s.sg.name = attrsOf s.attrs := by
  unfold sigAttrsOf
  have : f.sigs.find? (fun x => x.sg.name == s.sg.name) = some s := by
    generalize f.sigs = l at hnd hs
    induction l with
    | nil => simp at hs
    | cons x r ih =>
      simp only [List.map_cons, List.nodup_cons] at hnd
      rcases List.mem_cons.mp hs with rfl | hs'
      · simp
      · have hne : ¬ x.sg.name = s.sg.name := by
          intro e
          exact hnd.1 (e ▸ List.mem_map.mpr ⟨s, hs', rfl⟩)
        have hb : (x.sg.name == s.sg.name) = false := by simpa using hne
        rw [List.find?_cons, hb]
        exact ih hnd.2 hs'
  rw [this]

/-- a frame after the sections in front of the attribute statements: senders, comment, comments of the signals -/
def frame1 (f : WFrame) (k : Nat × Bool) : RFrame :=
  { (frameOfBlock f.block k) with transmitters := f.senders, comment := f.comment, sigs := f.sigs.map cmSig }

theorem per_frame1 (extra : List Item) (hextra : ∀ it ∈ extra, isEcuItem it = true) (ps : List (WFrame × (Nat × Bool)))
    (hwf : ∀ p ∈ ps, p.1.wf p.2 = true) (hdist : ps.Pairwise fun p q => p.2 ≠ q.2)
    (p : WFrame × (Nat × Bool)) (hp : p ∈ ps) :
    ((ps.flatMap fun q => txItems q.1) ++ (ps.flatMap fun q => cmItems q.1) ++ (ps.flatMap fun q => sigCmItems q.1) ++ extra).foldl
      (fun acc it => itemUpd it acc) (frameOfBlock p.1.block p.2) = frame1 p.1 p.2 := by
  obtain ⟨f, k⟩ := p
  obtain ⟨_, _, hnum, _, hnd, _, _, hnames, hvals, hmux, hgrp⟩ := wf_unpack (hwf (f, k) hp)
  simp only at hnum hnd hnames hvals hmux hgrp
  have hnumAll : ∀ q ∈ ps, keyOfCompound q.1.bo.id = some q.2 := fun q hq => (wf_unpack (hwf q hq)).2.2.1
  simp only [List.foldl_append]
  rw [sec_fold txItems txItems_num ps hnumAll hdist (f, k) hp _ rfl]
  rw [tx_section f _ hnum rfl hnd]
  rw [sec_fold cmItems cmItems_num ps hnumAll hdist (f, k) hp _ rfl]
  rw [cm_section f _ hnum rfl]
  rw [sec_fold sigCmItems sigCmItems_num ps hnumAll hdist (f, k) hp _ rfl]
  have h3 := sigsec_fold f.bo.id (sigCmItem f.bo.id) (fun s x => { x with comment := s.comment }) plainSig cmSig
    (by intro s it h; unfold sigCmItem at h; cases hc : s.comment with
        | none => rw [hc] at h; simp at h
        | some c => rw [hc] at h; simp only [Option.map_some, Option.some.injEq] at h; subst h; rfl)
    (by intro s h; unfold sigCmItem at h; cases hc : s.comment with
        | none => simp [cmSig, plainSig, hc]
        | some c => rw [hc] at h; simp at h)
    (fun _ => True) (by intro s it _ _; rfl) (fun _ => rfl) (fun _ => rfl)
    f.sigs [] (fun _ _ => trivial) { (frameOfBlock f.block k) with transmitters := f.senders, comment := f.comment } hnum
    (by simp [frameOfBlock, sigsOf, WFrame.block, plainSig]) (by simpa using hnames)
  have e3 : sigCmItems f = f.sigs.filterMap (sigCmItem f.bo.id) := rfl
  rw [e3, h3]
  rw [fold_ecu_items extra hextra]
  simp [frame1]

theorem itemsC_isC (ps : List (WFrame × (Nat × Bool))) : ∀ it ∈ itemsC ps, isCItem it = true := by
  intro it hit
  simp only [itemsC, List.mem_append, List.mem_flatMap] at hit
  rcases hit with ((⟨p, _, h⟩ | ⟨p, _, h⟩) | ⟨p, _, h⟩) | ⟨p, _, h⟩
  · unfold valItems at h
    obtain ⟨s, _, hs⟩ := List.mem_filterMap.mp h
    unfold valItem at hs; split at hs
    · simp at hs
    · simp only [Option.some.injEq] at hs; subst hs; rfl
  · unfold valtypeItems at h
    obtain ⟨s, _, hs⟩ := List.mem_filterMap.mp h
    unfold valtypeItem at hs; split at hs
    · simp only [Option.some.injEq] at hs; subst hs; rfl
    · simp at hs
  · unfold grpItems at h
    obtain ⟨g, _, rfl⟩ := List.mem_map.mp h
    rfl
  · unfold mulItems at h
    obtain ⟨s, _, hs⟩ := List.mem_filterMap.mp h
    unfold mulItem at hs
    cases hm : s.muxer with
    | none => rw [hm] at hs; simp at hs
    | some mx => rw [hm] at hs; simp only [Option.map_some, Option.some.injEq] at hs; subst hs; rfl

/-- the attribute statements of all frames and signals, as the reader sees them -/
def itemsF (ps : List (WFrame × (Nat × Bool))) : List Item :=
  (ps.flatMap fun q => baItems q.1) ++ (ps.flatMap fun q => sigBaItems q.1)

/-- one frame under all sections of the file -/
theorem per_frameF (es : List WEcu) (ps : List (WFrame × (Nat × Bool))) (hwf : ∀ p ∈ ps, p.1.wf p.2 = true)
    (hdist : ps.Pairwise fun p q => p.2 ≠ q.2) (p : WFrame × (Nat × Bool)) (hp : p ∈ ps) :
    (itemsC ps).foldl (fun acc it => itemUpd it acc)
      ((itemsF ps).foldl (fun acc it => itemUpdA it acc)
        ((itemsA es ps).foldl (fun acc it => itemUpd it acc) (frameOfBlock p.1.block p.2))) = p.1.expectA p.2 := by
  have h1 := per_frame1 (ecuCmItems es) (ecuCmItems_ecu es) ps hwf hdist p hp
  have hE := per_frameE (ecuCmItems es) (ecuCmItems_ecu es) ps hwf hdist p hp
  have hC : (itemsC ps).foldl (fun acc it => itemUpd it acc) (frame1 p.1 p.2) = p.1.expect p.2 := by
    rw [← h1, ← List.foldl_append]
    simp only [itemsC, List.append_assoc] at hE ⊢
    exact hE
  obtain ⟨f, k⟩ := p
  obtain ⟨_, _, hnum, _, _, _, _, hnames, _, _, _⟩ := wf_unpack (hwf (f, k) hp)
  simp only at hnum hnames h1 hC ⊢
  have hnumAll : ∀ q ∈ ps, keyOfCompound q.1.bo.id = some q.2 := fun q hq => (wf_unpack (hwf q hq)).2.2.1
  rw [show itemsA es ps = (ps.flatMap fun q => txItems q.1) ++ (ps.flatMap fun q => cmItems q.1) ++ (ps.flatMap fun q => sigCmItems q.1) ++
    ecuCmItems es from rfl, h1]
  -- the attribute statements
  have hF : (itemsF ps).foldl (fun acc it => itemUpdA it acc) (frame1 f k) =
      ovl (attrsOf f.attrs) (sigAttrsOf f) (frame1 f k) := by
    simp only [itemsF, List.foldl_append]
    rw [sec_foldA baItems baItems_num ps hnumAll hdist (f, k) hp _ rfl]
    unfold baItems
    rw [ba_section f.bo.id f.attrs (frame1 f k) hnum]
    rw [sec_foldA sigBaItems sigBaItems_num ps hnumAll hdist (f, k) hp _ rfl]
    unfold sigBaItems
    rw [sigba_section f.bo.id f.sigs [] _ hnum (by simp [frame1]) (by simpa using hnames)]
    simp only [ovl, frame1, attrsOf, List.nil_append, List.map_map]
    congr 1
    apply List.map_congr_left
    intro s hs
    simp only [Function.comp_apply, cmSig, atSig, rereadSg_name, sigAttrsOf_mem f hnames s hs, attrsOf]
  rw [hF, fold_ovl _ (itemsC_isC ps), hC]
  simp only [ovl, WFrame.expectA, WFrame.expect, List.map_map]
  congr 1
  apply List.map_congr_left
  intro s hs
  simp only [Function.comp_apply, rereadSg_name, sigAttrsOf_mem f hnames s hs]

def stmtsF (fs : List WFrame) : List FileStmt := fs.flatMap WFrame.baStmts ++ fs.flatMap WFrame.sigBaStmts

theorem sigBaItems_eq (f : WFrame) : f.sigBaStmts.filterMap FileStmt.toItem = sigBaItems f := by
  unfold WFrame.sigBaStmts sigBaItems
  rw [filterMap_flatMap]
  congr 1
  funext s
  rw [List.filterMap_map]
  have e : (FileStmt.toItem ∘ fun kv : Str × Str => FileStmt.one (Stmt.ba ⟨kv.1, .signal f.bo.id s.sg.name, kv.2⟩)) =
      fun kv => some (Item.ba ⟨kv.1, .signal f.bo.id s.sg.name, kv.2⟩) := rfl
  rw [e, List.filterMap_eq_map']

theorem stmtsF_items (ps : List (WFrame × (Nat × Bool))) : (stmtsF (ps.map (·.1))).filterMap FileStmt.toItem = itemsF ps := by
  simp only [stmtsF, itemsF, List.filterMap_append, filterMap_flatMap, List.flatMap_map, baItems_eq, sigBaItems_eq]

theorem writeCoreF_eq (es : List WEcu) (ds : List DefLine) (dds : List DefDefLine) (ga : List (Str × Str)) (fs : List WFrame) :
    writeCoreF es ds dds ga fs = [renderBu (es.map (·.name)), []] ++ writeFrames (fs.map WFrame.block) ++
      writeFile (stmtsA es fs ++ (stmtsB es ds dds ga ++ (stmtsF fs ++ stmtsC fs))) := rfl

/-- **The core round trip with all attribute statements.** -/
theorem roundtrip_coreF (es : List WEcu) (hes : wfEcus es = true) (ds : List DefLine) (hds : wfDefs ds = true)
    (dds : List DefDefLine) (hdds : wfDefaults ds dds = true)
    (ga : List (Str × Str)) (hga : wfAttrs (expectDefs ds dds) .global .global ga = true)
    (hea : ∀ e ∈ es, wfAttrs (expectDefs ds dds) .ecu (.ecu e.name) e.attrs = true)
    (ps : List (WFrame × (Nat × Bool))) (hwf : ∀ p ∈ ps, p.1.wf p.2 = true) (hdist : ps.Pairwise fun p q => p.2 ≠ q.2)
    (hfa : ∀ p ∈ ps, p.1.wfA (expectDefs ds dds) = true) :
    (readFile (writeCoreF es ds dds ga (ps.map (·.1)))).ecus = es.map WEcu.expectA ∧
    (readFile (writeCoreF es ds dds ga (ps.map (·.1)))).defs = expectDefs ds dds ∧
    (readFile (writeCoreF es ds dds ga (ps.map (·.1)))).attrs = attrsOf ga ∧
    (readFile (writeCoreF es ds dds ga (ps.map (·.1)))).frames = ps.map (fun p => p.1.expectA p.2) ∧
    (readFile (writeCoreF es ds dds ga (ps.map (·.1)))).pending = none := by
  rw [writeCoreF_eq]
  unfold readFile
  have hes' := hes
  simp only [wfEcus, Bool.and_eq_true, List.all_eq_true, decide_eq_true_eq] at hes'
  obtain ⟨hall, hnd⟩ := hes'
  have hbuwf : (Stmt.bu (es.map (·.name))).wf = true := by
    simp only [Stmt.wf, List.all_eq_true, Bool.and_eq_true, decide_eq_true_eq]
    intro n hn
    obtain ⟨e, he, rfl⟩ := List.mem_map.mp hn
    exact (hall e he).1
  rw [List.foldl_append, List.foldl_append]
  have h0 : [renderBu (es.map (·.name)), ([] : Str)].foldl stepFile {} = { ecus := es.map plainEcu } := by
    simp only [List.foldl_cons, List.foldl_nil]
    have := step_stmt {} (.bu (es.map (·.name))) rfl hbuwf
    simp only [Stmt.line] at this
    rw [this, step_skip _ [] rfl (by decide)]
    simp [applyStmt, Stmt.item, applyItem, Item.frameNo, applyCore, plainEcu, Function.comp_def]
  rw [h0]
  have hblocks : (ps.map (·.1)).map WFrame.block = ps.map fun p => p.1.block := by rw [List.map_map]; rfl
  have hkeys : (ps.map fun p => p.1.block).map (fun b => boKey b.bo) = (ps.map (·.2)).map some := by
    rw [List.map_map, List.map_map]
    apply List.map_congr_left
    intro p hp
    exact (wf_unpack (hwf p hp)).2.1
  have hblk : ∀ b ∈ (ps.map fun p => p.1.block), wfBlock b = true := by
    intro b hb; obtain ⟨p, hp, rfl⟩ := List.mem_map.mp hb; exact (wf_unpack (hwf p hp)).1
  have hA := frames_fold (ps.map fun p => p.1.block) (ps.map (·.2)) { ecus := es.map plainEcu } rfl hblk hkeys
  have hA' := frames_fold_defs (ps.map fun p => p.1.block) (ps.map (·.2)) { ecus := es.map plainEcu } rfl hblk hkeys
  rw [hblocks]
  generalize hmA : (writeFrames (ps.map fun p => p.1.block)).foldl stepFile { ecus := es.map plainEcu } = mA at hA hA'
  obtain ⟨hAf, hAp, hAe, _⟩ := hA
  obtain ⟨hAd, hAa⟩ := hA'
  rw [framesOfBlocks_ps] at hAf
  simp only [List.nil_append] at hAf hAe hAd hAa
  have hAkeys : mA.frames.map (·.key) = ps.map (·.2) := by
    rw [hAf, List.map_map]; rfl
  have hAnames : mA.ecus.map (·.name) = es.map (·.name) := by
    rw [hAe, List.map_map]; rfl
  have huA : KeysUnique mA := by
    unfold KeysUnique
    have : (mA.frames.map (·.key)).Pairwise (· ≠ ·) := by
      rw [hAkeys, List.pairwise_map]; exact hdist
    rwa [List.pairwise_map] at this
  -- the three states
  have hm1 : (stmtsA es (ps.map (·.1))).foldl FileStmt.apply mA = (itemsA es ps).foldl applyItem mA := by
    rw [apply_eq_items, stmtsA_items]
  have hm2 : ∀ m, (stmtsB es ds dds ga).foldl FileStmt.apply m = (itemsB es ds dds ga).foldl applyItem m := by
    intro m; rw [apply_eq_items, stmtsB_items]
  have hm3 : ∀ m, (stmtsC (ps.map (·.1))).foldl FileStmt.apply m = (itemsC ps).foldl applyItem m := by
    intro m; rw [apply_eq_items, stmtsC_items]
  generalize hm1d : (itemsA es ps).foldl applyItem mA = m1 at hm1
  have h1f : m1.frames = mA.frames.map fun f => (itemsA es ps).foldl (fun acc it => itemUpd it acc) f := by
    rw [← hm1d]; exact frames_after_items' _ mA huA (kindsA es ps)
  have h1e : m1.ecus = es.map WEcu.expect := by rw [← hm1d]; exact ecusA es hnd ps mA hAe
  have h1d : m1.defs = [] ∧ m1.attrs = [] := by
    have := items_defs (itemsA es ps) mA (kindsA es ps)
    rw [hm1d] at this
    exact ⟨this.1.trans hAd, this.2.trans hAa⟩
  have h1p : m1.pending = none := by
    rw [← hm1d]
    apply fold_pending _ mA hAp
    intro it hit hd first e
    subst e
    rcases kindsA es ps _ hit with h | h
    · simp [itemFrameUpd] at h
    · simp [isEcuItem] at h
  have h2 := stateB es hnd ds hds dds (wfDefaults_ok ds dds hdds) ga hga hea m1 h1d.1 h1d.2 h1e
  generalize hm2d : (itemsB es ds dds ga).foldl applyItem m1 = m2 at h2
  have h1keys : m1.frames.map (·.key) = ps.map (·.2) := by
    rw [h1f, List.map_map, ← hAkeys]
    apply List.map_congr_left
    intro f _
    simp only [Function.comp_apply]
    exact fold_key _ f
  have hu1 : KeysUnique m1 := keysUnique_of_keys mA m1 (by rw [h1keys, hAkeys]) huA
  have hu2 : KeysUnique m2 := keysUnique_of_keys m1 m2 (by rw [h2]) hu1
  -- the attribute statements of frames and signals
  have hm2f : ∀ m, (stmtsF (ps.map (·.1))).foldl FileStmt.apply m = (itemsF ps).foldl applyItem m := by
    intro m; rw [apply_eq_items, stmtsF_items]
  have hallF : ∀ it ∈ itemsF ps, isFrameBa it = true ∧ baOk m2.defs it = true := by
    intro it hit
    have hd2 : m2.defs = expectDefs ds dds := by rw [h2]
    rw [hd2]
    simp only [itemsF, List.mem_append, List.mem_flatMap] at hit
    rcases hit with ⟨p, hp, h⟩ | ⟨p, hp, h⟩
    · obtain ⟨kv, hkv, rfl⟩ := List.mem_map.mp h
      have := hfa p hp
      simp only [WFrame.wfA, wfAttrs, Bool.and_eq_true, List.all_eq_true] at this
      exact ⟨rfl, (this.1 kv hkv).2⟩
    · obtain ⟨s, hs, h'⟩ := List.mem_flatMap.mp h
      obtain ⟨kv, hkv, rfl⟩ := List.mem_map.mp h'
      have := hfa p hp
      simp only [WFrame.wfA, wfAttrs, Bool.and_eq_true, List.all_eq_true] at this
      exact ⟨rfl, (this.2 s hs kv hkv).2⟩
  have h3 := ba_fold (itemsF ps) m2 hu2 hallF
  generalize hm3d : (itemsF ps).foldl applyItem m2 = m3 at h3
  obtain ⟨h3f, h3d, h3e, h3a⟩ := h3
  have h2keys : m2.frames.map (·.key) = ps.map (·.2) := by rw [h2]; exact h1keys
  have h3keys : m3.frames.map (·.key) = ps.map (·.2) := by
    rw [h3f, List.map_map, ← h2keys]
    apply List.map_congr_left
    intro f _
    simp only [Function.comp_apply]
    exact fold_keyA _ f
  have hu3 : KeysUnique m3 := keysUnique_of_keys m2 m3 (by rw [h3keys, h2keys]) hu2
  have h2p : m2.pending = none := by rw [h2]; exact h1p
  have h3p : m3.pending = none := by
    rw [← hm3d]
    apply fold_pending _ m2 h2p
    intro it hit hd first e
    subst e
    have := (hallF _ hit).1
    simp [isFrameBa] at this
  -- every statement can be read at its point
  have hokA : okFile mA (stmtsA es (ps.map (·.1))) = true := by
    apply okFile_staticE _ mA huA
    intro s hs
    rw [hAkeys, hAnames]
    simp only [stmtsA, List.mem_append, List.mem_flatMap, List.mem_map] at hs
    rcases hs with ((⟨f, ⟨p, hp, rfl⟩, hsf⟩ | ⟨f, ⟨p, hp, rfl⟩, hsf⟩) | ⟨f, ⟨p, hp, rfl⟩, hsf⟩) | hsf
    · exact staticOkE_of _ _ _ (tx_static p.1 p.2 (hwf p hp) _ s hsf)
    · exact staticOkE_of _ _ _ (cm_static p.1 p.2 (hwf p hp) _ (List.mem_map.mpr ⟨p, hp, rfl⟩) s hsf)
    · exact staticOkE_of _ _ _ (sigcm_static p.1 p.2 (hwf p hp) _ (List.mem_map.mpr ⟨p, hp, rfl⟩) s hsf)
    · unfold ecuCmStmts at hsf
      obtain ⟨e, he, hse⟩ := List.mem_filterMap.mp hsf
      cases hc : e.comment with
      | none => rw [hc] at hse; simp at hse
      | some c =>
        rw [hc] at hse; simp only [Option.map_some, Option.some.injEq] at hse; subst hse
        have := hall e he
        rw [hc] at this
        refine ⟨?_, ?_, List.mem_map.mpr ⟨e, he, rfl⟩⟩
        · simp only [wfCmHead]; exact this.1.1
        · simpa using this.2
  have hokB : okFile m1 (stmtsB es ds dds ga) = true :=
    okFile_ones _ (stmtsB_ones es ds hds dds (wfDefaults_wf ds dds hdds) _ ga hga hea) m1
  have hokF : okFile m2 (stmtsF (ps.map (·.1))) = true := by
    apply okFile_ones
    intro s hs
    simp only [stmtsF, List.mem_append, List.mem_flatMap, List.mem_map] at hs
    rcases hs with ⟨f, ⟨p, hp, rfl⟩, h⟩ | ⟨f, ⟨p, hp, rfl⟩, h⟩
    · obtain ⟨kv, hkv, rfl⟩ := List.mem_map.mp h
      have := hfa p hp
      simp only [WFrame.wfA, wfAttrs, Bool.and_eq_true, List.all_eq_true] at this
      exact ⟨_, rfl, (this.1 kv hkv).1⟩
    · obtain ⟨sg, hsg, h'⟩ := List.mem_flatMap.mp h
      obtain ⟨kv, hkv, rfl⟩ := List.mem_map.mp h'
      have := hfa p hp
      simp only [WFrame.wfA, wfAttrs, Bool.and_eq_true, List.all_eq_true] at this
      exact ⟨_, rfl, (this.2 sg hsg kv hkv).1⟩
  have hokC : okFile m3 (stmtsC (ps.map (·.1))) = true := by
    apply okFile_staticE _ m3 hu3
    intro s hs
    rw [h3keys]
    simp only [stmtsC, List.mem_append, List.mem_flatMap, List.mem_map] at hs
    rcases hs with ((⟨f, ⟨p, hp, rfl⟩, hsf⟩ | ⟨f, ⟨p, hp, rfl⟩, hsf⟩) | ⟨f, ⟨p, hp, rfl⟩, hsf⟩) | ⟨f, ⟨p, hp, rfl⟩, hsf⟩
    · exact staticOkE_of _ _ _ (val_static p.1 p.2 (hwf p hp) _ s hsf)
    · exact staticOkE_of _ _ _ (valtype_static p.1 p.2 (hwf p hp) _ s hsf)
    · exact staticOkE_of _ _ _ (grp_static p.1 p.2 (hwf p hp) _ s hsf)
    · exact staticOkE_of _ _ _ (mul_static p.1 p.2 (hwf p hp) _ s hsf)
  have hok : okFile mA (stmtsA es (ps.map (·.1)) ++ (stmtsB es ds dds ga ++ (stmtsF (ps.map (·.1)) ++ stmtsC (ps.map (·.1))))) = true := by
    rw [okFile_append, okFile_append, okFile_append, hokA, hm1, hokB, hm2 m1, hm2d, hokF, hm2f m2, hm3d, hokC]
    rfl
  rw [read_file _ mA hAp hok, List.foldl_append, List.foldl_append, List.foldl_append, hm1, hm2 m1, hm2d, hm2f m2, hm3d, hm3 m3]
  have h4f := frames_after_items (itemsC ps) m3 hu3 (kindsC ps)
  have h4e := ecus_after_items (itemsC ps) m3 (fun it hit => Or.inl (kindsC ps it hit))
  have h4d := items_defs (itemsC ps) m3 (fun it hit => Or.inl (kindsC ps it hit))
  refine ⟨?_, ?_, ?_, ?_, ?_⟩
  · rw [h4e, fold_other_ecus _ (kindsC ps), h3e, h2]
  · rw [h4d.1, h3d, h2]
  · rw [h4d.2, h3a, h2]
  · rw [h4f, h3f, h2]
    simp only
    rw [h1f, hAf, List.map_map, List.map_map, List.map_map]
    apply List.map_congr_left
    intro p hp
    simp only [Function.comp_apply]
    exact per_frameF es ps hwf hdist p hp
  · apply fold_pending _ m3 h3p
    intro it hit hd first e
    subst e
    have := kindsC ps _ hit
    simp [itemFrameUpd] at this

end CanVerif.Dbc.FileProofs
