import CanVerif.Model.DbcFile
import CanVerif.Proofs.DbcRoundtripE
import CanVerif.Props.C05h
/-!
# C05 — the core round trip with the ECUs of the file

`writeCoreE` is `writeCore` (Props/C05h) with the `BU_:` line in front of the frame section and the comments of the ECUs behind the
comments of the signals, as `dbc.dump` writes them (tied to the real file on every generated matrix, op `core`).  For every list of ECUs
with pairwise different names of at least two characters - each with or without a comment over any number of lines - and every list of
frames inside the envelope of `dbc_roundtrip_core`, reading what was written builds exactly these ECUs and exactly these frames.
-/
namespace CanVerif.C05j
open CanVerif CanVerif.Dbc CanVerif.Dbc.FileProofs

/-- the core round trip with the ECUs -/
theorem dbc_roundtrip_core_with_ecus (es : List WEcu) (hes : wfEcus es = true) (ps : List (WFrame × (Nat × Bool)))
    (hwf : ∀ p ∈ ps, p.1.wf p.2 = true) (hdist : ps.Pairwise fun p q => p.2 ≠ q.2) :
    (readFile (writeCoreE es (ps.map (·.1)))).ecus = es.map WEcu.expect ∧
    (readFile (writeCoreE es (ps.map (·.1)))).frames = ps.map (fun p => p.1.expect p.2) ∧
    (readFile (writeCoreE es (ps.map (·.1)))).pending = none :=
  roundtrip_coreE es hes ps hwf hdist

/-- statements about frames, signals and ECUs in any order: the frames go through the updates of the statements that name them, the
statements about ECUs leave them alone -/
theorem frames_after_statements_and_ecus (its : List Item) (m : RMatrix) (hu : KeysUnique m)
    (hall : ∀ it ∈ its, (itemFrameUpd it).isSome = true ∨ isEcuItem it = true) :
    (its.foldl applyItem m).frames = m.frames.map fun f => its.foldl (fun acc it => itemUpd it acc) f :=
  frames_after_items' its m hu hall

/-- and the list of ECUs only sees the statements about ECUs -/
theorem ecus_after_statements (its : List Item) (m : RMatrix)
    (hall : ∀ it ∈ its, (itemFrameUpd it).isSome = true ∨ isEcuItem it = true) :
    (its.foldl applyItem m).ecus = its.foldl (fun es it => ecuUpd it es) m.ecus :=
  ecus_after_items its m hall

/-! ## non-vacuity -/

def exEcus : List WEcu := [{ name := "ECU_A".toList, comment := some "engine\ncontrol unit".toList }, { name := "ECU_B".toList },
  { name := "Gateway".toList, comment := some "gw".toList }]

example : wfEcus exEcus = true := by decide +kernel
example : ((writeCoreE exEcus (CanVerif.C05h.exFrames.map (·.1))).take 3).map String.ofList = ["BU_: ECU_A ECU_B Gateway ", "", "BO_ 291 Engine: 8 ECU_A"] := by
  decide +kernel
example : (readFile (writeCoreE exEcus (CanVerif.C05h.exFrames.map (·.1)))).ecus = exEcus.map WEcu.expect := by decide +kernel
example : (readFile (writeCoreE exEcus (CanVerif.C05h.exFrames.map (·.1)))).frames = CanVerif.C05h.exFrames.map (fun p => p.1.expect p.2) := by decide +kernel

end CanVerif.C05j
