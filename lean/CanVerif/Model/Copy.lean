import CanVerif.Model.Glob
/-!
# Model of copy.py (after fix 67b90e2): `copy_ecu`, `copy_ecu_with_frames`, `copy_signal`, `copy_frame`,
and `CanMatrix.merge` (canmatrix.py ~2361), with the attribute machinery they rely on
(`Ecu/Frame/Signal.attribute`, `add_*_defines`, `Define.set_default`, `Define.update`, `add_ecu`, `update_ecu_list`, `del_ecu`).

Everything of a frame/signal/ECU that copying treats as an opaque blob (layout, type, scaling, value
table, comment, length …) is carried in `body`; attribute values and defaults are strings.
-/
namespace CanVerif

structure Define where
  definition : String
  kind : String                 -- "INT" | "HEX" | "FLOAT" | "STRING" | "ENUM"
  values : List String := []    -- ENUM values
  default : Option String := none
  deriving Repr, DecidableEq, Inhabited

abbrev Attrs := List (String × String)
abbrev Defs := List (String × Define)

def attrGet (a : Attrs) (k : String) : Option String := (a.find? (·.1 == k)).map (·.2)
def attrSet (a : Attrs) (k v : String) : Attrs :=
  if a.any (·.1 == k) then a.map (fun kv => if kv.1 == k then (k, v) else kv) else a ++ [(k, v)]
def defGet (d : Defs) (k : String) : Option Define := (d.find? (·.1 == k)).map (·.2)
def defHas (d : Defs) (k : String) : Bool := d.any (·.1 == k)
def defUpdate (d : Defs) (k : String) (g : Define → Define) : Defs := d.map fun kv => if kv.1 == k then (k, g kv.2) else kv

structure CEcu where
  name : String
  body : String := ""
  attrs : Attrs := []
  deriving Repr, DecidableEq, Inhabited

structure CSig where
  name : String
  body : String := ""
  receivers : List String := []
  attrs : Attrs := []
  deriving Repr, DecidableEq, Inhabited

structure CFrame where
  id : Nat
  ext : Bool
  name : String
  body : String := ""
  transmitters : List String := []
  attrs : Attrs := []
  sigs : List CSig := []
  deriving Repr, DecidableEq, Inhabited

structure CMat where
  ecus : List CEcu := []
  frames : List CFrame := []
  freeSigs : List CSig := []
  frameDefs : Defs := []
  sigDefs : Defs := []
  ecuDefs : Defs := []
  deriving Repr, DecidableEq, Inhabited

/-- effective attribute value: explicit value, else the definition's default (`X.attribute(name, db)`) -/
def effective (attrs : Attrs) (defs : Defs) (a : String) : Option String :=
  match attrGet attrs a with
  | some v => some v
  | none => (defGet defs a).bind (·.default)

/-- `add_X_defines(name, definition)` + `set_default(default)` for a define that is absent;
`mk` builds the Define from its definition string (kind and ENUM values are carried along) -/
def addDefine (d : Defs) (k : String) (src : Define) : Defs :=
  if defHas d k then d else d ++ [(k, { definition := src.definition, kind := src.kind, values := src.values, default := src.default })]

/-- the ENUM part: append the value if missing and rebuild the definition string (`Define.update`) -/
def enumUpdate (d : Defs) (k : String) (v : Option String) : Defs :=
  match v with
  | none => d
  | some val =>
    defUpdate d k fun df =>
      if df.values.contains val then df
      else
        let vs := df.values ++ [val]
        { df with values := vs, definition := "ENUM \"" ++ String.intercalate "\",\"" vs ++ "\"" }

/-- the per-attribute body shared by copy_ecu / copy_frame (frame part) / copy_frame (signal part) / copy_signal:
returns the new target defines and the explicit attribute to add to the copied object (if any) -/
def copyAttr (srcAttrs : Attrs) (srcDefs : Defs) (tgtDefs : Defs) (tgtObjAttrs : Attrs) (a : String) (srcDef : Define) :
    Defs × Attrs :=
  match effective srcAttrs srcDefs a with
  | none => (tgtDefs, tgtObjAttrs)
  | some eff =>
    let d1 := addDefine tgtDefs a srcDef
    let objAttrs :=
      if (attrGet srcAttrs a).isNone && some eff != effective srcAttrs d1 a then attrSet tgtObjAttrs a eff else tgtObjAttrs
    let d2 := if srcDef.kind == "ENUM" then enumUpdate d1 a (some eff) else d1
    (d2, objAttrs)

def CMat.ecuByName (m : CMat) (n : String) : Option CEcu := m.ecus.find? (·.name == n)

def setEcuAttrs (ecus : List CEcu) (n : String) (attrs : Attrs) : List CEcu :=
  match ecus with
  | [] => []
  | e :: t => if e.name == n then { e with attrs := attrs } :: t else e :: setEcuAttrs t n attrs

/-- `copy_ecu(ecu_instance, source, target)` -/
def copyEcu (src tgt : CMat) (ecu : CEcu) : CMat :=
  let t0 : CMat := if tgt.ecus.any (·.name == ecu.name) then tgt else { tgt with ecus := tgt.ecus ++ [ecu] }
  src.ecuDefs.foldl (fun t (kv : String × Define) =>
    match t.ecuByName ecu.name with
    | none => t
    | some te =>
      let (d, a) := copyAttr ecu.attrs src.ecuDefs t.ecuDefs te.attrs kv.1 kv.2
      { t with ecuDefs := d, ecus := setEcuAttrs t.ecus ecu.name a }) t0

def CMat.frameById (m : CMat) (id : Nat) (ext : Bool) : Option CFrame := m.frames.find? fun f => f.id == id && f.ext == ext

def setFrameAttrs (fs : List CFrame) (id : Nat) (ext : Bool) (attrs : Attrs) : List CFrame :=
  match fs with
  | [] => []
  | f :: t => if f.id == id && f.ext == ext then { f with attrs := attrs } :: t else f :: setFrameAttrs t id ext attrs

def setSigAttrs (fs : List CFrame) (id : Nat) (ext : Bool) (sname : String) (attrs : Attrs) : List CFrame :=
  match fs with
  | [] => []
  | f :: t =>
    if f.id == id && f.ext == ext then
      let rec go : List CSig → List CSig
        | [] => []
        | s :: r => if s.name == sname then { s with attrs := attrs } :: r else s :: go r
      { f with sigs := go f.sigs } :: t
    else f :: setSigAttrs t id ext sname attrs

/-- `copy_frame(ArbitrationId(id, ext), source, target)`; `none` = the call raises (frame not in source) -/
def copyFrame (src tgt : CMat) (id : Nat) (ext : Bool) : Option (CMat × Bool) :=
  match src.frameById id ext with
  | none => none
  | some frame =>
    if (tgt.frameById frame.id frame.ext).isSome then some (tgt, false)
    else
      let t0 : CMat := { tgt with frames := tgt.frames ++ [frame] }
      -- ECUs referenced by the frame that the source defines and the target lacks
      let refs := frame.transmitters ++ frame.sigs.flatMap (·.receivers)
      let t1 := refs.foldl (fun t n =>
        match src.ecuByName n, t.ecuByName n with
        | some se, none => copyEcu src t se
        | _, _ => t) t0
      -- frame defines
      let t2 := src.frameDefs.foldl (fun t (kv : String × Define) =>
        match t.frameById frame.id frame.ext with
        | none => t
        | some tf =>
          let (d, a) := copyAttr frame.attrs src.frameDefs t.frameDefs tf.attrs kv.1 kv.2
          { t with frameDefs := d, frames := setFrameAttrs t.frames frame.id frame.ext a }) t1
      -- signal defines, per signal
      let t3 := frame.sigs.foldl (fun t sg =>
        src.sigDefs.foldl (fun t (kv : String × Define) =>
          match (t.frameById frame.id frame.ext).bind (fun tf => tf.sigs.find? (·.name == sg.name)) with
          | none => t
          | some ts =>
            let (d, a) := copyAttr sg.attrs src.sigDefs t.sigDefs ts.attrs kv.1 kv.2
            { t with sigDefs := d, frames := setSigAttrs t.frames frame.id frame.ext sg.name a }) t) t2
      some (t3, true)

/-- `CanMatrix.merge([src])` (frames only; environment variables are not modelled) -/
def mergeInto (tgt src : CMat) : CMat :=
  src.frames.foldl (fun t f => match copyFrame src t f.id f.ext with
    | some (t', _) => t'
    | none => t) tgt

/-- `target.update_ecu_list()` restricted to names (ECU objects created with empty body/attrs) -/
def CMat.updateEcuList (m : CMat) : CMat :=
  let names := m.frames.flatMap fun f => f.transmitters ++ f.sigs.flatMap (·.receivers)
  { m with ecus := names.foldl (fun es n => if es.any (·.name == n) then es else es ++ [{ name := n }]) m.ecus }

/-- `copy_ecu_with_frames(glob, source, target, rx, tx, direct_ecu_only)` -/
def copyEcuWithFrames (src tgt : CMat) (pattern : String) (rx tx direct : Bool) : CMat :=
  let ecuList := src.ecus.filter fun e => globMatch pattern e.name
  let t1 := ecuList.foldl (fun t e =>
    let a := copyEcu src t e
    let b := if tx then (src.frames.filter fun f => f.transmitters.contains e.name).foldl
                (fun t f => match copyFrame src t f.id f.ext with | some (t', _) => t' | none => t) a else a
    let c := if rx then (src.frames.filter fun f => f.sigs.any fun s => s.receivers.contains e.name).foldl
                (fun t f => match copyFrame src t f.id f.ext with | some (t', _) => t' | none => t) b else b
    c) tgt
  let t2 := t1.updateEcuList
  if direct then
    -- after fix: `if ecu.name not in wanted_ecu_names`
    let del := t2.ecus.filter fun e => !(ecuList.any (·.name == e.name)) && !(t2.frames.any fun f => f.transmitters.contains e.name)
    del.foldl (fun t e =>
      if t.ecus.contains e then
        { t with ecus := t.ecus.erase e,
                 frames := t.frames.map fun f => { f with transmitters := f.transmitters.erase e.name,
                                                          sigs := f.sigs.map fun s => { s with receivers := s.receivers.erase e.name } } }
      else t) t2
  else t2

/-- `copy_signal(glob, source, target)`: copies become free signals of the target -/
def copySignal (src tgt : CMat) (pattern : String) : CMat :=
  src.frames.foldl (fun t f =>
    (f.sigs.filter fun s => globMatch pattern s.name).foldl (fun t sg =>
      let t0 : CMat := { t with freeSigs := t.freeSigs ++ [sg] }
      let idx := t0.freeSigs.length - 1
      src.sigDefs.foldl (fun t (kv : String × Define) =>
        -- unlike copy_frame, copy_signal creates the define even when the attribute has no effective value
        let d1 := addDefine t.sigDefs kv.1 kv.2
        let eff := effective sg.attrs src.sigDefs kv.1
        let d2 := if kv.2.kind == "ENUM" then enumUpdate d1 kv.1 eff else d1
        let cur := (t.freeSigs[idx]?).getD sg
        let newAttrs := match eff with
          | some e => if (attrGet sg.attrs kv.1).isNone && some e != effective sg.attrs d2 kv.1 then attrSet cur.attrs kv.1 e else cur.attrs
          | none => cur.attrs
        { t with sigDefs := d2, freeSigs := t.freeSigs.set idx { cur with attrs := newAttrs } }) t0) t) tgt

end CanVerif
