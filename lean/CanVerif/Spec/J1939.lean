/-!
# Independent specification of the 29-bit J1939 identifier layout (SAE J1939-21), by div/mod

    28..26 priority | 25 extended data page | 24 data page | 23..16 PDU format | 15..8 PDU specific | 7..0 source address

PGN = EDP·2^17 + DP·2^16 + PF·2^8 + (PS if PF ≥ 240 else 0).
For PF < 240 (PDU1) the PDU-specific byte is the destination address and does not belong to the PGN.
-/
namespace CanVerif.Spec

def sa (id : Nat) : Nat := id % 256
def ps (id : Nat) : Nat := id / 256 % 256
def pf (id : Nat) : Nat := id / 65536 % 256
def dp (id : Nat) : Nat := id / 2 ^ 24 % 2
def edp (id : Nat) : Nat := id / 2 ^ 25 % 2
def prio (id : Nat) : Nat := id / 2 ^ 26 % 8

def compose (prio edp dp pf ps sa : Nat) : Nat :=
  prio * 2 ^ 26 + edp * 2 ^ 25 + dp * 2 ^ 24 + pf * 2 ^ 16 + ps * 2 ^ 8 + sa

def pgn (id : Nat) : Nat :=
  edp id * 2 ^ 17 + dp id * 2 ^ 16 + pf id * 2 ^ 8 + (if pf id ≥ 240 then ps id else 0)

/-- a valid identifier -/
def validId (id : Nat) (ext : Bool) : Bool := if ext then id < 2 ^ 29 else id < 2 ^ 11

/-- compound integer: top bit marks extended identifiers -/
def compound (id : Nat) (ext : Bool) : Nat := if ext then id + 2 ^ 31 else id

end CanVerif.Spec
