import CanVerif.Model.DbcFile
import CanVerif.Proofs.DbcFile
/-!
# C05 / C20 (continued) — the DBC reader as a whole reads a written file as the sequence of its statements

`readFile` (Model/DbcFile.lean) is the line loop of `dbc.load`: follow-up state for comments over several lines, the `startswith`
dispatcher, one parser per statement kind, the statement's effect on the matrix under construction (frame lookup by identifier, signal
lookup by name, `frame` variable, dictionaries in insertion order) and the count of "error with line no".  It is tied to the real reader
on every generated file - as written and damaged - by the correspondence check (op `whole`).

Here: for ANY sequence of well-formed statements of the thirteen one-line kinds (`BU_:`, `BO_`, `SG_`, empty line, `BO_TX_BU_`, `VAL_`,
`VAL_TABLE_`, `BA_DEF_` on all levels, `BA_DEF_DEF_`, `BA_` on all levels, `SIG_GROUP_`, `SIG_VALTYPE_`, `SG_MUL_VAL_`), in any order
and of any length, every written line is recognised by the dispatcher as the statement it is (no line is an "error with line" because
of its form, none is mistaken for another kind: `BA_DEF_DEF_` is not taken for `BA_DEF_`, `BO_TX_BU_` not for `BO_`, …), and the file is
read as the left fold of the statements' effects.  Lines the reader skips may be scattered anywhere in between; a prefix of the file
is read as the state the complete file passes through.  Comments over several lines are covered statement-wise (Props/C05d) and by the
correspondence at file level.
-/
namespace CanVerif.C05f
open CanVerif CanVerif.Dbc

/-- every written statement is taken by the dispatcher for what it is and parsed back -/
theorem statement_recognised (s : Stmt) (h : s.wf = true) :
    scanLine s.line = match s.item with
      | some it => .item it
      | none => .skip :=
  FileProofs.scan_stmt s h

/-- one step of the reader on a written statement is the statement's effect -/
theorem step_is_effect (m : RMatrix) (s : Stmt) (hm : m.pending = none) (h : s.wf = true) :
    stepFile m s.line = applyStmt m s :=
  FileProofs.step_stmt m s hm h

/-- the whole file: reading what was written is the fold of the statements' effects, for every sequence of statements -/
theorem file_is_fold_of_effects (ss : List Stmt) (h : ∀ s ∈ ss, s.wf = true) :
    readFile (writeStmts ss) = ss.foldl applyStmt {} :=
  FileProofs.read_statements ss h {} rfl

/-- no comment is left open at the end of such a file, and none in between -/
theorem no_pending_comment (ss : List Stmt) (h : ∀ s ∈ ss, s.wf = true) : (readFile (writeStmts ss)).pending = none := by
  rw [file_is_fold_of_effects ss h]
  generalize hm : ({} : RMatrix) = m
  have hp : m.pending = none := by rw [← hm]
  clear hm
  induction ss generalizing m with
  | nil => exact hp
  | cons s ss ih =>
    exact ih (fun x hx => h x (List.mem_cons_of_mem _ hx)) _ (FileProofs.applyStmt_pending m s hp)

/-- a comment statement, on one line or over several, read where the reader can recognise it (see `FileStmt.okIn`: for a text over
several lines the frame / identifier / ECU it names must be known at that point), gives the comment to its object -/
theorem comment_statement_effect (m : RMatrix) (h : CmHead) (text : Str) (hm : m.pending = none)
    (hok : (FileStmt.cm h text).okIn m = true) :
    (cmLines h text).foldl stepFile m = applyItem m (.cm h text) :=
  FileProofs.fold_cm m h text hm hok

/-- the whole file with comments over several lines among the statements: any sequence, any length; the follow-up state is left
again after every comment -/
theorem file_with_comments_is_fold (fs : List FileStmt) (hok : okFile {} fs = true) :
    readFile (writeFile fs) = fs.foldl FileStmt.apply {} :=
  FileProofs.read_file fs {} rfl hok

/-- C20 at file level: skipped lines (unknown keyword, only blanks, a pattern that fails behind a guard) anywhere between the
statements change nothing -/
theorem skipped_lines_ignored (isBad : Str → Bool) (hbad : ∀ b, isBad b = true → scanLine b = .skip)
    (ls : List Str) (ss : List Stmt) (hl : ls.filter (fun l => !isBad l) = writeStmts ss) (h : ∀ s ∈ ss, s.wf = true) :
    readFile ls = readFile (writeStmts ss) := by
  rw [file_is_fold_of_effects ss h]
  exact FileProofs.read_with_skipped isBad hbad ls ss hl h {} rfl

/-- a line whose form is wrong where the handler raises only counts as an error; it is not applied -/
theorem error_line_only_counted (m : RMatrix) (b : Str) (hm : m.pending = none) (hb : scanLine b = .error) :
    stepFile m b = { m with errors := m.errors + 1 } :=
  FileProofs.step_error m b hm hb

/-- the counter of printed errors is write-only: no step of the reader looks at it -/
theorem errors_never_read (m : RMatrix) (k : Nat) (line : Str) :
    stepFile { m with errors := m.errors + k } line = { stepFile m line with errors := (stepFile m line).errors + k } :=
  FileProofs.stepFile_addErr m k line

/-- C20 at file level, both fates of a bad line: lines that are skipped and lines whose handler raises on their form, scattered
anywhere between the statements of a written file, change nothing but the number of printed errors - by exactly one per raising line -/
theorem bad_lines_only_counted (isBad : Str → Bool) (hbad : ∀ b, isBad b = true → scanLine b = .skip ∨ scanLine b = .error)
    (ls : List Str) (ss : List Stmt) (hl : ls.filter (fun l => !isBad l) = writeStmts ss) (h : ∀ s ∈ ss, s.wf = true) :
    readFile ls = { readFile (writeStmts ss) with
      errors := (readFile (writeStmts ss)).errors + (ls.filter fun l => isBad l && scanLine l == .error).length } := by
  rw [file_is_fold_of_effects ss h]
  exact FileProofs.read_with_bad isBad hbad ls ss hl h {} rfl

/-- truncation between statements: the prefix is read as the state the complete file passes through -/
theorem prefix_state (pre post : List Stmt) :
    readFile (writeStmts (pre ++ post)) = (writeStmts post).foldl stepFile (readFile (writeStmts pre)) :=
  FileProofs.read_prefix pre post

/-! ## non-vacuity and closed instances (evaluated by the kernel) -/

def exFile : List Str :=
  ["BU_: ECU_A ECU_B", "", "BO_ 291 Engine: 8 ECU_A", " SG_ Speed : 0|16@1+ (0.5,0) [0|100] \"km/h\" ECU_B", "",
   "BO_TX_BU_ 291 : ECU_A,ECU_B;", "CM_ BO_ 291 \"first line", "second line\";", "BA_DEF_ BO_ \"Cycle\" INT 0 1000;",
   "BA_DEF_DEF_ \"Cycle\" 100;", "BA_ \"Cycle\" BO_ 291 20;", "VAL_ 291 Speed 1 \"one\" 0 \"zero\" ;", "FOO_ unknown keyword;",
   "BA_ \"Cycle\" BO_ 291 twenty;", "SIG_VALTYPE_ 291 NoSuch : 1;"].map String.toList

example : (readFile exFile).frames.map (fun f => (f.key, f.name, f.transmitters)) =
    [((291, false), "Engine".toList, ["ECU_A".toList, "ECU_B".toList])] := by decide +kernel
example : (readFile exFile).frames.map (fun f => f.comment) = [some "first line\nsecond line".toList] := by decide +kernel
example : (readFile exFile).frames.map (fun f => f.attrs) = [[("Cycle".toList, "20".toList)]] := by decide +kernel
example : (readFile exFile).ecus.map (fun e => e.name) = ["ECU_A".toList, "ECU_B".toList] := by decide +kernel
/-- the non-number for the INT attribute and the statement about an unknown signal are the two printed errors; the unknown keyword is none -/
example : (readFile exFile).errors = 2 := by decide +kernel
example : ((readFile exFile).frames.map fun f => f.sigs.map fun s => (s.sg.name, s.values)) =
    [[("Speed".toList, [(1, "one".toList), (0, "zero".toList)])]] := by decide +kernel
example : (readFile exFile).defs.map (fun d => (d.name, d.default)) = [("Cycle".toList, some "100".toList)] := by decide +kernel
/-- a file with comments written by `writeFile` (non-vacuity of `okFile`, and the result) -/
def exStmts : List FileStmt :=
  [.one (.bo ⟨291, "Engine".toList, 8, "ECU_A".toList⟩),
   .cm (.bo 291) "first line \n\n  third \"quoted\" line".toList,
   .cm (.bu "Nobody".toList) "one line for an unknown ECU".toList,
   .one (.tx ⟨291, ["ECU_A".toList, "ECU_B".toList]⟩)]
example : okFile {} exStmts = true := by decide +kernel
example : (writeFile exStmts).map String.ofList =
    ["BO_ 291 Engine: 8 ECU_A", "CM_ BO_ 291  \"first line ", "", "  third \\\"quoted\\\" line\";",
     "CM_ BU_ Nobody \"one line for an unknown ECU\";", "BO_TX_BU_ 291 : ECU_A,ECU_B;"] := by decide +kernel
example : (readFile (writeFile exStmts)).frames.map (fun f => (f.comment, f.transmitters)) =
    [(some "first line \n\n  third \"quoted\" line".toList, ["ECU_A".toList, "ECU_B".toList])] := by decide +kernel
/-- the hypothesis of `file_with_comments_is_fold` is needed: a comment over several lines for an ECU that is not listed is not recognised,
its second line is read as a statement of its own (here: as a frame) -/
example : okFile {} [.cm (.bu "Nobody".toList) "x\nBO_ 5 Ghost: 8 E1".toList] = false ∧
    ((readFile (writeFile [.cm (.bu "Nobody".toList) "x\nBO_ 5 Ghost: 8 E1".toList])).frames.map fun f => f.name) = ["Ghost".toList] := by decide +kernel
/-- the list of ECUs: names of one character are dropped by the reader (hence the envelope of `Stmt.bu`) -/
example : scanLine (renderBu ["ECU_A".toList, "Gw".toList]) = .item (.bu ["ECU_A".toList, "Gw".toList]) := by decide +kernel
example : scanLine "BU_: A Gw".toList = .item (.bu ["Gw".toList]) := by decide +kernel
/-- the dispatcher keeps apart the kinds whose keywords begin alike -/
example : scanLine "BA_DEF_DEF_ \"Cycle\" 100;".toList = .item (.defdef "Cycle".toList "100".toList) := by decide +kernel
example : (Stmt.tx ⟨291, ["A1".toList, "B2".toList]⟩).wf = true := by decide
example : (Stmt.tx ⟨291, ["A1".toList, "B2".toList]⟩).line = "BO_TX_BU_ 291 : A1,B2;".toList := by decide +kernel
/-- bad lines of both kinds between the statements of `exFile`'s good part -/
example : scanLine "FOO_ unknown keyword;".toList = .skip ∧ scanLine "BO_ 12x Name: 8 E1".toList = .error ∧
    scanLine " SG_ cut : 0|8@1+ (1,".toList = .error ∧ scanLine "VAL_ 1 x 1 \"unterminated".toList = .skip ∧
    scanLine "SG_MUL_VAL_ broken".toList = .skip ∧ scanLine "SIG_GROUP_ broken".toList = .error := by decide +kernel
/-- a statement for a standard identifier above 0x7FF is refused as a whole (the identifier cannot be built) -/
example : (readFile ["BO_ 4096 TooBig: 8 E1".toList]).frames = [] ∧ (readFile ["BO_ 4096 TooBig: 8 E1".toList]).errors = 1 := by decide +kernel

end CanVerif.C05f
