import CanVerif.Model.DbcFile
import CanVerif.Proofs.DbcTablesRT
import CanVerif.Props.C05m
/-!
# C05 — the whole file: the matrix with its value tables

`writeCoreH` is `writeCoreF` (Props/C05l, C05m) with the `VAL_TABLE_` lines between the `BU_:` line and the frame section - every line
`dbc.dump` writes except the fixed header and the environment variables (tied to the real file on every generated matrix, op `core`).
The reader hands the keys of a `VAL_TABLE_` statement to `int()` (Model/DbcFile.lean `pyIntKey`; a key that is no number is a line error,
compared with the real reader on files with such lines); the writer prints the keys of the dictionary, and for every list of tables with
pairwise different names and keys the statement stores exactly the written table.
-/
namespace CanVerif.C05n
open CanVerif CanVerif.Dbc CanVerif.Dbc.FileProofs

theorem dbc_whole_file_roundtrip (es : List WEcu) (hes : wfEcus es = true) (ts : List WTable) (hts : wfTables ts = true)
    (ds : List DefLine) (hds : wfDefs ds = true) (dds : List DefDefLine) (hdds : wfDefaults ds dds = true)
    (ga : List (Str × Str)) (hga : wfAttrs (expectDefs ds dds) .global .global ga = true)
    (hea : ∀ e ∈ es, wfAttrs (expectDefs ds dds) .ecu (.ecu e.name) e.attrs = true)
    (ps : List (WFrame × (Nat × Bool))) (hwf : ∀ p ∈ ps, p.1.wf p.2 = true) (hdist : ps.Pairwise fun p q => p.2 ≠ q.2)
    (hfa : ∀ p ∈ ps, p.1.wfA (expectDefs ds dds) = true) :
    (readFile (writeCoreH es ts ds dds ga (ps.map (·.1)))).ecus = es.map WEcu.expectA ∧
    (readFile (writeCoreH es ts ds dds ga (ps.map (·.1)))).defs = expectDefs ds dds ∧
    (readFile (writeCoreH es ts ds dds ga (ps.map (·.1)))).attrs = attrsOf ga ∧
    (readFile (writeCoreH es ts ds dds ga (ps.map (·.1)))).frames = ps.map (fun p => p.1.expectA p.2) ∧
    (readFile (writeCoreH es ts ds dds ga (ps.map (·.1)))).pending = none ∧
    (readFile (writeCoreH es ts ds dds ga (ps.map (·.1)))).errors = 0 ∧
    (readFile (writeCoreH es ts ds dds ga (ps.map (·.1)))).tables = ts.map WTable.line :=
  roundtrip_coreH es hes ts hts ds hds dds hdds ga hga hea ps hwf hdist hfa

/-- `int()` on a key the writer printed gives the key back -/
theorem written_key_is_read (k : Nat) : pyIntKey (natDigits k) = some (k : Int) := pyIntKey_natDigits k

/-- a `VAL_TABLE_` statement with pairwise different keys stores its table under its name -/
theorem table_statement_effect (m : RMatrix) (t : WTable) (hk : (t.entries.map (·.1)).Nodup) :
    applyItem m (.vt t.line) = { m with tables := applyCore.assocSetTable m.tables t.line } :=
  apply_vt m t hk

/-- C20 for this statement: a table with a key that `int()` refuses changes nothing but the count of printed errors -/
theorem refused_table_only_counted (m : RMatrix) (v : VtLine)
    (h : ((v.entries.foldl (fun acc (e : Str × Str) => assocSet acc e.1 e.2) ([] : List (Str × Str))).mapM
      (fun (e : Str × Str) => (pyIntKey e.1).map fun i => (i, e.2))) = none) :
    applyItem m (.vt v) = m.err := by
  have e1 : applyItem m (.vt v) = applyCore m (.vt v) := rfl
  rw [e1]
  simp only [applyCore, h]

/-! ## non-vacuity, and the line error of a key that is no number -/

def exTables : List WTable := [⟨"Gear".toList, [(0, "N".toList), (1, "D".toList), (15, "invalid \"x\"".toList)]⟩, ⟨"Empty".toList, []⟩]

example : wfTables exTables = true := by decide +kernel
example : (readFile (writeCoreH CanVerif.C05k.exEcusA exTables CanVerif.C05k.exDefs CanVerif.C05k.exDefaults CanVerif.C05k.exGlobal
    (CanVerif.C05l.exFramesA.map (·.1)))).tables = exTables.map WTable.line := by decide +kernel
example : ((writeCoreH CanVerif.C05k.exEcusA exTables [] [] [] []).take 5).map String.ofList =
    ["BU_: ECU_A ECU_B Gateway ", "", "VAL_TABLE_ Gear 0 \"N\" 1 \"D\" 15 \"invalid \\\"x\\\"\";", "VAL_TABLE_ Empty ;", ""] := by decide +kernel
example : (readFile ["VAL_TABLE_ Gear 0 \"N\" x \"D\";".toList]).errors = 1 ∧ (readFile ["VAL_TABLE_ Gear 0 \"N\" x \"D\";".toList]).tables = [] := by
  decide +kernel
example : (readFile ["VAL_TABLE_ Gear 0 \"N\" +1_0 \"D\" 010 \"E\";".toList]).tables = [⟨"Gear".toList, [("0".toList, "N".toList), ("10".toList, "E".toList)]⟩] := by
  decide +kernel

end CanVerif.C05n
