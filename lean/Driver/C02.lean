import Driver.Common
open Lean CanVerif

namespace D02

def bitOfInt (v : Int) (size i : Nat) : Bool := ((v % (2:Int) ^ size).toNat).testBit i

/-- op "enc": c = {"f": frame, "d": [[name, raw], ...]}  impl i = {"ok":[bytes], "dec": {name: value}} | {"err":..}
op "decenc": c = {"f": frame, "data":[bytes]}  impl i = {"ok":[bytes re-encoded]} -/
def handle (op : String) (c i : Json) : Except String (Json × String) := do
  match op with
  | "enc" =>
    let f ← DC.frame (← J.key c "f")
    let d ← DC.dataDict (← J.key c "d")
    let r := f.encode d
    let m := match r with
      | .ok bytes =>
        let dec := f.decode bytes
        J.obj [("ok", J.ofNatList bytes), ("dec", match dec with
          | .ok dd => DC.dictJson f dd
          | .error e => Json.str (DC.errStr e))]
      | .error e => J.obj [("err", Json.str (DC.errStr e))]
    -- spec on the implementation: length, every supplied signal reads back, all other bits clear
    let s ← match i.getObjVal? "ok" with
      | .error _ => pure "fail: encoding of representable values raised"
      | .ok bj => do
        let bytes ← J.natList bj
        if bytes.length != f.size then pure "fail: encoded payload has wrong length" else
        let supplied := f.sigs.filterMap fun sg => (dictGet d sg.name).map fun v => (sg, v)
        let bad1 := supplied.filterMap fun (sg, v) =>
          let got := Spec.valueOf (DC.specSig sg) bytes
          if got == v then none else some s!"signal {sg.name}: supplied {v} reads back {got}"
        let covered := supplied.flatMap fun (sg, _) => Spec.addrs (DC.specSig sg)
        let stray := (List.range (8 * f.size)).filter fun k => payloadBit bytes k && !covered.contains k
        -- ... and the implementation's own decoding of that payload gives the supplied values back
        let decJ := J.keyD i "dec" Json.null
        let bad2 := supplied.filterMap fun (sg, v) =>
          match decJ.getObjVal? sg.name with
          | .ok got => if got == DC.valJson sg v then none else some s!"signal {sg.name}: supplied {v}, the implementation decodes its own payload to {got.compress}"
          | .error _ => some s!"signal {sg.name}: missing from the implementation's decoding of its own payload"
        pure (match bad1, stray, bad2 with
          | b :: _, _, _ => "fail: " ++ b
          | [], k :: _, _ => s!"fail: bit {k} belongs to no supplied signal but is set"
          | [], [], b :: _ => "fail: " ++ b
          | [], [], [] => "ok")
    pure (m, s)
  | "decenc" =>
    let f ← DC.frame (← J.key c "f")
    let data ← J.natList (← J.key c "data")
    -- contract of struct.unpack('>f') followed by struct.pack('>f') on this platform: a float32
    -- signalling NaN comes back quieted (mantissa bit 22 set); float64 and all non-NaN patterns are kept
    let quiet := fun (kv : String × Int) =>
      match f.sigs.find? (·.name == kv.1) with
      | some sg => if sg.isFloat && sg.size == 32 && Spec.isNaNPattern 32 kv.2.toNat
                   then (kv.1, ((kv.2.toNat ||| 2 ^ 22 : Nat) : Int)) else kv
      | none => kv
    let m := match f.decode data with
      | .error e => J.obj [("err", Json.str (DC.errStr e))]
      | .ok dd => match f.encode (dd.map quiet) with
        | .ok bytes => J.obj [("ok", J.ofNatList bytes)]
        | .error e => J.obj [("err", Json.str (DC.errStr e))]
    let s ← match i.getObjVal? "ok" with
      | .error _ => pure "fail: decode-then-encode raised"
      | .ok bj => do
        let bytes ← J.natList bj
        if bytes.length != f.size then pure "fail: re-encoded payload has wrong length" else
        let covered := f.sigs.flatMap fun sg => Spec.addrs (DC.specSig sg)
        let bad := covered.filter fun k => payloadBit bytes k != payloadBit data k
        pure (match bad with
          | k :: _ => s!"fail: covered bit {k} not reproduced"
          | [] => "ok")
    pure (m, s)
  | _ => throw s!"C02: unknown op {op}"

end D02
