"""C01 - decoding reads exactly the convention's bits; wrong-length payloads are refused."""
import canmatrix.canmatrix as cm
from lib import frames as F

PID = "C01"
RULE = ("case = (frame of 1..64 bytes incl. every CAN FD length and odd lengths, 1..6 possibly overlapping in-frame "
        "signals of width 1..64, both byte orders, signed/unsigned, float32/64; payload random / walking one / "
        "walking zero / constant; API Frame.decode, Frame.unpack(allow_truncated, allow_exceeded), CanMatrix.decode); "
        "length cases = payload lengths 0..2*size x 4 switch combinations x plain/multiplexed/container frames. "
        "Every decode/encode is observed on objects with a history: the first use of a frame is made with its signals somewhere else "
        "(then moved into place by assignment), each call is repeated, and once more after another detour; an encode request is also "
        "made with one values dict used for several selector values. A result that depends on that history is a failure. "
        "Frames longer than 8 bytes are CAN FD frames and the next FD length above the declared one is among the payload lengths; a third of the Motorola signals are placed by set_startbit(msb number, bitNumbering=1) as a DBC reader does. One multiplexer in four is signed; 30 % of the frames carry signals with physical scaling, limits and start values; container frames with header signals and PDUs are checked against the length rule on the implementation itself (unpack with the opt-in equals unpack of the padded / cut payload). Non-trivial = distinct case whose payload is not constant or whose length differs from the declared one.")
PARTIAL = ["struct.unpack('>f'/'>d') (IEEE-754 conversion) is trusted: float signals are compared as bit patterns, NaN as a class",
           "PDU-container frames are modelled up to the length check only"]
ASSUMPTIONS = ["signal names unique within a frame", "placements inside the frame (start+size <= 8*len); Python's negative-index "
               "wrap-around for out-of-frame signals is outside the property's domain"]
TRUSTED = ["CPython str.format('{:08b}'), slicing and int(s,2) semantics as modelled in Model/Codec.lean", "struct module"]
CORRESPONDENCE = "Frame.decode/unpack, CanMatrix.decode == CanVerif.Frame.decode/unpack"


def gen_frame(rng, kind="plain"):
    n = rng.choice(F.ALL_LENGTHS if rng.random() < 0.7 else F.FD_LENGTHS)
    sigs = [F.rand_sig(rng, "s%d" % k, n) for k in range(rng.randint(1, 6))]
    if kind == "plain" and rng.random() < 0.05:
        sigs = []                # a frame may be declared without signals: its length is its length all the same
    fd = {"size": n, "sigs": sigs}
    if kind == "mux":
        w = rng.randint(1, min(8, 8 * n))
        mstart = rng.randint(0, 8 * n - w)
        # (a multiplexer is a signal like any other: it may be signed)
        mux = F.sigdesc("mx", mstart, w, rng.random() < 0.5, rng.random() < 0.25, False, True)
        for d in sigs:
            if rng.random() < 0.6:
                d[7] = rng.randrange(0, 1 << w)
            d[5] = False if d[2] not in (32, 64) else d[5]
        fd["sigs"] = [mux] + sigs
    elif kind == "container":
        fd["ct"] = True
        if rng.random() < 0.6:
            # a container with header signals and PDUs, and a payload that holds PDU headers (id 10 / 11, length 2)
            fd["ctfull"] = True
            fd["size"] = rng.choice([8, 12, 12, 16])
            fd["sigs"] = []
    if rng.random() < 0.3:
        fd["sc"] = True          # signals with physical scaling, limits and start values (no business of the raw codec)
    return fd


def gen(rng, tier, shard, nshards):
    total = {"quick": 24000, "thorough": 500000}[tier]
    n = total // nshards
    for i in range(n):
        c = rng.random()
        if c < 0.6:
            fd = gen_frame(rng, "plain")
            data = F.rand_payload(rng, fd["size"])
            api = rng.choice(["decode", "decode", "unpack", "mdecode"])
            yield {"op": "dec", "c": {"f": fd, "data": data, "at": False, "ae": False, "api": api}}
        elif c < 0.7:
            fd = gen_frame(rng, "mux")
            data = F.rand_payload(rng, fd["size"])
            yield {"op": "dec", "c": {"f": fd, "data": data, "at": False, "ae": False, "api": rng.choice(["decode", "unpack"])}}
        else:
            # the length rule
            kind = rng.choice(["plain", "plain", "mux", "container"])
            fd = gen_frame(rng, kind)
            nxt = next((x for x in F.FD_LENGTHS if x > fd["size"]), fd["size"] + 1)      # the next CAN FD length above the declared one
            ln = rng.choice([rng.randint(0, 2 * fd["size"]), fd["size"] - 1, fd["size"] + 1, fd["size"], 0, 2 * fd["size"], nxt])
            data = F.rand_payload(rng, ln) if ln else []
            if fd.get("ctfull"):
                # a sequence of contained PDUs: the two described ones and unknown ones of 1..3 bytes, then zeros
                seq = []
                for _k in range(rng.randint(1, 3)):
                    pid = rng.choice([10, 11, 99])
                    dl = 2 if pid != 99 else rng.randint(1, 3)
                    seq += [0, 0, pid, dl] + [rng.randrange(256) for _ in range(dl)]
                data = (seq + [0] * 64)[:ln]
            api = rng.choice(["unpack", "unpack", "unpack", "decode", "mdecode"])
            if kind == "container" and api == "mdecode":
                api = "decode"
            yield {"op": "dec", "c": {"f": fd, "data": data, "at": rng.random() < 0.5, "ae": rng.random() < 0.5, "api": api}}
    if shard == 0:
        # exhaustive part: every (start,width), both orders, signed and unsigned, frames of 1 and 2 bytes
        for n in (1, 2):
            for size in range(1, 8 * n + 1):
                for start in range(0, 8 * n - size + 1):
                    for little in (False, True):
                        for signed in (False, True):
                            for data in ([0xA5, 0x3C][:n], [0xFF] * n, [0x80, 0x01][:n]):
                                yield {"op": "dec", "c": {"f": {"size": n, "sigs": [F.sigdesc("s", start, size, little, signed)]},
                                                          "data": data, "at": False, "ae": False, "api": "decode"}}
        # exhaustive length matrix for a small frame
        for kind in ("plain", "mux", "container"):
            fd = gen_frame(rng, kind)
            for ln in range(0, 2 * fd["size"] + 1):
                for at in (False, True):
                    for ae in (False, True):
                        yield {"op": "dec", "c": {"f": fd, "data": [0x5A] * ln, "at": at, "ae": ae, "api": "unpack"}}


def neighbours(case, rng, shard, nshards):
    c = case["c"]
    for _ in range(300 // nshards + 1):
        fd = {"size": c["f"]["size"], "sigs": [list(s) for s in c["f"]["sigs"]], "cx": c["f"].get("cx", False), "ct": c["f"].get("ct", False)}
        k = rng.random()
        ln = len(c["data"])
        if k < 0.5:
            data = F.rand_payload(rng, ln) if ln else []
        else:
            ln2 = max(0, ln + rng.randint(-2, 2))
            data = F.rand_payload(rng, ln2) if ln2 else []
        for s in fd["sigs"]:
            if rng.random() < 0.3 and not s[6]:
                s[4] = not s[4]
        yield {"op": "dec", "c": {"f": fd, "data": data, "at": rng.random() < 0.5, "ae": rng.random() < 0.5, "api": c["api"]}}


def observe(case):
    c = case["c"]
    fr = F.mkframe(c["f"])
    db = None
    if c["api"] == "mdecode":
        db = cm.CanMatrix()
        db.add_frame(fr)
    return F.observe_decode(fr, c["data"], c["api"], c["at"], c["ae"], db)


def project(impl):
    return impl


def features(case, impl):
    c = case["c"]
    fd = c["f"]
    yield "api=" + c["api"]
    yield "len=%d" % fd["size"] if fd["size"] in (1, 8, 12, 64) else "len=other"
    ln = len(c["data"])
    yield "payload " + ("==" if ln == fd["size"] else "<" if ln < fd["size"] else ">") + " declared"
    yield "kind=" + ("container" if fd.get("ct") else "mux" if any(s[6] for s in fd["sigs"]) else "plain")
    yield "result=" + ("err:" + impl["err"] if "err" in impl else "ok")
    for s in fd["sigs"]:
        yield "sig:%s%s%s" % ("intel" if s[3] else "motorola", "/float" if s[5] else "/signed" if s[4] else "/unsigned",
                               "/w64" if s[2] == 64 else "/w1" if s[2] == 1 else "")


def nontrivial(case, impl):
    c = case["c"]
    return len(set(c["data"])) > 1 or len(c["data"]) != c["f"]["size"]


def shrink_candidates(case):
    c = case["c"]
    fd = c["f"]
    if len(fd["sigs"]) > 1:
        for i in range(len(fd["sigs"])):
            if not fd["sigs"][i][6]:
                nf = dict(fd, sigs=fd["sigs"][:i] + fd["sigs"][i + 1:])
                yield {"op": "dec", "c": dict(c, f=nf)}
    for i, b in enumerate(c["data"]):
        if b:
            nd = list(c["data"])
            nd[i] = 0
            yield {"op": "dec", "c": dict(c, data=nd)}


def recipe(case):
    return "python: from lib import frames as F; fr=F.mkframe(case['c']['f']); fr.decode(bytes(case['c']['data'])) (see harness/props/c01.py observe)"
