"""C18 - canconvert options have exactly their documented effect."""
import contextlib
import io
import json
import logging
import os
import shutil
import tempfile

import canmatrix.canmatrix as cm
import canmatrix.cli.convert
import canmatrix.convert
import canmatrix.formats
from lib import dbcgen as G
from lib import matrices as M

PID = "C18"
EXTRA_PROPS = ("C18s",)
RULE = ("case 'conv' = (generated DBC matrix with unique frame names, signal names unique per frame (half of the matrices reuse them across frames), several senders and receivers, ECUs that send and receive, "
        "receive-only and unreferenced ECUs, user attributes on frames and signals, zero-length signals, FD frames, frames of 1..64 bytes; "
        "no option, one option or a pair of options out of deleteEcu, renameEcu, deleteFrame, renameFrame, deleteSignal, renameSignal, "
        "deleteZeroSignals, deleteSignalAttributes, deleteFrameAttributes, setFrameFd, unsetFrameFd, skipLongDlc, cutLongFrames, "
        "recalcDLC, changeFrameId, addFrameReceiver, deleteObsoleteEcus, frames, ecus with rx/tx suffixes; arguments: existing and "
        "unknown names, comma lists, glob patterns where the called method takes them, `*` prefix/suffix forms of the rename "
        "methods, thresholds below, at and above existing lengths; invocation through canmatrix.convert.convert or through the click "
        "command): the output DBC file re-read and reduced to names, ids, lengths, FD flag, senders, signals with position, length, "
        "30 % of the extended identifiers are numbers below 0x800. receivers and user attributes, and the ECU list closed under references. Non-trivial = distinct case with an option that "
        "changes the matrix.")
PARTIAL = ["merge, signals, compressFrame (C16), deleteObsoleteDefines (C11), signalNameFromAttrib and the ARXML/PDU-container rewrite are "
           "not modelled", "only DBC input and output files", "the selection options are specified by the model of copy.py (C12), not by "
           "an independent clause"]
ASSUMPTIONS = ["unique frame names, signal names unique within a frame (the same name may occur in several frames); new names of renames and new identifiers of changeFrameId are not in use",
               "the DBC round trip of the output is lossless on the compared fields (C05)"]
TRUSTED = ["click.testing.CliRunner", "DBC reader used to observe the output (C05)"]
CORRESPONDENCE = "re-read output of convert()/cli_convert == CanVerif.Conv.convert (Model/Convert.lean) on the abstract matrix"
NSHARDS = {"quick": 16, "thorough": 16}

ECUS = ["ECU_A", "ECU_B", "Gw", "Body", "Diag", "Brake"]
logging.getLogger("canmatrix").setLevel(logging.CRITICAL)


def gen_matrix(rng):
    ecus = rng.sample(ECUS, rng.randint(2, 6))
    frames = []
    ids = set()
    signo = 0
    shared_names = rng.random() < 0.5       # the same signal names ("Counter", "Checksum") in several frames
    for k in range(rng.randint(1, 5)):
        if shared_names:
            signo = 0
        ext = rng.random() < 0.3
        while True:
            arbid = rng.randrange(1, 1 << 29) if ext else rng.randrange(1, 1 << 11)
            if ext and rng.random() < 0.3:
                arbid = rng.randrange(1, 1 << 11)        # an extended identifier may be a small number
            if arbid not in ids:
                ids.add(arbid)
                break
        fd = rng.random() < 0.25
        size = rng.choice([1, 2, 3, 4, 6, 8, 8] + ([12, 16, 24, 64] if fd else []))
        sigs = []
        pos = 0
        for j in range(rng.randint(0, 5)):
            w = rng.choice([0, 1, 2, 4, 8, 8, 12, 16]) if rng.random() < 0.9 else rng.randint(1, 32)
            gap = rng.choice([0, 0, 1, 4, 8])
            if pos + gap + w > size * 8:
                break
            sigs.append({"name": "%s%d" % (rng.choice(["sig", "Speed", "st", "st1_1"]), signo), "start": pos + gap, "size": w,
                         "receivers": rng.sample(ecus, rng.choice([0, 1, 1, 2])),
                         "attrs": [["SgInt", str(rng.randint(0, 9))]] * (rng.random() < 0.3) + [["SgStr", rng.choice(["a", "b c"])]] * (rng.random() < 0.2)})
            signo += 1
            pos += gap + w
        frames.append({"name": "%s%d" % (rng.choice(["Frame", "Msg", "Frame_x", "Msg0_0"]), k), "id": arbid, "ext": ext, "size": size, "fd": fd,
                       "tx": rng.sample(ecus, rng.choice([0, 1, 1, 1, 2])), "sigs": sigs,
                       "attrs": [["FrInt", str(rng.randint(0, 9))]] * (rng.random() < 0.3) + [["FrStr", rng.choice(["x", "y z"])]] * (rng.random() < 0.2)})
    return {"ecus": ecus, "frames": frames}


def build(m):
    db = cm.CanMatrix()
    db.add_frame_defines("FrInt", "INT 0 100")
    db.add_frame_defines("FrStr", "STRING")
    db.add_signal_defines("SgInt", "INT 0 100")
    db.add_signal_defines("SgStr", "STRING")
    for e in m["ecus"]:
        db.add_ecu(cm.Ecu(e))
    for f in m["frames"]:
        fr = cm.Frame(f["name"], arbitration_id=cm.ArbitrationId(f["id"], f["ext"]), size=f["size"], transmitters=list(f["tx"]), is_fd=f["fd"])
        for s in f["sigs"]:
            sg = cm.Signal(s["name"], start_bit=s["start"], size=s["size"], is_little_endian=True, is_signed=False, receivers=list(s["receivers"]))
            for k, v in s["attrs"]:
                sg.add_attribute(k, v)
            fr.add_signal(sg)
        for k, v in f["attrs"]:
            fr.add_attribute(k, v)
        fr.update_receiver()
        db.add_frame(fr)
    return db


USER_ATTRS = {"FrInt", "FrStr", "SgInt", "SgStr"}


def abstract(db):
    frames = []
    for f in db.frames:
        frames.append({"name": f.name, "id": int(f.arbitration_id.id), "ext": bool(f.arbitration_id.extended), "size": int(f.size), "fd": bool(f.is_fd),
                       "tx": list(f.transmitters),
                       "sigs": [{"name": s.name, "start": int(s.get_startbit()), "size": int(s.size), "receivers": list(s.receivers),
                                 "attrs": sorted([k, str(v)] for k, v in s.attributes.items() if k in USER_ATTRS)} for s in f.signals],
                       "attrs": sorted([k, str(v)] for k, v in f.attributes.items() if k in USER_ATTRS)})
    ecus = [e.name for e in db.ecus]
    for f in frames:
        for e in f["tx"] + [r for s in f["sigs"] for r in s["receivers"]]:
            if e not in ecus:
                ecus.append(e)
    return {"ecus": sorted(ecus), "frames": frames}


def names_of(m):
    return [f["name"] for f in m["frames"]], [s["name"] for f in m["frames"] for s in f["sigs"]]


def pick(rng, pool, extra=("Nope",), lo=1, hi=2):
    cands = list(pool) + list(extra)
    return rng.sample(cands, min(len(cands), rng.randint(lo, hi)))


def gen_option(rng, m, name):
    fnames, snames = names_of(m)
    sizes = sorted({f["size"] for f in m["frames"]})
    if name == "deleteEcu":
        return pick(rng, m["ecus"], ("Nope", "ECU_*", "*"))
    if name == "renameEcu":
        return [[e, "New_" + e] for e in pick(rng, m["ecus"])]
    if name == "deleteFrame":
        return pick(rng, fnames)
    if name == "renameFrame":
        r = rng.random()
        if r < 0.2:
            return [["Frame*", "Rahmen"]]
        if r < 0.3:
            return [["*0", "_null"]]
        return [[n, "New_" + n] for n in pick(rng, fnames)]
    if name == "deleteSignal":
        return pick(rng, snames, ("Nope", "sig*", "S?eed*"))
    if name == "renameSignal":
        r = rng.random()
        if r < 0.2:
            return [["sig*", "signal"]]
        if r < 0.3:
            return [["*1", "_one"]]
        return [[n, "New_" + n] for n in pick(rng, snames)]
    if name in ("deleteZeroSignals", "deleteObsoleteEcus"):
        return True
    if name == "deleteSignalAttributes":
        return pick(rng, ["SgInt", "SgStr"], ("Nope",))
    if name == "deleteFrameAttributes":
        return pick(rng, ["FrInt", "FrStr"], ("Nope",))
    if name in ("setFrameFd", "unsetFrameFd"):
        return pick(rng, fnames)
    if name in ("skipLongDlc", "cutLongFrames"):
        base = rng.choice(sizes) if sizes else 8
        return max(0, base + rng.choice([-1, 0, 0, 1])) if rng.random() < 0.8 else rng.choice([0, 1, 8, 64])
    if name == "recalcDLC":
        return rng.choice(["max", "force"])
    if name == "changeFrameId":
        fr = rng.choice(m["frames"])
        used = {f["id"] for f in m["frames"]}
        free = [i for i in (rng.randrange(1, 0x7FF) for _ in range(20)) if i not in used] or [0x7FD]
        return [[fr["id"], free[0]]] if rng.random() < 0.8 else [[0x7FE, free[0]]]
    if name == "addFrameReceiver":
        return [[rng.choice(fnames + ["Frame*", "*", "Nope"]), rng.choice(m["ecus"] + ["NewEcu"])]]
    if name == "frames":
        return pick(rng, fnames, (), 1, 3)
    if name == "ecus":
        return [[e, rng.choice(["", "", "rx", "tx"])] for e in pick(rng, m["ecus"], ("ECU_*",), 1, 3)]
    raise ValueError(name)


OPTIONS = ["deleteEcu", "renameEcu", "deleteFrame", "renameFrame", "deleteSignal", "renameSignal", "deleteZeroSignals", "deleteSignalAttributes",
           "deleteFrameAttributes", "setFrameFd", "unsetFrameFd", "skipLongDlc", "cutLongFrames", "recalcDLC", "changeFrameId", "addFrameReceiver",
           "deleteObsoleteEcus", "frames", "ecus"]


def gen(rng, tier, shard, nshards):
    total = {"quick": 4000, "thorough": 40000}[tier] // nshards + 1
    for _ in range(total):
        m = gen_matrix(rng)
        r = rng.random()
        n = 0 if r < 0.05 else (1 if r < 0.5 else 2)
        o = {}
        for name in rng.sample(OPTIONS, n):
            o[name] = gen_option(rng, m, name)
        yield {"op": "conv", "c": {"m": m, "o": o, "cli": rng.random() < 0.4}}


def cli_args(o):
    args = []
    for k, v in o.items():
        if v is True:
            args.append("--" + k)
        elif k in ("renameEcu", "renameFrame", "renameSignal", "addFrameReceiver", "changeFrameId"):
            args.append("--%s=%s" % (k, ",".join("%s:%s" % (a, b) for a, b in v)))
        elif k == "ecus":
            args.append("--ecus=" + ",".join(e + (":" + d if d else "") for e, d in v))
        elif isinstance(v, list):
            args.append("--%s=%s" % (k, ",".join(v)))
        else:
            args.append("--%s=%s" % (k, v))
    return args


def api_opts(o):
    out = {}
    for k, v in o.items():
        if v is True:
            out[k] = True
        elif k in ("renameEcu", "renameFrame", "renameSignal", "addFrameReceiver", "changeFrameId"):
            out[k] = ",".join("%s:%s" % (a, b) for a, b in v)
        elif k == "ecus":
            out[k] = ",".join(e + (":" + d if d else "") for e, d in v)
        elif isinstance(v, list):
            out[k] = ",".join(v)
        else:
            out[k] = str(v)
    return out


def observe(case):
    c = case["c"]
    db = build(c["m"])
    d = tempfile.mkdtemp(prefix="c18_")
    try:
        src = os.path.join(d, "in.dbc")
        dst = os.path.join(d, "out.dbc")
        with open(src, "wb") as f:
            canmatrix.formats.dump(db, f, "dbc")
        raised = None
        sink = io.StringIO()
        with contextlib.redirect_stdout(sink), contextlib.redirect_stderr(sink):
            try:
                if c.get("cli"):
                    from click.testing import CliRunner
                    res = CliRunner().invoke(canmatrix.cli.convert.cli_convert, ["-s"] + cli_args(c["o"]) + [src, dst])
                    if res.exception is not None and not isinstance(res.exception, SystemExit):
                        raised = type(res.exception).__name__ + ": " + str(res.exception)[:120]
                    elif res.exit_code != 0:
                        raised = "exit %s" % res.exit_code
                else:
                    canmatrix.convert.convert(src, dst, **api_opts(c["o"]))
            except Exception as e:  # noqa
                raised = type(e).__name__ + ": " + str(e)[:120]
            out = None
            if raised is None:
                with open(dst, "rb") as f:
                    db2 = canmatrix.formats.load_flat(f, "dbc")
                out = abstract(db2)
        return {"raised": raised, "out": out}
    finally:
        shutil.rmtree(d, ignore_errors=True)


def project(impl):
    return {"raised": impl["raised"] is not None, "out": canon_out(impl["out"])}


def canon_out(out):
    return out


def features(case, impl):
    c = case["c"]
    yield "options=%d" % len(c["o"])
    yield "via=%s" % ("cli" if c.get("cli") else "convert()")
    for k in c["o"]:
        yield "opt:" + k
    if impl.get("raised"):
        yield "raised"


def nontrivial(case, impl):
    return bool(case["c"]["o"])


def classify(case, impl, spec):
    o = case["c"]["o"]
    if spec.startswith("fail: ECUs that nothing refers to any more") and o.get("deleteObsoleteEcus") and \
            any(k in o for k in ("deleteSignal", "cutLongFrames", "deleteZeroSignals")):
        return "C18-obsolete-ecus-after-signal-removal"
    return None


def shrink_candidates(case):
    c = case["c"]
    m = c["m"]
    for k in list(c["o"]):
        if len(c["o"]) > 1:
            o2 = dict(c["o"])
            del o2[k]
            yield {"op": "conv", "c": dict(c, o=o2)}
    for i in range(len(m["frames"])):
        if len(m["frames"]) > 1:
            yield {"op": "conv", "c": dict(c, m=dict(m, frames=m["frames"][:i] + m["frames"][i + 1:]))}
    for i, f in enumerate(m["frames"]):
        for j in range(len(f["sigs"])):
            f2 = dict(f, sigs=f["sigs"][:j] + f["sigs"][j + 1:])
            yield {"op": "conv", "c": dict(c, m=dict(m, frames=m["frames"][:i] + [f2] + m["frames"][i + 1:]))}


def recipe(case):
    c = case["c"]
    return "canconvert " + " ".join(cli_args(c["o"])) + " in.dbc out.dbc   (in.dbc = canmatrix.formats.dump(props.c18.build(case['c']['m']), 'dbc'))"
