import CanVerif.Model.Exports
import CanVerif.Spec.Exports
import CanVerif.Proofs.Codec
import CanVerif.Props.C01
import CanVerif.Props.C08
import CanVerif.Proofs.Exports
/-!
# C19 — one-way exports (Scapy, Wireshark, FIBEX, CSV, Canard) describe the same layout

Read with the target tool's conventions (Spec/Exports.lean), the recorded position selects exactly
the signal's payload bits (`sigAddr`, the addresses decoding depends on, C01).
Unbounded: any placement, width, frame length.
-/
namespace CanVerif.C19
open CanVerif

/-- Scapy `SignalField(start=…)` and FIBEX `BIT-POSITION`: the DBC convention selects the signal's bits. -/
theorem scapy_fibex_selects_sigAddrs (s : Sig) (hz : 1 ≤ s.size) :
    ∃ p : Nat, dbcStartOf s = (p : Int) ∧
      ∀ i, i < s.size → Spec.dbcAddr s.little p s.size i = sigAddr s.little s.start s.size i := by
  refine ⟨if s.little then s.start else flipN s.start, dbcStartOf_eq s, ?_⟩
  intro i hi
  unfold Spec.dbcAddr sigAddr
  cases s.little
  · simp only [Bool.false_eq_true, if_false, sawWalk_flipN]
    congr 1; omega
  · simp

/-- the byte-order and type flags are the signal's -/
theorem scapy_fmt_flags (s : Sig) :
    (scapyFmt s).startsWith "<" = s.little ∧ fibexHighLow s = !s.little := by
  refine ⟨?_, rfl⟩
  unfold scapyFmt
  cases s.little <;> simp

/-- Canard keys (and the "lsb" notation of csv/xls/json): the position of the least significant bit. -/
theorem canard_key_is_lsb (s : Sig) (hz : 1 ≤ s.size) :
    ∃ p : Nat, lsbStartOf s = (p : Int) ∧ p = sigAddr s.little s.start s.size 0 ∧
      ∀ i, i < s.size → Spec.lsbAddr s.little p i = sigAddr s.little s.start s.size i := by
  refine ⟨if s.little then s.start else flipN (s.start + s.size - 1), lsbStartOf_eq s hz, ?_, ?_⟩
  · unfold sigAddr; cases s.little <;> simp
  · intro i hi
    unfold Spec.lsbAddr sigAddr
    cases s.little
    · simp only [Bool.false_eq_true, if_false, flipN_flipN]
    · simp

/-- "msbreverse" (csv/xls): the internal position. -/
theorem msbreverse_selects_sigAddrs (s : Sig) (hz : 1 ≤ s.size) :
    ∃ p : Nat, internalStartOf s = (p : Int) ∧
      ∀ i, i < s.size → Spec.msbrevAddr s.little p s.size i = sigAddr s.little s.start s.size i := by
  refine ⟨s.start, internalStartOf_eq s, ?_⟩
  intro i hi
  unfold Spec.msbrevAddr sigAddr
  cases s.little <;> simp

/-- CSV byte and bit columns denote the start bit of the chosen notation: `8·(byte−1) + bit`. -/
theorem csv_position_denotes (fmt : String) (s : Sig) (hz : 1 ≤ s.size) :
    let c := csvColumns fmt s
    1 ≤ c.1 ∧ 0 ≤ c.2.1 ∧ c.2.1 < 8 ∧ 8 * (c.1 - 1) + c.2.1 = csvStartOf fmt s ∧
    c.2.2.1 = (if s.little then "i" else "m") ∧ c.2.2.2 = (if s.signed then "s" else "u") := by
  have hn := csvStartOf_nonneg fmt s hz
  simp only [csvColumns]
  refine ⟨by omega, by omega, by omega, by omega, trivial, trivial⟩

/-- Wireshark: `bitfield(offset, len)` on `pdu` (Motorola) or on the byte-reversed `reversed_pdu`
(Intel) reads exactly the number formed by the signal's bits. -/
theorem wireshark_selects_sigAddrs (s : Sig) (p : List Nat) (h : inFrame s p.length) :
    let w := wiresharkField p.length s
    Spec.tvbBitfield (if w.1 == "reversed_pdu" then p.reverse else p) w.2.1 w.2.2 = specRaw p s.little s.start s.size := by
  simp only [wiresharkField_eq, wsBuf_eq]
  exact tvb_eq_specRaw s p h

/-- Wireshark sign fix-up: subtracting `1 << size` when the first bit is set is two's complement. -/
theorem wireshark_sign_fixup (s : Sig) (p : List Nat) (h : inFrame s p.length) (hs : s.signed = true) (hf : s.isFloat = false) :
    let w := wiresharkField p.length s
    Spec.wiresharkValue p w.1 w.2.1 w.2.2 (wiresharkSignFix s) = specSigned (specRaw p s.little s.start s.size) s.size := by
  have hfix : wiresharkSignFix s = some (2 ^ s.size) := by
    simp [wiresharkSignFix, hs, hf, Nat.shiftLeft_eq]
  simp only [wiresharkField_eq, Spec.wiresharkValue, wsBuf_eq, hfix, tvb_eq_specRaw s p h, tvb_one s p h]
  have hm := specSum_msb (fun i => payloadBit p (sigAddr s.little s.start s.size i)) s.size h.2
  unfold specSigned
  have hr : specRaw p s.little s.start s.size
      = specSum (fun i => payloadBit p (sigAddr s.little s.start s.size i)) s.size := rfl
  cases hb : payloadBit p (sigAddr s.little s.start s.size (s.size - 1))
  · have : ¬ (2 ^ (s.size - 1) ≤ specRaw p s.little s.start s.size) := by
      rw [hr, hm, hb]; simp
    simp [this]
  · have : 2 ^ (s.size - 1) ≤ specRaw p s.little s.start s.size := by
      rw [hr, hm, hb]
    simp [this, h.2]

/-- unsigned signals carry no fix-up -/
theorem wireshark_unsigned (s : Sig) (p : List Nat) (h : inFrame s p.length) (hs : s.signed = false) :
    let w := wiresharkField p.length s
    Spec.wiresharkValue p w.1 w.2.1 w.2.2 (wiresharkSignFix s) = (specRaw p s.little s.start s.size : Int) := by
  have hfix : wiresharkSignFix s = none := by simp [wiresharkSignFix, hs]
  simp only [wiresharkField_eq, Spec.wiresharkValue, wsBuf_eq, hfix, tvb_eq_specRaw s p h]

/-- the sign probe reads the first bit of the very field whose value is fixed up, so the value computed
with the probe where the generated code reads it is the one of `wireshark_sign_fixup` -/
theorem wireshark_probe_is_msb (s : Sig) (p : List Nat) (n : Nat) (fix : Option Nat) :
    let w := wiresharkField n s
    Spec.wiresharkValueProbe p w.1 w.2.1 w.2.2 (wiresharkProbe n s).1 (wiresharkProbe n s).2 fix
      = Spec.wiresharkValue p w.1 w.2.1 w.2.2 fix := by
  simp [Spec.wiresharkValueProbe, Spec.wiresharkValue, wiresharkProbe]

/-- FIBEX base data type: signedness, float-ness and a wide enough container, for every width 1..64
(a finite table: all 65 x 2 x 2 combinations are evaluated by the kernel) -/
theorem fibex_base_type_table :
    ∀ n : Fin 65, ∀ sg fl : Bool, 1 ≤ n.val → (fl = true → n.val = 32 ∨ n.val = 64) →
      Spec.fibexTypeOk (fibexBaseTypeOf n.val sg fl) n.val sg fl = true := by
  decide +kernel

theorem fibex_base_type_ok (s : Sig) (h1 : 1 ≤ s.size) (h2 : s.size ≤ 64) (hf : s.isFloat = true → s.size = 32 ∨ s.size = 64) :
    Spec.fibexTypeOk (fibexBaseType s) s.size s.signed s.isFloat = true :=
  fibex_base_type_table ⟨s.size, by omega⟩ s.signed s.isFloat h1 hf

/-! non-vacuity: 12-bit Motorola signal with internal start 4 -/
example : dbcStartOf { name := "s", start := 4, size := 12, little := false } = 3 := by decide
example : lsbStartOf { name := "s", start := 4, size := 12, little := false } = 8 := by decide
example : wiresharkField 8 { name := "s", start := 4, size := 12, little := true } = ("reversed_pdu", 48, 12) := by decide

end CanVerif.C19
