"""C15: a KCD (Kayak) writer following the element skeleton of tests/files/kcd/test.kcd and the attribute defaults of the
schema (length = 1, endianess = little, format = standard, Value/@type = unsigned, slope = 1, intercept = 0), independent of
canmatrix's writer.  Freedom of an XML format: attribute order, insignificant whitespace, optional elements and attributes left
out when they have their default, order of child elements."""
from xml.sax.saxutils import escape, quoteattr

from lib.c15 import net as N
from lib.c15.dbc import Lex  # noqa: F401

NET_OPTS = {"lengths": [1, 2, 4, 8, 8, 8], "attributes": False}
SKIP = ("attrs", "group")
NS = "http://kayak.2codeornot2code.org/1.0"


def kcd_offset(sig):
    return N.internal_start(sig)


def elem(L, tag, attrs, children=None, text=None, indent=0):
    attrs = [(k, v) for k, v in attrs if v is not None]
    if L.level:
        L.rng.shuffle(attrs)
    pad = "  " * indent if not (L.level and L.compact) else ""
    nl = "\n" if not (L.level and L.compact) else ""
    sep = " " if not L.level else L.rng.choice([" ", " ", "  ", "\n" + pad + "    "])
    head = "<" + tag + "".join(sep + k + "=" + quoteattr(str(v)) for k, v in attrs)
    if not children and text is None:
        return pad + head + "/>" + nl
    if text is not None:
        return pad + head + ">" + escape(text) + "</" + tag + ">" + nl
    return pad + head + ">" + nl + "".join(children) + pad + "</" + tag + ">" + nl


def signal_elem(L, s, ids, indent):
    kids = []
    if s["comment"]:
        kids.append(elem(L, "Notes", [], text=s["comment"], indent=indent + 1))
    if s["receivers"]:
        kids.append(elem(L, "Consumer", [], [elem(L, "NodeRef", [("id", ids[r])], indent=indent + 2) for r in s["receivers"]], indent=indent + 1))
    vtype = "double" if s["float"] and s["size"] == 64 else "single" if s["float"] else "signed" if s["signed"] else "unsigned"
    vattrs = [("type", None if (vtype == "unsigned" and L.level and L.rng.random() < 0.5) else vtype),
              ("slope", None if (s["factor"] == "1" and L.level and L.rng.random() < 0.5) else L.num(s["factor"], N.NUMBERS)),
              ("intercept", None if (s["offset"] == "0" and L.level and L.rng.random() < 0.5) else L.num(s["offset"], N.OFFSETS)),
              ("unit", s["unit"] or None), ("min", s["min"]), ("max", s["max"])]
    if any(v is not None for _, v in vattrs):
        kids.append(elem(L, "Value", vattrs, indent=indent + 1))
    if s["values"]:
        items = sorted(s["values"].items(), key=lambda kv: int(kv[0]))
        kids.append(elem(L, "LabelSet", [], [elem(L, "Label", [("name", v), ("value", k)], indent=indent + 2) for k, v in L.order(items)], indent=indent + 1))
    attrs = [("name", s["name"]), ("offset", kcd_offset(s)),
             ("length", None if (s["size"] == 1 and L.level and L.rng.random() < 0.5) else s["size"]),
             ("endianess", None if (s["little"] and L.level and L.rng.random() < 0.5) else ("little" if s["little"] else "big"))]
    return elem(L, "Signal", attrs, kids, indent=indent)


def render(net, lex, opts=None):
    L = lex
    L.compact = L.level and L.rng.random() < 0.2
    ids = {e: str(i + 1) for i, e in enumerate(net["ecus"])}
    body = [elem(L, "Document", [("name", "c15"), ("version", "1.0")], text="independent writer", indent=1)]
    for e in net["ecus"]:
        body.append(elem(L, "Node", [("id", ids[e]), ("name", e)], indent=1))
    msgs = []
    for f in net["frames"]:
        kids = []
        if f["comment"]:
            kids.append(elem(L, "Notes", [], text=f["comment"], indent=3))
        if f["tx"]:
            kids.append(elem(L, "Producer", [], [elem(L, "NodeRef", [("id", ids[t])], indent=4) for t in f["tx"]], indent=3))
        muxer = next((s for s in f["signals"] if s["mux"] == "M"), None)
        if muxer is not None:
            groups = sorted({s["mux"] for s in f["signals"] if isinstance(s["mux"], int)})
            gk = []
            for g in groups:
                gk.append(elem(L, "MuxGroup", [("count", g)], [signal_elem(L, s, ids, 5) for s in f["signals"] if s["mux"] == g], indent=4))
            mattrs = [("name", muxer["name"]), ("offset", kcd_offset(muxer)), ("length", muxer["size"]),
                      ("endianess", None if (muxer["little"] and L.level and L.rng.random() < 0.5) else ("little" if muxer["little"] else "big"))]
            mk = []
            if muxer["comment"]:
                mk.append(elem(L, "Notes", [], text=muxer["comment"], indent=4))
            if muxer["receivers"]:
                mk.append(elem(L, "Consumer", [], [elem(L, "NodeRef", [("id", ids[r])], indent=5) for r in muxer["receivers"]], indent=4))
            kids.append(elem(L, "Multiplex", mattrs, mk + gk, indent=3))
        sig_elems = [signal_elem(L, s, ids, 3) for s in f["signals"] if s["mux"] is None]
        kids.extend(sig_elems)
        if L.level and L.rng.random() < 0.3:
            kids = L.order(kids)
        # length is optional ("auto": the smallest length that holds all signals): leave it out when that is the described length
        needed = (max([N.internal_start(s) + s["size"] for s in f["signals"]] + [0]) + 7) // 8
        omit_len = bool(L.level and needed == f["size"] and L.rng.random() < 0.7)
        mattrs = [("id", "0x%X" % f["id"]), ("name", f["name"]), ("length", None if omit_len else f["size"]),
                  ("format", "extended" if f["ext"] else (None if not (L.level and L.rng.random() < 0.5) else "standard"))]
        if f.get("cycle"):
            mattrs.append(("interval", f["cycle"]))
            if L.level == 0 or L.rng.random() < 0.5:
                mattrs.append(("triggered", "false"))
        msgs.append(elem(L, "Message", mattrs, kids, indent=2))
    body.append(elem(L, "Bus", [("name", "Main")], msgs, indent=1))
    head = '<?xml version="1.0" encoding="UTF-8"?>\n' if not (L.level and L.rng.random() < 0.3) else ""
    root = elem(L, "NetworkDefinition", [("xmlns", NS)], body, indent=0)
    return (head + root).encode("utf-8")
