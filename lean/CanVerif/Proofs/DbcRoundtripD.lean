import CanVerif.Proofs.DbcRoundtripE
/-!
# The core round trip with attribute definitions, their defaults, and the attributes of the ECUs and of the matrix
-/
namespace CanVerif.Dbc.FileProofs
open CanVerif CanVerif.Dbc

/-- statements about frames, signals and ECU comments leave the definitions, the attributes of the matrix and the tables alone -/
theorem item_defs (m : RMatrix) (it : Item) (h : (itemFrameUpd it).isSome = true ∨ isEcuItem it = true) :
    (applyItem m it).defs = m.defs ∧ (applyItem m it).attrs = m.attrs := by
  cases it with
  | bu names => exact ⟨rfl, rfl⟩
  | cm hd text =>
    cases hd with
    | bu name =>
      simp only [applyItem, Item.frameNo, applyCore]
      split <;> exact ⟨rfl, rfl⟩
    | bo id => simp only [applyItem, Item.frameNo, applyCore]; repeat' split
               all_goals exact ⟨rfl, rfl⟩
    | sg id name => simp only [applyItem, Item.frameNo, applyCore]; repeat' split
                    all_goals exact ⟨rfl, rfl⟩
  | tx t => simp only [applyItem, Item.frameNo, applyCore]; repeat' split
            all_goals exact ⟨rfl, rfl⟩
  | val v => simp only [applyItem, Item.frameNo, applyCore]; repeat' split
             all_goals exact ⟨rfl, rfl⟩
  | valtype id name => simp only [applyItem, Item.frameNo, applyCore]; repeat' split
                       all_goals exact ⟨rfl, rfl⟩
  | grp g => simp only [applyItem, Item.frameNo, applyCore]; repeat' split
             all_goals exact ⟨rfl, rfl⟩
  | mul ml => simp only [applyItem, Item.frameNo, applyCore]; repeat' split
              all_goals exact ⟨rfl, rfl⟩
  | _ => rcases h with h | h <;> simp [itemFrameUpd, isEcuItem] at h

theorem items_defs (its : List Item) (m : RMatrix) (h : ∀ it ∈ its, (itemFrameUpd it).isSome = true ∨ isEcuItem it = true) :
    (its.foldl applyItem m).defs = m.defs ∧ (its.foldl applyItem m).attrs = m.attrs := by
  induction its generalizing m with
  | nil => exact ⟨rfl, rfl⟩
  | cons it its ih =>
    simp only [List.foldl_cons]
    have h1 := item_defs m it (h it (by simp))
    have h2 := ih (applyItem m it) (fun x hx => h x (List.mem_cons_of_mem _ hx))
    exact ⟨h2.1.trans h1.1, h2.2.trans h1.2⟩

def toRDef (d : DefLine) : RDef := { level := d.level, name := d.name, definition := d.definition }

/-- `BA_DEF_` lines with pairwise different level and name become the definitions, in their order -/
theorem adef_fold (todo done : List DefLine) (m : RMatrix) (hm : m.defs = done.map toRDef)
    (hnd : ((done ++ todo).map fun d => (d.level, d.name)).Nodup) (hok : ∀ d ∈ todo, defineOk d.definition = true) :
    (todo.map Item.adef).foldl applyItem m = { m with defs := (done ++ todo).map toRDef } := by
  induction todo generalizing done m with
  | nil => simp [← hm]
  | cons d rest ih =>
    simp only [List.map_cons, List.foldl_cons]
    have hstep : applyItem m (.adef d) = { m with defs := (done ++ [d]).map toRDef } := by
      have hany : m.defs.any (fun x => x.level == d.level && x.name == d.name) = false := by
        rw [hm, Bool.eq_false_iff]
        intro hc
        rw [List.any_map, List.any_eq_true] at hc
        obtain ⟨x, hx, hxe⟩ := hc
        simp only [toRDef, Function.comp_apply, Bool.and_eq_true, beq_iff_eq] at hxe
        have hnd' : ((done.map fun d => (d.level, d.name)) ++ (d.level, d.name) :: rest.map fun d => (d.level, d.name)).Nodup := by
          simpa using hnd
        rw [List.nodup_append] at hnd'
        have := hnd'.2.2 (x.level, x.name) (List.mem_map.mpr ⟨x, hx, rfl⟩) (d.level, d.name) (by simp)
        exact this (by rw [hxe.1, hxe.2])
      have hdo : defineOk d.definition = true := hok d (by simp)
      have e1 : applyItem m (.adef d) = addDefine m d := rfl
      rw [e1]
      unfold addDefine
      rw [hany, hdo]
      simp only [Bool.false_eq_true, if_false, Bool.not_true, hm]
      simp [toRDef]
    rw [hstep]
    have := ih (done ++ [d]) { m with defs := (done ++ [d]).map toRDef } rfl (by simpa using hnd)
      (fun x hx => hok x (List.mem_cons_of_mem _ hx))
    simpa using this

theorem numericOk_map (m m' : RMatrix) (g : RDef → RDef)
    (hg : ∀ d, (g d).level = d.level ∧ (g d).name = d.name ∧ (g d).definition = d.definition) (h : m'.defs = m.defs.map g)
    (l : Level) (a v : Str) : numericOk m' l a v = numericOk m l a v := by
  unfold numericOk
  rw [h, List.find?_map]
  have hp : ((fun d : RDef => d.level == l && d.name == a) ∘ g) = fun d : RDef => d.level == l && d.name == a := by
    funext d; simp [(hg d).1, (hg d).2.1]
  rw [hp]
  cases List.find? (fun d : RDef => d.level == l && d.name == a) m.defs with
  | none => rfl
  | some d => simp only [Option.map_some, (hg d).2.2]

/-- all four levels accept the default -/
def defaultOk (m : RMatrix) (dd : DefDefLine) : Bool :=
  [Level.signal, Level.frame, Level.ecu, Level.global].all fun l => numericOk m l dd.name dd.value

/-- `BA_DEF_DEF_` lines: every definition of that name (environment variables aside) takes the value; the last line wins -/
theorem defdef_fold (dds : List DefDefLine) (m : RMatrix) (hok : ∀ dd ∈ dds, defaultOk m dd = true) :
    (dds.map fun d => Item.defdef d.name d.value).foldl applyItem m =
      { m with defs := m.defs.map fun d =>
          { d with default := dds.foldl (fun acc dd => if d.name == dd.name && d.level != .env then some dd.value else acc) d.default } } := by
  induction dds generalizing m with
  | nil => simp
  | cons dd rest ih =>
    simp only [List.map_cons, List.foldl_cons]
    have hstep : applyItem m (.defdef dd.name dd.value) =
        { m with defs := m.defs.map fun d => if d.name == dd.name && d.level != .env then { d with default := some dd.value } else d } := by
      have e1 : applyItem m (.defdef dd.name dd.value) = applyCore m (.defdef dd.name dd.value) := rfl
      have h := hok dd (by simp)
      unfold defaultOk at h
      rw [e1]
      simp only [applyCore, h, if_true]
    rw [hstep, ih]
    · simp only [List.map_map]
      congr 1
      apply List.map_congr_left
      intro d _
      simp only [Function.comp_apply]
      split <;> rfl
    · intro x hx
      have := hok x (List.mem_cons_of_mem _ hx)
      unfold defaultOk at this ⊢
      rw [List.all_eq_true] at this ⊢
      intro l hl
      rw [numericOk_map m _ (fun d => if d.name == dd.name && d.level != .env then { d with default := some dd.value } else d)
        (by intro d; split <;> exact ⟨rfl, rfl, rfl⟩) rfl]
      exact this l hl

theorem numericOk_defs (m m' : RMatrix) (h : m'.defs = m.defs) (l : Level) (a v : Str) : numericOk m' l a v = numericOk m l a v := by
  unfold numericOk; rw [h]

/-- the `BA_` lines of the matrix -/
theorem baGlobal_fold (kvs : List (Str × Str)) (m : RMatrix) (hnum : ∀ kv ∈ kvs, numericOk m .global kv.1 kv.2 = true) :
    (kvs.map fun kv => Item.ba ⟨kv.1, .global, kv.2⟩).foldl applyItem m =
      { m with attrs := kvs.foldl (fun a kv => assocSet a kv.1 (stripWs kv.2)) m.attrs } := by
  induction kvs generalizing m with
  | nil => simp
  | cons kv rest ih =>
    simp only [List.map_cons, List.foldl_cons]
    have hstep : applyItem m (.ba ⟨kv.1, .global, kv.2⟩) = { m with attrs := assocSet m.attrs kv.1 (stripWs kv.2) } := by
      have e1 : applyItem m (.ba ⟨kv.1, .global, kv.2⟩) = applyCore m (.ba ⟨kv.1, .global, kv.2⟩) := rfl
      rw [e1]
      simp only [applyCore, hnum kv (by simp), if_true]
    rw [hstep, ih]
    intro x hx
    exact (numericOk_defs m _ rfl _ _ _).trans (hnum x (List.mem_cons_of_mem _ hx))

theorem modifyAt_modifyAt {α} (l : List α) (i : Nat) (f g : α → α) : modifyAt (modifyAt l i f) i g = modifyAt l i (g ∘ f) := by
  induction l generalizing i with
  | nil => cases i <;> rfl
  | cons a r ih =>
    cases i with
    | zero => rfl
    | succ j => simp only [modifyAt]; rw [ih]

theorem modifyAt_id' {α} (l : List α) (i : Nat) (f : α → α) (h : ∀ a, f a = a) : modifyAt l i f = l := by
  induction l generalizing i with
  | nil => cases i <;> rfl
  | cons a r ih =>
    cases i with
    | zero => simp [modifyAt, h]
    | succ j => simp only [modifyAt]; rw [ih]

theorem modifyAt_map_names (es : List REcu) (i : Nat) (g : REcu → REcu) (hg : ∀ e, (g e).name = e.name) :
    (modifyAt es i g).map (·.name) = es.map (·.name) := by
  induction es generalizing i with
  | nil => cases i <;> rfl
  | cons a r ih =>
    cases i with
    | zero => simp [modifyAt, hg]
    | succ j => simp only [modifyAt, List.map_cons]; rw [ih]

theorem findIdx_names (es es' : List REcu) (h : es'.map (·.name) = es.map (·.name)) (n : Str) :
    es'.findIdx? (fun e => e.name == n) = es.findIdx? (fun e => e.name == n) := by
  have : ∀ (l : List REcu), l.findIdx? (fun e => e.name == n) = (l.map (·.name)).findIdx? (fun x => x == n) := by
    intro l
    induction l with
    | nil => rfl
    | cons a r ih => simp only [List.findIdx?_cons, List.map_cons]; rw [ih]
  rw [this es', this es, h]

/-- the `BA_ .. BU_` lines of one ECU -/
theorem baEcu_inner (kvs : List (Str × Str)) (m : RMatrix) (n : Str) (i : Nat) (hidx : ecuIdx m n = some i)
    (hnum : ∀ kv ∈ kvs, numericOk m .ecu kv.1 kv.2 = true) :
    (kvs.map fun kv => Item.ba ⟨kv.1, .ecu n, kv.2⟩).foldl applyItem m =
      { m with ecus := modifyAt m.ecus i fun e => { e with attrs := kvs.foldl (fun a kv => assocSet a kv.1 (stripWs kv.2)) e.attrs } } := by
  induction kvs generalizing m with
  | nil =>
    simp only [List.map_nil, List.foldl_nil]
    rw [modifyAt_id' _ _ _ (fun _ => rfl)]
  | cons kv rest ih =>
    simp only [List.map_cons, List.foldl_cons]
    have hstep : applyItem m (.ba ⟨kv.1, .ecu n, kv.2⟩) =
        { m with ecus := modifyAt m.ecus i fun e => { e with attrs := assocSet e.attrs kv.1 (stripWs kv.2) } } := by
      have e1 : applyItem m (.ba ⟨kv.1, .ecu n, kv.2⟩) = applyCore m (.ba ⟨kv.1, .ecu n, kv.2⟩) := rfl
      rw [e1]
      simp only [applyCore, hnum kv (by simp), hidx, Bool.not_true, Bool.false_eq_true, if_false]
    rw [hstep]
    rw [ih]
    · simp only [modifyAt_modifyAt]
      rfl
    · unfold ecuIdx
      simp only
      exact (findIdx_names m.ecus _ (modifyAt_map_names m.ecus i
        (fun e => { e with attrs := assocSet e.attrs kv.1 (stripWs kv.2) }) (fun _ => rfl)) n).trans hidx
    · intro x hx
      exact (numericOk_defs m _ rfl _ _ _).trans (hnum x (List.mem_cons_of_mem _ hx))

theorem ecuIdx_of_nodup (es : List REcu) (hnd : (es.map (·.name)).Nodup) (i : Nat) (e : REcu) (hget : es[i]? = some e) :
    es.findIdx? (fun x => x.name == e.name) = some i := by
  apply findIdx_unique _ _ i e hget (by simp)
  have hp : (es.map (·.name)).Pairwise (· ≠ ·) := hnd
  rw [List.pairwise_map] at hp
  clear hget
  induction es with
  | nil => trivial
  | cons a r ihr =>
    rw [List.pairwise_cons] at hp
    refine ⟨?_, ihr (by simpa using (List.nodup_cons.mp (by simpa using hnd)).2) hp.2⟩
    intro ha b hb
    have hak : a.name = e.name := by simpa using ha
    have := hp.1 b hb
    rw [hak] at this
    simp only [beq_eq_false_iff_ne, ne_eq]
    exact fun e' => this e'.symm

/-- the `BA_ .. BU_` lines, ECU by ECU -/
theorem baEcu_fold (todo done : List WEcu) (m : RMatrix) (hs : m.ecus = done.map WEcu.expectA ++ todo.map WEcu.expect)
    (hnd : ((done ++ todo).map (·.name)).Nodup)
    (hnum : ∀ e ∈ todo, ∀ kv ∈ e.attrs, numericOk m .ecu kv.1 kv.2 = true) :
    (todo.flatMap fun e => e.attrs.map fun kv => Item.ba ⟨kv.1, .ecu e.name, kv.2⟩).foldl applyItem m =
      { m with ecus := (done ++ todo).map WEcu.expectA } := by
  induction todo generalizing done m with
  | nil =>
    have : m.ecus = done.map WEcu.expectA := by simpa using hs
    simp only [List.flatMap_nil, List.foldl_nil, List.append_nil, ← this]
  | cons e rest ih =>
    simp only [List.flatMap_cons, List.foldl_append]
    have hnames : m.ecus.map (·.name) = (done ++ e :: rest).map (·.name) := by
      rw [hs]; simp [WEcu.expectA, WEcu.expect, Function.comp_def]
    have hget : m.ecus[done.length]? = some (WEcu.expect e) := by rw [hs]; simp
    have hidx : ecuIdx m e.name = some done.length :=
      ecuIdx_of_nodup m.ecus (by rw [hnames]; exact hnd) done.length (WEcu.expect e) hget
    rw [baEcu_inner e.attrs m e.name done.length hidx (hnum e (by simp))]
    have hmod : (modifyAt m.ecus done.length fun x => { x with attrs := e.attrs.foldl (fun a kv => assocSet a kv.1 (stripWs kv.2)) x.attrs }) =
        (done ++ [e]).map WEcu.expectA ++ rest.map WEcu.expect := by
      rw [hs]
      have e1 : done.map WEcu.expectA ++ (e :: rest).map WEcu.expect = done.map WEcu.expectA ++ WEcu.expect e :: rest.map WEcu.expect := by simp
      have hl : done.length = (done.map WEcu.expectA).length := by simp
      rw [e1, hl, modifyAt_mid]
      simp [WEcu.expectA, WEcu.expect, attrsOf]
    rw [hmod]
    have := ih (done ++ [e]) { m with ecus := (done ++ [e]).map WEcu.expectA ++ rest.map WEcu.expect } rfl (by simpa using hnd)
      (by intro x hx kv hkv; exact (numericOk_defs m _ rfl _ _ _).trans (hnum x (List.mem_cons_of_mem _ hx) kv hkv))
    simpa using this

theorem frames_fold_defs (bs : List Block) (ks : List (Nat × Bool)) (m : RMatrix) (hm : m.pending = none)
    (hw : ∀ b ∈ bs, wfBlock b = true) (hk : bs.map (fun b => boKey b.bo) = ks.map some) :
    ((writeFrames bs).foldl stepFile m).defs = m.defs ∧ ((writeFrames bs).foldl stepFile m).attrs = m.attrs := by
  induction bs generalizing ks m with
  | nil => exact ⟨rfl, rfl⟩
  | cons b bs ih =>
    cases ks with
    | nil => simp at hk
    | cons k ks =>
      simp only [List.map_cons, List.cons.injEq] at hk
      simp only [writeFrames, List.flatMap_cons, List.foldl_append]
      rw [block_fold b k m hm (hw b (by simp)) hk.1]
      have := ih ks { m with frames := m.frames ++ [frameOfBlock b k], cur := some m.frames.length } hm
        (fun x hx => hw x (List.mem_cons_of_mem _ hx)) hk.2
      simp only [writeFrames] at this
      exact this

theorem okFile_append (a b : List FileStmt) (m : RMatrix) :
    okFile m (a ++ b) = (okFile m a && okFile (a.foldl FileStmt.apply m) b) := by
  induction a generalizing m with
  | nil => simp [okFile]
  | cons s r ih => simp only [List.cons_append, okFile, List.foldl_cons, ih, Bool.and_assoc]

theorem okFile_ones (ss : List FileStmt) (h : ∀ s ∈ ss, ∃ st, s = .one st ∧ st.wf = true) (m : RMatrix) : okFile m ss = true := by
  induction ss generalizing m with
  | nil => rfl
  | cons s r ih =>
    obtain ⟨st, rfl, hst⟩ := h s (by simp)
    simp only [okFile, FileStmt.okIn, hst, Bool.true_and]
    exact ih (fun x hx => h x (List.mem_cons_of_mem _ hx)) _

/-- the sections in front of the attribute statements, as the reader sees them -/
def itemsA (es : List WEcu) (ps : List (WFrame × (Nat × Bool))) : List Item :=
  (ps.flatMap fun q => txItems q.1) ++ (ps.flatMap fun q => cmItems q.1) ++ (ps.flatMap fun q => sigCmItems q.1) ++ ecuCmItems es

/-- the attribute statements -/
def itemsB (es : List WEcu) (ds : List DefLine) (dds : List DefDefLine) (ga : List (Str × Str)) : List Item :=
  ds.map Item.adef ++ (dds.map fun d => Item.defdef d.name d.value) ++
    (es.flatMap fun e => e.attrs.map fun kv => Item.ba ⟨kv.1, .ecu e.name, kv.2⟩) ++ ga.map fun kv => Item.ba ⟨kv.1, .global, kv.2⟩

/-- the sections behind them -/
def itemsC (ps : List (WFrame × (Nat × Bool))) : List Item :=
  (ps.flatMap fun q => valItems q.1) ++ (ps.flatMap fun q => valtypeItems q.1) ++ (ps.flatMap fun q => grpItems q.1) ++
    (ps.flatMap fun q => mulItems q.1)

theorem kindsA (es : List WEcu) (ps : List (WFrame × (Nat × Bool))) :
    ∀ it ∈ itemsA es ps, (itemFrameUpd it).isSome = true ∨ isEcuItem it = true := by
  intro it hit
  simp only [itemsA, List.mem_append, List.mem_flatMap] at hit
  rcases hit with ((⟨p, _, h⟩ | ⟨p, _, h⟩) | ⟨p, _, h⟩) | h
  · obtain ⟨g, hg⟩ := txItems_num p.1 it h; left; rw [hg]; rfl
  · obtain ⟨g, hg⟩ := cmItems_num p.1 it h; left; rw [hg]; rfl
  · obtain ⟨g, hg⟩ := sigCmItems_num p.1 it h; left; rw [hg]; rfl
  · right; exact ecuCmItems_ecu es it h

theorem kindsC (ps : List (WFrame × (Nat × Bool))) : ∀ it ∈ itemsC ps, (itemFrameUpd it).isSome = true := by
  intro it hit
  simp only [itemsC, List.mem_append, List.mem_flatMap] at hit
  rcases hit with ((⟨p, _, h⟩ | ⟨p, _, h⟩) | ⟨p, _, h⟩) | ⟨p, _, h⟩
  · obtain ⟨g, hg⟩ := valItems_num p.1 it h; rw [hg]; rfl
  · obtain ⟨g, hg⟩ := valtypeItems_num p.1 it h; rw [hg]; rfl
  · obtain ⟨g, hg⟩ := grpItems_num p.1 it h; rw [hg]; rfl
  · obtain ⟨g, hg⟩ := mulItems_num p.1 it h; rw [hg]; rfl

/-- the ECUs after the sections in front of the attribute statements -/
theorem ecusA (es : List WEcu) (hnd : (es.map (·.name)).Nodup) (ps : List (WFrame × (Nat × Bool))) (m : RMatrix)
    (hm : m.ecus = es.map plainEcu) : ((itemsA es ps).foldl applyItem m).ecus = es.map WEcu.expect := by
  rw [ecus_after_items _ m (kindsA es ps), hm]
  simp only [itemsA, List.foldl_append]
  have hfr : ∀ (sec : WFrame → List Item), (∀ f it, it ∈ sec f → ∃ g, itemFrameUpd it = some (f.bo.id, g)) →
      ∀ x, (ps.flatMap fun q => sec q.1).foldl (fun es it => ecuUpd it es) x = x := by
    intro sec hsec x
    apply fold_other_ecus
    intro it hit
    obtain ⟨p, _, h⟩ := List.mem_flatMap.mp hit
    obtain ⟨g, hg⟩ := hsec p.1 it h; rw [hg]; rfl
  rw [hfr txItems txItems_num, hfr cmItems cmItems_num, hfr sigCmItems sigCmItems_num]
  have := ecucm_fold es [] (es.map plainEcu) (by simp) (by simpa using hnd)
  unfold ecuCmItems
  rw [this]
  simp

/-- the matrix after the attribute statements -/
theorem wfDefaults_wf (ds : List DefLine) (dds : List DefDefLine) (h : wfDefaults ds dds = true) : ∀ d ∈ dds, wfDefDef d = true := by
  intro d hd
  simp only [wfDefaults, List.all_eq_true, Bool.and_eq_true] at h
  exact (h d hd).1

theorem wfDefaults_ok (ds : List DefLine) (dds : List DefDefLine) (h : wfDefaults ds dds = true) :
    ∀ dd ∈ dds, defaultOk { defs := ds.map toRDef } dd = true := by
  intro d hd
  simp only [wfDefaults, List.all_eq_true, Bool.and_eq_true] at h
  unfold defaultOk
  rw [List.all_eq_true]
  exact (h d hd).2

theorem stateB (es : List WEcu) (hnd : (es.map (·.name)).Nodup) (ds : List DefLine) (hds : wfDefs ds = true) (dds : List DefDefLine)
    (hddn : ∀ dd ∈ dds, defaultOk { defs := ds.map toRDef } dd = true)
    (ga : List (Str × Str)) (hga : wfAttrs (expectDefs ds dds) .global .global ga = true)
    (hea : ∀ e ∈ es, wfAttrs (expectDefs ds dds) .ecu (.ecu e.name) e.attrs = true)
    (m : RMatrix) (hdefs : m.defs = []) (hattrs : m.attrs = []) (hecus : m.ecus = es.map WEcu.expect) :
    (itemsB es ds dds ga).foldl applyItem m =
      { m with defs := expectDefs ds dds, ecus := es.map WEcu.expectA, attrs := attrsOf ga } := by
  simp only [wfDefs, Bool.and_eq_true, List.all_eq_true, decide_eq_true_eq] at hds
  simp only [itemsB, List.foldl_append]
  have h1 : (ds.map Item.adef).foldl applyItem m = { m with defs := ds.map toRDef } := by
    have := adef_fold ds [] m (by simp [hdefs]) (by simpa using hds.2) (fun d hd => (hds.1 d hd).2)
    simpa using this
  have h2 : (dds.map fun d => Item.defdef d.name d.value).foldl applyItem { m with defs := ds.map toRDef } =
      { m with defs := expectDefs ds dds } := by
    rw [defdef_fold _ _ (by
      intro dd hdd
      have := hddn dd hdd
      unfold defaultOk at this ⊢
      rw [List.all_eq_true] at this ⊢
      intro l hl
      exact (numericOk_defs { defs := ds.map toRDef } { m with defs := ds.map toRDef } rfl _ _ _).trans (this l hl))]
    simp only [List.map_map, expectDefs]
    congr 1
  have h3 : (es.flatMap fun e => e.attrs.map fun kv => Item.ba ⟨kv.1, .ecu e.name, kv.2⟩).foldl applyItem
      { m with defs := expectDefs ds dds } = { m with defs := expectDefs ds dds, ecus := es.map WEcu.expectA } := by
    have := baEcu_fold es [] { m with defs := expectDefs ds dds } (by simp [hecus]) (by simpa using hnd)
      (by
        intro e he kv hkv
        have := hea e he
        simp only [wfAttrs, List.all_eq_true, Bool.and_eq_true] at this
        exact (numericOk_defs { defs := expectDefs ds dds } { m with defs := expectDefs ds dds } rfl _ _ _).trans (this kv hkv).2)
    simpa using this
  have h4 : (ga.map fun kv => Item.ba ⟨kv.1, .global, kv.2⟩).foldl applyItem
      { m with defs := expectDefs ds dds, ecus := es.map WEcu.expectA } =
      { m with defs := expectDefs ds dds, ecus := es.map WEcu.expectA, attrs := attrsOf ga } := by
    rw [baGlobal_fold ga _
      (by
        intro kv hkv
        simp only [wfAttrs, List.all_eq_true, Bool.and_eq_true] at hga
        exact (numericOk_defs { defs := expectDefs ds dds } { m with defs := expectDefs ds dds, ecus := es.map WEcu.expectA } rfl _ _ _).trans
          (hga kv hkv).2)]
    simp [attrsOf, hattrs]
  rw [h1, h2, h3, h4]

def stmtsA (es : List WEcu) (fs : List WFrame) : List FileStmt :=
  fs.flatMap WFrame.txStmts ++ fs.flatMap WFrame.cmStmts ++ fs.flatMap WFrame.sigCmStmts ++ ecuCmStmts es
def stmtsB (es : List WEcu) (ds : List DefLine) (dds : List DefDefLine) (ga : List (Str × Str)) : List FileStmt :=
  defStmts ds ++ defdefStmts dds ++ ecuBaStmts es ++ globalBaStmts ga
def stmtsC (fs : List WFrame) : List FileStmt :=
  fs.flatMap WFrame.valStmts ++ fs.flatMap WFrame.valtypeStmts ++ fs.flatMap WFrame.grpStmts ++ fs.flatMap WFrame.mulStmts

theorem stmtsA_items (es : List WEcu) (ps : List (WFrame × (Nat × Bool))) :
    (stmtsA es (ps.map (·.1))).filterMap FileStmt.toItem = itemsA es ps := by
  simp only [stmtsA, itemsA, List.filterMap_append, filterMap_flatMap, List.flatMap_map, txItems_eq, cmItems_eq, sigCmItems_eq, ecuCmItems_eq]

theorem stmtsC_items (ps : List (WFrame × (Nat × Bool))) :
    (stmtsC (ps.map (·.1))).filterMap FileStmt.toItem = itemsC ps := by
  simp only [stmtsC, itemsC, List.filterMap_append, filterMap_flatMap, List.flatMap_map, valItems_eq, valtypeItems_eq, grpItems_eq, mulItems_eq]

theorem stmtsB_items (es : List WEcu) (ds : List DefLine) (dds : List DefDefLine) (ga : List (Str × Str)) :
    (stmtsB es ds dds ga).filterMap FileStmt.toItem = itemsB es ds dds ga := by
  simp only [stmtsB, itemsB, List.filterMap_append, defStmts, defdefStmts, ecuBaStmts, globalBaStmts, List.filterMap_map,
    filterMap_flatMap]
  have e1 : (FileStmt.toItem ∘ fun d => FileStmt.one (Stmt.adef d)) = fun d => some (Item.adef d) := rfl
  have e2 : (FileStmt.toItem ∘ fun d => FileStmt.one (Stmt.defdef d)) = fun d : DefDefLine => some (Item.defdef d.name d.value) := rfl
  have e3 : ∀ n : Str, (FileStmt.toItem ∘ fun kv : Str × Str => FileStmt.one (Stmt.ba ⟨kv.1, .ecu n, kv.2⟩)) =
      fun kv => some (Item.ba ⟨kv.1, .ecu n, kv.2⟩) := fun _ => rfl
  have e4 : (FileStmt.toItem ∘ fun kv : Str × Str => FileStmt.one (Stmt.ba ⟨kv.1, .global, kv.2⟩)) =
      fun kv => some (Item.ba ⟨kv.1, .global, kv.2⟩) := rfl
  simp only [e1, e2, e3, e4, List.filterMap_eq_map']

theorem stmtsB_ones (es : List WEcu) (ds : List DefLine) (hds : wfDefs ds = true) (dds : List DefDefLine) (hdds : ∀ d ∈ dds, wfDefDef d = true)
    (D : List RDef) (ga : List (Str × Str)) (hga : wfAttrs D .global .global ga = true)
    (hea : ∀ e ∈ es, wfAttrs D .ecu (.ecu e.name) e.attrs = true) :
    ∀ s ∈ stmtsB es ds dds ga, ∃ st, s = .one st ∧ st.wf = true := by
  intro s hs
  simp only [wfDefs, Bool.and_eq_true, List.all_eq_true, decide_eq_true_eq] at hds
  simp only [stmtsB, defStmts, defdefStmts, ecuBaStmts, globalBaStmts, List.mem_append, List.mem_map, List.mem_flatMap] at hs
  rcases hs with ((⟨d, hd, rfl⟩ | ⟨d, hd, rfl⟩) | ⟨e, he, kv, hkv, rfl⟩) | ⟨kv, hkv, rfl⟩
  · exact ⟨_, rfl, (hds.1 d hd).1⟩
  · exact ⟨_, rfl, hdds d hd⟩
  · have := hea e he
    simp only [wfAttrs, List.all_eq_true, Bool.and_eq_true] at this
    exact ⟨_, rfl, (this kv hkv).1⟩
  · simp only [wfAttrs, List.all_eq_true, Bool.and_eq_true] at hga
    exact ⟨_, rfl, (hga kv hkv).1⟩

theorem writeCoreD_eq (es : List WEcu) (ds : List DefLine) (dds : List DefDefLine) (ga : List (Str × Str)) (fs : List WFrame) :
    writeCoreD es ds dds ga fs = [renderBu (es.map (·.name)), []] ++ writeFrames (fs.map WFrame.block) ++
      writeFile (stmtsA es fs ++ (stmtsB es ds dds ga ++ stmtsC fs)) := rfl

theorem fold_pending (its : List Item) (m : RMatrix) (hm : m.pending = none) (h : ∀ it ∈ its, ∀ hd first, it ≠ .cmOpen hd first) :
    (its.foldl applyItem m).pending = none := by
  induction its generalizing m with
  | nil => exact hm
  | cons it its ih =>
    simp only [List.foldl_cons]
    exact ih _ (applyItem_pending m it hm (h it (by simp))) (fun x hx => h x (List.mem_cons_of_mem _ hx))

/-- **The core round trip with ECUs, attribute definitions, defaults and the attributes of the ECUs and of the matrix.** -/
theorem roundtrip_coreD (es : List WEcu) (hes : wfEcus es = true) (ds : List DefLine) (hds : wfDefs ds = true)
    (dds : List DefDefLine) (hdds : wfDefaults ds dds = true)
    (ga : List (Str × Str)) (hga : wfAttrs (expectDefs ds dds) .global .global ga = true)
    (hea : ∀ e ∈ es, wfAttrs (expectDefs ds dds) .ecu (.ecu e.name) e.attrs = true)
    (ps : List (WFrame × (Nat × Bool))) (hwf : ∀ p ∈ ps, p.1.wf p.2 = true) (hdist : ps.Pairwise fun p q => p.2 ≠ q.2) :
    (readFile (writeCoreD es ds dds ga (ps.map (·.1)))).ecus = es.map WEcu.expectA ∧
    (readFile (writeCoreD es ds dds ga (ps.map (·.1)))).defs = expectDefs ds dds ∧
    (readFile (writeCoreD es ds dds ga (ps.map (·.1)))).attrs = attrsOf ga ∧
    (readFile (writeCoreD es ds dds ga (ps.map (·.1)))).frames = ps.map (fun p => p.1.expect p.2) ∧
    (readFile (writeCoreD es ds dds ga (ps.map (·.1)))).pending = none := by
  rw [writeCoreD_eq]
  unfold readFile
  have hes' := hes
  simp only [wfEcus, Bool.and_eq_true, List.all_eq_true, decide_eq_true_eq] at hes'
  obtain ⟨hall, hnd⟩ := hes'
  have hbuwf : (Stmt.bu (es.map (·.name))).wf = true := by
    simp only [Stmt.wf, List.all_eq_true, Bool.and_eq_true, decide_eq_true_eq]
    intro n hn
    obtain ⟨e, he, rfl⟩ := List.mem_map.mp hn
    exact (hall e he).1
  rw [List.foldl_append, List.foldl_append]
  have h0 : [renderBu (es.map (·.name)), ([] : Str)].foldl stepFile {} = { ecus := es.map plainEcu } := by
    simp only [List.foldl_cons, List.foldl_nil]
    have := step_stmt {} (.bu (es.map (·.name))) rfl hbuwf
    simp only [Stmt.line] at this
    rw [this, step_skip _ [] rfl (by decide)]
    simp [applyStmt, Stmt.item, applyItem, Item.frameNo, applyCore, plainEcu, Function.comp_def]
  rw [h0]
  have hblocks : (ps.map (·.1)).map WFrame.block = ps.map fun p => p.1.block := by rw [List.map_map]; rfl
  have hkeys : (ps.map fun p => p.1.block).map (fun b => boKey b.bo) = (ps.map (·.2)).map some := by
    rw [List.map_map, List.map_map]
    apply List.map_congr_left
    intro p hp
    exact (wf_unpack (hwf p hp)).2.1
  have hblk : ∀ b ∈ (ps.map fun p => p.1.block), wfBlock b = true := by
    intro b hb; obtain ⟨p, hp, rfl⟩ := List.mem_map.mp hb; exact (wf_unpack (hwf p hp)).1
  have hA := frames_fold (ps.map fun p => p.1.block) (ps.map (·.2)) { ecus := es.map plainEcu } rfl hblk hkeys
  have hA' := frames_fold_defs (ps.map fun p => p.1.block) (ps.map (·.2)) { ecus := es.map plainEcu } rfl hblk hkeys
  rw [hblocks]
  generalize hmA : (writeFrames (ps.map fun p => p.1.block)).foldl stepFile { ecus := es.map plainEcu } = mA at hA hA'
  obtain ⟨hAf, hAp, hAe, _⟩ := hA
  obtain ⟨hAd, hAa⟩ := hA'
  rw [framesOfBlocks_ps] at hAf
  simp only [List.nil_append] at hAf hAe hAd hAa
  have hAkeys : mA.frames.map (·.key) = ps.map (·.2) := by
    rw [hAf, List.map_map]; rfl
  have hAnames : mA.ecus.map (·.name) = es.map (·.name) := by
    rw [hAe, List.map_map]; rfl
  have huA : KeysUnique mA := by
    unfold KeysUnique
    have : (mA.frames.map (·.key)).Pairwise (· ≠ ·) := by
      rw [hAkeys, List.pairwise_map]; exact hdist
    rwa [List.pairwise_map] at this
  -- the three states
  have hm1 : (stmtsA es (ps.map (·.1))).foldl FileStmt.apply mA = (itemsA es ps).foldl applyItem mA := by
    rw [apply_eq_items, stmtsA_items]
  have hm2 : ∀ m, (stmtsB es ds dds ga).foldl FileStmt.apply m = (itemsB es ds dds ga).foldl applyItem m := by
    intro m; rw [apply_eq_items, stmtsB_items]
  have hm3 : ∀ m, (stmtsC (ps.map (·.1))).foldl FileStmt.apply m = (itemsC ps).foldl applyItem m := by
    intro m; rw [apply_eq_items, stmtsC_items]
  generalize hm1d : (itemsA es ps).foldl applyItem mA = m1 at hm1
  have h1f : m1.frames = mA.frames.map fun f => (itemsA es ps).foldl (fun acc it => itemUpd it acc) f := by
    rw [← hm1d]; exact frames_after_items' _ mA huA (kindsA es ps)
  have h1e : m1.ecus = es.map WEcu.expect := by rw [← hm1d]; exact ecusA es hnd ps mA hAe
  have h1d : m1.defs = [] ∧ m1.attrs = [] := by
    have := items_defs (itemsA es ps) mA (kindsA es ps)
    rw [hm1d] at this
    exact ⟨this.1.trans hAd, this.2.trans hAa⟩
  have h1p : m1.pending = none := by
    rw [← hm1d]
    apply fold_pending _ mA hAp
    intro it hit hd first e
    subst e
    rcases kindsA es ps _ hit with h | h
    · simp [itemFrameUpd] at h
    · simp [isEcuItem] at h
  have h2 := stateB es hnd ds hds dds (wfDefaults_ok ds dds hdds) ga hga hea m1 h1d.1 h1d.2 h1e
  generalize hm2d : (itemsB es ds dds ga).foldl applyItem m1 = m2 at h2
  have h1keys : m1.frames.map (·.key) = ps.map (·.2) := by
    rw [h1f, List.map_map, ← hAkeys]
    apply List.map_congr_left
    intro f _
    simp only [Function.comp_apply]
    exact fold_key _ f
  have hu1 : KeysUnique m1 := keysUnique_of_keys mA m1 (by rw [h1keys, hAkeys]) huA
  have hu2 : KeysUnique m2 := keysUnique_of_keys m1 m2 (by rw [h2]) hu1
  -- every statement can be read at its point
  have hokA : okFile mA (stmtsA es (ps.map (·.1))) = true := by
    apply okFile_staticE _ mA huA
    intro s hs
    rw [hAkeys, hAnames]
    simp only [stmtsA, List.mem_append, List.mem_flatMap, List.mem_map] at hs
    rcases hs with ((⟨f, ⟨p, hp, rfl⟩, hsf⟩ | ⟨f, ⟨p, hp, rfl⟩, hsf⟩) | ⟨f, ⟨p, hp, rfl⟩, hsf⟩) | hsf
    · exact staticOkE_of _ _ _ (tx_static p.1 p.2 (hwf p hp) _ s hsf)
    · exact staticOkE_of _ _ _ (cm_static p.1 p.2 (hwf p hp) _ (List.mem_map.mpr ⟨p, hp, rfl⟩) s hsf)
    · exact staticOkE_of _ _ _ (sigcm_static p.1 p.2 (hwf p hp) _ (List.mem_map.mpr ⟨p, hp, rfl⟩) s hsf)
    · unfold ecuCmStmts at hsf
      obtain ⟨e, he, hse⟩ := List.mem_filterMap.mp hsf
      cases hc : e.comment with
      | none => rw [hc] at hse; simp at hse
      | some c =>
        rw [hc] at hse; simp only [Option.map_some, Option.some.injEq] at hse; subst hse
        have := hall e he
        rw [hc] at this
        refine ⟨?_, ?_, List.mem_map.mpr ⟨e, he, rfl⟩⟩
        · simp only [wfCmHead]; exact this.1.1
        · simpa using this.2
  have hokB : okFile m1 (stmtsB es ds dds ga) = true :=
    okFile_ones _ (stmtsB_ones es ds hds dds (wfDefaults_wf ds dds hdds) _ ga hga hea) m1
  have hokC : okFile m2 (stmtsC (ps.map (·.1))) = true := by
    apply okFile_staticE _ m2 hu2
    intro s hs
    have hk2 : m2.frames.map (·.key) = ps.map (·.2) := by rw [h2]; exact h1keys
    rw [hk2]
    simp only [stmtsC, List.mem_append, List.mem_flatMap, List.mem_map] at hs
    rcases hs with ((⟨f, ⟨p, hp, rfl⟩, hsf⟩ | ⟨f, ⟨p, hp, rfl⟩, hsf⟩) | ⟨f, ⟨p, hp, rfl⟩, hsf⟩) | ⟨f, ⟨p, hp, rfl⟩, hsf⟩
    · exact staticOkE_of _ _ _ (val_static p.1 p.2 (hwf p hp) _ s hsf)
    · exact staticOkE_of _ _ _ (valtype_static p.1 p.2 (hwf p hp) _ s hsf)
    · exact staticOkE_of _ _ _ (grp_static p.1 p.2 (hwf p hp) _ s hsf)
    · exact staticOkE_of _ _ _ (mul_static p.1 p.2 (hwf p hp) _ s hsf)
  have hok : okFile mA (stmtsA es (ps.map (·.1)) ++ (stmtsB es ds dds ga ++ stmtsC (ps.map (·.1)))) = true := by
    rw [okFile_append, okFile_append, hokA, hm1, hokB, hm2 m1, hm2d, hokC]
    rfl
  rw [read_file _ mA hAp hok, List.foldl_append, List.foldl_append, hm1, hm2 m1, hm2d, hm3 m2]
  have h3f := frames_after_items (itemsC ps) m2 hu2 (kindsC ps)
  have h3e := ecus_after_items (itemsC ps) m2 (fun it hit => Or.inl (kindsC ps it hit))
  have h3d := items_defs (itemsC ps) m2 (fun it hit => Or.inl (kindsC ps it hit))
  refine ⟨?_, ?_, ?_, ?_, ?_⟩
  · rw [h3e, fold_other_ecus _ (kindsC ps), h2]
  · rw [h3d.1, h2]
  · rw [h3d.2, h2]
  · rw [h3f, h2]
    simp only
    rw [h1f, hAf, List.map_map, List.map_map]
    apply List.map_congr_left
    intro p hp
    simp only [Function.comp_apply]
    rw [← List.foldl_append]
    have := per_frameE (ecuCmItems es) (ecuCmItems_ecu es) ps hwf hdist p hp
    simp only [itemsA, itemsC, List.append_assoc] at this ⊢
    exact this
  · apply fold_pending _ m2 (by rw [h2]; exact h1p)
    intro it hit hd first e
    subst e
    have := kindsC ps _ hit
    simp [itemFrameUpd] at this

end CanVerif.Dbc.FileProofs
