import CanVerif.Model.Compare
/-!
# Independent specification of comparison (C13): when do two matrices *agree* on the compared properties

Only the plain data types of `Model/Compare.lean` are reused; the agreement relation is written from
the property statement: frame set, frame length, identifier and format, senders, signal set and
signal groups; signal position, width, byte order, sign, factor, offset, limits, multiplexing, unit,
receivers and value table; ECUs; and, unless excluded, comments, attributes, definitions and value tables.
-/
namespace CanVerif.SpecCompare
open CanVerif

def sameDict {α : Type} [BEq α] (a b : List (String × α)) : Bool :=
  (a.all fun kv => b.any fun kw => kw.1 == kv.1 && kw.2 == kv.2) &&
  (b.all fun kv => a.any fun kw => kw.1 == kv.1)

def sameTable (a b : List (Int × String)) : Bool :=
  (a.all fun kv => b.any fun kw => kw.1 == kv.1 && kw.2 == kv.2) &&
  (b.all fun kv => a.any fun kw => kw.1 == kv.1)

def sameSet (a b : List String) : Bool := a.all b.contains && b.all a.contains

def sigAgree (ign : Ign) (s t : QSig) : Bool :=
  s.start == t.start && s.size == t.size && s.factor == t.factor && s.offset == t.offset && s.min == t.min && s.max == t.max &&
  s.little == t.little && s.signed == t.signed && s.multiplex == t.multiplex && s.unit == t.unit &&
  (ign.igComment || match s.comment, t.comment with
    | some a, some b => a == b
    | _, _ => true) &&
  sameSet s.receivers t.receivers &&
  (ign.igAttr || sameDict s.attrs t.attrs) &&
  (ign.igVt || sameTable s.values t.values)

def groupAgree (g h : QGroup) : Bool := g.name == h.name && g.id == h.id && sameSet g.members h.members

def frameAgree (ign : Ign) (f g : QFrame) : Bool :=
  f.name == g.name && f.size == g.size && f.id == g.id && f.ext == g.ext &&
  (ign.igComment || f.comment.getD "" == g.comment.getD "") &&
  (f.sigs.all fun s => match g.sigs.find? (·.name == s.name) with
    | some t => sigAgree ign s t
    | none => false) &&
  (g.sigs.all fun t => f.sigs.any (·.name == t.name)) &&
  (ign.igAttr || sameDict f.attrs g.attrs) &&
  sameSet f.transmitters g.transmitters &&
  (f.groups.all fun x => match g.groups.find? (·.name == x.name) with
    | some y => groupAgree x y
    | none => false) &&
  (g.groups.all fun y => f.groups.any (·.name == y.name))

def partner (m : QMat) (f : QFrame) : Option QFrame :=
  match m.frames.find? (·.name == f.name) with
  | some g => some g
  | none => m.frames.find? fun g => g.id == f.id && g.ext == f.ext

def sameDefs (a b : List (String × QDef)) : Bool :=
  (a.all fun kv => b.any fun kw => kw.1 == kv.1 && kw.2 == kv.2) && (b.all fun kv => a.any fun kw => kw.1 == kv.1)

/-- the two matrices agree on every compared property -/
def agree (ign : Ign) (a b : QMat) : Bool :=
  (a.frames.all fun f => match partner b f with
    | some g => frameAgree ign f g
    | none => false) &&
  (b.frames.all fun g => (partner a g).isSome) &&
  (ign.igAttr || sameDict a.attrs b.attrs) &&
  (a.ecus.all fun e => match b.ecus.find? (·.name == e.name) with
    | some e' => (ign.igComment || e.comment == e'.comment) && (ign.igAttr || sameDict e.attrs e'.attrs)
    | none => false) &&
  (b.ecus.all fun e' => a.ecus.any (·.name == e'.name)) &&
  (ign.igDefine || (sameDefs a.gdefs b.gdefs && sameDefs a.edefs b.edefs && sameDefs a.fdefs b.fdefs && sameDefs a.sdefs b.sdefs)) &&
  (ign.igVt ||
    ((a.valueTables.all fun kv => match b.valueTables.find? (·.1 == kv.1) with
        | some kw => sameTable kv.2 kw.2
        | none => false) &&
     (b.valueTables.all fun kw => a.valueTables.any (·.1 == kw.1))))

mutual
def countResult (r : String) : Res → Nat
  | .node res _ cs => (if res == some r then 1 else 0) + countResultList r cs
def countResultList (r : String) : List Res → Nat
  | [] => 0
  | c :: rest => countResult r c + countResultList r rest
end

/-- swapping the operands swaps additions and deletions ("deleted" and "removed" are the two words the
report uses for a deletion) and keeps the number of changes on leaves -/
def swapOk (ab ba : Res) : Bool :=
  countResult "added" ab == countResult "deleted" ba + countResult "removed" ba &&
  countResult "added" ba == countResult "deleted" ab + countResult "removed" ab

end CanVerif.SpecCompare
