"""C17 - bulk clean-up, delete and rename operations hit exactly their targets."""
import canmatrix.canmatrix as cm

PID = "C17"
RULE = ("case = (matrix with 1..4 frames with unique names (some names prefixes/suffixes of others), 0..7 signals per frame with "
        "unique names, runs of adjacent zero-width signals, frame/signal/ECU attributes used in only some objects, definition "
        "dictionaries containing used and unused names, equal names on several levels; a sequence of 1..3 operations "
        "delete_zero_signals / delete_obsolete_defines / del_signal(glob) / rename_signal(name, prefix*, *suffix) / del_frame / "
        "rename_frame / del_signal_attributes / del_frame_attributes); the state after every operation is observed. "
        "Attribute values include the empty text, \"0\" and \"False\". Non-trivial = distinct case in which at least one operation changed the matrix.")
PARTIAL = ["attribute values and definition bodies are opaque strings here; ENUM conversion belongs to C05"]
ASSUMPTIONS = ["frame names unique in the matrix and signal names unique within a frame (the Spec is asserted only on such states)",
               "patterns and names are non-empty and carry at most one '*' at the beginning or the end"]
TRUSTED = ["fnmatch.fnmatchcase (modelled by globMatch, validated in C11's 'glob' cases)"]
CORRESPONDENCE = "CanMatrix bulk operations == CanVerif.BMat.apply (Model/Bulk.lean)"

FNAMES = ["Msg", "Msg_A", "A_Msg", "Diag_Req", "Diag_Resp", "Req", "Status", "StatusExt", "Ext", "Ext_Ext", "Msg_Msg", "gMsg", "tExt", "Msgs", "Diag_D"]   # incl. names whose rest shares characters with the pattern
SNAMES = ["sig", "sig_a", "a_sig", "speed", "speed_kmh", "kmh", "x", "xy", "yx", "cnt", "cnt_2", "s1", "s2", "s10", "x_x", "kmh_kmh", "sig_sig", "gsig", "a_a", "hkmh", "xx", "sigs"]
ATTRS = ["GenA", "GenB", "Cycle", "Note", "A"]
SIG_PATS = ["sig*", "*sig", "s?", "*", "speed*", "*kmh", "x*", "*x", "s[12]", "cnt_2", "sig", "nomatch", "s1*", "*_a"]
FRAME_PATS = ["Msg*", "*Msg", "Diag_*", "*Ext", "Status", "Req", "*Req", "Status*", "nomatch", "Msg"]


def rand_attrs(rng):
    # (an attribute may be set to the empty text, to "0" or to "False": it is set all the same)
    return [[a, rng.choice(["v0", "v1", "v2", "", "0", "False"])] for a in ATTRS if rng.random() < 0.3]


def gen_matrix(rng):
    frames = []
    for fname in rng.sample(FNAMES, rng.randint(1, 4)):
        sigs = []
        for sname in rng.sample(SNAMES, rng.randint(0, 7)):
            size = 0 if rng.random() < 0.35 else rng.randint(1, 16)
            sigs.append([sname, size, rand_attrs(rng)])
        if rng.random() < 0.3 and len(sigs) >= 3:
            for s in sigs[:rng.randint(2, len(sigs))]:
                s[1] = 0
        frames.append([fname, rand_attrs(rng), sigs])
    ecus = [["E%d" % k, rand_attrs(rng)] for k in range(rng.randint(0, 3))]
    pick = lambda: [a for a in ATTRS if rng.random() < 0.6]  # noqa
    return {"frames": frames, "ecus": ecus, "fd": pick(), "ed": pick(), "sd": pick()}


def gen_op(rng):
    k = rng.random()
    if k < 0.16:
        return ["zero"]
    if k < 0.34:
        return ["obsolete"]
    if k < 0.46:
        return ["delSignal", rng.choice(SIG_PATS)]
    if k < 0.62:
        return ["renameSignal", rng.choice(SIG_PATS[:2] + ["speed*", "*kmh", "x*", "*x", "s1*", "*_a", "cnt", "x", "sig", "s1", "nomatch"]),
                rng.choice(["new", "n", "sig", "Z_"])]
    if k < 0.72:
        return ["delFrame", rng.choice(FNAMES)]
    if k < 0.86:
        return ["renameFrame", rng.choice(FRAME_PATS), rng.choice(["New", "N", "Msg", "X_"])]
    if k < 0.93:
        return ["delSigAttrs", rng.sample(ATTRS, rng.randint(1, 3))]
    return ["delFrameAttrs", rng.sample(ATTRS, rng.randint(1, 3))]


def gen(rng, tier, shard, nshards):
    total = {"quick": 8000, "thorough": 120000}[tier] // nshards
    for _ in range(total):
        yield {"op": "bulk", "c": {"m": gen_matrix(rng), "ops": [gen_op(rng) for _ in range(rng.randint(1, 3))]}}
    if shard == 0:
        # every pattern of adjacent zero-width signals among 6 signals
        for mask in range(64):
            sigs = [["s%d" % i, 0 if (mask >> i) & 1 else 4, []] for i in range(6)]
            yield {"op": "bulk", "c": {"m": {"frames": [["F", [], sigs]], "ecus": [], "fd": [], "ed": [], "sd": []}, "ops": [["zero"]]}}


def neighbours(case, rng, shard, nshards):
    for _ in range(200 // nshards + 1):
        yield {"op": "bulk", "c": {"m": case["c"]["m"], "ops": [gen_op(rng) for _ in range(rng.randint(1, 2))]}}


def build(m):
    db = cm.CanMatrix()
    for name, attrs in m["ecus"]:
        e = cm.Ecu(name)
        for k, v in attrs:
            e.add_attribute(k, v)
        db.ecus.append(e)
    for k, (name, attrs, sigs) in enumerate(m["frames"]):
        fr = cm.Frame(name, arbitration_id=cm.ArbitrationId(k + 1, False), size=8)
        for a, v in attrs:
            fr.add_attribute(a, v)
        for sname, size, sattrs in sigs:
            s = cm.Signal(sname, size=size)
            for a, v in sattrs:
                s.add_attribute(a, v)
            fr.add_signal(s)
        db.add_frame(fr)
    for d in m["fd"]:
        db.add_frame_defines(d, "STRING")
    for d in m["ed"]:
        db.add_ecu_defines(d, "STRING")
    for d in m["sd"]:
        db.add_signal_defines(d, "STRING")
    return db


def snapshot(db):
    al = lambda d: [[k, str(v)] for k, v in d.items()]  # noqa
    return {"frames": [[f.name, al(f.attributes), [[s.name, s.size, al(s.attributes)] for s in f.signals]] for f in db.frames],
            "ecus": [[e.name, al(e.attributes)] for e in db.ecus],
            "fd": list(db.frame_defines.keys()), "ed": list(db.ecu_defines.keys()), "sd": list(db.signal_defines.keys())}


def observe(case):
    db = build(case["c"]["m"])
    states = []
    for op in case["c"]["ops"]:
        k = op[0]
        if k == "zero":
            db.delete_zero_signals()
        elif k == "obsolete":
            db.delete_obsolete_defines()
        elif k == "delSignal":
            db.del_signal(op[1])
        elif k == "renameSignal":
            db.rename_signal(op[1], op[2])
        elif k == "delFrame":
            db.del_frame(op[1])
        elif k == "renameFrame":
            db.rename_frame(op[1], op[2])
        elif k == "delSigAttrs":
            db.del_signal_attributes(op[1])
        elif k == "delFrameAttrs":
            db.del_frame_attributes(op[1])
        states.append(snapshot(db))
    return {"states": states}


def project(impl):
    return impl


def features(case, impl):
    prev = case["c"]["m"]
    for op, st in zip(case["c"]["ops"], impl["states"]):
        yield "%s:%s" % (op[0], "changed" if st != prev else "noop")
        if op[0] in ("renameSignal", "renameFrame"):
            yield op[0] + (":prefix" if op[1].endswith("*") else ":suffix" if op[1].startswith("*") else ":exact")
        prev = st
    zs = [sum(1 for s in f[2] if s[1] == 0) for f in case["c"]["m"]["frames"]]
    if any(z >= 2 for z in zs):
        yield "frame with >=2 zero-width signals"


def nontrivial(case, impl):
    prev = case["c"]["m"]
    for st in impl["states"]:
        if st != prev:
            return True
        prev = st
    return False


def shrink_candidates(case):
    c = case["c"]
    ops = c["ops"]
    for i in range(len(ops)):
        if len(ops) > 1:
            yield {"op": "bulk", "c": {"m": c["m"], "ops": ops[:i] + ops[i + 1:]}}
    m = c["m"]
    for i in range(len(m["frames"])):
        if len(m["frames"]) > 1:
            yield {"op": "bulk", "c": {"m": dict(m, frames=m["frames"][:i] + m["frames"][i + 1:]), "ops": ops}}
        f = m["frames"][i]
        for j in range(len(f[2])):
            nf = [f[0], f[1], f[2][:j] + f[2][j + 1:]]
            yield {"op": "bulk", "c": {"m": dict(m, frames=m["frames"][:i] + [nf] + m["frames"][i + 1:]), "ops": ops}}
