"""C07 - round trips preserve value interpretation where the format carries it."""
import contextlib
import copy
import decimal
import io
import json

from lib import roundtrip as R
from props import c06

PID = "C07"
EXTRA_PROPS = ("Num", "C06b")
RULE = ("case 'frame' = (format, generated matrix as in C06 but with factors/offsets of up to 12 significant digits incl. exponent "
        "forms, value tables, units (also longer than 16 characters for SYM), multiplexing with selector value 0, several senders and "
        "receivers, float signals with either sign flag; in three matrices out of ten signals about which there is nothing to say - factor 1, "
        "offset 0, no unit, signed or unsigned, many of them 1 bit flags or with the explicit limits 0..1 / 0..0 - so that a writer omits what "
        "equals the format's default and the reader's defaults decide (c06.plain_signals); one frame): the re-read frame is compared with the original on every feature "
        "the format's documented feature table lists (length, type, factor/offset as exact decimals, value tables, unit, multiplexer "
        "role and selector values, senders, receivers). case 'sig' = signedness / float type per signal through the type-word "
        "kernels. A further stream (one matrix in four, key 'hist') does not hand the writer a freshly built matrix but one with a "
        "history of calls of the public API: its origin is a hand-made matrix with Frame.update_receiver() called for every frame, a "
        "hand-made matrix on which nobody called it (frame.receivers empty), the matrix a loader returns (the DBC reader, or the reader "
        "of the format under test: the second round trip), and then 1..4 editing steps: CanMatrix.add_frame_receiver / "
        "add_signal_receiver / del_signal_receiver, Signal.add_receiver / del_receiver, CanMatrix.add_frame_transmitter / "
        "del_frame_transmitter, Frame.add_transmitter / del_transmitter, rename_ecu, del_ecu, add_ecu, update_ecu_list, "
        "Frame.update_receiver, Frame.add_signal after the receivers of the frame were collected, assignment of factor / offset / unit, "
        "Signal.add_values, copy.deepcopy, and an export that comes before the one under test (same format, DBC or JSON).  Many of these "
        "leave the redundant parts of the matrix (frame.receivers, the ECU list, limits) behind the signals, which is legitimate: the "
        "original is described after the last step and before the export, the features compared are the same. "
        "Non-trivial = distinct case whose frame has a non-integer factor, a value table or a multiplexer.")
PARTIAL = c06.PARTIAL + ["number rendering/parsing is proved separately (Props/Num.lean); which renderer each writer calls is tied by this check only"]
ASSUMPTIONS = c06.ASSUMPTIONS + ["histories, ARXML: an ECU that has been a receiver of a frame earlier in the history is not made its sender (frame.receivers of the real "
                                 "object may still list it after del_receiver, and the ARXML writer gives an ECU one port per frame: a sender that is also a stale "
                                 "receiver would be written as receiver only - a state no reader and no single API call produces)",
                                 "feature table per format taken from docs/formats.rst and the property text (Driver/C06.lean `carries`)",
                                 "histories: every ECU named by a step is in the ECU list of the matrix when the file is written (add_ecu before, or update_ecu_list "
                                 "after the step) for ARXML, XLS and KCD, whose files describe receivers and senders per listed ECU (KCD: a Consumer refers to the Node element "
                                 "of a listed ECU); DBC, DBF, JSON and SYM are also given ECUs that are named by a signal or frame only",
                                 "histories, origin `same` (second round trip): not for SYM matrices with a multiplexer (the SYM reader repeats the static signals per "
                                 "group, the judge addresses the signals of a frame by name)"]
TRUSTED = c06.TRUSTED
CORRESPONDENCE = "type words and re-read signal types == Model/Fields.lean kernels; features compared by the Lean Spec table"

D = decimal.Decimal
FRESH_ECUS = ["Logger", "Tester", "Node_7", "Cluster2", "Rx", "HMI"]
# formats whose file lists receivers / senders under the ECUs of the matrix's ECU list: an ECU that is named by a signal or a frame but
# not (yet) in that list has no place in the file (see ASSUMPTIONS)
NEEDS_ECU_LIST = ("arxml", "xls", "kcd")


def gen(rng, tier, shard, nshards):
    for case in c06.gen(rng, tier, shard, nshards, rich=True):
        yield case
    total = {"quick": 1000, "thorough": 8000}[tier] // nshards + 1
    for _ in range(total // 3 + 1):
        for case in gen_hist(rng):
            yield case


# ---------------------------------------------------------------------------------------------
# matrices with a history
# ---------------------------------------------------------------------------------------------
STEP_KINDS = (["add_frame_receiver"] * 3 + ["sig.add_receiver"] * 3 + ["add_signal_receiver", "del_signal_receiver"] + ["sig.del_receiver"] * 2
              + ["add_frame_transmitter", "frame.add_transmitter", "del_frame_transmitter", "frame.del_transmitter"]
              + ["rename_ecu"] * 2 + ["del_ecu", "add_ecu", "update_ecu_list", "update_receiver"] + ["late"] * 2
              + ["rescale", "unit", "add_values"] + ["dump"] * 2 + ["deepcopy"])


def gen_hist(rng):
    fmt = rng.choice(R.FORMATS)
    wn, rn = "lsb", "lsb"
    if fmt == "xls":
        wn = rng.choice(R.NOTATIONS)
        rn = wn
    if fmt == "arxml" and rng.random() < 0.3:
        wn = "3.2.3"
    desc = R.gen_case_matrix(rng, fmt, True)
    c06.plain_signals(rng, desc, fmt)
    if rng.random() < 0.3:
        c06.long_names(rng, desc, fmt)
    hist = gen_history(rng, desc, fmt)
    for f in desc["frames"]:
        yield {"op": "frame", "c": {"fmt": fmt, "wn": wn, "rn": rn, "m": desc, "fid": f["id"], "ext": f["ext"], "lvl": "full", "via": "bytes", "hist": hist}}
        if hist["origin"] == "same":
            # the original is what the reader of the format made of the generated matrix (the SYM multiplexer has another name there,
            # a format without types has its own): the frame is compared with its second round trip, the signals are not addressed one by one
            continue
        for s in f["signals"]:
            yield {"op": "sig", "c": {"fmt": fmt, "wn": wn, "rn": rn, "m": desc, "fid": f["id"], "ext": f["ext"], "sname": s["name"],
                                      "sig": [s["name"], s["start"], s["size"], s["little"], s["signed"], s["float"]],
                                      "x": fmt in ("dbc", "dbf", "sym", "kcd", "json"), "lvl": "full", "via": "bytes", "hist": hist}}


def gen_history(rng, desc, fmt):
    """{"origin": built | bare | dbc | same, "steps": [[kind, arguments ...], ...]}.  The generator follows the senders, receivers and the ECU
    list through the steps only to stay inside the envelope of the format (ARXML: no ECU both sends and receives a frame; ARXML/XLS: the
    ECUs named are listed when the file is written); what the matrix looks like after the steps is observed, not predicted."""
    frames = desc["frames"]
    origins = ["built", "built", "bare", "dbc", "dbc", "dbc", "same"]
    if fmt == "sym" and any(s["mux"] is not None for f in frames for s in f["signals"]):
        # the SYM reader repeats the static signals of a multiplexed message in every group (by design, see ASSUMPTIONS): the frame it
        # returns has several signals of one name, and the judge addresses the signals of a frame by their names
        origins = [o for o in origins if o != "same"]
    origin = rng.choice(origins)
    listed = list(desc["ecus"])
    tx = [list(f["transmitters"]) for f in frames]
    rx = [{s["name"]: list(s["receivers"]) for s in f["signals"]} for f in frames]
    steps = []

    def fkey(i):
        return [frames[i]["id"], frames[i]["ext"]]

    def receivers_of(i):
        return {e for l in rx[i].values() for e in l}

    # every ECU that has been a receiver of the frame at some point of the history: `frame.receivers` of the real object may still hold it
    # after a del_receiver step (the list is only rebuilt by update_receiver), and the ARXML writer gives an ECU one port per frame
    ever_rx = [set(receivers_of(i)) for i in range(len(frames))]

    def pick_ecu(i, role):
        """an ECU for frame i in the given role: mostly a listed one, sometimes a new name (listed first, later, or - where the format does not
        need the list - never)"""
        avoid = set(tx[i]) if (role == "rx" and fmt == "arxml") else (receivers_of(i) | ever_rx[i]) if (role == "tx" and fmt == "arxml") else set()
        cands = [e for e in listed if e not in avoid]
        if origin == "same" and fmt in NEEDS_ECU_LIST:
            # the reader of the format under test made the ECU list: it has the ECUs that send or receive something, others may be gone
            used = {x for j in range(len(frames)) for x in tx[j]} | {x for j in range(len(frames)) for x in receivers_of(j)}
            cands = [e for e in cands if e in used]
        if cands and rng.random() < 0.75:
            return rng.choice(cands), None
        new = [e for e in FRESH_ECUS if e not in listed and e not in avoid and e not in receivers_of(i) and e not in tx[i]]
        if not new:
            return (rng.choice(cands), None) if cands else (None, None)
        e = rng.choice(new)
        how = rng.choice(["add_ecu", "update_ecu_list", "update_ecu_list"] if fmt in NEEDS_ECU_LIST else ["add_ecu", "update_ecu_list", "unlisted"])
        if how == "add_ecu":
            steps.append(["add_ecu", e])
            listed.append(e)
        return e, how

    def listed_later(e, how):
        if how == "update_ecu_list":
            steps.append(["update_ecu_list"])
            for j in range(len(frames)):
                for x in tx[j] + sorted(receivers_of(j)):
                    if x not in listed:
                        listed.append(x)

    for _ in range(rng.choice([1, 1, 2, 2, 3, 4])):
        kind = rng.choice(STEP_KINDS)
        i = rng.randrange(len(frames))
        f = frames[i]
        names = [s["name"] for s in f["signals"]]
        if kind == "add_frame_receiver":
            e, how = pick_ecu(i, "rx")
            if e is None:
                continue
            steps.append([kind, fkey(i), e])
            ever_rx[i].add(e)
            for n in names:
                if e not in rx[i][n]:
                    rx[i][n].append(e)
            listed_later(e, how)
        elif kind in ("sig.add_receiver", "add_signal_receiver"):
            e, how = pick_ecu(i, "rx")
            if e is None:
                continue
            n = rng.choice(names)
            steps.append([kind, fkey(i), n, e])
            ever_rx[i].add(e)
            if e not in rx[i][n]:
                rx[i][n].append(e)
            listed_later(e, how)
        elif kind in ("sig.del_receiver", "del_signal_receiver"):
            have = [(n, e) for n in names for e in rx[i][n]]
            if not have:
                continue
            n, e = rng.choice(have)
            steps.append([kind, fkey(i), n, e])
            rx[i][n].remove(e)
        elif kind in ("add_frame_transmitter", "frame.add_transmitter"):
            e, how = pick_ecu(i, "tx")
            if e is None:
                continue
            steps.append([kind, fkey(i), e])
            if e not in tx[i]:
                tx[i].append(e)
            listed_later(e, how)
        elif kind in ("del_frame_transmitter", "frame.del_transmitter"):
            if not tx[i]:
                continue
            e = rng.choice(tx[i])
            steps.append([kind, fkey(i), e])
            tx[i].remove(e)
        elif kind == "rename_ecu":
            new = [e for e in FRESH_ECUS if e not in listed and not any(e in tx[j] or e in receivers_of(j) for j in range(len(frames)))]
            if not listed or not new:
                continue
            old, e = rng.choice(listed), rng.choice(new)
            steps.append([kind, old, e])
            listed[listed.index(old)] = e
            for j in range(len(frames)):
                ever_rx[j] = {e if x == old else x for x in ever_rx[j]}
                tx[j] = [e if x == old else x for x in tx[j]]
                for n in rx[j]:
                    rx[j][n] = [e if x == old else x for x in rx[j][n]]
        elif kind == "del_ecu":
            if not listed:
                continue
            old = rng.choice(listed)
            steps.append([kind, old])
            listed.remove(old)
            for j in range(len(frames)):
                tx[j] = [x for x in tx[j] if x != old]
                for n in rx[j]:
                    rx[j][n] = [x for x in rx[j][n] if x != old]
        elif kind == "add_ecu":
            new = [e for e in FRESH_ECUS if e not in listed]
            if new:
                e = rng.choice(new)
                steps.append([kind, e])
                listed.append(e)
        elif kind == "update_ecu_list":
            listed_later(None, "update_ecu_list")
        elif kind == "update_receiver":
            steps.append([kind, fkey(i)])
        elif kind == "late":
            # the frame had its receivers collected when some of its signals were not there yet
            if len(names) < 2:
                continue
            steps.append([kind, fkey(i), sorted(rng.sample(names, rng.randint(1, len(names) - 1)))])
        elif kind in ("rescale", "unit", "add_values"):
            cands = [s for s in f["signals"] if s["mux"] != "Multiplexor" and not (kind == "add_values" and s["float"])]
            if not cands:
                continue
            s = rng.choice(cands)
            if kind == "rescale":
                steps.append([kind, fkey(i), s["name"], rng.choice(R.FACTORS12), rng.choice(R.OFFSETS12)])
            elif kind == "unit":
                steps.append([kind, fkey(i), s["name"], rng.choice(["", "V", "km/h", "degC", "rounds per min.", "%"])])
            else:
                lo, hi = (-(1 << (s["size"] - 1)), (1 << (s["size"] - 1)) - 1) if s["signed"] else (0, (1 << s["size"]) - 1)
                k = rng.choice([lo, hi, rng.randint(max(lo, -8), min(hi, 300))])
                if abs(k) < (1 << 53):
                    steps.append([kind, fkey(i), s["name"], k, "Late%d" % len(steps)])
        elif kind == "dump":
            steps.append([kind, rng.choice([fmt, fmt, "dbc", "json"])])
        elif kind == "deepcopy":
            steps.append([kind])
    return {"origin": origin, "steps": steps}


def _options(fmt, wn, rn):
    wopts, ropts = {}, {}
    if fmt == "json":
        wopts = {"jsonExportAll": True, "jsonMotorolaBitFormat": wn}
    if fmt == "xls":
        wopts = {"xlsMotorolaBitFormat": wn}
        ropts = {"xlsMotorolaBitFormat": rn}
    if fmt == "arxml" and wn == "3.2.3":
        wopts = {"arVersion": "3.2.3"}
    return wopts, ropts


def _first(dbs):
    return list(dbs.values())[0] if isinstance(dbs, dict) else dbs


def _frame(db, key):
    for f in db.frames:
        if int(f.arbitration_id.id) == key[0] and bool(f.arbitration_id.extended) == key[1]:
            return f
    return None


def apply_step(db, st, fmt, wopts):
    """one call of the public API on the matrix (a step whose frame or signal is not there - the reader of the origin named it otherwise -
    does nothing); returns the matrix to go on with"""
    import canmatrix
    from lib import matrices as M
    kind = st[0]
    if kind == "deepcopy":
        return copy.deepcopy(db)
    if kind == "dump":
        M.export_bytes(db, st[1], **(wopts if st[1] == fmt else {"jsonExportAll": True} if st[1] == "json" else {}))
        return db
    if kind == "rename_ecu":
        db.rename_ecu(st[1], st[2])
        return db
    if kind == "del_ecu":
        db.del_ecu(st[1])
        return db
    if kind == "add_ecu":
        db.add_ecu(canmatrix.Ecu(st[1]))
        return db
    if kind == "update_ecu_list":
        db.update_ecu_list()
        return db
    fr = _frame(db, st[1])
    if fr is None:
        return db
    if kind == "add_frame_receiver":
        db.add_frame_receiver(fr.name, st[2])
    elif kind == "add_frame_transmitter":
        db.add_frame_transmitter(fr.name, st[2])
    elif kind == "del_frame_transmitter":
        db.del_frame_transmitter(fr.name, st[2])
    elif kind == "frame.add_transmitter":
        fr.add_transmitter(st[2])
    elif kind == "frame.del_transmitter":
        fr.del_transmitter(st[2])
    elif kind == "update_receiver":
        fr.update_receiver()
    elif kind == "late":
        late = [s for s in fr.signals if s.name in st[2]]
        if late and len(late) < len(fr.signals):
            for s in late:
                fr.signals.remove(s)
            fr.update_receiver()            # the state of the frame before the signals came
            for s in late:
                fr.add_signal(s)
    else:
        sg = fr.signal_by_name(st[2])
        if sg is None:
            return db
        if kind == "sig.add_receiver":
            sg.add_receiver(st[3])
        elif kind == "sig.del_receiver":
            sg.del_receiver(st[3])
        elif kind == "add_signal_receiver":
            db.add_signal_receiver(fr.name, sg.name, st[3])
        elif kind == "del_signal_receiver":
            db.del_signal_receiver(fr.name, sg.name, st[3])
        elif kind == "rescale":
            sg.factor = D(st[3])
            sg.offset = D(st[4])
        elif kind == "unit":
            sg.unit = st[3]
        elif kind == "add_values":
            sg.add_values(st[3], st[4])
        else:
            raise ValueError("unknown step " + kind)
    return db


def state_of(db):
    """what is behind in the matrix handed to the writer (for the distribution in the evidence file)"""
    out = set()
    listed = {e.name for e in db.ecus}
    for f in db.frames:
        of_signals = {r for s in f.signals for r in s.receivers}
        if not f.receivers and of_signals:
            out.add("frame.receivers-empty")
        elif of_signals - set(f.receivers):
            out.add("frame.receivers-lacks-a-signal-receiver")
        if set(f.receivers) - of_signals:
            out.add("frame.receivers-has-a-former-receiver")
        if (of_signals | set(f.transmitters)) - listed:
            out.add("ecu-not-listed")
    return sorted(out)


_hist_cache = {}


def run_hist(desc, fmt, wn, rn, hist):
    """as roundtrip.run for a matrix with a history: origin, steps, description of the original (before the export), export, import"""
    from lib import matrices as M
    key = json.dumps([desc, fmt, wn, rn, hist], sort_keys=True)
    if key in _hist_cache:
        return _hist_cache[key]
    wopts, ropts = _options(fmt, wn, rn)
    res = {"exc": None}
    try:
        with contextlib.redirect_stdout(io.StringIO()):
            db = M.build(desc, update=hist["origin"] != "bare")
            if hist["origin"] == "dbc":
                db = _first(M.import_bytes(M.export_bytes(db, "dbc"), "dbc")[0])
            elif hist["origin"] == "same":
                db = _first(M.import_bytes(M.export_bytes(db, fmt, **wopts), fmt, **ropts)[0])
            for st in hist["steps"]:
                db = apply_step(db, st, fmt, wopts)
        res["state"] = state_of(db)
        res["orig"] = M.normal_form(db, "full")
        data = M.export_bytes(db, fmt, **wopts)
        res["stored"] = R.extract_positions(fmt, data)
        dbs, _ = M.import_bytes(data, fmt, **ropts)
        res["got"] = M.normal_form(_first(dbs), "full")
    except Exception as e:  # noqa
        res["exc"] = type(e).__name__ + ": " + str(e)[:200]
    if len(_hist_cache) > 16:
        _hist_cache.clear()
    _hist_cache[key] = res
    return res


def observe(case):
    c = case["c"]
    if case["op"] == "bus" or not c.get("hist"):
        return c06.observe(case)
    r = run_hist(c["m"], c["fmt"], c["wn"], c["rn"], c["hist"])
    # from here on as c06.observe
    if r["exc"]:
        if case["op"] == "frame":
            return {"exc": r["exc"], "got": None, "orig": None}
        return {"exc": r["exc"], "emit": None, "back": None, "type": None}
    gf = R.find_frame(r["got"], c["fid"], c["ext"])
    of = R.find_frame(r["orig"], c["fid"], c["ext"])
    if of and c["hist"]["origin"] != "built":
        # the original may come from a reader: `no unit` is None there and `no sender` the placeholder Vector__XXX (the judge reads the
        # re-read frame the same way)
        # (DBF carries the first sender only: a placeholder in that place is `no first sender`)
        of = dict(of, transmitters=([] if c["fmt"] == "dbf" and of["transmitters"][:1] == ["Vector__XXX"] else [t for t in of["transmitters"] if t != "Vector__XXX"]),
                  signals=[dict(s, unit=s["unit"] if s["unit"] is not None else "") for s in of["signals"]])
    if case["op"] == "frame":
        return {"got": gf, "orig": of, "state": r["state"]}
    is_mux = any(s["name"] == c["sname"] and s["mux"] == "Multiplexor" for s in of["signals"])
    gs = R.find_signal(gf, c["sname"], c["fmt"], is_mux, of["name"]) if gf else None
    stored = r["stored"].get((c["fid"], c["ext"], c["sname"]))
    if stored is None and c["fmt"] == "sym" and is_mux:
        stored = r["stored"].get((c["fid"], c["ext"], "<mux>"))
    if stored is None and c["fmt"] == "dbc" and len(c["sname"]) > 32:
        cut = [s["name"] for s in of["signals"] if s["name"][:32] == c["sname"][:32]]
        stored = r["stored"].get((c["fid"], c["ext"], c["sname"][:32] + (str(cut.index(c["sname"])) if len(cut) > 1 else "")))
    return {"emit": stored if c.get("x") else None,
            "back": [gs["start"], gs["size"], gs["little"]] if gs else None,
            "type": [None if gs["float"] else gs["signed"], gs["float"]] if (gs and c["fmt"] != "xls") else None}


def shrink_candidates(case):
    """a failing case with a history: the same case with one step less, then with a hand-made origin"""
    c = case.get("c", {})
    h = c.get("hist")
    if not h:
        return
    for k in range(len(h["steps"])):
        yield {"op": case["op"], "c": dict(c, hist={"origin": h["origin"], "steps": h["steps"][:k] + h["steps"][k + 1:]})}
    if h["origin"] != "built":
        yield {"op": case["op"], "c": dict(c, hist={"origin": "built", "steps": h["steps"]})}


neighbours = c06.neighbours
project = c06.project


def classify(case, impl, spec):
    cid = c06.classify(case, impl, spec)
    c = case.get("c", {})
    h = c.get("hist") if case["op"] != "bus" else None
    if cid is None and h and case["op"] == "frame" and c["fmt"] == "sym" and spec and spec.startswith("fail: value table of "):
        # the open finding C07-sym-enum-name-collision reached through a history: the signal shares its name with a signal of another
        # frame and a step gave one of them another value table
        name = spec[len("fail: value table of "):].split(" ")[0]
        holders = [f["id"] for f in c["m"]["frames"] for s in f["signals"] if s["name"] == name]
        if len(holders) > 1 and any(st[0] == "add_values" and st[2] == name for st in h["steps"]):
            return "C07-sym-enum-name-collision"
    return cid


def features(case, impl):
    for f in c06.features(case, impl):
        yield f
    h = case["c"].get("hist") if case["op"] != "bus" else None
    if h and case["op"] == "frame":
        fmt = case["c"]["fmt"]
        yield "hist:origin=%s/%s" % (h["origin"], fmt)
        yield "hist:steps=%d" % len(h["steps"])
        for kind in sorted({st[0] for st in h["steps"]}):
            yield "hist:step=%s/%s" % (kind, fmt)
        for st in impl.get("state") or []:
            yield "hist:state=%s/%s" % (st, fmt)


def nontrivial(case, impl):
    return True
