"""C06 - every write+read format preserves frame identity and signal bit layout."""
import json
import re

from lib import roundtrip as R

PID = "C06"
FEATURES_LEVEL = "layout"
RULE = ("case 'sig' = (format out of dbc, dbf, sym, kcd, json, xls, arxml; for json/xls the Motorola notation option of writer and "
        "reader; a generated matrix inside the format's envelope: unique ids, frame lengths 1..64 where the format allows, Intel and "
        "Motorola signals at any non-overlapping placement, standard and extended ids, simple multiplexing; one of its signals): the "
        "position number stored in the file (extracted by a mini-parser for dbc, dbf, sym, kcd, json), and start/width/byte order of "
        "the signal after reading the file back. case 'frame' = presence of the frame (identifier + format) after the round trip. "
        "30 % of the extended frames are flagged J1939. Half of the matrices are built with the extended flag as the integer 1 (as the readers set it), signed signals name negative raw values in their value tables, identifier numbers occur in both formats, frames longer than 8 bytes in every format. Non-trivial = distinct case with a Motorola signal or a signal wider than one bit.")
PARTIAL = ["only the field kernels (position and identifier numbers) carry theorems; file assembly, XML plumbing and reference "
           "resolution are tied by this correspondence check only",
           "multi-bus files (KCD/ARXML, 2..3 buses) are compared per bus on the layout normal form (case 'bus')",
           "ARXML: versions 4.1.0 and 3.2.3 of the writer"]
ASSUMPTIONS = ["SYM: the multiplexer is renamed <frame>_MUX by design and static signals of multiplexed messages are repeated per group",
               "XLS: identifier numbers unique across standard/extended, value-table keys below 2^53 (cells hold doubles)", "ARXML: matrix-unique signal names, no ECU both sends and receives a frame"]
TRUSTED = ["lxml, xlrd/xlwt, json used by the writers/readers", "regular-expression mini-parsers of the harness"]
CORRESPONDENCE = "stored position numbers and re-read layout == CanVerif.emitPos / parsePos (Model/Fields.lean)"


def gen(rng, tier, shard, nshards, rich=False):
    total = {"quick": 1000, "thorough": 8000}[tier] // nshards + 1
    for _ in range(total // 12 + 1):
        yield gen_bus(rng)
    for _ in range(total):
        fmt = rng.choice(R.FORMATS)
        wn, rn = "lsb", "lsb"
        # only the option pairs the reader understands (JSON reads `lsb` only, see theorem json_notation_mismatch)
        if fmt == "xls":
            wn = rng.choice(R.NOTATIONS)
            rn = wn
        if fmt == "arxml" and rng.random() < 0.4:
            wn = "3.2.3"          # the other AUTOSAR version the writer offers (default 4.1.0)
        desc = R.gen_case_matrix(rng, fmt, rich)
        for f in desc["frames"]:
            yield {"op": "frame", "c": {"fmt": fmt, "wn": wn, "rn": rn, "m": desc, "fid": f["id"], "ext": f["ext"], "lvl": "full" if rich else "layout"}}
            for s in f["signals"]:
                yield {"op": "sig", "c": {"fmt": fmt, "wn": wn, "rn": rn, "m": desc, "fid": f["id"], "ext": f["ext"], "sname": s["name"],
                                          "sig": [s["name"], s["start"], s["size"], s["little"], s["signed"], s["float"]],
                                          "x": fmt in ("dbc", "dbf", "sym", "kcd", "json"), "lvl": "full" if rich else "layout"}}


def gen_bus(rng):
    fmt = rng.choice(["kcd", "arxml"])
    buses = []
    for name in ("BusA", "BusB", "BusC")[:rng.randint(2, 3)]:
        d = R.gen_case_matrix(rng, fmt, False)
        for f in d["frames"]:
            f["name"] = name + "_" + f["name"]           # short names are unique within the file (AUTOSAR packages)
            for s in f["signals"]:
                s["name"] = name + "_" + s["name"]
        buses.append([name, d])
    return {"op": "bus", "c": {"fmt": fmt, "names": [b[0] for b in buses], "buses": buses}}


def observe_bus(c):
    import canmatrix.formats
    from lib import matrices as M
    try:
        dbs = {name: M.build(d) for name, d in c["buses"]}
        b = M.NamedBytes()
        canmatrix.formats.dump(dbs, b, c["fmt"])
        got, _ = M.import_bytes(b.getvalue(), c["fmt"])
        return {"keys": sorted(got.keys()),
                "same": [name in got and M.normal_form(dbs[name], "layout") == M.normal_form(got[name], "layout") for name in dbs]}
    except Exception as e:  # noqa
        return {"exc": type(e).__name__ + ": " + str(e)[:160]}


def neighbours(case, rng, shard, nshards):
    if case["op"] == "bus":
        return
    c = case["c"]
    for _ in range(6 // nshards + 1):
        desc = R.gen_case_matrix(rng, c["fmt"], False)
        for f in desc["frames"]:
            for s in f["signals"]:
                yield {"op": "sig", "c": {"fmt": c["fmt"], "wn": c["wn"], "rn": c["rn"], "m": desc, "fid": f["id"], "ext": f["ext"], "sname": s["name"],
                                          "sig": [s["name"], s["start"], s["size"], s["little"], s["signed"], s["float"]], "x": c.get("x", False), "lvl": c.get("lvl", "full")}}


def observe(case):
    c = case["c"]
    if case["op"] == "bus":
        return observe_bus(c)
    r = R.run(c["m"], c["fmt"], c["wn"], c["rn"])
    if r["exc"]:
        if case["op"] == "frame":
            return {"exc": r["exc"], "got": None, "orig": None}
        return {"exc": r["exc"], "emit": None, "back": None, "type": None}
    gf = R.find_frame(r["got"], c["fid"], c["ext"])
    of = R.find_frame(r["orig"], c["fid"], c["ext"])
    if case["op"] == "frame":
        return {"got": gf, "orig": of}
    is_mux = any(s["name"] == c["sname"] and s["mux"] == "Multiplexor" for s in of["signals"])
    gs = R.find_signal(gf, c["sname"], c["fmt"], is_mux, of["name"]) if gf else None
    stored = r["stored"].get((c["fid"], c["ext"], c["sname"]))
    if stored is None and c["fmt"] == "sym" and is_mux:
        stored = r["stored"].get((c["fid"], c["ext"], "<mux>"))
    return {"emit": stored if c.get("x") else None,
            "back": [gs["start"], gs["size"], gs["little"]] if gs else None,
            # the sign flag of a float signal carries no meaning and is not stored by DBF/KCD/SYM
            "type": [None if gs["float"] else gs["signed"], gs["float"]] if (gs and c["fmt"] != "xls" and c.get("lvl") != "layout") else None}


def project(impl):
    if "keys" in impl or ("exc" in impl and "back" not in impl and "got" not in impl):
        return {}
    if "got" in impl and "back" not in impl:
        return {}
    return {"emit": impl.get("emit"), "back": impl.get("back"), "type": impl.get("type")}


def to_model_case(case):
    return case


def features(case, impl):
    c = case["c"]
    yield "op=" + case["op"]
    if case["op"] == "bus":
        yield "buses=%s/%d" % (c["fmt"], len(c["names"]))
        return
    yield "fmt=" + c["fmt"] + ("/" + c["wn"] + ">" + c["rn"] if c["fmt"] in ("json", "xls") else "/" + c["wn"] if c["wn"] == "3.2.3" else "")
    fr = c["m"]["frames"]
    if any(f["id"] == g["id"] and f["ext"] != g["ext"] for f in fr for g in fr):
        yield "matrix:same-number-in-both-formats"
    if any(f["size"] > 8 for f in fr):
        yield "matrix:fd-length"
    if case["op"] == "sig":
        d = c["sig"]
        yield "%s:%s%s" % (c["fmt"], "intel" if d[3] else "motorola", "/float" if d[5] else "")
        if impl.get("exc"):
            yield "exception:" + c["fmt"]


def nontrivial(case, impl):
    if case["op"] == "bus":
        return True
    return case["op"] == "sig" and (not case["c"]["sig"][3] or case["c"]["sig"][2] > 1)


def classify(case, impl, spec):
    """known finding: SYM names an enumeration after its signal, so two equal-named signals of different frames with different
    value tables share one enumeration after the round trip"""
    c = case["c"]
    if c["fmt"] == "arxml" and c.get("wn") == "3.2.3" and spec and re.search(r"signedness|float type|unit of ", spec):
        return "C07-arxml3-type-unit"
    if case["op"] == "frame" and c["fmt"] == "sym" and spec and spec.startswith("fail: value table of "):
        name = spec[len("fail: value table of "):].split(" ")[0]
        tables = [json.dumps(s["values"], sort_keys=True) for f in c["m"]["frames"] for s in f["signals"] if s["name"] == name and s["values"]]
        if len(set(tables)) > 1:
            return "C07-sym-enum-name-collision"
    return None
