import CanVerif.Model.Lookup
/-!
# Helper lemmas for C10 (frame lookups over edit histories)

The memo invariant is stated here in unfolded form (`∀ e ∈ x.memo, e.2 ∈ x.frames`), because the
named predicates `MatInv`/`Inv` live in `CanVerif.Props.C10`, which imports this file.
-/
namespace CanVerif.LookupProofs
open CanVerif

/-! ## `lookupId` -/

theorem lookupId_frames_eq (w : World) (x : Mat) (id : Nat) (ext : Bool) :
    (lookupId w x id ext).2.frames = x.frames := by
  unfold lookupId
  split
  · split
    · rfl
    · split <;> rfl
  · split <;> rfl

theorem lookupId_memo_inv (w : World) (x : Mat) (hx : ∀ e ∈ x.memo, e.2 ∈ x.frames)
    (id : Nat) (ext : Bool) :
    ∀ e ∈ (lookupId w x id ext).2.memo, e.2 ∈ (lookupId w x id ext).2.frames := by
  rw [lookupId_frames_eq]
  unfold lookupId
  split
  · split
    · exact hx
    · split
      · rename_i h' hf
        intro e he
        simp only [List.mem_cons] at he
        rcases he with rfl | he
        · exact List.mem_of_find?_eq_some hf
        · exact hx e (List.mem_filter.mp he).1
      · exact hx
  · split
    · rename_i h' hf
      intro e he
      simp only [List.mem_cons] at he
      rcases he with rfl | he
      · exact List.mem_of_find?_eq_some hf
      · exact hx e he
    · exact hx

theorem lookupId_sound (w : World) (x : Mat) (hx : ∀ e ∈ x.memo, e.2 ∈ x.frames)
    (id : Nat) (ext : Bool) (h : Nat)
    (hr : (lookupId w x id ext).1 = some h) : h ∈ x.frames ∧ carriesId w id ext h = true := by
  unfold lookupId at hr
  split at hr
  · rename_i h0 hm
    split at hr
    · rename_i hc
      simp only [Option.some.injEq] at hr
      subst hr
      refine ⟨?_, hc⟩
      rw [Option.map_eq_some_iff] at hm
      obtain ⟨e, he, rfl⟩ := hm
      exact hx e (List.mem_of_find?_eq_some he)
    · split at hr
      · rename_i h' hf
        simp only [Option.some.injEq] at hr
        subst hr
        exact ⟨List.mem_of_find?_eq_some hf, List.find?_some hf⟩
      · simp at hr
  · split at hr
    · rename_i h' hf
      simp only [Option.some.injEq] at hr
      subst hr
      exact ⟨List.mem_of_find?_eq_some hf, List.find?_some hf⟩
    · simp at hr

theorem lookupId_complete (w : World) (x : Mat) (hx : ∀ e ∈ x.memo, e.2 ∈ x.frames)
    (id : Nat) (ext : Bool) :
    (lookupId w x id ext).1 = none ↔ ∀ h ∈ x.frames, carriesId w id ext h = false := by
  constructor
  · intro hr
    unfold lookupId at hr
    split at hr
    · split at hr
      · simp at hr
      · split at hr
        · simp at hr
        · rename_i hf
          intro h hh
          have := List.find?_eq_none.mp hf h hh
          simpa using this
    · split at hr
      · simp at hr
      · rename_i hf
        intro h hh
        have := List.find?_eq_none.mp hf h hh
        simpa using this
  · intro hall
    cases hr : (lookupId w x id ext).1 with
    | none => rfl
    | some h =>
      have := lookupId_sound w x hx id ext h hr
      rw [hall h this.1] at this
      exact absurd this.2 (by simp)

/-! ## generic `find?` soundness/completeness for a predicate through the heap -/

theorem find_obj_sound (w : World) (fs : List Nat) (P : FObj → Bool) (h : Nat)
    (hr : fs.find? (fun h => match w.obj h with | some o => P o | none => false) = some h) :
    h ∈ fs ∧ ∃ o, w.obj h = some o ∧ P o = true := by
  refine ⟨List.mem_of_find?_eq_some hr, ?_⟩
  have := List.find?_some hr
  split at this
  · rename_i o ho
    exact ⟨o, ho, this⟩
  · simp at this

theorem find_obj_complete (w : World) (fs : List Nat) (P : FObj → Bool) :
    fs.find? (fun h => match w.obj h with | some o => P o | none => false) = none ↔
      ∀ h ∈ fs, ∀ o, w.obj h = some o → P o = false := by
  rw [List.find?_eq_none]
  constructor
  · intro hall h hh o ho
    have := hall h hh
    simp only [ho] at this
    simpa using this
  · intro hall h hh
    cases ho : w.obj h with
    | none => simp
    | some o => simp [hall h hh o ho]

theorem lookupName_sound_complete (w : World) (x : Mat) (name : String) :
    (∀ h, lookupName w x name = some h → h ∈ x.frames ∧ ∃ o, w.obj h = some o ∧ o.name = name) ∧
    (lookupName w x name = none ↔ ∀ h ∈ x.frames, ∀ o, w.obj h = some o → o.name ≠ name) := by
  constructor
  · intro h hr
    obtain ⟨hm, o, ho, hp⟩ := find_obj_sound w x.frames (fun o => o.name == name) h hr
    exact ⟨hm, o, ho, by simpa using hp⟩
  · refine Iff.trans (find_obj_complete w x.frames (fun o => o.name == name)) ?_
    simp

theorem fromPgn_ok (p : Nat) (hp : p < 2 ^ 18) :
    ArbId.fromPgn p = .ok { id := p <<< 8, ext := true } := by
  unfold ArbId.fromPgn ArbId.make
  have h1 : ¬ (((p <<< 8 : Nat) : Int) < 0) := by omega
  rw [if_neg h1]
  simp only [Int.toNat_natCast, if_true]
  have hm : ArbId.extendedMask = 2 ^ 29 - 1 := by decide
  rw [hm, Nat.and_two_pow_sub_one_eq_mod, Nat.shiftLeft_eq]
  have : p * 2 ^ 8 % 2 ^ 29 = p * 2 ^ 8 := Nat.mod_eq_of_lt (by omega)
  simp [this]

theorem lookupPgn_sound_complete (w : World) (x : Mat) (p : Nat) (hp : p < 2 ^ 18) :
    ∃ q, ArbId.fromPgn p = .ok q ∧
    (∀ h, lookupPgn w x p = some h → h ∈ x.frames ∧ ∃ o, w.obj h = some o ∧ o.ext = true ∧
        ArbId.pgnOfId o.id = ArbId.pgnOfId q.id) ∧
    (lookupPgn w x p = none ↔ ∀ h ∈ x.frames, ∀ o, w.obj h = some o → o.ext = true →
        ArbId.pgnOfId o.id ≠ ArbId.pgnOfId q.id) := by
  refine ⟨_, fromPgn_ok p hp, ?_, ?_⟩
  · intro h hr
    unfold lookupPgn at hr
    rw [fromPgn_ok p hp] at hr
    obtain ⟨hm, o, ho, hp⟩ := find_obj_sound w x.frames
      (fun o => o.ext && ArbId.pgnOfId o.id == ArbId.pgnOfId (p <<< 8)) h hr
    exact ⟨hm, o, ho, by simpa using hp⟩
  · unfold lookupPgn
    rw [fromPgn_ok p hp]
    refine Iff.trans (find_obj_complete w x.frames
      (fun o => o.ext && ArbId.pgnOfId o.id == ArbId.pgnOfId (p <<< 8))) ?_
    simp

/-! ## the invariant (unfolded form of `C10.MatInv` / `C10.Inv`) -/

abbrev MInv (x : Mat) : Prop := ∀ e ∈ x.memo, e.2 ∈ x.frames
abbrev WInv (w : World) : Prop := ∀ x ∈ w.mats, MInv x

theorem mat_mem {w : World} {m : Nat} {x : Mat} (h : w.mat m = some x) : x ∈ w.mats :=
  List.mem_of_getElem? h

theorem setMat_inv {w : World} (hw : WInv w) (m : Nat) {x : Mat} (hx : MInv x) :
    WInv (w.setMat m x) := by
  intro y hy
  rcases List.mem_or_eq_of_mem_set hy with hy | rfl
  · exact hw y hy
  · exact hx

theorem minv_nil (fs : List Nat) : MInv { frames := fs, memo := [] } := by
  intro e he; simp at he

theorem copyFrameStep_inv (w : World) (src dst id : Nat) (ext : Bool) (hw : WInv w) :
    WInv (copyFrameStep w src dst id ext).1 := by
  unfold copyFrameStep
  split
  · exact hw
  · rename_i xs hxs
    have hxsI : MInv xs := hw xs (mat_mem hxs)
    have h1 : WInv (w.setMat src (lookupId w xs id ext).2) :=
      setMat_inv hw src (lookupId_memo_inv w xs hxsI id ext)
    split
    rename_i r xs' heq
    have hxs' : xs' = (lookupId w xs id ext).2 := by rw [heq]
    subst hxs'
    simp only
    split
    · exact h1
    · split
      · rename_i xd o hxd ho
        have hxdI : MInv xd := h1 xd (mat_mem hxd)
        have h2 := setMat_inv h1 dst (lookupId_memo_inv (w.setMat src (lookupId w xs id ext).2) xd hxdI o.id o.ext)
        split
        · exact h2
        · exact setMat_inv (w := { heap := _, mats := _ }) h2 dst (minv_nil _)
      · exact h1

theorem foldl_copy_pres (P : World → Prop) (src dst : Nat)
    (hP : ∀ w id ext, P w → P (copyFrameStep w src dst id ext).1) (fs : List Nat) :
    ∀ w, P w → P (fs.foldl (fun acc h =>
      match acc.obj h with
      | some o => (copyFrameStep acc src dst o.id o.ext).1
      | none => acc) w) := by
  induction fs with
  | nil => intro w hw; exact hw
  | cons h t ih =>
    intro w hw
    rw [List.foldl_cons]
    apply ih
    split
    · exact hP _ _ _ hw
    · exact hw

theorem step_inv (w : World) (op : LOp) (hw : WInv w) : WInv (step w op).1 := by
  cases op with
  | newMatrix =>
    intro x hx
    simp only [step, List.mem_append, List.mem_singleton] at hx
    rcases hx with hx | rfl
    · exact hw x hx
    · exact minv_nil _
  | newFrame name id ext => exact hw
  | addFrame m h =>
    simp only [step]
    split
    · exact setMat_inv hw m (minv_nil _)
    · exact hw
  | appendFrame m h =>
    simp only [step]
    split
    · rename_i x hx
      refine setMat_inv hw m ?_
      intro e he
      exact List.mem_append_left _ (hw x (mat_mem hx) e he)
    · exact hw
  | removeFrame m h =>
    simp only [step]
    split
    · split
      · exact setMat_inv hw m (minv_nil _)
      · exact hw
    · exact hw
  | delFrame m h =>
    simp only [step]
    split
    · split
      · exact setMat_inv hw m (minv_nil _)
      · exact hw
    · exact hw
  | delFrameByName m name =>
    simp only [step]
    split
    · split
      · exact setMat_inv hw m (minv_nil _)
      · exact hw
    · exact hw
  | renameFrame m old new =>
    simp only [step]
    split
    · exact hw
    · exact hw
  | setId h id ext =>
    simp only [step]
    split
    · exact hw
    · exact hw
  | addEcu m =>
    simp only [step]
    split
    · exact setMat_inv hw m (minv_nil _)
    · exact hw
  | copyFrame src dst id ext => exact copyFrameStep_inv w src dst id ext hw
  | merge dst src =>
    simp only [step]
    split
    · rename_i xs _ hxs hxd
      have hf := foldl_copy_pres WInv src dst
        (fun w id ext h => copyFrameStep_inv w src dst id ext h) xs.frames w hw
      split
      · exact setMat_inv hf dst (minv_nil _)
      · exact hf
    · exact hw
  | deepcopy m =>
    simp only [step]
    split
    · rename_i x hx
      intro y hy
      simp only [List.mem_append, List.mem_singleton] at hy
      rcases hy with hy | rfl
      · exact hw y hy
      · intro e he
        simp only [List.mem_filterMap] at he
        obtain ⟨e0, he0, hif⟩ := he
        split at hif
        · simp only [Option.some.injEq] at hif
          subst hif
          exact List.mem_map_of_mem (hw x (mat_mem hx) e0 he0)
        · simp at hif
    · exact hw
  | loadMatrix fs =>
    intro x hx
    simp only [step, List.mem_append, List.mem_singleton] at hx
    rcases hx with hx | rfl
    · exact hw x hx
    · exact minv_nil _
  | byId m id ext =>
    simp only [step]
    split
    · rename_i x hx
      exact setMat_inv hw m (lookupId_memo_inv w x (hw x (mat_mem hx)) id ext)
    · exact hw
  | byName m name =>
    simp only [step]
    split <;> exact hw
  | byPgn m p =>
    simp only [step]
    split <;> exact hw

/-! ## frame conditions -/

theorem setMat_mats_ne (w : World) {m i : Nat} (x : Mat) (h : i ≠ m) :
    (w.setMat m x).mats[i]? = w.mats[i]? := by
  simp only [World.setMat]
  exact List.getElem?_set_ne (Ne.symm h)

theorem setMat_heap (w : World) (m : Nat) (x : Mat) : (w.setMat m x).heap = w.heap := rfl

theorem copyFrameStep_mats_ne (w : World) (src dst id : Nat) (ext : Bool) (i : Nat)
    (hs : i ≠ src) (hd : i ≠ dst) : (copyFrameStep w src dst id ext).1.mats[i]? = w.mats[i]? := by
  unfold copyFrameStep
  split
  · rfl
  · split
    simp only
    split
    · exact setMat_mats_ne w _ hs
    · split
      · split
        · rw [setMat_mats_ne _ _ hd, setMat_mats_ne _ _ hs]
        · rw [setMat_mats_ne _ _ hd]
          simp only
          rw [setMat_mats_ne _ _ hd, setMat_mats_ne _ _ hs]
      · exact setMat_mats_ne w _ hs

theorem copyFrameStep_heap (w : World) (src dst id : Nat) (ext : Bool) :
    ∃ l, (copyFrameStep w src dst id ext).1.heap = w.heap ++ l := by
  unfold copyFrameStep
  split
  · exact ⟨[], by simp⟩
  · split
    simp only
    split
    · exact ⟨[], by simp [setMat_heap]⟩
    · split
      · split
        · exact ⟨[], by simp [setMat_heap]⟩
        · exact ⟨_, rfl⟩
      · exact ⟨[], by simp [setMat_heap]⟩

theorem foldl_copy_mats_ne (w : World) (src dst : Nat) (fs : List Nat) (i : Nat)
    (hs : i ≠ src) (hd : i ≠ dst) :
    (fs.foldl (fun acc h =>
      match acc.obj h with
      | some o => (copyFrameStep acc src dst o.id o.ext).1
      | none => acc) w).mats[i]? = w.mats[i]? :=
  foldl_copy_pres (fun w' => w'.mats[i]? = w.mats[i]?) src dst
    (fun w' id ext h => (copyFrameStep_mats_ne w' src dst id ext i hs hd).trans h) fs w rfl

theorem foldl_copy_heap (w : World) (src dst : Nat) (fs : List Nat) :
    ∃ l, (fs.foldl (fun acc h =>
      match acc.obj h with
      | some o => (copyFrameStep acc src dst o.id o.ext).1
      | none => acc) w).heap = w.heap ++ l :=
  foldl_copy_pres (fun w' => ∃ l, w'.heap = w.heap ++ l) src dst
    (fun w' id ext h => by
      obtain ⟨l, hl⟩ := h
      obtain ⟨l', hl'⟩ := copyFrameStep_heap w' src dst id ext
      exact ⟨l ++ l', by rw [hl', hl, List.append_assoc]⟩) fs w ⟨[], by simp⟩

/-- every operation except the two explicit frame edits only appends to the heap -/
theorem step_heap (w : World) (op : LOp)
    (hop : ∀ a b c, op ≠ .setId a b c) (hop' : ∀ a b c, op ≠ .renameFrame a b c) :
    ∃ l, (step w op).1.heap = w.heap ++ l := by
  have nil : ∃ l, w.heap = w.heap ++ l := ⟨[], by simp⟩
  cases op with
  | newMatrix => exact nil
  | newFrame name id ext => exact ⟨_, rfl⟩
  | addFrame m h => simp only [step]; split <;> exact nil
  | appendFrame m h => simp only [step]; split <;> exact nil
  | removeFrame m h =>
    simp only [step]
    split
    · split <;> exact nil
    · exact nil
  | delFrame m h =>
    simp only [step]
    split
    · split <;> exact nil
    · exact nil
  | delFrameByName m name =>
    simp only [step]
    split
    · split <;> exact nil
    · exact nil
  | renameFrame m old new => exact absurd rfl (hop' m old new)
  | setId h id ext => exact absurd rfl (hop h id ext)
  | addEcu m => simp only [step]; split <;> exact nil
  | copyFrame src dst id ext => exact copyFrameStep_heap w src dst id ext
  | merge dst src =>
    simp only [step]
    split
    · rename_i xs _ _ _
      have hf := foldl_copy_heap w src dst xs.frames
      split
      · exact hf
      · exact hf
    · exact nil
  | deepcopy m =>
    simp only [step]
    split
    · exact ⟨_, rfl⟩
    · exact nil
  | loadMatrix fs => exact ⟨_, rfl⟩
  | byId m id ext => simp only [step]; split <;> exact nil
  | byName m name => simp only [step]; split <;> exact nil
  | byPgn m p => simp only [step]; split <;> exact nil

end CanVerif.LookupProofs
