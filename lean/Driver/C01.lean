import Driver.Common
open Lean CanVerif

namespace D01

/-- op "dec": c = {"f": frame, "data": [bytes], "at": bool, "ae": bool, "api": "decode"|"unpack"|"mdecode"}
impl i = {"ok": {name: value}} | {"ok": "unmodelled"} | {"err": kind} -/
def handle (op : String) (c i : Json) : Except String (Json × String) := do
  match op with
  | "dec" =>
    let f ← DC.frame (← J.key c "f")
    let data ← J.natList (← J.key c "data")
    let at_ ← J.bool (← J.key c "at")
    let ae ← J.bool (← J.key c "ae")
    let api ← J.str (← J.key c "api")
    let r := if api == "unpack" then f.unpack data at_ ae else f.decode data
    let m := DC.resJson f r
    -- spec on the implementation's observation
    let useAt := if api == "unpack" then at_ else false
    let useAe := if api == "unpack" then ae else false
    let s ← match Spec.fit f.size data useAt useAe with
      | none =>
        match i.getObjVal? "err" with
        | .ok (Json.str "frameLength") => pure "ok"
        | _ => pure "fail: payload of wrong length was not refused with a length error"
      | some p =>
        match i.getObjVal? "ok" with
        | .error _ =>
          -- errors other than the length error are C03's business (mux/container); a length error here is wrong
          match i.getObjVal? "err" with
          | .ok (Json.str "frameLength") => pure "fail: payload of acceptable length refused"
          | .ok (Json.str e) =>
            -- the declared error classes (multiplexing, container) are C03's business; anything else is a crash of the decoder
            pure (if e.startsWith "exc:" then "fail: decoding a payload of acceptable length raised " ++ e else "ok")
          | _ => pure "ok"
        | .ok (Json.str _) => pure "ok"
        | .ok o =>
          let kvs ← DC.dictOf o
          let bad := kvs.filterMap fun (k, v) =>
            match f.sigs.find? (·.name == k) with
            | none => some s!"unknown key {k}"
            | some sg =>
              if !Spec.insideFrame (DC.specSig sg) f.size then none else
              let want := DC.valJson sg (Spec.valueOf (DC.specSig sg) p)
              if want == v then none else some s!"signal {k}: got {v.compress} want {want.compress}"
          pure (match bad with
            | [] => "ok"
            | b :: _ => "fail: " ++ b)
    pure (m, s)
  | _ => throw s!"C01: unknown op {op}"

end D01
