import CanVerif.Model.Convert
import CanVerif.Proofs.Convert
/-!
# Lemmas about the selection options `--frames` (`selectFrames`) and `--ecus` (`selectEcus`) of the model of convert.py

Used by Props/C18s.lean.
-/
namespace CanVerif.Conv.SelectProofs
open CanVerif CanVerif.Conv

/-! ## generic fold lemmas -/

theorem foldl_inv_mem {α β : Type} (step : β → α → β) (P : β → Prop) :
    ∀ (l : List α) (b : β), (∀ t a, a ∈ l → P t → P (step t a)) → P b → P (l.foldl step b)
  | [], _, _, h => h
  | a :: l, b, hI, h => by
    rw [List.foldl_cons]
    exact foldl_inv_mem step P l _ (fun t x hx => hI t x (List.mem_cons_of_mem _ hx)) (hI b a List.mem_cons_self h)

/-- a property that every step keeps and the step for `a` establishes holds after a fold over a list containing `a` -/
theorem foldl_establish {α β : Type} (step : β → α → β) (M : β → Prop) (a : α)
    (hmono : ∀ t b, M t → M (step t b)) (hest : ∀ t, M (step t a)) :
    ∀ (l : List α) (b : β), a ∈ l → M (l.foldl step b)
  | x :: l, b, h => by
    rw [List.foldl_cons]
    rcases List.mem_cons.1 h with rfl | h'
    · exact foldl_inv_mem step M l _ (fun t y _ => hmono t y) (hest b)
    · exact foldl_establish step M a hmono hest l _ h'

theorem pairwise_of_mem_ne {α : Type} {R : α → α → Prop} (hsym : ∀ a b, R a b → R b a) :
    ∀ {l : List α}, l.Pairwise R → ∀ a ∈ l, ∀ b ∈ l, a ≠ b → R a b
  | [], _, a, ha, _, _, _ => by cases ha
  | x :: l, hp, a, ha, b, hb, hne => by
    rw [List.pairwise_cons] at hp
    rcases List.mem_cons.1 ha with rfl | ha'
    · rcases List.mem_cons.1 hb with rfl | hb'
      · exact absurd rfl hne
      · exact hp.1 b hb'
    · rcases List.mem_cons.1 hb with rfl | hb'
      · exact hsym _ _ (hp.1 a ha')
      · exact pairwise_of_mem_ne hsym hp.2 a ha' b hb' hne

/-! ## `addUnique` keeps a list free of repetitions -/

theorem nodup_addUnique (l : List String) (x : String) (h : l.Nodup) : (addUnique l x).Nodup := by
  unfold addUnique
  split
  · exact h
  · rename_i hc
    have hx : x ∉ l := fun hx => hc (List.contains_iff_mem.2 hx)
    rw [List.nodup_append]
    refine ⟨h, List.pairwise_singleton _ _, ?_⟩
    intro a ha b hb
    rw [List.mem_singleton] at hb
    intro hab
    rw [hab, hb] at ha
    exact hx ha

theorem nodup_foldl_addUnique : ∀ (l acc : List String), acc.Nodup → (l.foldl addUnique acc).Nodup
  | [], _, h => h
  | x :: l, acc, h => by
    rw [List.foldl_cons]
    exact nodup_foldl_addUnique l _ (nodup_addUnique acc x h)

/-! ## the copy of one frame into the target (`copy_frame` with its guard) -/

/-- names of the ECUs a frame refers to -/
def refsOf (f : KFrame) : List String := f.tx ++ f.sigs.flatMap (·.receivers)

/-- the matrix has a frame with the identifier (number and format) of `f` -/
def hasId (t : KMat) (f : KFrame) : Prop := ∃ g ∈ t.frames, g.id = f.id ∧ g.ext = f.ext

def uniqIds (m : KMat) : Prop := m.frames.Pairwise fun f g => ¬ (f.id = g.id ∧ f.ext = g.ext)

def copyStep (src t : KMat) (f : KFrame) : KMat :=
  if t.frames.any (fun g => g.id == f.id && g.ext == f.ext) then t
  else
    let refs := (f.tx ++ f.sigs.flatMap (·.receivers)).filter src.ecus.contains
    { ecus := refs.foldl addUnique t.ecus, frames := t.frames ++ [f] }

theorem any_iff_hasId (t : KMat) (f : KFrame) :
    t.frames.any (fun g => g.id == f.id && g.ext == f.ext) = true ↔ hasId t f := by
  unfold hasId
  rw [List.any_eq_true]
  constructor
  · rintro ⟨g, hg, h⟩
    rw [Bool.and_eq_true, beq_iff_eq, beq_iff_eq] at h
    exact ⟨g, hg, h⟩
  · rintro ⟨g, hg, h⟩
    refine ⟨g, hg, ?_⟩
    rw [Bool.and_eq_true, beq_iff_eq, beq_iff_eq]
    exact h

theorem copyStep_of_has {src t : KMat} {f : KFrame} (h : hasId t f) : copyStep src t f = t := by
  unfold copyStep
  rw [if_pos ((any_iff_hasId t f).2 h)]

theorem copyStep_of_not {src t : KMat} {f : KFrame} (h : ¬ hasId t f) :
    copyStep src t f = { ecus := ((refsOf f).filter src.ecus.contains).foldl addUnique t.ecus, frames := t.frames ++ [f] } := by
  unfold copyStep
  rw [if_neg (fun hc => h ((any_iff_hasId t f).1 hc))]
  rfl

theorem copyStep_hasId_self (src t : KMat) (f : KFrame) : hasId (copyStep src t f) f := by
  by_cases h : hasId t f
  · rw [copyStep_of_has h]; exact h
  · rw [copyStep_of_not h]
    exact ⟨f, List.mem_append_right _ List.mem_cons_self, rfl, rfl⟩

theorem copyStep_frames_sup {src t : KMat} {f g : KFrame} (hg : g ∈ t.frames) : g ∈ (copyStep src t f).frames := by
  by_cases h : hasId t f
  · rw [copyStep_of_has h]; exact hg
  · rw [copyStep_of_not h]
    exact List.mem_append_left _ hg

theorem copyStep_frames_sub {src t : KMat} {f g : KFrame} (hg : g ∈ (copyStep src t f).frames) :
    g ∈ t.frames ∨ (g = f ∧ ¬ hasId t f) := by
  by_cases h : hasId t f
  · rw [copyStep_of_has h] at hg; exact Or.inl hg
  · rw [copyStep_of_not h] at hg
    rcases List.mem_append.1 hg with h1 | h1
    · exact Or.inl h1
    · exact Or.inr ⟨List.mem_singleton.1 h1, h⟩

theorem copyStep_hasId_mono {src t : KMat} {f g : KFrame} (hg : hasId t g) : hasId (copyStep src t f) g := by
  obtain ⟨x, hx, h⟩ := hg
  exact ⟨x, copyStep_frames_sup hx, h⟩

theorem copyStep_ecus_iff (src t : KMat) (f : KFrame) (e : String) :
    e ∈ (copyStep src t f).ecus ↔ e ∈ t.ecus ∨ (¬ hasId t f ∧ e ∈ refsOf f ∧ e ∈ src.ecus) := by
  by_cases h : hasId t f
  · rw [copyStep_of_has h]
    constructor
    · exact Or.inl
    · rintro (h1 | ⟨h1, _⟩)
      · exact h1
      · exact absurd h h1
  · rw [copyStep_of_not h]
    show e ∈ ((refsOf f).filter src.ecus.contains).foldl addUnique t.ecus ↔ _
    rw [mem_foldl_addUnique, List.mem_filter, List.contains_iff_mem]
    constructor
    · rintro (h1 | h1)
      · exact Or.inl h1
      · exact Or.inr ⟨h, h1⟩
    · rintro (h1 | ⟨_, h1⟩)
      · exact Or.inl h1
      · exact Or.inr h1

theorem copyStep_ecus_mono {src t : KMat} {f : KFrame} {e : String} (he : e ∈ t.ecus) : e ∈ (copyStep src t f).ecus :=
  (copyStep_ecus_iff src t f e).2 (Or.inl he)

theorem copyStep_nodup {src t : KMat} {f : KFrame} (h : t.ecus.Nodup) : (copyStep src t f).ecus.Nodup := by
  by_cases hh : hasId t f
  · rw [copyStep_of_has hh]; exact h
  · rw [copyStep_of_not hh]
    exact nodup_foldl_addUnique _ _ h

theorem copyStep_uniq {src t : KMat} {f : KFrame} (h : uniqIds t) : uniqIds (copyStep src t f) := by
  by_cases hh : hasId t f
  · rw [copyStep_of_has hh]; exact h
  · rw [copyStep_of_not hh]
    unfold uniqIds
    show (t.frames ++ [f]).Pairwise _
    rw [List.pairwise_append]
    refine ⟨h, List.pairwise_singleton _ _, ?_⟩
    intro a ha b hb
    rw [List.mem_singleton] at hb
    rw [hb]
    exact fun hab => hh ⟨a, ha, hab⟩

/-- the ECU list holds exactly the source's ECUs that a frame refers to -/
def ecusExact (src t : KMat) : Prop := ∀ e, e ∈ t.ecus ↔ e ∈ src.ecus ∧ ∃ g ∈ t.frames, e ∈ refsOf g

theorem copyStep_ecusExact {src t : KMat} {f : KFrame} (h : ecusExact src t) : ecusExact src (copyStep src t f) := by
  intro e
  by_cases hh : hasId t f
  · rw [copyStep_of_has hh]; exact h e
  · rw [copyStep_ecus_iff, h e, copyStep_of_not hh]
    show _ ↔ e ∈ src.ecus ∧ ∃ g ∈ t.frames ++ [f], e ∈ refsOf g
    constructor
    · rintro (⟨h1, g, hg, h2⟩ | ⟨_, h1, h2⟩)
      · exact ⟨h1, g, List.mem_append_left _ hg, h2⟩
      · exact ⟨h2, f, List.mem_append_right _ List.mem_cons_self, h1⟩
    · rintro ⟨h1, g, hg, h2⟩
      rcases List.mem_append.1 hg with hg' | hg'
      · exact Or.inl ⟨h1, g, hg', h2⟩
      · rw [List.mem_singleton.1 hg'] at h2
        exact Or.inr ⟨hh, h2, h1⟩

/-! ## `--frames` -/

def frameStep (src : KMat) (t : KMat) (n : String) : Option KMat :=
  match src.frames.find? (·.name == n) with
  | none => none
  | some f => some (copyStep src t f)

theorem selectFrames_eq (src : KMat) (names : List String) (acc : KMat) :
    selectFrames src names acc = names.foldlM (frameStep src) acc := by
  unfold selectFrames
  congr
  funext t n
  unfold frameStep copyStep
  generalize List.find? (fun x : KFrame => x.name == n) src.frames = o
  cases o with
  | none => rfl
  | some f =>
    show (if _ then _ else _) = some (if _ then _ else _)
    split <;> rfl

theorem frameStep_eq_some {src t : KMat} {n : String} {r : KMat} (h : frameStep src t n = some r) :
    ∃ f, src.frames.find? (·.name == n) = some f ∧ r = copyStep src t f := by
  unfold frameStep at h
  split at h
  · cases h
  · rename_i f hf
    exact ⟨f, hf, (Option.some.inj h).symm⟩

theorem find_some_spec {src : KMat} {n : String} {f : KFrame} (h : src.frames.find? (·.name == n) = some f) :
    f ∈ src.frames ∧ f.name = n :=
  ⟨List.mem_of_find?_eq_some h, beq_iff_eq.1 (List.find?_some (p := fun x : KFrame => x.name == n) h)⟩

theorem foldlM_cons_some {src : KMat} {n : String} {ns : List String} {acc r : KMat}
    (h : (n :: ns).foldlM (frameStep src) acc = some r) :
    ∃ f, src.frames.find? (·.name == n) = some f ∧ ns.foldlM (frameStep src) (copyStep src acc f) = some r := by
  rw [List.foldlM_cons] at h
  obtain ⟨t, ht, hr⟩ := Option.bind_eq_some_iff.1 h
  obtain ⟨f, hf, rfl⟩ := frameStep_eq_some ht
  exact ⟨f, hf, hr⟩

theorem foldlM_inv (src : KMat) (P : KMat → Prop) :
    ∀ (names : List String) (acc r : KMat),
      (∀ t n f, n ∈ names → src.frames.find? (·.name == n) = some f → P t → P (copyStep src t f)) →
      names.foldlM (frameStep src) acc = some r → P acc → P r
  | [], acc, r, _, h, hp => by
    rw [List.foldlM_nil] at h
    cases h
    exact hp
  | n :: ns, acc, r, hI, h, hp => by
    obtain ⟨f, hf, hr⟩ := foldlM_cons_some h
    exact foldlM_inv src P ns _ r (fun t m g hm => hI t m g (List.mem_cons_of_mem _ hm)) hr
      (hI acc n f List.mem_cons_self hf hp)

theorem frameStep_isSome (src t : KMat) (n : String) : (frameStep src t n).isSome ↔ ∃ f ∈ src.frames, f.name = n := by
  unfold frameStep
  constructor
  · intro h
    split at h
    · cases h
    · rename_i f hf
      exact ⟨f, (find_some_spec hf).1, (find_some_spec hf).2⟩
  · rintro ⟨f, hf, hn⟩
    split
    · rename_i hnone
      rw [List.find?_eq_none] at hnone
      exact absurd (beq_iff_eq.2 hn) (hnone f hf)
    · rfl

theorem foldlM_isSome (src : KMat) : ∀ (names : List String) (acc : KMat),
    (names.foldlM (frameStep src) acc).isSome ↔ ∀ n ∈ names, ∃ f ∈ src.frames, f.name = n
  | [], acc => by
    rw [List.foldlM_nil]
    constructor
    · intro _ n hn; cases hn
    · intro _; rfl
  | n :: ns, acc => by
    rw [List.foldlM_cons, List.forall_mem_cons, ← frameStep_isSome src acc n]
    cases h : frameStep src acc n with
    | none =>
      constructor
      · intro h'; cases h'
      · intro h'; cases h'.1
    | some t =>
      show (ns.foldlM (frameStep src) t).isSome ↔ _
      rw [foldlM_isSome src ns t]
      constructor
      · intro h'; exact ⟨rfl, h'⟩
      · intro h'; exact h'.2

theorem selectFrames_isSome (src : KMat) (names : List String) (acc : KMat) :
    (selectFrames src names acc).isSome ↔ ∀ n ∈ names, ∃ f ∈ src.frames, f.name = n := by
  rw [selectFrames_eq]; exact foldlM_isSome src names acc

theorem selectFrames_from_source (src r : KMat) (names : List String) (h : selectFrames src names {} = some r) :
    ∀ g ∈ r.frames, g ∈ src.frames ∧ g.name ∈ names := by
  rw [selectFrames_eq] at h
  refine foldlM_inv src (fun t => ∀ g ∈ t.frames, g ∈ src.frames ∧ g.name ∈ names) names {} r ?_ h ?_
  · intro t n f hn hf hp g hg
    rcases copyStep_frames_sub hg with h1 | ⟨h1, _⟩
    · exact hp g h1
    · rw [h1, (find_some_spec hf).2]
      exact ⟨(find_some_spec hf).1, hn⟩
  · intro g hg; cases hg

theorem foldlM_mono {src : KMat} {names : List String} {acc r : KMat} {f : KFrame}
    (h : names.foldlM (frameStep src) acc = some r) (hf : hasId acc f) : hasId r f :=
  foldlM_inv src (fun t => hasId t f) names acc r (fun _ _ _ _ _ hp => copyStep_hasId_mono hp) h hf

theorem foldlM_complete (src : KMat) : ∀ (names : List String) (acc r : KMat),
    names.foldlM (frameStep src) acc = some r →
    ∀ n ∈ names, ∀ f, src.frames.find? (·.name == n) = some f → hasId r f
  | [], _, _, _, _, hn, _, _ => by cases hn
  | n' :: ns, acc, r, h, n, hn, f, hf => by
    obtain ⟨f', hf', hr⟩ := foldlM_cons_some h
    rcases List.mem_cons.1 hn with rfl | hn'
    · rw [hf] at hf'
      cases hf'
      exact foldlM_mono hr (copyStep_hasId_self _ _ _)
    · exact foldlM_complete src ns _ r hr n hn' f hf

theorem selectFrames_complete (src r : KMat) (names : List String) (h : selectFrames src names {} = some r) :
    ∀ n ∈ names, ∀ f, src.frames.find? (·.name == n) = some f → hasId r f := by
  rw [selectFrames_eq] at h
  exact foldlM_complete src names {} r h

theorem selectFrames_uniq (src r : KMat) (names : List String) (h : selectFrames src names {} = some r) : uniqIds r := by
  rw [selectFrames_eq] at h
  exact foldlM_inv src uniqIds names {} r (fun _ _ _ _ _ hp => copyStep_uniq hp) h List.Pairwise.nil

theorem selectFrames_ecusExact (src r : KMat) (names : List String) (h : selectFrames src names {} = some r) :
    ecusExact src r := by
  rw [selectFrames_eq] at h
  refine foldlM_inv src (ecusExact src) names {} r (fun _ _ _ _ _ hp => copyStep_ecusExact hp) h ?_
  intro e
  constructor
  · intro he; cases he
  · rintro ⟨_, g, hg, _⟩; cases hg

/-! ## `--ecus`: the copying phase -/

/-- the frames `e` sends, copied -/
def phaseTx (src : KMat) (e : String) (t : KMat) : KMat :=
  (src.frames.filter fun f => f.tx.contains e).foldl (copyStep src) t

/-- the frames of which `e` receives a signal, copied -/
def phaseRx (src : KMat) (e : String) (t : KMat) : KMat :=
  (src.frames.filter fun f => f.sigs.any fun s => s.receivers.contains e).foldl (copyStep src) t

def ecuStep (src : KMat) (d : Dir) (t : KMat) (e : String) : KMat :=
  let t0 : KMat := { t with ecus := addUnique t.ecus e }
  let a := if d != .rx then phaseTx src e t0 else t0
  if d != .tx then phaseRx src e a else a

def itemStep (src : KMat) (t : KMat) (it : String × Dir) : KMat :=
  let t1 := (src.ecus.filter (globMatch it.1 ·)).foldl (ecuStep src it.2) t
  { t1 with ecus := (usedEcus t1).foldl addUnique t1.ecus }

def copied (src : KMat) (items : List (String × Dir)) : KMat := items.foldl (itemStep src) {}

def sel (src : KMat) (items : List (String × Dir)) : List String :=
  items.flatMap fun it => src.ecus.filter (globMatch it.1 ·)

theorem selectEcus_eq (src : KMat) (items : List (String × Dir)) :
    selectEcus src items = pruneIndirect (copied src items) (sel src items) := rfl

/-- why the item with direction `d` and the ECU `e` ask for the frame `f` -/
def asks (d : Dir) (e : String) (f : KFrame) : Prop :=
  (d ≠ .rx ∧ e ∈ f.tx) ∨ (d ≠ .tx ∧ ∃ s ∈ f.sigs, e ∈ s.receivers)

def want (src : KMat) (items : List (String × Dir)) (f : KFrame) : Prop :=
  ∃ it ∈ items, ∃ e ∈ src.ecus, globMatch it.1 e = true ∧
    ((it.2 ≠ .rx ∧ e ∈ f.tx) ∨ (it.2 ≠ .tx ∧ ∃ s ∈ f.sigs, e ∈ s.receivers))

theorem mem_txList {src : KMat} {e : String} {f : KFrame} :
    f ∈ (src.frames.filter fun f => f.tx.contains e) ↔ f ∈ src.frames ∧ e ∈ f.tx := by
  rw [List.mem_filter, List.contains_iff_mem]

theorem mem_rxList {src : KMat} {e : String} {f : KFrame} :
    f ∈ (src.frames.filter fun f => f.sigs.any fun s => s.receivers.contains e) ↔
      f ∈ src.frames ∧ ∃ s ∈ f.sigs, e ∈ s.receivers := by
  rw [List.mem_filter, List.any_eq_true]
  constructor
  · rintro ⟨h, s, hs, hc⟩; exact ⟨h, s, hs, List.contains_iff_mem.1 hc⟩
  · rintro ⟨h, s, hs, hc⟩; exact ⟨h, s, hs, List.contains_iff_mem.2 hc⟩

/-- a property kept by every copy of a frame that is asked for and by additions to the ECU list is kept by the step for one ECU -/
theorem ecuStep_inv (src : KMat) (P : KMat → Prop) (d : Dir) (e : String)
    (hcopy : ∀ t f, f ∈ src.frames → asks d e f → P t → P (copyStep src t f))
    (hecus : ∀ (t : KMat) (l : List String), P t → P { t with ecus := l.foldl addUnique t.ecus })
    (t : KMat) (h : P t) : P (ecuStep src d t e) := by
  have h0 : P { t with ecus := addUnique t.ecus e } := hecus t [e] h
  have ha : P (if d != .rx then phaseTx src e { t with ecus := addUnique t.ecus e } else { t with ecus := addUnique t.ecus e }) := by
    split
    · rename_i hd
      refine foldl_inv_mem (copyStep src) P _ _ ?_ h0
      intro t' f hf hp
      rw [mem_txList] at hf
      exact hcopy t' f hf.1 (Or.inl ⟨bne_iff_ne.1 hd, hf.2⟩) hp
    · exact h0
  show P (if d != .tx then phaseRx src e _ else _)
  split
  · rename_i hd
    refine foldl_inv_mem (copyStep src) P _ _ ?_ ha
    intro t' f hf hp
    rw [mem_rxList] at hf
    exact hcopy t' f hf.1 (Or.inr ⟨bne_iff_ne.1 hd, hf.2⟩) hp
  · exact ha

theorem itemStep_inv (src : KMat) (P : KMat → Prop) (it : String × Dir)
    (hcopy : ∀ t f e, e ∈ src.ecus → globMatch it.1 e = true → f ∈ src.frames → asks it.2 e f → P t → P (copyStep src t f))
    (hecus : ∀ (t : KMat) (l : List String), P t → P { t with ecus := l.foldl addUnique t.ecus })
    (t : KMat) (h : P t) : P (itemStep src t it) := by
  have h1 : P ((src.ecus.filter (globMatch it.1 ·)).foldl (ecuStep src it.2) t) := by
    refine foldl_inv_mem (ecuStep src it.2) P _ _ ?_ h
    intro t' e he hp
    rw [List.mem_filter] at he
    exact ecuStep_inv src P it.2 e (fun t f hf ha => hcopy t f e he.1 he.2 hf ha) hecus t' hp
  exact hecus _ _ h1

theorem copied_inv (src : KMat) (items : List (String × Dir)) (P : KMat → Prop)
    (hcopy : ∀ t f, f ∈ src.frames → want src items f → P t → P (copyStep src t f))
    (hecus : ∀ (t : KMat) (l : List String), P t → P { t with ecus := l.foldl addUnique t.ecus })
    (h0 : P {}) : P (copied src items) := by
  refine foldl_inv_mem (itemStep src) P items _ ?_ h0
  intro t it hit hp
  exact itemStep_inv src P it (fun t f e he hm hf ha => hcopy t f hf ⟨it, hit, e, he, hm, ha⟩) hecus t hp

/-! the invariants of the copying phase -/

/-- (I1), (I3 →) every copied frame is a frame of the source that the option asks for -/
theorem copied_frames (src : KMat) (items : List (String × Dir)) :
    ∀ g ∈ (copied src items).frames, g ∈ src.frames ∧ want src items g := by
  refine copied_inv src items (fun t => ∀ g ∈ t.frames, g ∈ src.frames ∧ want src items g) ?_ ?_ ?_
  · intro t f hf hw hp g hg
    rcases copyStep_frames_sub hg with h1 | ⟨h1, _⟩
    · exact hp g h1
    · rw [h1]; exact ⟨hf, hw⟩
  · intro t l hp; exact hp
  · intro g hg; cases hg

/-- (I2) -/
theorem copied_uniq (src : KMat) (items : List (String × Dir)) : uniqIds (copied src items) :=
  copied_inv src items uniqIds (fun _ _ _ _ hp => copyStep_uniq hp) (fun _ _ hp => hp) List.Pairwise.nil

/-- (I6) -/
theorem copied_nodup (src : KMat) (items : List (String × Dir)) : (copied src items).ecus.Nodup :=
  copied_inv src items (fun t => t.ecus.Nodup) (fun _ _ _ _ hp => copyStep_nodup hp)
    (fun _ _ hp => nodup_foldl_addUnique _ _ hp) List.Pairwise.nil

/-- every step keeps the identifiers that are there -/
theorem ecuStep_hasId_mono {src : KMat} {d : Dir} {t : KMat} {e : String} {f : KFrame} (h : hasId t f) :
    hasId (ecuStep src d t e) f :=
  ecuStep_inv src (fun t => hasId t f) d e (fun _ _ _ _ hp => copyStep_hasId_mono hp) (fun _ _ hp => hp) t h

theorem itemStep_hasId_mono {src : KMat} {it : String × Dir} {t : KMat} {f : KFrame} (h : hasId t f) :
    hasId (itemStep src t it) f :=
  itemStep_inv src (fun t => hasId t f) it (fun _ _ _ _ _ _ _ hp => copyStep_hasId_mono hp) (fun _ _ hp => hp) t h

theorem phaseTx_has {src : KMat} {e : String} {f : KFrame} (hf : f ∈ src.frames) (he : e ∈ f.tx) (t : KMat) :
    hasId (phaseTx src e t) f :=
  foldl_establish (copyStep src) (fun t => hasId t f) f (fun _ _ hp => copyStep_hasId_mono hp)
    (fun t => copyStep_hasId_self src t f) _ t (mem_txList.2 ⟨hf, he⟩)

theorem phaseRx_has {src : KMat} {e : String} {f : KFrame} (hf : f ∈ src.frames) (he : ∃ s ∈ f.sigs, e ∈ s.receivers)
    (t : KMat) : hasId (phaseRx src e t) f :=
  foldl_establish (copyStep src) (fun t => hasId t f) f (fun _ _ hp => copyStep_hasId_mono hp)
    (fun t => copyStep_hasId_self src t f) _ t (mem_rxList.2 ⟨hf, he⟩)

theorem phaseRx_hasId_mono {src : KMat} {e : String} {t : KMat} {f : KFrame} (h : hasId t f) : hasId (phaseRx src e t) f :=
  foldl_inv_mem (copyStep src) (fun t => hasId t f) _ _ (fun _ _ _ hp => copyStep_hasId_mono hp) h

theorem ecuStep_has {src : KMat} {d : Dir} {e : String} {f : KFrame} (hf : f ∈ src.frames) (ha : asks d e f) (t : KMat) :
    hasId (ecuStep src d t e) f := by
  show hasId (if d != .tx then phaseRx src e _ else _) f
  rcases ha with ⟨hd, he⟩ | ⟨hd, he⟩
  · have h1 : hasId (if d != .rx then phaseTx src e { t with ecus := addUnique t.ecus e } else { t with ecus := addUnique t.ecus e }) f := by
      rw [if_pos (bne_iff_ne.2 hd)]
      exact phaseTx_has hf he _
    split
    · exact phaseRx_hasId_mono h1
    · exact h1
  · rw [if_pos (bne_iff_ne.2 hd)]
    exact phaseRx_has hf he _

theorem itemStep_has {src : KMat} {it : String × Dir} {e : String} {f : KFrame} (he : e ∈ src.ecus)
    (hm : globMatch it.1 e = true) (hf : f ∈ src.frames) (ha : asks it.2 e f) (t : KMat) : hasId (itemStep src t it) f := by
  show hasId ((src.ecus.filter (globMatch it.1 ·)).foldl (ecuStep src it.2) t) f
  exact foldl_establish (ecuStep src it.2) (fun t => hasId t f) e (fun _ _ hp => ecuStep_hasId_mono hp)
    (fun t => ecuStep_has hf ha t) _ t (List.mem_filter.2 ⟨he, hm⟩)

/-- (I3 ←) every frame the option asks for has its identifier in the copy -/
theorem copied_has {src : KMat} {items : List (String × Dir)} {f : KFrame} (hf : f ∈ src.frames) (hw : want src items f) :
    hasId (copied src items) f := by
  obtain ⟨it, hit, e, he, hm, ha⟩ := hw
  exact foldl_establish (itemStep src) (fun t => hasId t f) it (fun _ _ hp => itemStep_hasId_mono hp)
    (fun t => itemStep_has he hm hf ha t) items _ hit

/-- (I3) with unique identifiers in the source -/
theorem copied_hasId_iff {src : KMat} {items : List (String × Dir)} (hu : uniqIds src) {f : KFrame} (hf : f ∈ src.frames) :
    hasId (copied src items) f ↔ want src items f := by
  constructor
  · rintro ⟨g, hg, hid⟩
    obtain ⟨hgs, hgw⟩ := copied_frames src items g hg
    have : g = f := by
      apply Classical.byContradiction
      intro hne
      exact pairwise_of_mem_ne (R := fun f g : KFrame => ¬ (f.id = g.id ∧ f.ext = g.ext))
        (fun a b hab hba => hab ⟨hba.1.symm, hba.2.symm⟩) hu g hgs f hf hne hid
    rw [← this]; exact hgw
  · exact copied_has hf

/-- (I4) -/
theorem ecuStep_ecus_mono {src : KMat} {d : Dir} {t : KMat} {e x : String} (h : x ∈ t.ecus) : x ∈ (ecuStep src d t e).ecus :=
  ecuStep_inv src (fun t => x ∈ t.ecus) d e (fun _ _ _ _ hp => copyStep_ecus_mono hp)
    (fun _ _ hp => (mem_foldl_addUnique x _ _).2 (Or.inl hp)) t h

theorem itemStep_ecus_mono {src : KMat} {it : String × Dir} {t : KMat} {x : String} (h : x ∈ t.ecus) :
    x ∈ (itemStep src t it).ecus :=
  itemStep_inv src (fun t => x ∈ t.ecus) it (fun _ _ _ _ _ _ _ hp => copyStep_ecus_mono hp)
    (fun _ _ hp => (mem_foldl_addUnique x _ _).2 (Or.inl hp)) t h

theorem ecuStep_self (src : KMat) (d : Dir) (t : KMat) (e : String) : e ∈ (ecuStep src d t e).ecus := by
  have h0 : e ∈ ({ t with ecus := addUnique t.ecus e } : KMat).ecus := (mem_addUnique _ _ _).2 (Or.inr rfl)
  have ha : e ∈ (if d != .rx then phaseTx src e { t with ecus := addUnique t.ecus e } else { t with ecus := addUnique t.ecus e }).ecus := by
    split
    · exact foldl_inv_mem (copyStep src) (fun t => e ∈ t.ecus) _ _ (fun _ _ _ hp => copyStep_ecus_mono hp) h0
    · exact h0
  show e ∈ (if d != .tx then phaseRx src e _ else _).ecus
  split
  · exact foldl_inv_mem (copyStep src) (fun t => e ∈ t.ecus) _ _ (fun _ _ _ hp => copyStep_ecus_mono hp) ha
  · exact ha

theorem copied_selected (src : KMat) (items : List (String × Dir)) : ∀ e ∈ sel src items, e ∈ (copied src items).ecus := by
  intro e he
  obtain ⟨it, hit, he'⟩ := List.mem_flatMap.1 he
  refine foldl_establish (itemStep src) (fun t => e ∈ t.ecus) it (fun _ _ hp => itemStep_ecus_mono hp) ?_ items _ hit
  intro t
  show e ∈ (usedEcus _).foldl addUnique ((src.ecus.filter (globMatch it.1 ·)).foldl (ecuStep src it.2) t).ecus
  rw [mem_foldl_addUnique]
  left
  exact foldl_establish (ecuStep src it.2) (fun t => e ∈ t.ecus) e (fun _ _ hp => ecuStep_ecus_mono hp)
    (fun t => ecuStep_self src it.2 t e) _ t he'

/-- (I5) every ECU a copied frame names is in the ECU list -/
theorem copied_used (src : KMat) (items : List (String × Dir)) : ∀ e ∈ usedEcus (copied src items), e ∈ (copied src items).ecus := by
  refine foldl_inv_mem (itemStep src) (fun t => ∀ e ∈ usedEcus t, e ∈ t.ecus) items _ ?_ ?_
  · intro t it _ _ e he
    show e ∈ (usedEcus _).foldl addUnique _
    rw [mem_foldl_addUnique]
    exact Or.inr he
  · intro e he; cases he

theorem mem_usedEcus {t : KMat} {e : String} : e ∈ usedEcus t ↔ ∃ g ∈ t.frames, e ∈ refsOf g :=
  List.mem_flatMap

/-! ## `--ecus`: the clean-up `delete_indirect_ecus` -/

/-- `l` after `list.remove(e)` for every `e` of `g` -/
def eraseAll (l g : List String) : List String := g.foldl List.erase l

theorem eraseAll_cons (l : List String) (e : String) (g : List String) : eraseAll l (e :: g) = eraseAll (l.erase e) g := rfl

theorem mem_eraseAll_sub {x : String} : ∀ (g l : List String), x ∈ eraseAll l g → x ∈ l
  | [], _, h => h
  | e :: g, l, h => by
    rw [eraseAll_cons] at h
    exact List.mem_of_mem_erase (mem_eraseAll_sub g _ h)

theorem mem_eraseAll_of_not {x : String} : ∀ (g l : List String), x ∈ l → x ∉ g → x ∈ eraseAll l g
  | [], _, h, _ => h
  | e :: g, l, h, hn => by
    rw [eraseAll_cons]
    have hne : x ≠ e := fun heq => hn (heq ▸ List.mem_cons_self)
    exact mem_eraseAll_of_not g _ ((List.mem_erase_of_ne hne).2 h) (fun hg => hn (List.mem_cons_of_mem _ hg))

theorem not_mem_eraseAll {x : String} : ∀ (g l : List String), l.Nodup → x ∈ g → x ∉ eraseAll l g
  | [], _, _, h => by cases h
  | e :: g, l, hnd, h => by
    rw [eraseAll_cons]
    rcases List.mem_cons.1 h with rfl | h'
    · intro hx
      have := mem_eraseAll_sub g _ hx
      rw [hnd.mem_erase_iff] at this
      exact this.1 rfl
    · exact not_mem_eraseAll g _ (hnd.erase e) h'

def eraseSs (g : List String) (s : KSig) : KSig := { s with receivers := eraseAll s.receivers g }

/-- a frame after the removal of every ECU of `g` -/
def eraseFs (g : List String) (f : KFrame) : KFrame := g.foldl (fun f e => eraseF e f) f

theorem eraseFs_cons (e : String) (g : List String) (f : KFrame) : eraseFs (e :: g) f = eraseFs g (eraseF e f) := rfl

theorem eraseFs_fields : ∀ (g : List String) (f : KFrame),
    (eraseFs g f).id = f.id ∧ (eraseFs g f).ext = f.ext ∧ (eraseFs g f).name = f.name ∧ (eraseFs g f).size = f.size ∧
    (eraseFs g f).tx = eraseAll f.tx g ∧ (eraseFs g f).sigs = f.sigs.map (eraseSs g)
  | [], f => by
    refine ⟨rfl, rfl, rfl, rfl, rfl, ?_⟩
    show f.sigs = f.sigs.map fun s => s
    rw [List.map_id']
  | e :: g, f => by
    obtain ⟨h1, h2, h3, h4, h5, h6⟩ := eraseFs_fields g (eraseF e f)
    rw [eraseFs_cons]
    refine ⟨h1, h2, h3, h4, h5, ?_⟩
    rw [h6]
    show (f.sigs.map fun s : KSig => { s with receivers := s.receivers.erase e }).map (eraseSs g) = _
    rw [List.map_map]
    rfl

theorem foldl_eraseE_ecus : ∀ (g : List String) (m : KMat), (g.foldl eraseE m).ecus = eraseAll m.ecus g
  | [], _ => rfl
  | e :: g, m => by
    rw [List.foldl_cons, foldl_eraseE_ecus g, eraseAll_cons]
    rfl

theorem foldl_eraseE_frames : ∀ (g : List String) (m : KMat), (g.foldl eraseE m).frames = m.frames.map (eraseFs g)
  | [], m => by
    show m.frames = m.frames.map fun f => f
    rw [List.map_id']
  | e :: g, m => by
    rw [List.foldl_cons, foldl_eraseE_frames g]
    show (m.frames.map (eraseF e)).map (eraseFs g) = _
    rw [List.map_map]
    rfl

/-- the ECUs `delete_indirect_ecus` removes -/
def gone (m : KMat) (wl : List String) : List String :=
  m.ecus.filter fun e => !wl.contains e && !(m.frames.any fun f => f.tx.contains e)

theorem pruneIndirect_eq (m : KMat) (wl : List String) : pruneIndirect m wl = (gone m wl).foldl eraseE m := rfl

theorem prune_ecus (m : KMat) (wl : List String) : (pruneIndirect m wl).ecus = eraseAll m.ecus (gone m wl) := by
  rw [pruneIndirect_eq, foldl_eraseE_ecus]

theorem prune_frames (m : KMat) (wl : List String) : (pruneIndirect m wl).frames = m.frames.map (eraseFs (gone m wl)) := by
  rw [pruneIndirect_eq, foldl_eraseE_frames]

theorem mem_gone {m : KMat} {wl : List String} {e : String} :
    e ∈ gone m wl ↔ e ∈ m.ecus ∧ e ∉ wl ∧ ¬ ∃ f ∈ m.frames, e ∈ f.tx := by
  unfold gone
  rw [List.mem_filter, Bool.and_eq_true, Bool.not_eq_true', Bool.not_eq_true', ← Bool.not_eq_true, ← Bool.not_eq_true,
    List.contains_iff_mem, List.any_eq_true]
  constructor
  · rintro ⟨h1, h2, h3⟩
    refine ⟨h1, h2, ?_⟩
    rintro ⟨f, hf, he⟩
    exact h3 ⟨f, hf, List.contains_iff_mem.2 he⟩
  · rintro ⟨h1, h2, h3⟩
    refine ⟨h1, h2, ?_⟩
    rintro ⟨f, hf, he⟩
    exact h3 ⟨f, hf, List.contains_iff_mem.1 he⟩

theorem prune_hasId (m : KMat) (wl : List String) (f : KFrame) : hasId (pruneIndirect m wl) f ↔ hasId m f := by
  unfold hasId
  rw [prune_frames]
  constructor
  · rintro ⟨g, hg, h⟩
    obtain ⟨g0, hg0, rfl⟩ := List.mem_map.1 hg
    obtain ⟨h1, h2, _⟩ := eraseFs_fields (gone m wl) g0
    rw [h1, h2] at h
    exact ⟨g0, hg0, h⟩
  · rintro ⟨g0, hg0, h⟩
    refine ⟨eraseFs (gone m wl) g0, List.mem_map.2 ⟨g0, hg0, rfl⟩, ?_⟩
    obtain ⟨h1, h2, _⟩ := eraseFs_fields (gone m wl) g0
    rw [h1, h2]
    exact h

/-! ## `--ecus`: the statements -/

theorem selectEcus_hasId_iff (src : KMat) (items : List (String × Dir)) (hu : uniqIds src) (f : KFrame) (hf : f ∈ src.frames) :
    hasId (selectEcus src items) f ↔ want src items f := by
  rw [selectEcus_eq, prune_hasId, copied_hasId_iff hu hf]

theorem selectEcus_from_source (src : KMat) (items : List (String × Dir)) :
    ∀ g ∈ (selectEcus src items).frames, ∃ f ∈ src.frames, g.id = f.id ∧ g.ext = f.ext ∧ g.name = f.name ∧ g.size = f.size ∧
      g.sigs.map (fun s => (s.name, s.start, s.size)) = f.sigs.map (fun s => (s.name, s.start, s.size)) := by
  intro g hg
  rw [selectEcus_eq, prune_frames] at hg
  obtain ⟨f, hf, rfl⟩ := List.mem_map.1 hg
  obtain ⟨h1, h2, h3, h4, _, h6⟩ := eraseFs_fields (gone (copied src items) (sel src items)) f
  refine ⟨f, (copied_frames src items f hf).1, h1, h2, h3, h4, ?_⟩
  rw [h6, List.map_map]
  rfl

theorem selectEcus_selected (src : KMat) (items : List (String × Dir)) :
    ∀ e ∈ sel src items, e ∈ (selectEcus src items).ecus := by
  intro e he
  rw [selectEcus_eq, prune_ecus]
  exact mem_eraseAll_of_not _ _ (copied_selected src items e he) (fun hg => (mem_gone.1 hg).2.1 he)

theorem selectEcus_justified (src : KMat) (items : List (String × Dir)) :
    ∀ e ∈ (selectEcus src items).ecus, e ∈ sel src items ∨ ∃ g ∈ (selectEcus src items).frames, e ∈ g.tx := by
  intro e he
  rw [selectEcus_eq, prune_ecus] at he
  have hc : e ∈ (copied src items).ecus := mem_eraseAll_sub _ _ he
  have hng : e ∉ gone (copied src items) (sel src items) :=
    fun hg => not_mem_eraseAll _ _ (copied_nodup src items) hg he
  by_cases hs : e ∈ sel src items
  · exact Or.inl hs
  · right
    have hsend : ∃ f ∈ (copied src items).frames, e ∈ f.tx :=
      Classical.byContradiction fun hn => hng (mem_gone.2 ⟨hc, hs, hn⟩)
    obtain ⟨f, hf, hef⟩ := hsend
    rw [selectEcus_eq, prune_frames]
    refine ⟨_, List.mem_map.2 ⟨f, hf, rfl⟩, ?_⟩
    rw [(eraseFs_fields _ f).2.2.2.2.1]
    exact mem_eraseAll_of_not _ _ hef hng

theorem selectEcus_receivers_in (src : KMat) (items : List (String × Dir))
    (hnd : ∀ f ∈ src.frames, ∀ s ∈ f.sigs, s.receivers.Nodup) :
    ∀ g ∈ (selectEcus src items).frames, ∀ s ∈ g.sigs, ∀ e ∈ s.receivers, e ∈ (selectEcus src items).ecus := by
  intro g hg s hs e he
  rw [selectEcus_eq, prune_frames] at hg
  obtain ⟨f, hf, rfl⟩ := List.mem_map.1 hg
  rw [(eraseFs_fields _ f).2.2.2.2.2] at hs
  obtain ⟨s0, hs0, rfl⟩ := List.mem_map.1 hs
  have he' : e ∈ eraseAll s0.receivers (gone (copied src items) (sel src items)) := he
  have he0 : e ∈ s0.receivers := mem_eraseAll_sub _ _ he'
  have hng : e ∉ gone (copied src items) (sel src items) :=
    fun hgn => not_mem_eraseAll _ _ (hnd f (copied_frames src items f hf).1 s0 hs0) hgn he'
  have hc : e ∈ (copied src items).ecus :=
    copied_used src items e (mem_usedEcus.2 ⟨f, hf, List.mem_append_right _ (List.mem_flatMap.2 ⟨s0, hs0, he0⟩)⟩)
  rw [selectEcus_eq, prune_ecus]
  exact mem_eraseAll_of_not _ _ hc hng

end CanVerif.Conv.SelectProofs
