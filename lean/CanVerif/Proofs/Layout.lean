import CanVerif.Model.Layout
import CanVerif.Spec.Bits
import CanVerif.Proofs.Bits
import CanVerif.Proofs.Codec
import CanVerif.Proofs.Encode
/-! helper lemmas for C16: usage map, dummy signals, frame length, compress -/
namespace CanVerif

/-! ## appendRange and the marking folds -/

theorem appendRange_length (arr : List (List String)) (a b : Nat) (nm : String) :
    (appendRange arr a b nm).length = arr.length := by simp [appendRange]

theorem appendRange_getD (arr : List (List String)) (a b : Nat) (nm : String) (j : Nat) :
    (appendRange arr a b nm).getD j []
      = if a ≤ j ∧ j < b ∧ j < arr.length then arr.getD j [] ++ [nm] else arr.getD j [] := by
  unfold appendRange
  by_cases hj : j < arr.length
  · by_cases h1 : a ≤ j <;> by_cases h2 : j < b <;> simp [List.getD_eq_getElem?_getD, hj, h1, h2]
  · simp [List.getD_eq_getElem?_getD, hj]

theorem appendRange_mem (arr : List (List String)) (a b : Nat) (nm x : String) (j : Nat) :
    x ∈ (appendRange arr a b nm).getD j []
      ↔ x ∈ arr.getD j [] ∨ (nm = x ∧ a ≤ j ∧ j < b ∧ j < arr.length) := by
  rw [appendRange_getD]
  split
  · rename_i h; simp [h, eq_comm]
  · rename_i h; simp; intro _ h1 h2 h3; exact absurd ⟨h1, h2, h3⟩ h

/-- one step of the two loops of `get_frame_layout` -/
def markStep (c : Sig → Bool) (a b : Sig → Nat) (arr : List (List String)) (s : Sig) : List (List String) :=
  if c s then appendRange arr (a s) (b s) s.name else arr

theorem markFold_length (c : Sig → Bool) (a b : Sig → Nat) (sigs : List Sig) (arr : List (List String)) :
    (sigs.foldl (markStep c a b) arr).length = arr.length := by
  induction sigs generalizing arr with
  | nil => rfl
  | cons s t ih =>
    simp only [List.foldl_cons, ih]
    unfold markStep; split
    · exact appendRange_length ..
    · rfl

theorem markFold_mem (c : Sig → Bool) (a b : Sig → Nat) (sigs : List Sig) (arr : List (List String))
    (x : String) (j : Nat) :
    x ∈ (sigs.foldl (markStep c a b) arr).getD j []
      ↔ x ∈ arr.getD j [] ∨ ∃ s ∈ sigs, c s = true ∧ s.name = x ∧ a s ≤ j ∧ j < b s ∧ j < arr.length := by
  induction sigs generalizing arr with
  | nil => simp
  | cons s t ih =>
    simp only [List.foldl_cons]
    rw [ih]
    have hl : (markStep c a b arr s).length = arr.length := by
      unfold markStep; split
      · exact appendRange_length ..
      · rfl
    rw [hl]
    unfold markStep
    by_cases hc : c s = true
    · simp only [hc, if_true, appendRange_mem, List.mem_cons, exists_eq_or_imp, true_and]
      constructor
      · rintro ((h | h) | h)
        · exact Or.inl h
        · exact Or.inr (Or.inl h)
        · exact Or.inr (Or.inr h)
      · rintro (h | h | h)
        · exact Or.inl (Or.inl h)
        · exact Or.inl (Or.inr h)
        · exact Or.inr h
    · simp [hc]

theorem getD_replicate_nil (n j : Nat) : (List.replicate n ([] : List String)).getD j [] = [] := by
  simp [List.getD_eq_getElem?_getD, List.getElem?_replicate]
  split <;> rfl

/-- the two intermediate arrays of `get_frame_layout` -/
def littleArr (f : Frame) : List (List String) :=
  f.sigs.foldl (markStep (fun s => s.little) (fun s => f.size * 8 - s.start - s.size) (fun s => f.size * 8 - s.start))
    (List.replicate (f.size * 8) [])

def bigArr (f : Frame) : List (List String) :=
  f.sigs.foldl (markStep (fun s => !s.little) (fun s => s.start) (fun s => s.start + s.size))
    (List.replicate (f.size * 8) [])

theorem layout_unfold (f : Frame) :
    f.layout = (List.zip (reverseGroups f.size (littleArr f)) (bigArr f)).map fun (l, b) => l ++ b := by
  unfold Frame.layout littleArr bigArr
  have e1 : (fun (arr : List (List String)) (s : Sig) =>
      if s.little then
        let least := f.size * 8 - s.start
        let most := least - s.size
        appendRange arr most least s.name
      else arr) = markStep (fun s => s.little) (fun s => f.size * 8 - s.start - s.size) (fun s => f.size * 8 - s.start) := by
    funext arr s; simp [markStep]
  have e2 : (fun (arr : List (List String)) (s : Sig) =>
      if s.little then arr
      else appendRange arr s.start (s.start + s.size) s.name)
      = markStep (fun s => !s.little) (fun s => s.start) (fun s => s.start + s.size) := by
    funext arr s; cases h : s.little <;> simp [markStep, h]
  simp only [e1, e2]

theorem littleArr_length (f : Frame) : (littleArr f).length = 8 * f.size := by
  unfold littleArr; rw [markFold_length]; simp; omega

theorem bigArr_length (f : Frame) : (bigArr f).length = 8 * f.size := by
  unfold bigArr; rw [markFold_length]; simp; omega

theorem layout_length' (f : Frame) : f.layout.length = 8 * f.size := by
  rw [layout_unfold]
  simp [reverseGroups_length _ _ (littleArr_length f), bigArr_length]

theorem layout_getD (f : Frame) (j : Nat) (hj : j < 8 * f.size) :
    f.layout.getD j [] = (littleArr f).getD (8 * (f.size - 1 - j / 8) + j % 8) [] ++ (bigArr f).getD j [] := by
  rw [layout_unfold]
  have h1 := reverseGroups_length _ _ (littleArr_length f)
  have h2 := bigArr_length f
  have h3 := reverseGroups_get f.size (littleArr f) j (littleArr_length f) hj
  simp only [List.getD_eq_getElem?_getD, List.getElem?_map]
  have hb : j < (bigArr f).length := by omega
  have hl : 8 * (f.size - 1 - j / 8) + j % 8 < (littleArr f).length := by rw [littleArr_length]; omega
  rw [List.zip_eq_zipWith, List.getElem?_zipWith, h3, List.getElem?_eq_getElem hb, List.getElem?_eq_getElem hl]
  simp

theorem layout_mem (f : Frame) (j : Nat) (hj : j < 8 * f.size) (x : String) :
    x ∈ f.layout.getD j [] ↔
      (∃ s ∈ f.sigs, s.little = true ∧ s.name = x ∧
        f.size * 8 - s.start - s.size ≤ 8 * (f.size - 1 - j / 8) + j % 8 ∧
        8 * (f.size - 1 - j / 8) + j % 8 < f.size * 8 - s.start) ∨
      (∃ s ∈ f.sigs, s.little = false ∧ s.name = x ∧ s.start ≤ j ∧ j < s.start + s.size) := by
  rw [layout_getD f j hj, List.mem_append]
  unfold littleArr bigArr
  rw [markFold_mem, markFold_mem]
  simp only [getD_replicate_nil, List.not_mem_nil, false_or, List.length_replicate]
  constructor
  · rintro (⟨s, hs, h1, h2, h3, h4, _⟩ | ⟨s, hs, h1, h2, h3, h4, _⟩)
    · exact Or.inl ⟨s, hs, h1, h2, h3, h4⟩
    · exact Or.inr ⟨s, hs, by simpa using h1, h2, h3, h4⟩
  · rintro (⟨s, hs, h1, h2, h3, h4⟩ | ⟨s, hs, h1, h2, h3, h4⟩)
    · exact Or.inl ⟨s, hs, h1, h2, h3, h4, by omega⟩
    · exact Or.inr ⟨s, hs, by simpa using h1, h2, h3, h4, by omega⟩

theorem eq_of_name_eq {sigs : List Sig} (hnd : (sigs.map (·.name)).Nodup) {s t : Sig}
    (hs : s ∈ sigs) (ht : t ∈ sigs) (h : s.name = t.name) : s = t := by
  induction sigs with
  | nil => simp at hs
  | cons a l ih =>
    simp only [List.map_cons, List.nodup_cons, List.mem_map, not_exists, not_and] at hnd
    rcases List.mem_cons.1 hs with rfl | hs' <;> rcases List.mem_cons.1 ht with rfl | ht'
    · rfl
    · exact absurd h.symm (hnd.1 t ht')
    · exact absurd h (hnd.1 s hs')
    · exact ih hnd.2 hs' ht'

/-! ## dummy signals -/

/-- MSB-first index `j` lies in the Motorola signal `d` -/
def covers (j : Nat) (d : Sig) : Bool := decide (d.start ≤ j) && decide (j < d.start + d.size)

/-- the loop body of `create_dummy_signals` -/
def dStep (frameName : String) (n : Nat) (st : DummyState) (p : Nat × List String) : DummyState :=
  let index := p.1
  let cell := p.2
  let st1 := if cell.isEmpty && st.startBit.isNone then { st with startBit := some index } else st
  match st1.startBit with
  | some sb =>
    if index == n - 1 || !cell.isEmpty then
      let idx := if index == n - 1 && cell.isEmpty then n else index
      { startBit := none, count := st1.count + 1,
        out := st1.out ++ [{ name := dummyName frameName st1.count, start := sb, size := idx - sb, little := false, signed := true }] }
    else st1
  | none => st1

theorem createDummies_eq (nm : String) (bf : List (List String)) :
    createDummies nm bf = ((List.zip (List.range bf.length) bf).foldl (dStep nm bf.length) {}).out := rfl

/-- the dummies in `out` are well formed, end at or before `L`, and account for exactly the empty cells below `L` -/
def Good (bf : List (List String)) (L : Nat) (out : List Sig) : Prop :=
  (∀ d ∈ out, d.little = false ∧ 1 ≤ d.size ∧ d.start + d.size ≤ L) ∧
  (∀ j, j < L → (out.filter (covers j)).length = if bf.getD j [] = [] then 1 else 0)

theorem nocover (out : List Sig) (L j : Nat) (h : ∀ d ∈ out, d.start + d.size ≤ L) (hj : L ≤ j) :
    out.filter (covers j) = [] := by
  rw [List.filter_eq_nil_iff]
  intro d hd
  have := h d hd
  simp [covers]
  intro _; omega

theorem Good.extend_nonempty {bf : List (List String)} {L : Nat} {out : List Sig}
    (h : Good bf L out) (hc : bf.getD L [] ≠ []) : Good bf (L + 1) out := by
  obtain ⟨ha, hb⟩ := h
  refine ⟨fun d hd => ?_, fun j hj => ?_⟩
  · have := ha d hd; exact ⟨this.1, this.2.1, by omega⟩
  · by_cases hjl : j < L
    · exact hb j hjl
    · have : j = L := by omega
      subst this
      rw [nocover out j j (fun d hd => (ha d hd).2.2) (Nat.le_refl _), if_neg hc]; rfl

theorem Good.close {bf : List (List String)} {sb e : Nat} {out : List Sig} (d0 : Sig)
    (h : Good bf sb out) (hse : sb < e) (hempty : ∀ i, sb ≤ i → i < e → bf.getD i [] = [])
    (h1 : d0.start = sb) (h2 : d0.size = e - sb) (h3 : d0.little = false) : Good bf e (out ++ [d0]) := by
  obtain ⟨ha, hb⟩ := h
  refine ⟨fun d hd => ?_, fun j hj => ?_⟩
  · rcases List.mem_append.1 hd with hd | hd
    · have := ha d hd; exact ⟨this.1, this.2.1, by omega⟩
    · simp only [List.mem_singleton] at hd; subst hd
      exact ⟨h3, by omega, by omega⟩
  · rw [List.filter_append, List.length_append]
    by_cases hjs : j < sb
    · have hn : covers j d0 = false := by simp [covers]; omega
      rw [hb j hjs]; simp [hn]
    · have hn : covers j d0 = true := by simp [covers]; omega
      rw [nocover out sb j (fun d hd => (ha d hd).2.2) (by omega), hempty j (by omega) hj]
      simp [hn]

def lim (sb? : Option Nat) (k : Nat) : Nat := match sb? with | some sb => sb | none => k

/-- loop invariant of `create_dummy_signals` after the cells `0 … k-1` -/
structure DInv (bf : List (List String)) (k : Nat) (st : DummyState) : Prop where
  good : Good bf (lim st.startBit k) st.out
  run : ∀ sb, st.startBit = some sb → sb < k ∧ k < bf.length ∧ ∀ i, sb ≤ i → i < k → bf.getD i [] = []

theorem dStep_inv (nm : String) (bf : List (List String)) (k : Nat) (st : DummyState) (c : List String)
    (hk : k < bf.length) (hc : bf.getD k [] = c) (h : DInv bf k st) :
    DInv bf (k + 1) (dStep nm bf.length st (k, c)) := by
  obtain ⟨hg, hr⟩ := h
  rcases st with ⟨sbo, cnt, out⟩
  simp only at hg hr
  cases sbo with
  | none =>
    simp only [lim] at hg
    rcases c with _ | ⟨x, xs⟩
    · by_cases hl : k = bf.length - 1
      · have e : dStep nm bf.length ⟨none, cnt, out⟩ (k, []) = ⟨none, cnt + 1, out ++ [{ name := dummyName nm cnt, start := k, size := bf.length - k, little := false, signed := true }]⟩ := by
          simp [dStep, hl]
        rw [e]
        refine ⟨?_, by simp⟩
        simp only [lim]
        exact Good.close _ hg (by omega) (fun i h1 h2 => by
          have : i = k := by omega
          rw [this, hc]) rfl (by simp; omega) rfl
      · have e : dStep nm bf.length ⟨none, cnt, out⟩ (k, []) = ⟨some k, cnt, out⟩ := by
          simp [dStep, hl]
        rw [e]
        refine ⟨by simpa [lim] using hg, ?_⟩
        intro sb hsb
        simp only [Option.some.injEq] at hsb; subst hsb
        exact ⟨by omega, by omega, fun i h1 h2 => by
          have : i = k := by omega
          rw [this, hc]⟩
    · have e : dStep nm bf.length ⟨none, cnt, out⟩ (k, x :: xs) = ⟨none, cnt, out⟩ := by
        simp [dStep]
      rw [e]
      refine ⟨?_, by simp⟩
      simp only [lim]
      exact hg.extend_nonempty (by rw [hc]; simp)
  | some sb =>
    simp only [lim] at hg
    obtain ⟨h1, _, h3⟩ := hr sb rfl
    rcases c with _ | ⟨x, xs⟩
    · by_cases hl : k = bf.length - 1
      · have e : dStep nm bf.length ⟨some sb, cnt, out⟩ (k, []) = ⟨none, cnt + 1, out ++ [{ name := dummyName nm cnt, start := sb, size := bf.length - sb, little := false, signed := true }]⟩ := by
          simp [dStep, hl]
        rw [e]
        refine ⟨?_, by simp⟩
        simp only [lim]
        refine Good.close _ hg (by omega) (fun i h4 h5 => ?_) rfl (by simp; omega) rfl
        by_cases hik : i < k
        · exact h3 i h4 hik
        · have : i = k := by omega
          rw [this, hc]
      · have e : dStep nm bf.length ⟨some sb, cnt, out⟩ (k, []) = ⟨some sb, cnt, out⟩ := by
          simp [dStep, hl]
        rw [e]
        refine ⟨by simpa [lim] using hg, ?_⟩
        intro sb' hsb
        simp only [Option.some.injEq] at hsb; subst hsb
        refine ⟨by omega, by omega, fun i h4 h5 => ?_⟩
        by_cases hik : i < k
        · exact h3 i h4 hik
        · have : i = k := by omega
          rw [this, hc]
    · have e : dStep nm bf.length ⟨some sb, cnt, out⟩ (k, x :: xs) = ⟨none, cnt + 1, out ++ [{ name := dummyName nm cnt, start := sb, size := k - sb, little := false, signed := true }]⟩ := by
        simp [dStep]
      rw [e]
      refine ⟨?_, by simp⟩
      simp only [lim]
      have := Good.close (bf := bf) (e := k) { name := dummyName nm cnt, start := sb, size := k - sb, little := false, signed := true } hg h1 h3 rfl rfl rfl
      exact this.extend_nonempty (by rw [hc]; simp)

theorem dummies_inv (nm : String) (bf : List (List String)) (k : Nat) (hk : k ≤ bf.length) :
    DInv bf k (((List.zip (List.range bf.length) bf).take k).foldl (dStep nm bf.length) {}) := by
  induction k with
  | zero =>
    refine ⟨⟨by simp, by simp [lim]⟩, by simp⟩
  | succ k ih =>
    have hlen : k < (List.zip (List.range bf.length) bf).length := by
      rw [List.length_zip, List.length_range]; omega
    rw [List.take_succ_eq_append_getElem hlen, List.foldl_append]
    simp only [List.foldl_cons, List.foldl_nil, List.getElem_zip, List.getElem_range]
    have hkl : k < bf.length := by omega
    exact dStep_inv nm bf k _ _ hkl (by simp [List.getD_eq_getElem?_getD, hkl]) (ih (by omega))

theorem dummies_good (nm : String) (bf : List (List String)) : Good bf bf.length (createDummies nm bf) := by
  have h := dummies_inv nm bf bf.length (Nat.le_refl _)
  have hl : (List.zip (List.range bf.length) bf).length ≤ bf.length := by simp
  rw [List.take_of_length_le hl] at h
  rw [createDummies_eq]
  obtain ⟨hg, hr⟩ := h
  cases hsb : ((List.zip (List.range bf.length) bf).foldl (dStep nm bf.length) {}).startBit with
  | none => rw [hsb] at hg; exact hg
  | some sb => have := (hr sb hsb).2.1; omega

/-! ## frame length -/

theorem maxFold_spec (sigs : List Sig) (m0 : Nat) :
    let r := sigs.foldl (fun m s => if s.start + s.size > m then s.start + s.size else m) m0
    m0 ≤ r ∧ (∀ s ∈ sigs, s.start + s.size ≤ r) ∧
      ∀ m, m0 ≤ m → (∀ s ∈ sigs, s.start + s.size ≤ m) → r ≤ m := by
  induction sigs generalizing m0 with
  | nil => simp
  | cons a t ih =>
    simp only [List.foldl_cons]
    have hm1 : m0 ≤ (if a.start + a.size > m0 then a.start + a.size else m0) ∧
        a.start + a.size ≤ (if a.start + a.size > m0 then a.start + a.size else m0) ∧
        ∀ m, m0 ≤ m → a.start + a.size ≤ m → (if a.start + a.size > m0 then a.start + a.size else m0) ≤ m := by
      split
      · exact ⟨by omega, by omega, fun m _ h => h⟩
      · exact ⟨by omega, by omega, fun m h _ => h⟩
    generalize (if a.start + a.size > m0 then a.start + a.size else m0) = m1 at hm1
    obtain ⟨h1, h2, h3⟩ := ih m1
    refine ⟨by omega, ?_, ?_⟩
    · intro s hs
      rcases List.mem_cons.1 hs with rfl | hs'
      · omega
      · exact h2 s hs'
    · intro m hm hall
      apply h3 m
      · exact hm1.2.2 m hm (hall a (by simp))
      · intro s hs; exact hall s (by simp [hs])

theorem maxBit_ge (sigs : List Sig) : ∀ s ∈ sigs, s.start + s.size ≤ maxBit sigs :=
  (maxFold_spec sigs 0).2.1

theorem maxBit_le (sigs : List Sig) (m : Nat) (h : ∀ s ∈ sigs, s.start + s.size ≤ m) : maxBit sigs ≤ m :=
  (maxFold_spec sigs 0).2.2 m (Nat.zero_le _) h

/-! ## compress -/

theorem setStartOf_shape (sh : Sig → String × Nat × Bool × Bool)
    (hsh : ∀ (s : Sig) (n : Nat), sh { s with start := n } = sh s)
    (sigs : List Sig) (nm : String) (g : Nat → Nat) :
    (setStartOf sigs nm g).map sh = sigs.map sh := by
  induction sigs with
  | nil => rfl
  | cons s t ih =>
    unfold setStartOf
    split
    · simp [hsh]
    · simp [ih]

end CanVerif
