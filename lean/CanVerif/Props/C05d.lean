import CanVerif.Model.DbcComment
import CanVerif.Proofs.DbcComment
/-!
# C05 (continued) — comments over one or several lines are read back as written

The writer puts the text (quotes escaped) between `"` and `";`; the reader finds the end of the statement on the first line or on a
follow-up line and removes exactly the closing `";`.  The text comes back unchanged - including blanks at line ends, empty lines and
a line break at the very end.  Over several lines there are two exceptions (witnesses below): a quote followed by a semicolon on the
first line (the reader takes the line for a complete one-line comment: known finding `C05-comment-quote-semicolon`) or at the end of
a middle line, and a backslash at the very end.
-/
namespace CanVerif.C05d
open CanVerif CanVerif.Dbc CanVerif.Dbc.CommentProofs

/-- a comment is read back as written, whether it fits one line or runs over several -/
theorem comment_roundtrip (t : Str) (h : wfComment t = true) :
    ∃ first rest, renderCommentBody t = first :: rest ∧ readCommentBody first rest = some t := by
  obtain ⟨first, rest, hr, hread⟩ := roundtrip_more t h []
  exact ⟨first, rest, hr, by simpa using hread⟩

/-- on one line: what stands between the opening quote and the closing `";` -/
theorem comment_one_line (t : Str) (h : wfComment t = true) (h1 : '\n' ∉ t) :
    renderCommentBody t = [escapeQuotes t ++ ['"', ';']] ∧ readCommentBody (escapeQuotes t ++ ['"', ';']) [] = some t := by
  have hr := render_lines [] t (by
    intro l hl c hc hn
    simp only [List.nil_append, List.mem_singleton] at hl
    subst hl; subst hn
    exact h1 hc)
  simp only [List.nil_append, joinLines, List.map_nil] at hr
  exact ⟨hr, read_one_line t []⟩

/-- the reader never reads beyond the statement: lines after the closing one are not looked at -/
theorem comment_ignores_following_lines (t : Str) (h : wfComment t = true) (more : List Str) :
    ∃ first rest, renderCommentBody t = first :: rest ∧ readCommentBody first (rest ++ more) = some t := by
  exact roundtrip_more t h more

/-- on one line a quote followed by a semicolon inside the text does no harm (the pattern is greedy: the last one closes) -/
example : readCommentBody (escapeQuotes "a\"; b".toList ++ ['"', ';']) [] = some "a\"; b".toList := by decide
example : wfComment "a\"; b".toList = true := by decide
/-- over several lines it does: the first line is taken for a complete comment and the rest of the text is lost -/
example : (match renderCommentBody "a \"; b\nsecond line".toList with
    | first :: rest => readCommentBody first rest
    | [] => none) = some "a \\".toList := by decide
example : wfComment "a \"; b\nsecond line".toList = false := by decide
/-- … and so is the one about a backslash at the end of a text over several lines -/
example : (match renderCommentBody "x\ny\\".toList with
    | first :: rest => readCommentBody first rest
    | [] => none) = some "x\ny".toList := by decide
/-! non-vacuity -/
example : renderCommentBody "first line \n\n  third \"quoted\" line\n".toList =
    ["first line ".toList, [], "  third \\\"quoted\\\" line".toList, "\";".toList] := by decide
example : readCommentBody "first line ".toList [[], "  third \\\"quoted\\\" line".toList, "\";".toList] =
    some "first line \n\n  third \"quoted\" line\n".toList := by decide
example : wfComment "first line \n\n  third \"quoted\" line\n".toList = true := by decide

end CanVerif.C05d
