import CanVerif.Model.Layout
import CanVerif.Spec.Bits
import CanVerif.Proofs.Codec
import CanVerif.Proofs.Layout
import CanVerif.Proofs.Compress
/-!
# C16 — layout utilities agree with the codec: usage map, dummies, length, compress

The bit-usage report of a frame lists for every payload bit exactly the signals whose value depends
on that bit; adding dummy signals leaves the existing signals untouched and makes every bit belong to
exactly one signal when none overlapped before; the computed frame length is the smallest byte count
containing all signals (never below the declared length unless forced); fitting to CAN FD gives the
smallest permitted length not below it; compressing keeps every signal's width and byte order.
(compress: no overlap, no gap, order kept, termination are proved here for Motorola frames and in Props/C16L.lean for Intel frames;
frames with both byte orders are left alone, `compress_mixed_noop`.)
-/
namespace CanVerif.C16
open CanVerif

/-! ## usage map -/

theorem layout_length (f : Frame) : f.layout.length = 8 * f.size := by
  exact layout_length' f

/-- Entry `j` of the usage report (MSB-first index, i.e. physical address `flipN j`) contains a
signal's name iff that address is one of the signal's addresses - the addresses its decoded value
depends on (C01 `decode_only_sigAddrs` / `decode_each_sigAddr`). -/
theorem layout_eq_sigAddrs (f : Frame) (hin : ∀ s ∈ f.sigs, inFrame s f.size)
    (hnd : (f.sigs.map (·.name)).Nodup) (j : Nat) (hj : j < 8 * f.size) (s : Sig) (hs : s ∈ f.sigs) :
    s.name ∈ f.layout.getD j [] ↔ ∃ i, i < s.size ∧ sigAddr s.little s.start s.size i = flipN j := by
  rw [layout_mem f j hj]
  obtain ⟨hfit, hz⟩ := hin s hs
  have hfl : flipN j = 8 * (j / 8) + 7 - j % 8 := rfl
  constructor
  · rintro (⟨t, ht, hl, hn, h1, h2⟩ | ⟨t, ht, hl, hn, h1, h2⟩)
    · have := eq_of_name_eq hnd ht hs hn
      subst this
      refine ⟨flipN j - t.start, ?_, ?_⟩
      · omega
      · simp only [sigAddr, hl, if_true]; omega
    · have := eq_of_name_eq hnd ht hs hn
      subst this
      refine ⟨t.start + t.size - 1 - j, by omega, ?_⟩
      simp only [sigAddr, hl, Bool.false_eq_true, if_false]
      congr 1; omega
  · rintro ⟨i, hi, hea⟩
    cases hl : s.little
    · right
      simp only [sigAddr, hl, Bool.false_eq_true, if_false] at hea
      have := flipN_inj hea
      exact ⟨s, hs, hl, rfl, by omega, by omega⟩
    · left
      simp only [sigAddr, hl, if_true] at hea
      exact ⟨s, hs, hl, rfl, by omega, by omega⟩

/-- and nothing else is listed -/
theorem layout_only_signals (f : Frame) (j : Nat) (nm : String) (h : nm ∈ f.layout.getD j []) :
    ∃ s ∈ f.sigs, s.name = nm := by
  by_cases hj : j < 8 * f.size
  · rw [layout_mem f j hj] at h
    rcases h with ⟨s, hs, _, hn, _⟩ | ⟨s, hs, _, hn, _⟩ <;> exact ⟨s, hs, hn⟩
  · have : f.layout.length ≤ j := by rw [layout_length' f]; omega
    simp [List.getD_eq_getElem?_getD, List.getElem?_eq_none this] at h

/-! ## dummy signals -/

/-- Existing signals are untouched: dummies are appended. -/
theorem dummies_keep_existing (f : Frame) (nm : String) :
    ∃ ds, (f.createDummySignals nm).sigs = f.sigs ++ ds ∧ ds = createDummies nm f.layout ∧
      (f.createDummySignals nm).size = f.size := by
  exact ⟨createDummies nm f.layout, rfl, rfl, rfl⟩

/-- The dummies cover exactly the unused entries of the usage report, each exactly once, and are
Motorola signals (so dummy `d` covers the MSB-first indices `d.start … d.start + d.size - 1`). -/
theorem dummies_cover_exactly_gaps (nm : String) (bitfield : List (List String)) (j : Nat) (hj : j < bitfield.length) :
    let ds := createDummies nm bitfield
    (∀ d ∈ ds, d.little = false ∧ 1 ≤ d.size ∧ d.start + d.size ≤ bitfield.length) ∧
    ((ds.filter fun d => d.start ≤ j && j < d.start + d.size).length = if bitfield.getD j [] = [] then 1 else 0) := by
  intro ds
  obtain ⟨ha, hb⟩ := dummies_good nm bitfield
  exact ⟨ha, hb j hj⟩

/-! ## frame length -/

/-- all signals lie inside `n` bytes -/
def AllFit (sigs : List Sig) (n : Nat) : Prop := ∀ s ∈ sigs, s.start + s.size ≤ 8 * n

/-- `start + size ≤ 8n` says exactly that all of the signal's physical addresses lie in the first `n` bytes -/
theorem fits_iff_addrs (s : Sig) (n : Nat) (hz : 1 ≤ s.size) :
    s.start + s.size ≤ 8 * n ↔ ∀ i, i < s.size → sigAddr s.little s.start s.size i < 8 * n := by
  cases hl : s.little
  · simp only [sigAddr, Bool.false_eq_true, if_false]
    constructor
    · intro h i hi; exact flipN_lt (by omega)
    · intro h
      have := h 0 (by omega)
      unfold flipN at this; omega
  · simp only [sigAddr, if_true]
    constructor
    · intro h i hi; omega
    · intro h
      have := h (s.size - 1) (by omega)
      omega

/-- `calc_dlc`: the smallest byte count containing all signals that is not below the declared length. -/
theorem calc_dlc_smallest (f : Frame) :
    AllFit f.sigs f.calcDlc.size ∧ f.size ≤ f.calcDlc.size ∧
    ∀ n, f.size ≤ n → AllFit f.sigs n → f.calcDlc.size ≤ n := by
  have hge := maxBit_ge f.sigs
  refine ⟨?_, ?_, ?_⟩
  · intro s hs
    have := hge s hs
    simp only [Frame.calcDlc]; omega
  · simp only [Frame.calcDlc]; omega
  · intro n hn hfit
    have := maxBit_le f.sigs (8 * n) hfit
    simp only [Frame.calcDlc]; omega

/-- forced recalculation: the smallest byte count containing all signals. -/
theorem force_dlc_smallest (f : Frame) :
    AllFit f.sigs f.forceDlc.size ∧ ∀ n, AllFit f.sigs n → f.forceDlc.size ≤ n := by
  have hge := maxBit_ge f.sigs
  refine ⟨?_, ?_⟩
  · intro s hs
    have := hge s hs
    simp only [Frame.forceDlc]; omega
  · intro n hfit
    have := maxBit_le f.sigs (8 * n) hfit
    simp only [Frame.forceDlc]; omega

/-- Recalculating a matrix gives every frame its own result: the length of a frame does not depend on
the frames standing before or after it in the matrix. -/
theorem recalc_frame_by_frame (strategy : String) (pre post : List Frame) (f : Frame) :
    recalcDlc strategy (pre ++ f :: post) =
      recalcDlc strategy pre ++ (recalcDlc strategy [f]) ++ recalcDlc strategy post := by
  simp [recalcDlc]

theorem recalc_force (pre post : List Frame) (f : Frame) :
    (recalcDlc "force" (pre ++ f :: post))[pre.length]? = some f.forceDlc := by
  simp [recalcDlc]

theorem recalc_max (pre post : List Frame) (f : Frame) :
    (recalcDlc "max" (pre ++ f :: post))[pre.length]? = some f.calcDlc := by
  simp [recalcDlc]

def permitted : List Nat := [0, 1, 2, 3, 4, 5, 6, 7, 8, 12, 16, 20, 24, 32, 48, 64]

/-- `fit_dlc`: the smallest permitted CAN / CAN FD length not below the current one. -/
theorem fit_dlc_table (n : Nat) (h : n ≤ 64) :
    fitDlc n ∈ permitted ∧ n ≤ fitDlc n ∧ ∀ p ∈ permitted, n ≤ p → fitDlc n ≤ p := by
  have key : ∀ m : Fin 65, fitDlc m.val ∈ permitted ∧ m.val ≤ fitDlc m.val ∧
      ∀ p ∈ permitted, m.val ≤ p → fitDlc m.val ≤ p := by decide
  exact key ⟨n, by omega⟩

theorem fit_dlc_above_64 (n : Nat) (h : 64 < n) : fitDlc n = n := by
  simp only [fitDlc, fitDlc.go]
  repeat (rw [if_neg (by simp; omega)])

/-- `set_fd_type`: frames longer than 8 bytes become FD, the others keep their type. -/
theorem set_fd_type_rule (n : Nat) (fd : Bool) : setFdType n fd = (fd || decide (n > 8)) := by
  unfold setFdType
  by_cases h : n > 8 <;> simp [h]

/-! ## compress (partial: what is preserved) -/

/-- what `compress` must keep of every signal -/
def shape (s : Sig) : String × Nat × Bool × Bool := (s.name, s.size, s.little, s.signed)

/-- Compressing keeps the signal list, every signal's width and byte order (only start bits move). -/
theorem compress_preserves (f g : Frame) (h : f.compress = .ok g) :
    g.sigs.map shape = f.sigs.map shape ∧ g.size = f.size := by
  have hshape : ∀ (sigs : List Sig) (nm : String) (g : Nat → Nat), (setStartOf sigs nm g).map shape = sigs.map shape :=
    setStartOf_shape shape (fun _ _ => rfl)
  have hbig : ∀ a b : Frame, compressBigStep a = some b → b.sigs.map shape = a.sigs.map shape ∧ b.size = a.size := by
    intro a b hab
    unfold compressBigStep at hab
    simp only at hab
    split at hab
    · cases hab; exact ⟨hshape _ _ _, rfl⟩
    · cases hab
  have hlit : ∀ a b : Frame, compressLittleStep a = some b → b.sigs.map shape = a.sigs.map shape ∧ b.size = a.size := by
    intro a b hab
    unfold compressLittleStep at hab
    simp only at hab
    split at hab
    · cases hab; exact ⟨hshape _ _ _, rfl⟩
    · cases hab
  have hiter : ∀ (step : Frame → Option Frame),
      (∀ a b : Frame, step a = some b → b.sigs.map shape = a.sigs.map shape ∧ b.size = a.size) →
      ∀ (fuel : Nat) (a b : Frame), iterStep step fuel a = .ok b →
        b.sigs.map shape = a.sigs.map shape ∧ b.size = a.size := by
    intro step hstep fuel
    induction fuel with
    | zero => intro a b hab; simp [iterStep] at hab
    | succ k ih =>
      intro a b hab
      unfold iterStep at hab
      split at hab
      · cases hab; exact ⟨rfl, rfl⟩
      · rename_i a' ha'
        obtain ⟨h1, h2⟩ := ih a' b hab
        obtain ⟨h3, h4⟩ := hstep a a' ha'
        exact ⟨h1.trans h3, h2.trans h4⟩
  unfold Frame.compress at h
  simp only at h
  split at h
  · split at h
    · cases h; exact ⟨rfl, rfl⟩
    · exact hiter _ hlit _ _ _ h
  · exact hiter _ hbig _ _ _ h

/-- A frame mixing byte orders is left exactly as it is. -/
theorem compress_mixed_noop (f : Frame) (h1 : f.sigs.any (·.little) = true) (h2 : f.sigs.any (fun s => !s.little) = true) :
    f.compress = .ok f := by
  unfold Frame.compress
  simp [h1, h2]


/-! ## compress: no overlap is created, no unused bit stays before a signal, the order is kept (Motorola frames) -/

/-- the bit positions a Motorola signal occupies in canmatrix's internal numbering (position 0 = most significant bit of byte 0) -/
def occ (s : Sig) (j : Nat) : Prop := s.start ≤ j ∧ j < s.start + s.size

/-- a frame `compress` is meant for: Motorola signals only, each with a name of its own and at least one bit, inside the frame,
no two of them on the same bit -/
def compressibleBig (f : Frame) : Prop :=
  (∀ s ∈ f.sigs, s.little = false ∧ 1 ≤ s.size ∧ s.start + s.size ≤ 8 * f.size) ∧ (f.sigs.map (·.name)).Nodup ∧
  (∀ a ∈ f.sigs, ∀ b ∈ f.sigs, a.name ≠ b.name → ∀ j, ¬ (occ a j ∧ occ b j))

/-- compressing creates no overlap -/
theorem compress_big_no_overlap (f g : Frame) (hf : compressibleBig f) (h : f.compress = .ok g) :
    ∀ a ∈ g.sigs, ∀ b ∈ g.sigs, a.name ≠ b.name → ∀ j, ¬ (occ a j ∧ occ b j) := by
  exact (compress_big_spec f g hf h).1.2.2

/-- ... and leaves no unused bit before a signal: every position below a signal's first bit belongs to some signal -/
theorem compress_big_no_gap (f g : Frame) (hf : compressibleBig f) (h : f.compress = .ok g) :
    ∀ s ∈ g.sigs, ∀ j, j < s.start → ∃ t ∈ g.sigs, occ t j := by
  obtain ⟨hg, hnone, _⟩ := compress_big_spec f g hf h
  exact none_no_gap g hg hnone

/-- ... and keeps the relative order of the signals in the payload -/
theorem compress_big_keeps_order (f g : Frame) (hf : compressibleBig f) (h : f.compress = .ok g)
    (a b : Sig) (ha : a ∈ f.sigs) (hb : b ∈ f.sigs) (hab : a.start < b.start) :
    ∀ a' ∈ g.sigs, ∀ b' ∈ g.sigs, a'.name = a.name → b'.name = b.name → a'.start < b'.start := by
  exact (compress_big_spec f g hf h).2.2.2 a ha b hb hab

/-- the loop always ends within the fuel of the model (the Python `while True` terminates) -/
theorem compress_big_terminates (f : Frame) (hf : compressibleBig f) : ∃ g, f.compress = .ok g := by
  exact compress_big_ok f hf

/-! non-vacuity -/
def exF : Frame := { size := 2, sigs := [{ name := "a", start := 4, size := 4, little := false }, { name := "b", start := 15, size := 1, little := false }] }
example : (exF.createDummySignals "f").sigs.drop 2 = [{ name := "_Dummy_f_0", start := 0, size := 4, little := false, signed := true }, { name := "_Dummy_f_1", start := 8, size := 7, little := false, signed := true }] := by decide
example : (exF.compress.toOption.map fun g => g.sigs.map (·.start)) = some [0, 4] := by decide

end CanVerif.C16
