import Driver.J
import CanVerif.Model.Codec
import CanVerif.Spec.Codec
open Lean CanVerif

namespace DC

def errStr : Err → String
  | .frameLength => "frameLength"
  | .complexMux => "complexMux"
  | .containerPdu => "containerPdu"
  | .missingMux => "missingMux"
  | .keyError => "keyError"
  | .startbitLowerZero => "startbitLowerZero"
  | .idOutOfRange => "idOutOfRange"
  | .needsExtended => "needsExtended"
  | .unmodelled => "unmodelled"
  | .diverges => "diverges"

/-- signal: [name,start,size,little,signed,isFloat,isMuxer,muxVal,muxValGrp,muxerFor] (tail optional) -/
def sig (j : Json) : Except String Sig := do
  let a ← J.arr j
  let name ← J.str (← J.idx j 0)
  let start ← J.nat (← J.idx j 1)
  let size ← J.nat (← J.idx j 2)
  let little ← J.bool (← J.idx j 3)
  let signed ← J.bool (← J.idx j 4)
  let isFloat ← J.bool (← J.idx j 5)
  if a.length ≤ 6 then
    pure { name, start, size, little, signed, isFloat }
  else
    let isMuxer ← J.bool (← J.idx j 6)
    let muxVal ← J.optInt (← J.idx j 7)
    let grp ← (← J.arr (← J.idx j 8)).mapM fun r => do
      pure ((← J.int (← J.idx r 0)), (← J.int (← J.idx r 1)))
    let mf := ← J.idx j 9
    let muxerFor ← if J.isNull mf then pure none else some <$> J.str mf
    pure { name, start, size, little, signed, isFloat, isMuxer, muxVal, muxValGrp := grp, muxerFor }

def frame (j : Json) : Except String Frame := do
  let size ← J.nat (← J.key j "size")
  let sigs ← (← J.arr (← J.key j "sigs")).mapM sig
  let cx ← J.bool (J.keyD j "cx" (Json.bool false))
  let ct ← J.bool (J.keyD j "ct" (Json.bool false))
  pure { size, sigs, complexMux := cx, isContainer := ct }

def specSig (s : Sig) : Spec.SigD :=
  { name := s.name, little := s.little, start := s.start, size := s.size, signed := s.signed, isFloat := s.isFloat }

/-- value as transported: NaN patterns collapse to "nan" -/
def valJson (s : Sig) (v : Int) : Json :=
  if s.isFloat && Spec.isNaNPattern s.size v.toNat then Json.str "nan" else J.ofInt v

def dictJson (f : Frame) (d : List (String × Int)) : Json :=
  Json.mkObj (d.map fun (k, v) =>
    match f.sigs.find? (·.name == k) with
    | some s => (k, valJson s v)
    | none => (k, J.ofInt v))

def resJson (f : Frame) (r : Except Err (List (String × Int))) : Json :=
  match r with
  | .ok d => J.obj [("ok", dictJson f d)]
  | .error .unmodelled => J.obj [("ok", Json.str "unmodelled")]
  | .error e => J.obj [("err", Json.str (errStr e))]

/-- parse {"name": int | "nan"} into assoc list -/
def dictOf (j : Json) : Except String (List (String × Json)) :=
  match j with
  | .obj kvs => pure (kvs.toList)
  | _ => throw "object expected"

def dataDict (j : Json) : Except String (List (String × Int)) := do
  (← J.arr j).mapM fun kv => do pure ((← J.str (← J.idx kv 0)), (← J.int (← J.idx kv 1)))

end DC
