import CanVerif.Model.Num
import CanVerif.Model.DbcLines
/-!
# Model of the frame section of a DBC file (C05, C15): `BO_` and `SG_` lines, the value-table
statement `VAL_`, and the reader of the frame section as an instance of the line dispatcher

Writer: formats/dbc.py `dump` (~272-330: `BO_ %d name: %d transmitter`, ` SG_ name [mN|M|mNM] : start|size@order sign
(factor,offset) [min|max] "unit" receivers`, ~425-438: `VAL_ id name k "text" ...;`).
Reader: `load` (~562-666 and ~782-800).  The statement patterns are regular expressions in the source; here they
are deterministic tokenizers that agree with them on every line the writer emits (and on the lexical variants of
C15: several blanks, a blank after the comma); the correspondence check compares them with the real reader
line by line.  Strings are `List Char`; numbers are rendered with `formatFloat`/`natDigits` and parsed with
`strToDec`/`digitsToNat` (Model/Num.lean).
-/
namespace CanVerif.Dbc
open CanVerif

abbrev Str := List Char

/-- multiplex tag of an `SG_` line -/
inductive Tag
  | none                -- plain signal
  | muxer               -- `M`
  | val (k : Nat)       -- `m<k>`
  | valMuxer (k : Nat)  -- `m<k>M` (extended multiplexing: a multiplexed multiplexer)
  deriving Repr, DecidableEq, Inhabited

structure SgLine where
  name : Str
  tag : Tag
  start : Nat            -- as written (DBC numbering: Motorola most significant bit, Intel least significant bit)
  size : Nat
  little : Bool
  signed : Bool
  factor : Dec
  offset : Dec
  min : Dec
  max : Dec
  unit : Str
  receivers : List Str
  deriving Repr, DecidableEq, Inhabited

structure BoLine where
  id : Nat               -- compound integer (bit 31 = extended)
  name : Str
  size : Nat
  transmitter : Str
  deriving Repr, DecidableEq, Inhabited

structure Block where
  bo : BoLine
  sigs : List SgLine
  deriving Repr, DecidableEq, Inhabited

/-! ## writer -/

/-- `signal_line += "m{}".format(mux_val)`, `" "` unless multiplexer, `"M "` if multiplexer -/
def renderTag : Tag → Str
  | .none => []
  | .muxer => "M ".toList
  | .val k => 'm' :: natDigits k ++ [' ']
  | .valMuxer k => 'm' :: natDigits k ++ "M ".toList

def joinComma : List Str → Str
  | [] => []
  | [a] => a
  | a :: b :: r => a ++ ',' :: joinComma (b :: r)

def renderSg (s : SgLine) : Str :=
  " SG_ ".toList ++ s.name ++ ' ' :: renderTag s.tag ++ ": ".toList ++ natDigits s.start ++ '|' :: natDigits s.size ++
  '@' :: (if s.little then '1' else '0') :: (if s.signed then '-' else '+') ::
  " (".toList ++ formatFloat s.factor ++ ',' :: formatFloat s.offset ++ ") [".toList ++ formatFloat s.min ++
  '|' :: formatFloat s.max ++ "] \"".toList ++ s.unit ++ "\" ".toList ++ joinComma s.receivers

def renderBo (b : BoLine) : Str :=
  "BO_ ".toList ++ natDigits b.id ++ ' ' :: b.name ++ ": ".toList ++ natDigits b.size ++ ' ' :: b.transmitter

/-- one frame: its `BO_` line, its `SG_` lines, an empty line -/
def writeBlock (b : Block) : List Str := renderBo b.bo :: (b.sigs.map renderSg ++ [[]])

def writeFrames (bs : List Block) : List Str := bs.flatMap writeBlock

/-! ## tokenizer pieces -/

def skipSp (s : Str) : Str := s.dropWhile (· == ' ')

/-- `\S` of the regular expressions and the characters `strip()` removes -/
def isBlank (c : Char) : Bool := isWs c || c == '\x0b' || c == '\x0c'

def isDigit (c : Char) : Bool := '0' ≤ c && c ≤ '9'

/-- `[0-9.+\-eE]` -/
def isNumChar (c : Char) : Bool := isDigit c || c == '.' || c == '+' || c == '-' || c == 'e' || c == 'E'

/-- `(\d+)` followed by the given character -/
def natThen (stop : Char) (s : Str) : Option (Nat × Str) :=
  match s.span isDigit with
  | ([], _) => none
  | (ds, c :: r) => if c == stop then (digitsToNat ds).map (·, r) else none
  | (_, []) => none

/-- `([0-9.+\-eE]+)` followed by the given character -/
def numThen (stop : Char) (s : Str) : Option (Dec × Str) :=
  match s.span isNumChar with
  | ([], _) => none
  | (ds, c :: r) => if c == stop then (strToDec ds).map (·, r) else none
  | (_, []) => none

/-- split at the given character (`a,b,c`), each piece stripped of blanks (`[b.strip() for b in x.split(',')]`) -/
def splitOn (sep : Char) (s : Str) : List Str :=
  let rec go (cur : Str) : Str → List Str
    | [] => [cur.reverse]
    | c :: r => if c == sep then cur.reverse :: go [] r else go (c :: cur) r
  go [] s

def parseTag (t : Str) : Option Tag :=
  if t == ['M'] then some .muxer
  else match t with
    | 'm' :: r =>
      if r.getLast? == some 'M' then (digitsToNat r.dropLast).bind fun k => if r.dropLast.isEmpty then none else some (.valMuxer k)
      else if r.isEmpty then none else (digitsToNat r).map .val
    | _ => none

/-- writer: which tag a signal gets (`mux_val`, `multiplex == 'Multiplexor'`) -/
def tagOf : Option Nat → Bool → Tag
  | none, false => .none
  | none, true => .muxer
  | some k, false => .val k
  | some k, true => .valMuxer k

/-- reader: `(mux_val, is_multiplexer, frame.is_complex_multiplexed := True)` from the tag -/
def fieldsOf : Tag → Option Nat × Bool × Bool
  | .none => (none, false, false)
  | .muxer => (none, true, false)
  | .val k => (some k, false, false)
  | .valMuxer k => (some k, true, true)

/-! ## reader -/

/-- the part of an `SG_` line from the colon on:
` *: *(\d+)\|(\d+)@(\d+)([\+|\-]) *\(num, *num\) *\[num\|num\] +\"(.*)\" +(.*)`
(the pattern for lines with a multiplex tag has no ` *` after the comma: `commaSp = false`) -/
def parseSgTail (name : Str) (tag : Tag) (commaSp : Bool) (s : Str) : Option SgLine :=
  match skipSp s with
  | ':' :: r0 =>
    (natThen '|' (skipSp r0)).bind fun (start, r1) =>
    (natThen '@' r1).bind fun (size, r2) =>
    match r2.span isDigit with
    | ([], _) => none
    | (od, sg :: r3) =>
      if sg != '+' && sg != '-' && sg != '|' then none else
      (digitsToNat od).bind fun order =>
      match skipSp r3 with
      | '(' :: r4 =>
        (numThen ',' r4).bind fun (factor, r5) =>
        (numThen ')' (if commaSp then skipSp r5 else r5)).bind fun (offset, r6) =>
        match skipSp r6 with
        | '[' :: r7 =>
          (numThen '|' r7).bind fun (mn, r8) =>
          (numThen ']' r8).bind fun (mx, r9) =>
          match r9 with
          | ' ' :: r10 =>
            match skipSp r10 with
            | '"' :: r11 =>
              -- the unit ends at the closing quote; the writer never puts a quote into a unit
              match r11.span (· != '"') with
              | (unit, '"' :: ' ' :: r12) =>
                some { name, tag, start, size, little := order == 1, signed := sg == '-', factor, offset, min := mn, max := mx,
                       unit, receivers := (splitOn ',' (skipSp r12)).map stripWs }
              | _ => none
            | _ => none
          | _ => none
        | _ => none
      | _ => none
    | (_, []) => none
  | _ => none

/-- an `SG_` line (already stripped).  A line ending in the unit's quote gets the receiver `Vector__XXX` first. -/
def parseSg (line0 : Str) : Option SgLine :=
  let line := if line0.getLast? == some '"' then line0 ++ " Vector__XXX".toList else line0
  if !startsWith line "SG_ ".toList then none else
  let r := skipSp (line.drop 3)
  match r.span (fun c => !isBlank c && c != ':') with
  | ([], _) => none
  | (name, r1) =>
    match skipSp r1 with
    | ':' :: _ => parseSgTail name .none true r1
    | _ =>
      -- second pattern: a multiplex tag between name and colon
      match (skipSp r1).span (fun c => !isBlank c && c != ':') with
      | ([], _) => none
      | (t, r2) => (parseTag t).bind fun tag => parseSgTail name tag false r2

/-- `^BO_ +([^\ ]+) +([^\ ]+) *: *([^\ ]+) +([^\ ]+)` with `int()` on groups 1 and 3 and `.split()` on group 4 -/
def parseBo (line : Str) : Option BoLine :=
  if !startsWith line "BO_ ".toList then none else
  match (skipSp (line.drop 3)).span (· != ' ') with
  | ([], _) => none
  | (idS, ' ' :: r1) =>
    match (skipSp r1).span (fun c => c != ' ' && c != ':') with
    | ([], _) => none
    | (name, r2) =>
      match skipSp r2 with
      | ':' :: r3 =>
        match (skipSp r3).span (· != ' ') with
        | ([], _) => none
        | (szS, ' ' :: r4) =>
          match (skipSp r4).span (· != ' ') with
          | ([], _) => none
          | (tx, _) =>
            (digitsToNat idS).bind fun id => (digitsToNat szS).map fun size =>
              { id, name, size, transmitter := tx }
        | _ => none
      | _ => none
  | _ => none

/-- reader of the frame section: state = the frames read so far, `SG_` lines go to the current (last) frame -/
def framesReader : Reader (List Block) where
  matchesPattern k line :=
    match k with
    | .bo => (parseBo (stripWs line)).isSome
    | .sg => (parseSg (stripWs line)).isSome
    | _ => false
  effect k line st :=
    match k with
    | .bo => match parseBo (stripWs line) with
      | some b => .ok (st ++ [⟨b, []⟩])
      | none => .ok st
    | .sg => match parseSg (stripWs line), st.getLast? with
      | some s, some f => .ok (st.dropLast ++ [{ f with sigs := f.sigs ++ [s] }])
      | _, _ => .error st            -- `frame` is None: AttributeError inside the per-line try
    | _ => .ok st

def readFrames (lines : List Str) : List Block := loadLines framesReader [] lines

/-! ## lexical freedom of the format (C15): several blanks between the tokens, any admissible rendering of a number -/

def sps (n : Nat) : Str := List.replicate n ' '

/-- blank counts of an `SG_` line: `lead` before the keyword, `kw` after it (≥ 1), `nameTag` between name and tag (≥ 1, tagged lines
only), `preColon` before the colon, `postColon` after it, `preParen` before `(`, `postComma` after the comma between factor and
offset (untagged lines only), `preBracket` before `[`, `preUnit` before the unit (≥ 1), `preRx` before the receivers (≥ 1),
`rx` after each comma of the receiver list -/
structure SgLex where
  lead : Nat := 1
  kw : Nat := 1
  nameTag : Nat := 1
  preColon : Nat := 1
  postColon : Nat := 1
  preParen : Nat := 1
  postComma : Nat := 0
  preBracket : Nat := 1
  preUnit : Nat := 1
  preRx : Nat := 1
  rx : Nat := 0
  deriving Repr, DecidableEq, Inhabited

/-- the four numbers of an `SG_` line as they stand in the file -/
structure SgNums where
  factor : Str
  offset : Str
  min : Str
  max : Str
  deriving Repr, DecidableEq, Inhabited

def lexTag (lx : SgLex) : Tag → Str
  | .none => sps lx.preColon
  | .muxer => sps lx.nameTag ++ 'M' :: sps lx.preColon
  | .val k => sps lx.nameTag ++ 'm' :: natDigits k ++ sps lx.preColon
  | .valMuxer k => sps lx.nameTag ++ 'm' :: natDigits k ++ 'M' :: sps lx.preColon

def joinCommaSp (n : Nat) : List Str → Str
  | [] => []
  | [a] => a
  | a :: b :: r => a ++ ',' :: sps n ++ joinCommaSp n (b :: r)

def renderSgLex (lx : SgLex) (nm : SgNums) (s : SgLine) : Str :=
  sps lx.lead ++ "SG_".toList ++ sps lx.kw ++ s.name ++ lexTag lx s.tag ++ ':' :: sps lx.postColon ++
  natDigits s.start ++ '|' :: natDigits s.size ++ '@' :: (if s.little then '1' else '0') :: (if s.signed then '-' else '+') ::
  sps lx.preParen ++ '(' :: nm.factor ++ ',' :: sps lx.postComma ++ nm.offset ++ ')' :: sps lx.preBracket ++ '[' :: nm.min ++
  '|' :: nm.max ++ ']' :: sps lx.preUnit ++ '"' :: s.unit ++ '"' :: sps lx.preRx ++ joinCommaSp lx.rx s.receivers

/-- a number text the statement patterns accept and `Decimal` understands -/
def validNum (t : Str) : Bool := !t.isEmpty && t.all isNumChar && (strToDec t).isSome

def lexOk (lx : SgLex) (nm : SgNums) (tag : Tag) : Bool :=
  1 ≤ lx.kw && 1 ≤ lx.preUnit && 1 ≤ lx.preRx && (tag == .none || (1 ≤ lx.nameTag && lx.postComma == 0)) &&
  validNum nm.factor && validNum nm.offset && validNum nm.min && validNum nm.max

/-- the signal with the numbers as they stand in the file -/
def withNums (nm : SgNums) (s : SgLine) : SgLine :=
  { s with factor := (strToDec nm.factor).getD s.factor, offset := (strToDec nm.offset).getD s.offset,
           min := (strToDec nm.min).getD s.min, max := (strToDec nm.max).getD s.max }

structure BoLex where
  kw : Nat := 1
  idName : Nat := 1
  preColon : Nat := 0
  postColon : Nat := 1
  preTx : Nat := 1
  deriving Repr, DecidableEq, Inhabited

def renderBoLex (lx : BoLex) (b : BoLine) : Str :=
  "BO_".toList ++ sps lx.kw ++ natDigits b.id ++ sps lx.idName ++ b.name ++ sps lx.preColon ++ ':' :: sps lx.postColon ++
  natDigits b.size ++ sps lx.preTx ++ b.transmitter

def boLexOk (lx : BoLex) : Bool := 1 ≤ lx.kw && 1 ≤ lx.idName && 1 ≤ lx.preTx

/-- a number written as `[sign] int-digits [. frac-digits] [E [sign] exp-digits]` -/
structure NumText where
  neg : Bool := false
  plus : Bool := false          -- explicit `+` (only when not negative)
  ip : Str
  fp : Option Str := none       -- digits after the point, if there is a point
  exp : Option (Bool × Bool × Str) := none   -- (lower-case e, negative, digits)
  deriving Repr, DecidableEq, Inhabited

def NumText.render (n : NumText) : Str :=
  (if n.neg then ['-'] else if n.plus then ['+'] else []) ++ n.ip ++
  (match n.fp with | some f => '.' :: f | none => []) ++
  (match n.exp with | some (lower, neg, ds) => (if lower then 'e' else 'E') :: (if neg then ['-'] else []) ++ ds | none => [])

def allDigits (s : Str) : Bool := s.all isDigit

def NumText.wf (n : NumText) : Bool :=
  allDigits n.ip && (n.fp.getD []).all isDigit && !(n.ip.isEmpty && (n.fp.getD []).isEmpty) &&
  (match n.exp with | some (_, _, ds) => !ds.isEmpty && allDigits ds | none => true)

/-- the value a number text denotes: digits of integer and fraction part as coefficient, exponent minus the fraction length -/
def NumText.denotes (n : NumText) : Option Dec :=
  (digitsToNat (n.ip ++ n.fp.getD [])).bind fun c =>
  (match n.exp with
   | some (_, neg, ds) => (digitsToNat ds).map fun e => if neg then -(e : Int) else (e : Int)
   | none => some 0).map fun e => ⟨n.neg, c, e - ((n.fp.getD []).length : Int)⟩

/-! ## what comes back -/

/-- the decimal a rendered number is read as (`Decimal(format_float(d))`) -/
def reread (d : Dec) : Dec := (strToDec (formatFloat d)).getD d

def rereadSg (s : SgLine) : SgLine :=
  { s with factor := reread s.factor, offset := reread s.offset, min := reread s.min, max := reread s.max }

def rereadBlock (b : Block) : Block := { b with sigs := b.sigs.map rereadSg }

/-! ## well-formedness (the envelope): identifier-style names, a unit without quote -/

def isIdentChar (c : Char) : Bool := ('a' ≤ c && c ≤ 'z') || ('A' ≤ c && c ≤ 'Z') || isDigit c || c == '_'

def isIdent (s : Str) : Bool := !s.isEmpty && s.all isIdentChar

def wfSg (s : SgLine) : Bool :=
  isIdent s.name && !s.unit.contains '"' && !s.unit.any (fun c => c == '\n' || c == '\r') &&
  !s.receivers.isEmpty && s.receivers.all isIdent

def wfBo (b : BoLine) : Bool := isIdent b.name && isIdent b.transmitter

def wfBlock (b : Block) : Bool := wfBo b.bo && b.sigs.all wfSg

/-! ## `VAL_` statement: `VAL_ <id> <name> k "text" k "text" ;` with `\"` for a quote inside a text -/

structure ValLine where
  id : Nat
  name : Str
  entries : List (Int × Str)
  deriving Repr, DecidableEq, Inhabited

def intDigits (i : Int) : Str := if i < 0 then '-' :: natDigits i.natAbs else natDigits i.natAbs

/-- `val.replace('"', '\\"')` -/
def escapeQuotes : Str → Str
  | [] => []
  | '"' :: r => '\\' :: '"' :: escapeQuotes r
  | c :: r => c :: escapeQuotes r

/-- `val.replace('\\"', '"')` -/
def unescapeQuotes : Str → Str
  | [] => []
  | '\\' :: '"' :: r => '"' :: unescapeQuotes r
  | c :: r => c :: unescapeQuotes r

def renderVal (v : ValLine) : Str :=
  "VAL_ ".toList ++ natDigits v.id ++ ' ' :: v.name ++
  (v.entries.flatMap fun (k, t) => ' ' :: intDigits k ++ " \"".toList ++ escapeQuotes t ++ ['"']) ++ [';']

/-- `utils.escape_aware_split(s, '"')`: split at quotes that are not preceded by a backslash -/
def escapeAwareSplit (s : Str) : List Str :=
  let rec go (cur : Str) : Str → List Str
    | [] => [cur.reverse]
    | ['\\'] => [cur.reverse]
    | '\\' :: c :: r => go (c :: '\\' :: cur) r
    | c :: r => if c == '"' then cur.reverse :: go [] r else go (c :: cur) r
  go [] s

/-- pairs `(key text, value text)` out of the split list (`temp_list[2i]`, `temp_list[2i+1]`) -/
def pairUp : List Str → List (Str × Str)
  | a :: b :: r => (a, b) :: pairUp r
  | _ => []

def parseInt (s : Str) : Option Int :=
  match s with
  | '-' :: r => if r.isEmpty then none else (digitsToNat r).map fun n => -(n : Int)
  | _ => if s.isEmpty then none else (digitsToNat s).map fun n => (n : Int)

/-- `^VAL_ +(\d+)? *(\S+) +(.*) *;` for a line with a frame id -/
def parseVal (line : Str) : Option ValLine :=
  if !startsWith line "VAL_ ".toList then none else
  match (skipSp (line.drop 4)).span isDigit with
  | ([], _) => none
  | (idS, r1) =>
    match (skipSp r1).span (fun c => !isBlank c) with
    | ([], _) => none
    | (name, ' ' :: r2) =>
      -- group 3: up to the last semicolon
      let body := (skipSp r2).reverse.dropWhile (· != ';')
      match body with
      | ';' :: b =>
        let parts := escapeAwareSplit b.reverse
        (digitsToNat idS).bind fun id =>
        ((pairUp parts).mapM fun (k, t) => (parseInt (stripWs k)).map fun ki => (ki, unescapeQuotes t)).map fun es =>
          { id, name, entries := es }
      | _ => none
    | _ => none

/-- a value text the format can carry: no backslash (it would escape the closing quote), no line end -/
def wfText (t : Str) : Bool := !t.any (fun c => c == '\\' || c == '\n' || c == '\r')

def wfVal (v : ValLine) : Bool := isIdent v.name && v.entries.all fun (_, t) => wfText t

end CanVerif.Dbc
