import CanVerif.Model.Codec
import CanVerif.Model.StartBit
/-!
# Model of what the one-way exporters record about a signal's placement and type (C19)

formats/scapy.py `signal_field_line`/`get_fmt`, formats/wireshark.py `get_coorect_bits_for_signal`/
`create_dissect_signal`, formats/fibex.py `create_signal_instance`, formats/xls_common.py `get_signal`
(used by csv.py), formats/json.py (Canard branch).
-/
namespace CanVerif

/-- `signal.get_startbit(bit_numbering=1)`: Scapy `start=`, FIBEX `BIT-POSITION` -/
def dbcStartOf (s : Sig) : Int := getStartbit s.little s.size s.start (some true) false

/-- `signal.get_startbit(bit_numbering=1, start_little=True)`: Canard key, csv/xls/json "lsb" -/
def lsbStartOf (s : Sig) : Int := getStartbit s.little s.size s.start (some true) true

/-- `signal.get_startbit()`: csv/xls "msbreverse" -/
def internalStartOf (s : Sig) : Int := getStartbit s.little s.size s.start none false

/-- scapy `get_fmt` -/
def scapyFmt (s : Sig) : String :=
  (if s.little then "<" else ">") ++ (if s.isFloat then "f" else if s.signed then "b" else "B")

/-- FIBEX `IS-HIGH-LOW-BYTE-ORDER` -/
def fibexHighLow (s : Sig) : Bool := !s.little

/-- xls_common.get_signal: start bit in the chosen Motorola notation (Intel signals go through the same calls) -/
def csvStartOf (fmt : String) (s : Sig) : Int :=
  if fmt == "msb" then dbcStartOf s else if fmt == "msbreverse" then internalStartOf s else lsbStartOf s

/-- csv byte column (`int(start_bit / 8) + 1`) and bit column (`start_bit % 8`), byte-order letter, sign letter -/
def csvColumns (fmt : String) (s : Sig) : Int × Int × String × String :=
  let st := csvStartOf fmt s
  (st / 8 + 1, st % 8, if s.little then "i" else "m", if s.signed then "s" else "u")

/-- wireshark: which buffer, bit offset, length -/
def wiresharkField (frameSize : Nat) (s : Sig) : String × Nat × Nat :=
  if s.little then ("reversed_pdu", frameSize * 8 - s.start - s.size, s.size) else ("pdu", s.start, s.size)

/-- wireshark sign fix-up constant (`- (1 << size)` when the first bit is 1), absent for unsigned / float -/
def wiresharkSignFix (s : Sig) : Option Nat := if s.signed && !s.isFloat then some (1 <<< s.size) else none

/-- wireshark sign probe `is_signed = <buf>:bitfield(off, 1)`: `get_coorect_bits_for_signal(frame, signal, 1)` -
same buffer and same offset as the value field, length 1 -/
def wiresharkProbe (frameSize : Nat) (s : Sig) : String × Nat :=
  ((wiresharkField frameSize s).1, (wiresharkField frameSize s).2.1)

/-- FIBEX `CODED-TYPE/@BASE-DATA-TYPE` (`get_base_data_type`), the only place FIBEX records signedness;
`none` when the writer sets no attribute (size 0 or > 64) -/
def fibexBaseTypeOf (size : Nat) (signed isFloat : Bool) : Option String :=
  if isFloat then some (if size ≤ 32 then "A_FLOAT32" else "A_FLOAT64")
  else
    let w := if size > 0 && size ≤ 8 then some "8" else if size > 8 && size ≤ 16 then some "16"
             else if size > 16 && size ≤ 32 then some "32" else if size > 32 && size ≤ 64 then some "64" else none
    w.map fun x => (if signed then "A_INT" else "A_UINT") ++ x

def fibexBaseType (s : Sig) : Option String := fibexBaseTypeOf s.size s.signed s.isFloat

end CanVerif
