#!/bin/bash
# tools/run_seeded.sh [Cxx ...]: apply every kept seeded change to /repo in turn, run the property's quick check, undo; prints CAUGHT/MISSED
cd /verif
for d in seeded/*/; do
  n=$(basename $d); p=${n%%-*}
  if [ $# -gt 0 ] && [[ ! " $* " =~ " $p " ]]; then continue; fi
  if ! git -C /repo apply "$(realpath $d/patch.diff)" 2>/dev/null; then echo "$n: patch does not apply"; continue; fi
  # a change seeded for one property may fall into the code another property's check covers (meta.json: checked_by)
  c=$(python3 -c "import json,sys; print(json.load(open('$d/meta.json')).get('checked_by') or '$p')" 2>/dev/null || echo $p)
  p=$c
  if ./check $p quick 2>/dev/null | grep -q "^VIOLATION property=$p"; then echo "$n: CAUGHT"; else echo "$n: MISSED"; fi
  git -C /repo checkout -- .
done
