"""Shared for the file-format properties: abstract matrix descriptions, construction of CanMatrix objects, normal forms,
export/import helpers.  A description is plain JSON so that it can be a case of the line protocol."""
import contextlib
import decimal
import io

import canmatrix.canmatrix as cm
import canmatrix.formats
from lib import frames as F

D = decimal.Decimal

ECUS = ["ECU_A", "ECU_B", "Gw", "Body", "Diag"]
UNITS = ["", "V", "km/h", "rpm", "degC", "m / s", "rounds per min.", "litres per 100km", "%", "N/m", "N*m"]
FACTORS = ["1", "0.5", "0.125", "2", "10", "0.01", "0.001", "1.5", "3", "0.25"]
OFFSETS = ["0", "0", "-40", "1.5", "100", "-0.5"]


class NamedBytes(io.BytesIO):
    name = "export.xml"


def dec_tuple(d):
    if d is None:
        return None
    d = D(d)
    t = d.normalize(decimal.Context(prec=60)).as_tuple()
    digits = "".join(map(str, t.digits))
    # (the sign of a zero carries no value: -0E+12 and 0 are the same offset)
    return [int(t.sign) if digits.strip("0") else 0, digits, int(t.exponent)]


def gen_signal(rng, name, nbytes, used, opts):
    """a signal that does not overlap `used` (set of addresses); returns description dict or None"""
    for _ in range(12):
        size = F.rand_size(rng, min(8 * nbytes, opts.get("maxwidth", 64)))
        force_float = False
        if opts.get("floats", False) and opts.get("maxwidth", 64) >= 32 and nbytes >= 4 and rng.random() < 0.12:
            # float32 / float64 are rare among random widths: ask for them explicitly
            size = 64 if (nbytes >= 8 and rng.random() < 0.5) else 32
            force_float = True
        if opts.get("_float64_first"):
            size, force_float = 64, True
        little = rng.random() < opts.get("p_little", 0.5)
        start = rng.randint(0, 8 * nbytes - size)
        a = set(F.sig_addrs(little, start, size))
        if a & used:
            continue
        used |= a
        is_float = False
        if opts.get("floats", False) and size in (32, 64) and (force_float or rng.random() < 0.5):
            is_float = True
        signed = (rng.random() < 0.4) and not is_float
        factor = rng.choice(opts.get("factors", FACTORS))
        offset = rng.choice(opts.get("offsets", OFFSETS))
        s = {"name": name, "start": start, "size": size, "little": little, "signed": signed, "float": is_float,
             "factor": factor, "offset": offset, "unit": rng.choice(opts.get("units", UNITS)),
             "receivers": sorted(rng.sample(ECUS, rng.choice([0, 1, 2]))), "comment": rng.choice([None, None, "sig comment", "second line"] + (["line one\nline two"] if opts.get("multiline_comments") else [])) if opts.get("comments", True) else None,
             "mux": None, "values": {}, "min": None, "max": None}
        if opts.get("values", True) and not is_float and rng.random() < 0.3:
            lo, hi = F.raw_range([name, start, size, little, signed, False])
            keys = sorted({k for k in (0, 1, 2, hi, rng.randint(max(lo, 0), min(hi, 255))) if lo <= k <= hi})[:rng.randint(1, 4)]
            if opts.get("negative_value_keys") and signed and rng.random() < 0.5:
                keys = sorted(set(keys) | {-1, lo})          # a signed signal may name negative raw values
            s["values"] = {str(k): rng.choice(["On", "Off", "Error", "Init", "SNA"]) + str(i) for i, k in enumerate(keys)}
        if opts.get("limits", False) and rng.random() < 0.4:
            s["min"], s["max"] = rng.choice([("0", "100"), ("-40", "215"), ("0", "1"), ("0.5", "12.5")])
        return s
    return None


def gen_frame(rng, name, arbid, ext, opts):
    nbytes = rng.choice(opts.get("lengths", [1, 2, 4, 8, 8, 8]))
    used = set()
    sigs = []
    f = {"name": name, "id": arbid, "ext": ext, "size": nbytes, "transmitters": sorted(rng.sample(ECUS, rng.choice([0, 1, 1, 2]))) if opts.get("multi_tx", True) else rng.sample(ECUS, 1),
         "comment": rng.choice([None, "frame comment"]) if opts.get("comments", True) else None, "fd": False, "j1939": False, "signals": sigs, "cycle": 0}
    if nbytes > 8:
        f["fd"] = True
    if ext and opts.get("j1939_flag") and rng.random() < 0.3:
        f["j1939"] = True        # an extended frame of a J1939 network
    if opts.get("floats", False) and nbytes >= 8 and rng.random() < 0.12:
        # a float64 needs eight whole bytes of the frame: place it before anything else
        s64 = gen_signal(rng, "dbl", nbytes, used, dict(opts, _float64_first=True))
        if s64:
            sigs.append(s64)
    elif opts.get("mux", True) and rng.random() < opts.get("p_mux", 0.3):
        w = rng.randint(1, 4)
        mx = None
        for _ in range(10):
            mx = gen_signal(rng, "Mux_" + name if opts.get("mux_name_pattern") else "mx", nbytes, used, dict(opts, maxwidth=w, floats=False, values=False))
            if mx:
                break
        if mx:
            mx["signed"] = False
            mx["mux"] = "Multiplexor"
            mx["factor"], mx["offset"], mx["values"], mx["unit"] = "1", "0", {}, ""
            if opts.get("mux_intel_only", False):
                pass
            sigs.append(mx)
            base_used = set(used)
            for g in sorted(rng.sample(range(1 << mx["size"]), min(rng.randint(1, 3), 1 << mx["size"]))):
                gused = set(base_used)
                for k in range(rng.randint(1, 2)):
                    s = gen_signal(rng, "g%d_%d" % (g, k), nbytes, gused, opts)
                    if s:
                        s["mux"] = g
                        sigs.append(s)
                used |= gused
            if not any(isinstance(s["mux"], int) for s in sigs) and not (opts.get("lone_mux") and rng.random() < 0.5):
                mx["mux"] = None          # a multiplexer without any group is not a multiplexed frame
    for k in range(rng.randint(1, opts.get("maxsigs", 4))):
        s = gen_signal(rng, "s%d" % k, nbytes, used, opts)
        if s:
            sigs.append(s)
    if opts.get("unique_signal_names", False):
        for s in sigs:
            s["name"] = name + "_" + s["name"]
    if opts.get("cycle", False) and rng.random() < 0.4:
        f["cycle"] = rng.choice([10, 20, 100, 1000])
    return f


def gen_matrix(rng, opts=None):
    opts = opts or {}
    frames = []
    ids = set()
    for k in range(rng.randint(1, opts.get("maxframes", 4))):
        ext = opts.get("ext", True) and rng.random() < 0.35
        for _ in range(10):
            arbid = rng.randrange(0, 1 << 29) if ext else rng.randrange(0, 1 << 11)
            if rng.random() < 0.06:
                arbid = rng.choice([0, 0, (1 << 29) - 1 if ext else (1 << 11) - 1])     # boundary identifiers
            if ext and opts.get("ext_small", False) and rng.random() < 0.3:
                arbid = rng.randrange(1, 0x7FF)
            if arbid not in ids:
                break
        twins = [f for f in frames if f["id"] <= 0x7FF and not any(g["id"] == f["id"] and g["ext"] != f["ext"] for g in frames)]
        if opts.get("twin_ids", False) and twins and rng.random() < 0.2:
            # the same identifier number in the other format is another identifier
            t = rng.choice(twins)
            arbid, ext = t["id"], not t["ext"]
        ids.add(arbid)
        frames.append(gen_frame(rng, "Frame%d" % k, arbid, ext, opts))
    ecus = sorted({e for f in frames for e in f["transmitters"]} | {e for f in frames for s in f["signals"] for e in s["receivers"]})
    if opts.get("extra_ecus", True):
        ecus = sorted(set(ecus) | set(rng.sample(ECUS, rng.randint(0, 2))))
    return {"frames": frames, "ecus": ecus}


def build(desc, update=True):
    db = cm.CanMatrix()
    for e in desc["ecus"]:
        db.add_ecu(cm.Ecu(e))
    for f in desc["frames"]:
        # (the readers set the extended flag as the integer 1, the API documents a bool: both occur)
        fr = cm.Frame(f["name"], arbitration_id=cm.ArbitrationId(f["id"], (1 if f["ext"] else False) if desc.get("ext_int") else f["ext"]), size=f["size"], transmitters=list(f["transmitters"]),
                      comment=f.get("comment") or "", is_fd=f.get("fd", False), is_j1939=f.get("j1939", False), cycle_time=f.get("cycle", 0))
        for s in f["signals"]:
            kw = {}
            if s.get("min") is not None:
                kw["min"] = D(s["min"])
                kw["max"] = D(s["max"])
            sg = cm.Signal(s["name"], start_bit=s["start"], size=s["size"], is_little_endian=s["little"], is_signed=s["signed"],
                           is_float=s.get("float", False), factor=D(s["factor"]), offset=D(s["offset"]), unit=s.get("unit", ""),
                           receivers=list(s["receivers"]), comment=s.get("comment"), multiplex=s.get("mux"), **kw)
            for k, v in s.get("values", {}).items():
                sg.add_values(int(k), v)
            fr.add_signal(sg)
        if update:
            fr.update_receiver()
        if any(s.get("mux") == "Multiplexor" for s in f["signals"]):
            fr.multiplex_signals()
        db.add_frame(fr)
    return db


def nf_signal(s, level="full"):
    d = {"name": s.name, "start": int(s.start_bit), "size": int(s.size), "little": bool(s.is_little_endian)}
    if level == "layout":
        return d
    d.update({"signed": bool(s.is_signed), "float": bool(s.is_float), "factor": dec_tuple(s.factor), "offset": dec_tuple(s.offset),
              "unit": s.unit, "receivers": sorted(s.receivers), "mux": ("Multiplexor" if s.is_multiplexer else s.mux_val),
              "values": {str(k): v for k, v in sorted(s.values.items())}})
    if level == "all":
        d.update({"comment": s.comment, "min": dec_tuple(s.min), "max": dec_tuple(s.max), "attributes": dict(s.attributes),
                  "initial": dec_tuple(s.initial_value), "mux_val_grp": [list(x) for x in s.mux_val_grp], "muxer_for": s.muxer_for_signal,
                  "cycle": s.cycle_time})
    return d


def nf_frame(f, level="full"):
    d = {"id": int(f.arbitration_id.id), "ext": bool(f.arbitration_id.extended), "signals": [nf_signal(s, level) for s in f.signals]}
    if level == "layout":
        d["signals"] = sorted(d["signals"], key=lambda s: s["name"])
        return d
    d.update({"name": f.name, "size": int(f.size), "transmitters": list(f.transmitters)})
    if level == "all":
        d.update({"receivers": list(f.receivers), "comment": f.comment, "fd": bool(f.is_fd), "j1939": bool(f.is_j1939), "attributes": dict(f.attributes),
                  "cycle": f.cycle_time, "complex": bool(f.is_complex_multiplexed),
                  "groups": [[g.name, g.id, [s.name for s in g.signals]] for g in f.signalGroups]})
    return d


def normal_form(db, level="all"):
    """`all`: everything incl. list orders (used for 'the matrix is unchanged'); `layout`: C06; `full`: C07"""
    d = {"frames": [nf_frame(f, level) for f in db.frames]}
    if level == "layout":
        d["frames"] = sorted(d["frames"], key=lambda f: (f["id"], f["ext"]))
        return d
    d["ecus"] = [e.name for e in db.ecus]
    if level == "all":
        d["ecu_attrs"] = [[e.name, e.comment, dict(e.attributes)] for e in db.ecus]
        d["attributes"] = dict(db.attributes)

        def defs(dd):
            return [[k, v.definition, v.defaultValue] for k, v in dd.items()]
        d["defines"] = {"frame": defs(db.frame_defines), "signal": defs(db.signal_defines), "ecu": defs(db.ecu_defines), "global": defs(db.global_defines)}
        d["value_tables"] = {k: {str(a): b for a, b in v.items()} for k, v in db.value_tables.items()}
        d["free_signals"] = [nf_signal(s, "all") for s in db.signals]
    return d


def export_bytes(db, fmt, **opts):
    b = NamedBytes()
    arg = db
    with contextlib.redirect_stdout(io.StringIO()):
        if fmt in ("kcd", "arxml"):
            canmatrix.formats.dump({"": db}, b, fmt, **opts)
        else:
            canmatrix.formats.dump(arg, b, fmt, **opts)
    return b.getvalue()


def import_bytes(data, fmt, **opts):
    out = io.StringIO()
    with contextlib.redirect_stdout(out):
        dbs = canmatrix.formats.loads(data, fmt, **opts)
    return dbs, out.getvalue()
