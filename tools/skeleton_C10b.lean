import CanVerif.Model.Lookup
import CanVerif.Spec.Lookup
import CanVerif.Props.C10
/-!
# C10, last sentence — the independence judge of `Spec/Lookup.lean` accepts every history of the model

`Spec.snapAgrees` is what the check evaluates on the implementation's snapshots (a frame object
changes identifier, format or name only when an edit addresses it).  Here the same judge is run on
the model's own snapshots, taken where the harness takes them (before every lookup, after every
operation that creates frame objects in a matrix), and shown to accept every history.
-/
namespace CanVerif.C10
open CanVerif

/-- the snapshot of matrix `m`: its frames with handle, name, identifier and format -/
def snapMat (w : World) (m : Nat) : Option (List Spec.FrameSnap) :=
  (w.mat m).map fun x => x.frames.filterMap fun h =>
    (w.obj h).map fun o => { handle := h, name := o.name, id := o.id, ext := o.ext }

/-- the snapshot the harness records with an operation (`w` before, `w'` after the operation) -/
def snapWith (w w' : World) : LOp → Option (List Spec.FrameSnap)
  | .byId m _ _ | .byName m _ | .byPgn m _ => snapMat w m
  | .copyFrame _ dst _ _ => snapMat w' dst
  | .merge dst _ => snapMat w' dst
  | .deepcopy _ | .loadMatrix _ => snapMat w' w.mats.length
  | _ => none

/-- what the judge learns from the operation itself -/
def editWith (w : World) : LOp → Spec.Edit
  | .newFrame name id ext => .create w.heap.length name id ext
  | .setId h id ext => .setId h id ext
  | .renameFrame _ old new => .rename old new
  | _ => .none

/-- the judge run along a history of the model -/
def judge : World → List Spec.Known → List LOp → Bool
  | _, _, [] => true
  | w, ks, op :: rest =>
    let w' := (step w op).1
    let ks1 := Spec.noteEdit ks (editWith w op)
    match snapWith w w' op with
    | some sn => Spec.snapAgrees ks1 sn && judge w' (Spec.noteSnap ks1 sn) rest
    | none => judge w' ks1 rest

/-- what the judge knows is true of the heap -/
def KnownOk (w : World) (ks : List Spec.Known) : Prop :=
  ∀ k ∈ ks, ∃ o, w.obj k.handle = some o ∧ o.id = k.id ∧ o.ext = k.ext ∧ o.name ∈ k.names

/-- The independence judge accepts every history of the model: at every snapshot, every frame the
judge has met before is what its own history (creation, `setId`, renamings) says. -/
theorem judge_accepts_from (w : World) (ks : List Spec.Known) (hk : KnownOk w ks) (ops : List LOp) :
    judge w ks ops = true := by
  sorry

theorem judge_accepts (ops : List LOp) : judge {} [] ops = true :=
  judge_accepts_from {} [] (by intro k hk; cases hk) ops

/-- the judge is not vacuous: a history in which a copy shares its identifier with the original
(what a shallow copy of the frame would do) is rejected -/
example :
    Spec.snapAgrees
      (Spec.noteEdit (Spec.noteSnap [] [{ handle := 1, name := "A", id := 0x10, ext := false }]) (.setId 0 0x20 false))
      [{ handle := 1, name := "A", id := 0x20, ext := false }] = false := by decide

end CanVerif.C10
