import Driver.J
import CanVerif.Model.DbcLines
import Driver.C05
open Lean CanVerif

namespace D20

def kindName : LineKind → String
  | .bo => "BO_" | .sg => "SG_" | .boTxBu => "BO_TX_BU_" | .cmSg => "CM_ SG_" | .cmBo => "CM_ BO_" | .cmBu => "CM_ BU_"
  | .bu => "BU_:" | .val => "VAL_" | .valTable => "VAL_TABLE_" | .baDefTyped => "BA_DEF_ <kind>" | .baDef => "BA_DEF_"
  | .ba => "BA_" | .sigGroup => "SIG_GROUP_" | .sigValtype => "SIG_VALTYPE_" | .baDefDef => "BA_DEF_DEF_" | .sgMulVal => "SG_MUL_VAL_"
  | .ev => "EV_" | .unknown => "unknown"

/-- op "bad": c = {"fmt": "dbc"|"sym", "bad": [lines], ...}; impl i = {"raised": b, "same": b, "printed": [b per bad line] | null, "errors": n}
op "cut": impl i = {"raised": b, "kept": b} -/
def handle (op : String) (c i : Json) : Except String (Json × String) := do
  match op with
  | "bad" =>
    let fmt ← J.str (← J.key c "fmt")
    let bads ← J.strList (← J.key c "bad")
    let raised ← J.bool (← J.key i "raised")
    let same ← J.bool (← J.key i "same")
    let ins ← J.arr (← J.key c "ins")
    let kinds ← ins.mapM fun x => do J.str (← J.idx x 2)
    let expected := (kinds.filter (· != "unknown")).length
    let m := if fmt == "dbc" then
        J.obj [("raised", Json.bool false), ("same", Json.bool true),
               -- a BA_ line that matches its pattern but gives a non-number to an INT/HEX/FLOAT attribute raises in
               -- check_numeric_attribute (kind "wrongvalue"): printed
               ("printed", J.ofList ((List.zip bads kinds).map fun (b, k) => Json.bool (k == "wrongvalue" || k == "raises" || (k != "matchok" && k != "early" && printsError b.toList))))]
      else J.obj [("raised", Json.bool false), ("same", Json.bool true), ("errors", J.ofNat expected)]
    let s := if raised then "fail: loading a file with malformed lines raised"
      else if !same then "fail: well-formed content differs when malformed lines are present"
      else if fmt == "sym" then
        (match (i.getObjVal? "errors").toOption with
         | some e => if e == J.ofNat expected then "ok" else "fail: SYM reader did not record exactly one load error per malformed statement"
         | none => "ok")
      else "ok"
    pure (m, s)
  | "cut" =>
    let raised ← J.bool (← J.key i "raised")
    let kept ← J.bool (← J.key i "kept")
    let m := J.obj [("raised", Json.bool false), ("kept", Json.bool true)]
    pure (m, if raised then "fail: loading a truncated file raised"
             else if !kept then "fail: a frame or signal defined completely before the cut is missing or placed/scaled differently"
             else "ok")
  | "whole" =>
    -- the file with its malformed lines / cut at a byte, read by the model of the whole reader (Model/DbcFile.lean) and by dbc.load:
    -- i = {"lines", "snap": the matrix the real reader has built when its line loop ends} | {"skipped": reason}
    D05.handle "whole" c i
  | "kind" =>
    let l ← J.str c
    pure (Json.str (kindName (classify l.toList)), "ok")
  | _ => throw s!"C20: unknown op {op}"

end D20
