import CanVerif.Model.Convert
import CanVerif.Proofs.ConvertSelect
/-!
# C18 (continued) — the selection options `--frames` and `--ecus` have exactly their documented effect

`--frames=a,b`: the result holds the named frames of the input (each identifier once, in the order of the option) and of the
input's ECUs exactly those the kept frames refer to.
`--ecus=pattern[:rx|:tx],…`: the result holds exactly those frames of the input that a selected ECU sends (unless `:rx`) or
of which it receives a signal (unless `:tx`); every selected ECU is kept; any other ECU is kept only if it sends a kept frame,
and an ECU that is not kept is no receiver any more.
Stated on the model of convert.py (Model/Convert.lean); frames are identified by (identifier, format).
-/
namespace CanVerif.C18s
open CanVerif CanVerif.Conv

/-- identifiers are unique in the input (a matrix read from a file) -/
def uniqueIds (m : KMat) : Prop := m.frames.Pairwise fun f g => ¬ (f.id = g.id ∧ f.ext = g.ext)

/-- names of the ECUs a frame refers to -/
def refs (f : KFrame) : List String := f.tx ++ f.sigs.flatMap (·.receivers)

/-! ## `--frames` -/

/-- every named frame must exist (else the converter raises) -/
theorem selectFrames_some_iff (src : KMat) (names : List String) (acc : KMat) :
    (selectFrames src names acc).isSome ↔ ∀ n ∈ names, ∃ f ∈ src.frames, f.name = n :=
  SelectProofs.selectFrames_isSome src names acc

/-- the frames of the result are frames of the input, carried over unchanged -/
theorem selectFrames_frames_from_source (src r : KMat) (names : List String) (h : selectFrames src names {} = some r) :
    ∀ g ∈ r.frames, g ∈ src.frames ∧ g.name ∈ names :=
  SelectProofs.selectFrames_from_source src r names h

/-- every named frame is in the result: the first frame of that name, unless a frame with its identifier was taken before -/
theorem selectFrames_complete (src r : KMat) (names : List String) (h : selectFrames src names {} = some r) :
    ∀ n ∈ names, ∀ f, src.frames.find? (·.name == n) = some f → ∃ g ∈ r.frames, g.id = f.id ∧ g.ext = f.ext :=
  SelectProofs.selectFrames_complete src r names h

/-- no identifier twice -/
theorem selectFrames_unique_ids (src r : KMat) (names : List String) (h : selectFrames src names {} = some r) : uniqueIds r :=
  SelectProofs.selectFrames_uniq src r names h

/-- the ECUs of the result are exactly the input's ECUs that a kept frame refers to -/
theorem selectFrames_ecus (src r : KMat) (names : List String) (h : selectFrames src names {} = some r) (e : String) :
    e ∈ r.ecus ↔ e ∈ src.ecus ∧ ∃ g ∈ r.frames, e ∈ refs g :=
  SelectProofs.selectFrames_ecusExact src r names h e

/-! ## `--ecus` -/

/-- the ECUs an item of the option selects -/
def selected (src : KMat) (items : List (String × Dir)) : List String :=
  items.flatMap fun it => src.ecus.filter (globMatch it.1 ·)

/-- a frame the option asks for -/
def wanted (src : KMat) (items : List (String × Dir)) (f : KFrame) : Prop :=
  ∃ it ∈ items, ∃ e ∈ src.ecus, globMatch it.1 e = true ∧
    ((it.2 ≠ .rx ∧ e ∈ f.tx) ∨ (it.2 ≠ .tx ∧ ∃ s ∈ f.sigs, e ∈ s.receivers))

/-- Exactly the wanted frames of the input are in the result (identified by identifier and format; receiver lists may have
lost ECUs that are not kept, see `selectEcus_receivers`). -/
theorem selectEcus_frames (src : KMat) (items : List (String × Dir)) (hu : uniqueIds src) (f : KFrame) (hf : f ∈ src.frames) :
    (∃ g ∈ (selectEcus src items).frames, g.id = f.id ∧ g.ext = f.ext) ↔ wanted src items f :=
  SelectProofs.selectEcus_hasId_iff src items hu f hf

/-- nothing but frames of the input: same identifier, format, name, length, senders minus removed ECUs, and the same signals
up to their receiver lists -/
theorem selectEcus_frames_from_source (src : KMat) (items : List (String × Dir)) :
    ∀ g ∈ (selectEcus src items).frames, ∃ f ∈ src.frames, g.id = f.id ∧ g.ext = f.ext ∧ g.name = f.name ∧ g.size = f.size ∧
      g.sigs.map (fun s => (s.name, s.start, s.size)) = f.sigs.map (fun s => (s.name, s.start, s.size)) :=
  SelectProofs.selectEcus_from_source src items

/-- every selected ECU is kept -/
theorem selectEcus_keeps_selected (src : KMat) (items : List (String × Dir)) :
    ∀ e ∈ selected src items, e ∈ (selectEcus src items).ecus :=
  SelectProofs.selectEcus_selected src items

/-- any ECU of the result is selected or sends a frame of the result -/
theorem selectEcus_ecus_justified (src : KMat) (items : List (String × Dir)) :
    ∀ e ∈ (selectEcus src items).ecus, e ∈ selected src items ∨ ∃ g ∈ (selectEcus src items).frames, e ∈ g.tx :=
  SelectProofs.selectEcus_justified src items

/-- who still receives a signal in the result is an ECU of the result (receiver lists without repetitions: `list.remove` takes
out one occurrence) -/
theorem selectEcus_receivers (src : KMat) (items : List (String × Dir))
    (hnd : ∀ f ∈ src.frames, ∀ s ∈ f.sigs, s.receivers.Nodup) :
    ∀ g ∈ (selectEcus src items).frames, ∀ s ∈ g.sigs, ∀ e ∈ s.receivers, e ∈ (selectEcus src items).ecus :=
  SelectProofs.selectEcus_receivers_in src items hnd

/-! non-vacuity -/
def exM : KMat := { ecus := ["A", "B", "C"], frames := [
  { name := "F1", id := 1, ext := false, size := 8, tx := ["A"], sigs := [{ name := "s", start := 0, size := 8, receivers := ["B"] }] },
  { name := "F2", id := 2, ext := false, size := 8, tx := ["C"], sigs := [{ name := "t", start := 0, size := 8, receivers := ["A", "B"] }] },
  { name := "F3", id := 3, ext := false, size := 8, tx := ["B"], sigs := [] }] }
example : ((selectEcus exM [("A", .tx)]).frames.map (·.name), (selectEcus exM [("A", .tx)]).ecus) = (["F1"], ["A"]) := by decide
example : ((selectEcus exM [("A", .rx)]).frames.map (·.name), (selectEcus exM [("A", .rx)]).ecus) = (["F2"], ["A", "C"]) := by decide
example : (selectFrames exM ["F3", "F1"] {}).map (fun r => (r.frames.map (·.name), r.ecus)) = some (["F3", "F1"], ["B", "A"]) := by decide

end CanVerif.C18s
