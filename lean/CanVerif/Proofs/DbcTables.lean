import CanVerif.Model.DbcTables
import CanVerif.Proofs.DbcStmt
/-!
# Helper lemmas for the statements `VAL_TABLE_` and `SIG_GROUP_` (Props/C05e.lean)
-/
namespace CanVerif.Dbc.TableProofs
open CanVerif CanVerif.Num CanVerif.Dbc CanVerif.Dbc.StmtProofs

theorem lit_vtab : "VAL_TABLE_ ".toList = ['V', 'A', 'L', '_', 'T', 'A', 'B', 'L', 'E', '_', ' '] := by decide
theorem lit_grp : "SIG_GROUP_ ".toList = ['S', 'I', 'G', '_', 'G', 'R', 'O', 'U', 'P', '_', ' '] := by decide
theorem lit_sq : " \"".toList = [' ', '"'] := by decide
theorem lit_sc : " :".toList = [' ', ':'] := by decide

/-! ## `VAL_TABLE_`: the entries -/

/-- the writer's rendering of one entry -/
def entS : Str × Str → Str := fun (k, t) => ' ' :: k ++ " \"".toList ++ escapeQuotes t ++ ['"']

/-- what `wfVt` says about one entry -/
def EntOK (e : Str × Str) : Prop := e.1 ≠ [] ∧ (∀ c ∈ e.1, IsDig c) ∧ ∀ c ∈ e.2, c ≠ '\\'

theorem key_plain (a b k : Str) (hk : ∀ c ∈ k, IsDig c) (ha : ∀ c ∈ a, c = ' ') (hb : ∀ c ∈ b, c = ' ') :
    ∀ c ∈ a ++ k ++ b, c ≠ '"' ∧ c ≠ '\\' := by
  intro c hc
  simp only [List.mem_append] at hc
  rcases hc with (hc | hc) | hc
  · rw [ha c hc]; decide
  · exact ⟨(ValProofs.isDig_facts (hk c hc)).1, (ValProofs.isDig_facts (hk c hc)).2.1⟩
  · rw [hb c hc]; decide

theorem strip_key (a b k : Str) (hk : ∀ c ∈ k, IsDig c) (ha : ∀ c ∈ a, c = ' ') (hb : ∀ c ∈ b, c = ' ') :
    stripWs (a ++ k ++ b) = k :=
  ValProofs.stripWs_pad a k b (fun c hc => by rw [ha c hc]; decide) (fun c hc => by rw [hb c hc]; decide)
    (fun c hc => (ValProofs.isDig_facts (hk c hc)).2.2.2.2)

theorem pairs_cons (a b : Str) (r : List Str) :
    pairsUnescaped (a :: b :: r) = (stripWs a, unescapeQuotes b) :: pairsUnescaped r := by
  rw [pairsUnescaped]

theorem entries_split (es : List (Str × Str)) (h : ∀ e ∈ es, EntOK e) :
    pairsUnescaped (escapeAwareSplit.go [] (es.flatMap entS)) = es := by
  induction es with
  | nil => simp [ValProofs.go_nil, pairsUnescaped]
  | cons e r ih =>
    obtain ⟨k, t⟩ := e
    obtain ⟨_, hk, ht⟩ := h (k, t) List.mem_cons_self
    have hr := ih (fun e he => h e (List.mem_cons_of_mem _ he))
    have hshape : ((k, t) :: r).flatMap entS =
        ([' '] ++ k ++ [' ']) ++ '"' :: (escapeQuotes t ++ '"' :: r.flatMap entS) := by
      simp [entS]
    rw [hshape, ValProofs.go_group _ t _ (key_plain [' '] [' '] k hk (by simp) (by simp)) ht, pairs_cons,
      strip_key [' '] [' '] k hk (by simp) (by simp), ValProofs.unescape_escape_of t ht, hr]

/-- the same with the first blank taken away (it separates the name from the first key) -/
theorem entries_split_first (k t : Str) (r : List (Str × Str)) (hk : ∀ c ∈ k, IsDig c) (ht : ∀ c ∈ t, c ≠ '\\')
    (h : ∀ e ∈ r, EntOK e) :
    pairsUnescaped (escapeAwareSplit (k ++ ' ' :: '"' :: (escapeQuotes t ++ '"' :: r.flatMap entS))) = (k, t) :: r := by
  have hshape : k ++ ' ' :: '"' :: (escapeQuotes t ++ '"' :: r.flatMap entS) =
      ([] ++ k ++ [' ']) ++ '"' :: (escapeQuotes t ++ '"' :: r.flatMap entS) := by
    simp
  unfold escapeAwareSplit
  rw [hshape, ValProofs.go_group _ t _ (key_plain [] [' '] k hk (by simp) (by simp)) ht, pairs_cons,
    strip_key [] [' '] k hk (by simp) (by simp), ValProofs.unescape_escape_of t ht, entries_split r h]

theorem pairs_empty : pairsUnescaped (escapeAwareSplit []) = [] := by
  unfold escapeAwareSplit
  rw [ValProofs.go_nil]
  simp [pairsUnescaped]

/-! ## `VAL_TABLE_`: the statement -/

theorem renderVt_eq (name : Str) (es : List (Str × Str)) :
    renderVt ⟨name, es⟩ = 'V' :: 'A' :: 'L' :: '_' :: 'T' :: 'A' :: 'B' :: 'L' :: 'E' :: '_' :: ' ' ::
      (name ++ (es.flatMap entS ++ ((if es.isEmpty then [' '] else []) ++ [';']))) := by
  have hf : (fun (x : Str × Str) => match x with
      | (k, t) => ' ' :: k ++ " \"".toList ++ escapeQuotes t ++ ['"']) = entS := by
    funext x; obtain ⟨a, b⟩ := x; rfl
  unfold renderVt
  simp only
  rw [lit_vtab, hf]
  simp only [List.append_assoc, List.cons_append, List.nil_append]

theorem parseVt_shape (name body : Str) (hn : isIdent name = true)
    (hb : skipSp (' ' :: (body ++ [';'])) = body ++ [';']) :
    parseVt ('V' :: 'A' :: 'L' :: '_' :: 'T' :: 'A' :: 'B' :: 'L' :: 'E' :: '_' :: ' ' ::
      (name ++ ' ' :: (body ++ [';']))) = some ⟨name, pairsUnescaped (escapeAwareSplit body)⟩ := by
  have hsp := skipSp_cons_ident name (' ' :: (body ++ [';'])) hn
  have htok := span_tok name (body ++ [';']) (ident_not_blank hn)
  obtain ⟨n, ns, rfl⟩ := List.exists_cons_of_ne_nil (isIdent_ne_nil hn)
  unfold parseVt
  rw [lit_vtab]
  rw [if_neg (by simp [startsWith])]
  simp only [List.drop_succ_cons, List.drop_zero]
  rw [hsp, htok]
  simp only
  rw [hb, upto_snoc]

theorem wfVt_unpack {v : VtLine} (h : wfVt v = true) : isIdent v.name = true ∧ ∀ e ∈ v.entries, EntOK e := by
  simp only [wfVt, Bool.and_eq_true, List.all_eq_true] at h
  refine ⟨h.1, ?_⟩
  intro e he
  obtain ⟨k, t⟩ := e
  have := h.2 (k, t) he
  simp only [Bool.not_eq_true', List.isEmpty_eq_false_iff] at this
  exact ⟨this.1.1, fun c hc => (isDigit_iff c).mp (this.1.2 c hc), ValProofs.wfText_no_bs t this.2⟩

theorem parseVt_renderVt (v : VtLine) (h : wfVt v = true) : parseVt (renderVt v) = some v := by
  obtain ⟨hn, he⟩ := wfVt_unpack h
  obtain ⟨name, es⟩ := v
  simp only at hn he
  rw [renderVt_eq]
  cases es with
  | nil =>
    have : name ++ (([] : List (Str × Str)).flatMap entS ++ ((if ([] : List (Str × Str)).isEmpty then [' '] else []) ++ [';'])) =
        name ++ ' ' :: ([] ++ [';']) := by simp
    rw [this, parseVt_shape name [] hn (by decide), pairs_empty]
  | cons e r =>
    obtain ⟨k, t⟩ := e
    obtain ⟨hkne, hk, ht⟩ := he (k, t) List.mem_cons_self
    have hr : ∀ e ∈ r, EntOK e := fun e he' => he e (List.mem_cons_of_mem _ he')
    simp only at hkne hk ht
    have : name ++ (((k, t) :: r).flatMap entS ++ ((if ((k, t) :: r).isEmpty then [' '] else []) ++ [';'])) =
        name ++ ' ' :: ((k ++ ' ' :: '"' :: (escapeQuotes t ++ '"' :: r.flatMap entS)) ++ [';']) := by
      simp [entS]
    rw [this, parseVt_shape name _ hn, entries_split_first k t r hk ht hr]
    obtain ⟨x, xs, rfl⟩ := List.exists_cons_of_ne_nil hkne
    rw [skipSp_space]
    exact skipSp_of_ne x _ (isDig_ne_space (hk x (by simp)))

/-! ## `SIG_GROUP_` -/

theorem splitRaw_go_members (ms : List Str) (cur : Str) (h : ∀ m ∈ ms, ∀ c ∈ m, c ≠ ' ') :
    splitRaw.go ' ' cur (ms.flatMap fun m => ' ' :: m) = cur.reverse :: ms := by
  induction ms generalizing cur with
  | nil => simp [splitRaw.go]
  | cons m ms ih =>
    have hshape : ((m :: ms).flatMap fun m => ' ' :: m) = ' ' :: (m ++ ms.flatMap fun m => ' ' :: m) := by simp
    rw [hshape, splitRaw_go_sep, splitRaw_go_append ' ' m [] _ (h m (by simp)),
      ih _ (fun x hx => h x (List.mem_cons_of_mem _ hx))]
    simp

theorem filter_idents (ms : List Str) (h : ∀ m ∈ ms, isIdent m = true) :
    (ms.map stripWs).filter (!·.isEmpty) = ms := by
  induction ms with
  | nil => rfl
  | cons m ms ih =>
    have hm := h m (by simp)
    obtain ⟨x, xs, hx⟩ := List.exists_cons_of_ne_nil (isIdent_ne_nil hm)
    rw [List.map_cons, stripWs_ident hm, List.filter_cons, if_pos (by rw [hx]; rfl),
      ih (fun y hy => h y (List.mem_cons_of_mem _ hy))]

theorem groupMembers_render (ms : List Str) (h : ∀ m ∈ ms, isIdent m = true) :
    groupMembers (ms.flatMap fun m => ' ' :: m) = ms := by
  unfold groupMembers splitRaw
  rw [splitRaw_go_members ms [] (fun m hm c hc => identChar_ne_space (isIdent_all (h m hm) c hc))]
  rw [List.reverse_nil, List.map_cons, List.filter_cons, if_neg (by decide), filter_idents ms h]

theorem renderGroup_eq (g : GroupLine) :
    renderGroup g = 'S' :: 'I' :: 'G' :: '_' :: 'G' :: 'R' :: 'O' :: 'U' :: 'P' :: '_' :: ' ' ::
      (natDigits g.frameId ++ ' ' :: (g.name ++ ' ' :: (natDigits g.groupId ++ ' ' :: ':' ::
        ((g.members.flatMap fun m => ' ' :: m) ++ [';'])))) := by
  unfold renderGroup
  rw [lit_grp, lit_sc]
  simp only [List.append_assoc, List.cons_append, List.nil_append]

theorem parseGroup_shape (d e : Char) (ds es name body : Str) (fid gid : Nat) (hd : AllDig (d :: ds)) (he : AllDig (e :: es))
    (hfid : digitsToNat (d :: ds) = some fid) (hgid : digitsToNat (e :: es) = some gid) (hn : isIdent name = true) :
    parseGroup ('S' :: 'I' :: 'G' :: '_' :: 'G' :: 'R' :: 'O' :: 'U' :: 'P' :: '_' :: ' ' ::
      ((d :: ds) ++ ' ' :: (name ++ ' ' :: ((e :: es) ++ ' ' :: ':' :: (body ++ [';']))))) =
      some ⟨fid, name, gid, groupMembers body⟩ := by
  have hsp := skipSp_cons_ident name (' ' :: ((e :: es) ++ ' ' :: ':' :: (body ++ [';']))) hn
  have htok := span_tok name ((e :: es) ++ ' ' :: ':' :: (body ++ [';'])) (ident_not_blank hn)
  obtain ⟨n, ns, rfl⟩ := List.exists_cons_of_ne_nil (isIdent_ne_nil hn)
  unfold parseGroup
  rw [lit_grp]
  rw [if_neg (by simp [startsWith])]
  simp only [List.drop_succ_cons, List.drop_zero]
  rw [skipSp_cons_digits _ _ (by simp) hd, span_tok _ _ (fun c hc => isDig_not_blank (hd c hc))]
  simp only
  rw [hsp, htok]
  simp only
  rw [skipSp_cons_digits _ _ (by simp) he, span_tok _ _ (fun c hc => isDig_not_blank (he c hc))]
  simp only
  rw [skipSp_space, skipSp_of_ne ':' _ (by decide)]
  simp only
  rw [upto_snoc]
  simp only
  rw [hfid, hgid]
  rfl

theorem wfGroup_unpack {g : GroupLine} (h : wfGroup g = true) :
    isIdent g.name = true ∧ ∀ m ∈ g.members, isIdent m = true := by
  simpa [wfGroup] using h

theorem parseGroup_renderGroup (g : GroupLine) (h : wfGroup g = true) : parseGroup (renderGroup g) = some g := by
  obtain ⟨hn, hm⟩ := wfGroup_unpack h
  obtain ⟨fid, name, gid, ms⟩ := g
  simp only at hn hm
  rw [renderGroup_eq]
  simp only
  cases hfd : natDigits fid with
  | nil => exact absurd hfd (natDigits_ne_nil _)
  | cons d ds =>
    cases hgd : natDigits gid with
    | nil => exact absurd hgd (natDigits_ne_nil _)
    | cons e es =>
      rw [parseGroup_shape d e ds es name _ fid gid (by rw [← hfd]; exact natDigits_allDig fid)
        (by rw [← hgd]; exact natDigits_allDig gid) (by rw [← hfd]; exact digitsToNat_natDigits' fid)
        (by rw [← hgd]; exact digitsToNat_natDigits' gid) hn, groupMembers_render ms hm]

end CanVerif.Dbc.TableProofs
