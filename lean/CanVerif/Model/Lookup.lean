import CanVerif.Model.ArbId
/-!
# Model of the frame lookups of `CanMatrix` over edit histories (C10)

canmatrix.py after fix 54031e9: `frame_by_id` (~1983, memo per matrix, hit validated),
`frame_by_name`, `frame_by_pgn`, `add_frame`, `remove_frame`, `del_frame`, `rename_frame` (exact name),
`add_ecu` (memo reset), `merge`, copy.py `copy_frame`, `copy.deepcopy`, reader style construction
(`db.frames.append`), and edits through a frame handle (`frame.arbitration_id.id = …`, `frame.name = …`).

Frames are objects: the world has a heap of frame objects addressed by a handle (`oid`); a matrix
holds a list of handles and its private memo (key → handle).
-/
namespace CanVerif

structure FObj where
  name : String
  id : Nat
  ext : Bool
  deriving Repr, DecidableEq, Inhabited

structure Mat where
  frames : List Nat                     -- handles, in list order
  memo : List ((Nat × Bool) × Nat) := []
  deriving Repr, DecidableEq, Inhabited

structure World where
  heap : List FObj := []                -- handle = index
  mats : List Mat := []
  deriving Repr, Inhabited

inductive LOp
  | newMatrix                                   -- CanMatrix()
  | newFrame (name : String) (id : Nat) (ext : Bool)   -- Frame(...), not yet in a matrix
  | addFrame (m h : Nat)                        -- db.add_frame(frame)
  | appendFrame (m h : Nat)                     -- reader style: db.frames.append(frame)
  | removeFrame (m h : Nat)                     -- db.remove_frame(frame)
  | delFrame (m h : Nat)                        -- db.del_frame(frame)
  | delFrameByName (m : Nat) (name : String)    -- db.del_frame("name")
  | renameFrame (m : Nat) (old new : String)    -- db.rename_frame("old", "new") (exact name)
  | setId (h : Nat) (id : Nat) (ext : Bool)     -- frame.arbitration_id.id = …; .extended = …
  | addEcu (m : Nat)                            -- db.add_ecu(new ecu)
  | copyFrame (src dst : Nat) (id : Nat) (ext : Bool)  -- copy.copy_frame(ArbitrationId(id,ext), src, dst)
  | merge (dst src : Nat)                       -- dst.merge([src])
  | deepcopy (m : Nat)                          -- copy.deepcopy(db): a new matrix
  | loadMatrix (frames : List FObj)             -- formats.loads(dbc text): a new matrix built by a reader
  | byId (m : Nat) (id : Nat) (ext : Bool)
  | byName (m : Nat) (name : String)
  | byPgn (m : Nat) (pgn : Nat)
  deriving Repr, Inhabited

inductive LOut
  | unit
  | handle (h : Nat)          -- a new object / matrix
  | found (r : Option Nat)    -- lookup result
  | flag (b : Bool)           -- copy_frame's return value
  | raised                    -- the call raised (ValueError / AttributeError); state as described per op
  deriving Repr, DecidableEq, Inhabited

def World.obj (w : World) (h : Nat) : Option FObj := w.heap[h]?
def World.mat (w : World) (m : Nat) : Option Mat := w.mats[m]?
def World.setMat (w : World) (m : Nat) (x : Mat) : World := { w with mats := w.mats.set m x }

def carriesId (w : World) (id : Nat) (ext : Bool) (h : Nat) : Bool :=
  match w.obj h with
  | some o => o.id == id && o.ext == ext
  | none => false

/-- `frame_by_id`: memo hit (validated against the key), else scan and memoise -/
def lookupId (w : World) (x : Mat) (id : Nat) (ext : Bool) : Option Nat × Mat :=
  match (x.memo.find? (fun e => e.1 == (id, ext))).map (·.2) with
  | some h => if carriesId w id ext h then (some h, x) else
      match x.frames.find? (carriesId w id ext) with
      | some h' => (some h', { x with memo := ((id, ext), h') :: x.memo.filter (fun e => e.1 != (id, ext)) })
      | none => (none, x)
  | none =>
      match x.frames.find? (carriesId w id ext) with
      | some h' => (some h', { x with memo := ((id, ext), h') :: x.memo })
      | none => (none, x)

def lookupName (w : World) (x : Mat) (name : String) : Option Nat :=
  x.frames.find? fun h => match w.obj h with
    | some o => o.name == name
    | none => false

/-- `frame_by_pgn` (11-bit frames skipped) -/
def lookupPgn (w : World) (x : Mat) (p : Nat) : Option Nat :=
  match ArbId.fromPgn p with
  | .error _ => none
  | .ok q => x.frames.find? fun h => match w.obj h with
    | some o => o.ext && ArbId.pgnOfId o.id == ArbId.pgnOfId q.id
    | none => false

/-- `copy_frame(ArbitrationId(id, ext), src, dst)`; returns the new world, the flag, or `raised` -/
def copyFrameStep (w : World) (src dst : Nat) (id : Nat) (ext : Bool) : World × LOut :=
  match w.mat src with
  | none => (w, .raised)
  | some xs =>
    let (r, xs') := lookupId w xs id ext
    let w1 := w.setMat src xs'
    match r with
    | none => (w1, .raised)       -- `frame.name` on None
    | some h =>
      match w1.mat dst, w1.obj h with
      | some xd, some o =>
        let (r2, xd') := lookupId w1 xd o.id o.ext
        let w2 := w1.setMat dst xd'
        match r2 with
        | some _ => (w2, .flag false)
        | none =>
          let hn := w2.heap.length
          let w3 := { w2 with heap := w2.heap ++ [o] }
          (w3.setMat dst { frames := xd'.frames ++ [hn], memo := [] }, .flag true)
      | _, _ => (w1, .raised)

def step (w : World) : LOp → World × LOut
  | .newMatrix => ({ w with mats := w.mats ++ [{ frames := [] }] }, .handle w.mats.length)
  | .newFrame name id ext => ({ w with heap := w.heap ++ [{ name, id, ext }] }, .handle w.heap.length)
  | .addFrame m h =>
    match w.mat m with
    | some x => (w.setMat m { frames := x.frames ++ [h], memo := [] }, .unit)
    | none => (w, .raised)
  | .appendFrame m h =>
    match w.mat m with
    | some x => (w.setMat m { x with frames := x.frames ++ [h] }, .unit)
    | none => (w, .raised)
  | .removeFrame m h =>
    match w.mat m with
    | some x => if x.frames.contains h then (w.setMat m { frames := x.frames.erase h, memo := [] }, .unit)
                else (w, .raised)      -- list.remove raises ValueError before the memo is touched
    | none => (w, .raised)
  | .delFrame m h =>
    match w.mat m with
    | some x => if x.frames.contains h then (w.setMat m { frames := x.frames.erase h, memo := [] }, .unit)
                else (w, .raised)
    | none => (w, .raised)
  | .delFrameByName m name =>
    match w.mat m with
    | some x =>
      match lookupName w x name with
      | some h => (w.setMat m { frames := x.frames.erase h, memo := [] }, .unit)
      | none => (w, .unit)
    | none => (w, .raised)
  | .renameFrame m old new =>
    match w.mat m with
    | some x =>
      -- every frame of the matrix whose name equals `old` (objects may be shared with other matrices)
      let heap' := (List.range w.heap.length).map fun h =>
        match w.heap[h]? with
        | some o => if x.frames.contains h && o.name == old then { o with name := new } else o
        | none => default
      ({ w with heap := heap' }, .unit)
    | none => (w, .raised)
  | .setId h id ext =>
    match w.obj h with
    | some o => ({ w with heap := w.heap.set h { o with id := id, ext := ext } }, .unit)
    | none => (w, .raised)
  | .addEcu m =>
    match w.mat m with
    | some x => (w.setMat m { x with memo := [] }, .unit)
    | none => (w, .raised)
  | .copyFrame src dst id ext => copyFrameStep w src dst id ext
  | .merge dst src =>
    match w.mat src, w.mat dst with
    | some xs, some _ =>
      -- for frame in src.frames: copy_frame(frame.arbitration_id, src, dst); afterwards the memo of dst is reset
      let w' := xs.frames.foldl (fun acc h =>
        match acc.obj h with
        | some o => (copyFrameStep acc src dst o.id o.ext).1
        | none => acc) w
      match w'.mat dst with
      | some xd => (w'.setMat dst { xd with memo := [] }, .unit)
      | none => (w', .raised)
    | _, _ => (w, .raised)
  | .deepcopy m =>
    match w.mat m with
    | some x =>
      -- distinct frame objects are copied once each (deepcopy keeps sharing inside the copied graph)
      let olds := x.frames.eraseDups
      let base := w.heap.length
      let newOf (h : Nat) : Nat := base + (olds.idxOf h)
      let copies := olds.map fun h => (w.obj h).getD default
      let x' : Mat := { frames := x.frames.map newOf,
                        memo := x.memo.filterMap fun e => if olds.contains e.2 then some (e.1, newOf e.2) else none }
      ({ heap := w.heap ++ copies, mats := w.mats ++ [x'] }, .handle w.mats.length)
    | none => (w, .raised)
  | .loadMatrix fs =>
    let base := w.heap.length
    ({ heap := w.heap ++ fs, mats := w.mats ++ [{ frames := (List.range fs.length).map (base + ·) }] }, .handle w.mats.length)
  | .byId m id ext =>
    match w.mat m with
    | some x => let (r, x') := lookupId w x id ext; (w.setMat m x', .found r)
    | none => (w, .raised)
  | .byName m name =>
    match w.mat m with
    | some x => (w, .found (lookupName w x name))
    | none => (w, .raised)
  | .byPgn m p =>
    match w.mat m with
    | some x => (w, .found (lookupPgn w x p))
    | none => (w, .raised)

/-- run a history, collecting outputs -/
def run (w : World) : List LOp → World × List LOut
  | [] => (w, [])
  | op :: rest =>
    let (w1, o) := step w op
    let (w2, os) := run w1 rest
    (w2, o :: os)

/-- `frame_by_header_id(q)`: a plain scan, the first frame of the matrix whose header id equals `q` (frames are `(handle, header id)`) -/
def byHeaderId (frames : List (Nat × Option Nat)) (q : Nat) : Option Nat :=
  (frames.find? fun f => f.2 == some q).map (·.1)

end CanVerif
