import CanVerif.Model.EcuOps
import CanVerif.Proofs.EcuOps
/-!
# C11 — ECU rename / delete / update keep every sender and receiver reference consistent

Renaming an ECU replaces every reference to it (frame senders, receivers of the frames' signals,
frame receivers) by the new name and changes nothing else; deleting an ECU removes it and every
reference to it; updating the ECU list makes every referenced ECU exist exactly once; removing
obsolete ECUs removes exactly the unreferenced ones.  After each of these operations every frame's
receiver list equals the union of its signals' receivers.

Unbounded: any number of ECUs, frames, signals; any sequence of operations.
-/
namespace CanVerif.C11
open CanVerif
open CanVerif.EcuOps

/-- two lists of equal length whose elements are pairwise related -/
inductive Forall2 {α β : Type} (R : α → β → Prop) : List α → List β → Prop
  | nil : Forall2 R [] []
  | cons {a b l₁ l₂} : R a b → Forall2 R l₁ l₂ → Forall2 R (a :: l₁) (b :: l₂)

/-- duplicate-free ECU list and reference lists -/
def NodupRefs (m : EMat) : Prop :=
  m.ecus.Nodup ∧ ∀ f ∈ m.frames, f.transmitters.Nodup ∧ f.receivers.Nodup ∧ ∀ s ∈ f.sigs, s.receivers.Nodup

/-- a frame's receiver list equals the union of its signals' receivers -/
def UpToDate (f : EFrame) : Prop := ∀ x, x ∈ f.receivers ↔ ∃ s ∈ f.sigs, x ∈ s.receivers

def Consistent (m : EMat) : Prop := ∀ f ∈ m.frames, UpToDate f

/-- the state the readers produce -/
def Wf (m : EMat) : Prop := NodupRefs m ∧ Consistent m

/-! ## helper lemmas (proof infrastructure, no part of the specification) -/

theorem Forall2.of_map {α β : Type} {R : α → β → Prop} {g : α → β} :
    ∀ (l : List α), (∀ a ∈ l, R a (g a)) → Forall2 R l (l.map g)
  | [], _ => Forall2.nil
  | a :: l, h =>
    Forall2.cons (h a List.mem_cons_self) (Forall2.of_map l fun b hb => h b (List.mem_cons_of_mem _ hb))

theorem Forall2.rfl' {α : Type} {R : α → α → Prop} :
    ∀ (l : List α), (∀ a ∈ l, R a a) → Forall2 R l l
  | [], _ => Forall2.nil
  | a :: l, h =>
    Forall2.cons (h a List.mem_cons_self) (Forall2.rfl' l fun b hb => h b (List.mem_cons_of_mem _ hb))

theorem Forall2.mono {α β : Type} {R S : α → β → Prop} {l : List α} {l' : List β}
    (h : Forall2 R l l') (hi : ∀ a b, a ∈ l → b ∈ l' → R a b → S a b) : Forall2 S l l' := by
  induction h with
  | nil => exact Forall2.nil
  | cons hab _ ih =>
    exact Forall2.cons (hi _ _ List.mem_cons_self List.mem_cons_self hab)
      (ih fun a b ha hb => hi a b (List.mem_cons_of_mem _ ha) (List.mem_cons_of_mem _ hb))

theorem Forall2.comp {α β γ : Type} {R : α → β → Prop} {S : β → γ → Prop} {T : α → γ → Prop}
    {l₁ : List α} {l₂ : List β} {l₃ : List γ}
    (h₁ : Forall2 R l₁ l₂) (h₂ : Forall2 S l₂ l₃)
    (h : ∀ a b c, a ∈ l₁ → R a b → S b c → T a c) : Forall2 T l₁ l₃ := by
  induction h₁ generalizing l₃ with
  | nil => cases h₂; exact Forall2.nil
  | cons hab _ ih =>
    cases h₂ with
    | cons hbc h₂' =>
      exact Forall2.cons (h _ _ _ List.mem_cons_self hab hbc)
        (ih h₂' fun a b c ha => h a b c (List.mem_cons_of_mem _ ha))

theorem Forall2.exists_left {α β : Type} {R : α → β → Prop} {l : List α} {l' : List β}
    (h : Forall2 R l l') {b : β} (hb : b ∈ l') : ∃ a ∈ l, R a b := by
  induction h with
  | nil => cases hb
  | cons hab _ ih =>
    cases List.mem_cons.mp hb with
    | inl e => exact ⟨_, List.mem_cons_self, e ▸ hab⟩
    | inr e =>
      obtain ⟨a, ha, hr⟩ := ih e
      exact ⟨a, List.mem_cons_of_mem _ ha, hr⟩

/-- duplicate-free reference lists of one frame (the per-frame part of `NodupRefs`) -/
def NodupFrame (f : EFrame) : Prop :=
  f.transmitters.Nodup ∧ f.receivers.Nodup ∧ ∀ s ∈ f.sigs, s.receivers.Nodup

theorem wf_mk {e : List String} {fs : List EFrame} {fr : List ESig} (he : e.Nodup)
    (hf : ∀ f ∈ fs, NodupFrame f ∧ UpToDate f) : Wf { ecus := e, frames := fs, freeSigs := fr } :=
  ⟨⟨he, fun f h => (hf f h).1⟩, fun f h => (hf f h).2⟩

theorem wf_frame {m : EMat} (hwf : Wf m) {f : EFrame} (hf : f ∈ m.frames) :
    NodupFrame f ∧ UpToDate f := ⟨hwf.1.2 f hf, hwf.2 f hf⟩

theorem upToDate_updateReceiver (f : EFrame) : UpToDate f.updateReceiver :=
  fun _ => mem_updateReceiver

theorem nodupFrame_updateReceiver {f : EFrame} (ht : f.transmitters.Nodup)
    (hs : ∀ s ∈ f.sigs, s.receivers.Nodup) : NodupFrame f.updateReceiver :=
  ⟨ht, nodup_updateReceiver f, hs⟩

/-- `update_receiver` makes a frame's receiver list the duplicate-free union of its signals' receivers -/
theorem updateReceiver_upToDate (f : EFrame) :
    UpToDate f.updateReceiver ∧ f.updateReceiver.receivers.Nodup ∧
    f.updateReceiver.sigs = f.sigs ∧ f.updateReceiver.transmitters = f.transmitters ∧
    f.updateReceiver.name = f.name :=
  ⟨upToDate_updateReceiver f, nodup_updateReceiver f, rfl, rfl, rfl⟩

/-! ## rename -/

/-- how a reference list changes under a rename of `old` to `new` -/
def RenamedList (old new : String) (l l' : List String) : Prop :=
  ∀ x, x ∈ l' ↔ (x = new ∧ old ∈ l) ∨ (x ≠ old ∧ x ∈ l)

def RenamedFrame (old new : String) (f f' : EFrame) : Prop :=
  f'.name = f.name ∧ RenamedList old new f.transmitters f'.transmitters ∧
  Forall2 (fun s s' => s'.name = s.name ∧ RenamedList old new s.receivers s'.receivers) f.sigs f'.sigs ∧
  UpToDate f'

/-- Renaming a name that is not in the ECU list does nothing (also when it is referenced). -/
theorem rename_unlisted_noop (m : EMat) (old new : String) (h : old ∉ m.ecus) : m.renameEcu old new = m :=
  renameEcu_of_not_mem h

theorem nodupFrame_renFrame {f : EFrame} (old new : String) (h : NodupFrame f) :
    NodupFrame (renFrame old new f) := by
  refine nodupFrame_updateReceiver (nodup_replaceRef h.1) ?_
  intro s' hs'
  obtain ⟨s, hs, rfl⟩ := List.mem_map.mp hs'
  exact nodup_replaceRef (h.2.2 s hs)

theorem renamedFrame_renFrame {f : EFrame} (old new : String) (h : NodupFrame f) :
    RenamedFrame old new f (renFrame old new f) := by
  refine ⟨rfl, fun x => mem_replaceRef h.1, ?_, upToDate_updateReceiver _⟩
  show Forall2 _ f.sigs (f.sigs.map fun s => ({ s with receivers := replaceRef s.receivers old new } : ESig))
  apply Forall2.of_map
  intro s hs
  exact ⟨rfl, fun x => mem_replaceRef (h.2.2 s hs)⟩

/-- Renaming a listed ECU replaces every reference to it by the new name and changes nothing else;
every frame's receiver list is up to date afterwards. -/
theorem rename_refs (m : EMat) (old new : String) (hwf : NodupRefs m) (hold : old ∈ m.ecus) :
    let m' := m.renameEcu old new
    (∀ x, x ∈ m'.ecus ↔ (x = new) ∨ (x ≠ old ∧ x ∈ m.ecus)) ∧ m'.ecus.length = m.ecus.length ∧
    Forall2 (RenamedFrame old new) m.frames m'.frames ∧ m'.freeSigs = m.freeSigs := by
  rw [renameEcu_of_mem hold]
  refine ⟨fun x => mem_setFirst hwf.1 hold, length_setFirst _ _ _, ?_, rfl⟩
  exact Forall2.of_map m.frames (fun f hf => renamedFrame_renFrame old new (hwf.2 f hf))

/-! ## delete -/

def RemovedList (gone : String → Prop) (l l' : List String) : Prop := ∀ x, x ∈ l' ↔ x ∈ l ∧ ¬ gone x

def RemovedFrame (gone : String → Prop) (f f' : EFrame) : Prop :=
  f'.name = f.name ∧ RemovedList gone f.transmitters f'.transmitters ∧
  Forall2 (fun s s' => s'.name = s.name ∧ RemovedList gone s.receivers s'.receivers) f.sigs f'.sigs

theorem RemovedList.congr {g g' : String → Prop} {l l' : List String} (hg : ∀ x, g x ↔ g' x)
    (h : RemovedList g l l') : RemovedList g' l l' :=
  fun x => by rw [h x, hg x]

theorem RemovedList.comp {g₁ g₂ : String → Prop} {l l₁ l₂ : List String}
    (h₁ : RemovedList g₁ l l₁) (h₂ : RemovedList g₂ l₁ l₂) :
    RemovedList (fun x => g₁ x ∨ g₂ x) l l₂ := by
  intro x
  rw [h₂ x, h₁ x]
  constructor
  · rintro ⟨⟨a, b⟩, c⟩
    exact ⟨a, fun h => h.elim b c⟩
  · rintro ⟨a, b⟩
    exact ⟨⟨a, fun h => b (Or.inl h)⟩, fun h => b (Or.inr h)⟩

theorem RemovedFrame.congr {g g' : String → Prop} {f f' : EFrame} (hg : ∀ x, g x ↔ g' x)
    (h : RemovedFrame g f f') : RemovedFrame g' f f' :=
  ⟨h.1, h.2.1.congr hg, h.2.2.mono fun _ _ _ _ hs => ⟨hs.1, hs.2.congr hg⟩⟩

theorem RemovedFrame.comp {g₁ g₂ : String → Prop} {f f₁ f₂ : EFrame}
    (h₁ : RemovedFrame g₁ f f₁) (h₂ : RemovedFrame g₂ f₁ f₂) :
    RemovedFrame (fun x => g₁ x ∨ g₂ x) f f₂ :=
  ⟨h₂.1.trans h₁.1, h₁.2.1.comp h₂.2.1,
    h₁.2.2.comp h₂.2.2 fun _ _ _ _ hs hs' => ⟨hs'.1.trans hs.1, hs.2.comp hs'.2⟩⟩

theorem RemovedFrame.rfl' {g : String → Prop} (hg : ∀ x, ¬ g x) (f : EFrame) : RemovedFrame g f f :=
  ⟨rfl, fun x => by simp [hg x], Forall2.rfl' _ fun s _ => ⟨rfl, fun x => by simp [hg x]⟩⟩

theorem nodupFrame_delFrame {f : EFrame} (n : String) (h : NodupFrame f) :
    NodupFrame (delFrame n f) := by
  refine nodupFrame_updateReceiver (h.1.erase n) ?_
  intro s' hs'
  obtain ⟨s, hs, rfl⟩ := List.mem_map.mp hs'
  exact (h.2.2 s hs).erase n

theorem removedFrame_delFrame {f : EFrame} (n : String) (h : NodupFrame f) :
    RemovedFrame (· = n) f (delFrame n f) := by
  have key : ∀ {l : List String}, l.Nodup → RemovedList (· = n) l (l.erase n) := by
    intro l hl x
    rw [hl.mem_erase_iff]
    exact ⟨fun ⟨a, b⟩ => ⟨b, a⟩, fun ⟨a, b⟩ => ⟨b, a⟩⟩
  refine ⟨rfl, key h.1, ?_⟩
  show Forall2 _ f.sigs (f.sigs.map fun s => ({ s with receivers := s.receivers.erase n } : ESig))
  apply Forall2.of_map
  intro s hs
  exact ⟨rfl, key (h.2.2 s hs)⟩

/-- one `delOne` step -/
theorem delOne_spec (m : EMat) (n : String) (hwf : NodupRefs m) :
    NodupRefs (m.delOne n) ∧
    Forall2 (RemovedFrame (fun x => x = n ∧ n ∈ m.ecus)) m.frames (m.delOne n).frames := by
  by_cases h : n ∈ m.ecus
  · rw [delOne_of_mem h]
    refine ⟨⟨hwf.1.erase n, ?_⟩, ?_⟩
    · intro f' hf'
      obtain ⟨f, hf, rfl⟩ := List.mem_map.mp hf'
      exact nodupFrame_delFrame n (hwf.2 f hf)
    · exact Forall2.of_map m.frames fun f hf =>
        (removedFrame_delFrame n (hwf.2 f hf)).congr fun x => by simp [h]
  · rw [delOne_of_not_mem h]
    exact ⟨hwf, Forall2.rfl' _ fun f _ => RemovedFrame.rfl' (fun x hx => h hx.2) f⟩

/-- a sequence of `delOne` steps -/
theorem foldl_delOne_spec (ns : List String) (m : EMat) (hwf : NodupRefs m) :
    NodupRefs (ns.foldl EMat.delOne m) ∧
    Forall2 (RemovedFrame (fun x => x ∈ ns ∧ x ∈ m.ecus)) m.frames (ns.foldl EMat.delOne m).frames := by
  induction ns generalizing m with
  | nil => exact ⟨hwf, Forall2.rfl' _ fun f _ => RemovedFrame.rfl' (fun x hx => by cases hx.1) f⟩
  | cons n ns ih =>
    obtain ⟨hwf₁, hfr₁⟩ := delOne_spec m n hwf
    obtain ⟨hwf₂, hfr₂⟩ := ih (m.delOne n) hwf₁
    refine ⟨hwf₂, ?_⟩
    rw [List.foldl_cons]
    refine hfr₁.comp hfr₂ fun f f₁ f₂ _ h₁ h₂ => (h₁.comp h₂).congr fun x => ?_
    rw [delOne_ecus]
    constructor
    · rintro (⟨rfl, h⟩ | ⟨h₁, h₂⟩)
      · exact ⟨List.mem_cons_self, h⟩
      · exact ⟨List.mem_cons_of_mem _ h₁, List.mem_of_mem_erase h₂⟩
    · rintro ⟨h₁, h₂⟩
      by_cases hx : x = n
      · exact Or.inl ⟨hx, hx ▸ h₂⟩
      · cases List.mem_cons.mp h₁ with
        | inl e => exact absurd e hx
        | inr e => exact Or.inr ⟨e, (List.mem_erase_of_ne hx).mpr h₂⟩

/-- Deleting ECUs by glob pattern removes exactly the listed ECUs whose name matches, together with
every reference to them, and changes no other reference. -/
theorem del_glob_exactly_matching (m : EMat) (p : String) (hwf : NodupRefs m) :
    let m' := m.delEcuGlob p
    let gone := fun x => globMatch p x = true ∧ x ∈ m.ecus
    m'.ecus = m.ecus.filter (fun e => !globMatch p e) ∧
    Forall2 (RemovedFrame gone) m.frames m'.frames ∧ m'.freeSigs = m.freeSigs := by
  refine ⟨delEcuGlob_ecus m p hwf.1, ?_, delEcuGlob_freeSigs m p⟩
  refine (foldl_delOne_spec _ m hwf).2.mono fun f f' _ _ h => h.congr fun x => ?_
  rw [List.mem_filter]
  exact ⟨fun ⟨⟨a, b⟩, _⟩ => ⟨b, a⟩, fun ⟨a, b⟩ => ⟨⟨b, a⟩, b⟩⟩

/-- Deleting one ECU (by instance) removes it and every reference to it. -/
theorem del_removes_all (m : EMat) (name : String) (hwf : NodupRefs m) (h : name ∈ m.ecus) :
    let m' := m.delEcu name
    m'.ecus = m.ecus.filter (· != name) ∧
    Forall2 (RemovedFrame (· = name)) m.frames m'.frames ∧ m'.freeSigs = m.freeSigs := by
  refine ⟨?_, ?_, delOne_freeSigs m name⟩
  · show (m.delOne name).ecus = _
    rw [delOne_ecus, hwf.1.erase_eq_filter]
  · exact (delOne_spec m name hwf).2.mono fun f f' _ _ hf => hf.congr fun x => by simp [h]

/-- Deleting an ECU that is not listed does nothing. -/
theorem del_unlisted_noop (m : EMat) (name : String) (h : name ∉ m.ecus) : m.delEcu name = m :=
  delOne_of_not_mem h

/-! ## update ECU list -/

/-- names referenced by the frames: senders and receivers of the frames' signals -/
def ReferencedInFrames (m : EMat) (x : String) : Prop :=
  ∃ f ∈ m.frames, x ∈ f.transmitters ∨ ∃ s ∈ f.sigs, x ∈ s.receivers

/-- Updating the ECU list makes every referenced ECU exist exactly once: listed ECUs stay (as a
prefix, in order), exactly the referenced-but-unlisted names are appended, without duplicates;
senders and signal receivers are untouched and every frame's receiver list is up to date. -/
theorem update_makes_listed_once (m : EMat) (hnd : m.ecus.Nodup) :
    let m' := m.updateEcuList
    m'.ecus.Nodup ∧ m.ecus <+: m'.ecus ∧
    (∀ x, x ∈ m'.ecus ↔ x ∈ m.ecus ∨ ReferencedInFrames m x) ∧
    Forall2 (fun f f' => f'.name = f.name ∧ f'.transmitters = f.transmitters ∧ f'.sigs = f.sigs ∧ UpToDate f')
      m.frames m'.frames ∧ m'.freeSigs = m.freeSigs := by
  rw [updateEcuList_eq]
  refine ⟨nodup_foldl_ecuStep hnd, prefix_foldl_ecuStep _ _, fun x => mem_foldl_ecuStep, ?_, rfl⟩
  exact Forall2.of_map m.frames fun f _ => ⟨rfl, rfl, rfl, upToDate_updateReceiver f⟩

/-! ## remove obsolete ECUs -/

/-- names referenced anywhere: senders, frame receivers, signal receivers, receivers of free signals -/
def Referenced (m : EMat) (x : String) : Prop :=
  (∃ f ∈ m.frames, x ∈ f.transmitters ∨ x ∈ f.receivers ∨ ∃ s ∈ f.sigs, x ∈ s.receivers) ∨
  ∃ s ∈ m.freeSigs, x ∈ s.receivers

/-- ECU names are plain names: used as a glob pattern a name matches exactly itself -/
def PlainNames (m : EMat) : Prop := ∀ e ∈ m.ecus, ∀ n, globMatch e n = (e == n)

theorem mem_usedList {m : EMat} {x : String} : x ∈ usedList m ↔ Referenced m x := by
  simp only [usedList, List.mem_append, List.mem_flatMap, Referenced]
  constructor
  · rintro (((⟨f, hf, h⟩ | ⟨f, hf, h⟩) | ⟨f, hf, h⟩) | h)
    · exact Or.inl ⟨f, hf, Or.inl h⟩
    · exact Or.inl ⟨f, hf, Or.inr (Or.inl h)⟩
    · exact Or.inl ⟨f, hf, Or.inr (Or.inr h)⟩
    · exact Or.inr h
  · rintro (⟨f, hf, h | h | h⟩ | h)
    · exact Or.inl (Or.inl (Or.inl ⟨f, hf, h⟩))
    · exact Or.inl (Or.inl (Or.inr ⟨f, hf, h⟩))
    · exact Or.inl (Or.inr ⟨f, hf, h⟩)
    · exact Or.inr h

/-- a frame whose senders and signals are unchanged and whose receiver list stays up to date -/
def SameRefs (f f' : EFrame) : Prop :=
  f'.name = f.name ∧ f'.transmitters = f.transmitters ∧ f'.sigs = f.sigs ∧ (UpToDate f → UpToDate f')

/-- `n` is neither a sender nor a signal receiver in the frames -/
def Unref (n : String) (fs : List EFrame) : Prop :=
  ∀ f ∈ fs, n ∉ f.transmitters ∧ ∀ s ∈ f.sigs, n ∉ s.receivers

theorem SameRefs.rfl' (f : EFrame) : SameRefs f f := ⟨rfl, rfl, rfl, id⟩

theorem SameRefs.trans {f f₁ f₂ : EFrame} (h₁ : SameRefs f f₁) (h₂ : SameRefs f₁ f₂) : SameRefs f f₂ :=
  ⟨h₂.1.trans h₁.1, h₂.2.1.trans h₁.2.1, h₂.2.2.1.trans h₁.2.2.1, fun h => h₂.2.2.2 (h₁.2.2.2 h)⟩

theorem Unref.transfer {n : String} {fs fs' : List EFrame} (h : Forall2 SameRefs fs fs')
    (hu : Unref n fs) : Unref n fs' := by
  intro f' hf'
  obtain ⟨f, hf, hs⟩ := h.exists_left hf'
  rw [hs.2.1, hs.2.2.1]
  exact hu f hf

theorem delFrame_of_unref {n : String} {f : EFrame} (ht : n ∉ f.transmitters)
    (hs : ∀ s ∈ f.sigs, n ∉ s.receivers) : delFrame n f = f.updateReceiver := by
  have h2 : f.sigs.map (fun s => ({ s with receivers := s.receivers.erase n } : ESig)) = f.sigs := by
    refine (List.map_congr_left (g := id) fun s h => ?_).trans (List.map_id _)
    simp [List.erase_of_not_mem (hs s h)]
  unfold delFrame
  rw [List.erase_of_not_mem ht, h2]

theorem delOne_sameRefs (m : EMat) (n : String) (hu : Unref n m.frames) :
    Forall2 SameRefs m.frames (m.delOne n).frames := by
  by_cases h : n ∈ m.ecus
  · rw [delOne_of_mem h]
    refine Forall2.of_map m.frames fun f hf => ?_
    rw [delFrame_of_unref (hu f hf).1 (hu f hf).2]
    exact ⟨rfl, rfl, rfl, fun _ => upToDate_updateReceiver f⟩
  · rw [delOne_of_not_mem h]
    exact Forall2.rfl' _ fun f _ => SameRefs.rfl' f

theorem foldl_delOne_sameRefs (ns : List String) (m : EMat) (hu : ∀ n ∈ ns, Unref n m.frames) :
    Forall2 SameRefs m.frames (ns.foldl EMat.delOne m).frames := by
  induction ns generalizing m with
  | nil => exact Forall2.rfl' _ fun f _ => SameRefs.rfl' f
  | cons n ns ih =>
    have h₁ := delOne_sameRefs m n (hu n List.mem_cons_self)
    have h₂ := ih (m.delOne n) fun n' hn' => (hu n' (List.mem_cons_of_mem _ hn')).transfer h₁
    exact h₁.comp h₂ fun _ _ _ _ a b => a.trans b

theorem delEcuGlob_sameRefs (m : EMat) (e : String) (hu : Unref e m.frames)
    (hplain : ∀ n, globMatch e n = (e == n)) :
    Forall2 SameRefs m.frames (m.delEcuGlob e).frames := by
  refine foldl_delOne_sameRefs _ m fun n hn => ?_
  have := (List.mem_filter.mp hn).2
  rw [hplain n] at this
  have hne : e = n := by simpa using this
  exact hne ▸ hu

theorem foldl_delEcuGlob_sameRefs (us : List String) (m : EMat)
    (hu : ∀ e ∈ us, Unref e m.frames ∧ ∀ n, globMatch e n = (e == n)) :
    Forall2 SameRefs m.frames (us.foldl EMat.delEcuGlob m).frames := by
  induction us generalizing m with
  | nil => exact Forall2.rfl' _ fun f _ => SameRefs.rfl' f
  | cons e us ih =>
    have he := hu e List.mem_cons_self
    have h₁ := delEcuGlob_sameRefs m e he.1 he.2
    have h₂ := ih (m.delEcuGlob e) fun e' he' =>
      ⟨(hu e' (List.mem_cons_of_mem _ he')).1.transfer h₁, (hu e' (List.mem_cons_of_mem _ he')).2⟩
    exact h₁.comp h₂ fun _ _ _ _ a b => a.trans b

/-- Removing obsolete ECUs removes exactly the unreferenced ones (and, in a consistent matrix,
touches no reference). -/
theorem obsolete_removes_exactly_unreferenced (m : EMat) (hwf : Wf m) (hplain : PlainNames m) :
    let m' := m.deleteObsoleteEcus
    (∀ x, x ∈ m'.ecus ↔ x ∈ m.ecus ∧ Referenced m x) ∧
    Forall2 (fun f f' => f'.name = f.name ∧ f'.transmitters = f.transmitters ∧ f'.sigs = f.sigs ∧
        ∀ x, x ∈ f'.receivers ↔ x ∈ f.receivers) m.frames m'.frames := by
  rw [deleteObsoleteEcus_def]
  have hus : ∀ e ∈ m.ecus.filter (fun e => !(usedList m).contains e),
      e ∈ m.ecus ∧ ¬ Referenced m e := by
    intro e he
    obtain ⟨h₁, h₂⟩ := List.mem_filter.mp he
    refine ⟨h₁, fun hr => ?_⟩
    rw [List.contains_iff_mem.mpr (mem_usedList.mpr hr)] at h₂
    cases h₂
  refine ⟨?_, ?_⟩
  · intro x
    rw [foldl_delEcuGlob_ecus _ m hwf.1.1 fun e he => hplain e (hus e he).1, List.mem_filter]
    constructor
    · rintro ⟨h₁, h₂⟩
      refine ⟨h₁, ?_⟩
      apply Classical.byContradiction
      intro hr
      have hx : x ∈ m.ecus.filter (fun e => !(usedList m).contains e) := by
        refine List.mem_filter.mpr ⟨h₁, ?_⟩
        cases hc : (usedList m).contains x with
        | false => rfl
        | true => exact absurd (mem_usedList.mp (List.contains_iff_mem.mp hc)) hr
      rw [List.contains_iff_mem.mpr hx] at h₂
      cases h₂
    · rintro ⟨h₁, h₂⟩
      refine ⟨h₁, ?_⟩
      cases hc : (m.ecus.filter (fun e => !(usedList m).contains e)).contains x with
      | false => rfl
      | true => exact absurd h₂ (hus x (List.contains_iff_mem.mp hc)).2
  · have h := foldl_delEcuGlob_sameRefs (m.ecus.filter (fun e => !(usedList m).contains e)) m
      fun e he => by
        refine ⟨fun f hf => ⟨fun ht => ?_, fun s hs hr => ?_⟩, hplain e (hus e he).1⟩
        · exact (hus e he).2 (Or.inl ⟨f, hf, Or.inl ht⟩)
        · exact (hus e he).2 (Or.inl ⟨f, hf, Or.inr (Or.inr ⟨s, hs, hr⟩)⟩)
    refine h.mono fun f f' hf _ hs => ⟨hs.1, hs.2.1, hs.2.2.1, fun x => ?_⟩
    rw [hs.2.2.2 (hwf.2 f hf) x, hwf.2 f hf x, hs.2.2.1]

/-! ## the invariant over operation sequences -/

/-- side condition of an operation: a rename introduces a name that is not in use -/
def OpOk (m : EMat) : EOp → Prop
  | .rename _ new => new ∉ m.ecus ∧ ∀ f ∈ m.frames, new ∉ f.transmitters ∧ ∀ s ∈ f.sigs, new ∉ s.receivers
  | _ => True

theorem wf_delOne (m : EMat) (n : String) (hwf : Wf m) : Wf (m.delOne n) := by
  refine ⟨(delOne_spec m n hwf.1).1, ?_⟩
  by_cases h : n ∈ m.ecus
  · rw [delOne_of_mem h]
    intro f' hf'
    obtain ⟨f, _, rfl⟩ := List.mem_map.mp hf'
    exact upToDate_updateReceiver _
  · rw [delOne_of_not_mem h]
    exact hwf.2

theorem wf_foldl_delOne (ns : List String) (m : EMat) (hwf : Wf m) : Wf (ns.foldl EMat.delOne m) := by
  induction ns generalizing m with
  | nil => exact hwf
  | cons n ns ih => exact ih _ (wf_delOne m n hwf)

theorem wf_delEcuGlob (m : EMat) (p : String) (hwf : Wf m) : Wf (m.delEcuGlob p) :=
  wf_foldl_delOne _ m hwf

theorem wf_foldl_delEcuGlob (us : List String) (m : EMat) (hwf : Wf m) :
    Wf (us.foldl EMat.delEcuGlob m) := by
  induction us generalizing m with
  | nil => exact hwf
  | cons e us ih => exact ih _ (wf_delEcuGlob m e hwf)

/-- Every operation keeps the reference lists duplicate-free and every frame's receiver list equal
to the union of its signals' receivers. -/
theorem wf_preserved (m : EMat) (op : EOp) (hwf : Wf m) (hok : OpOk m op) : Wf (m.apply op) := by
  cases op with
  | rename old new =>
    show Wf (m.renameEcu old new)
    by_cases h : old ∈ m.ecus
    · rw [renameEcu_of_mem h]
      refine wf_mk (nodup_setFirst hwf.1.1 hok.1) ?_
      intro f' hf'
      obtain ⟨f, hf, rfl⟩ := List.mem_map.mp hf'
      exact ⟨nodupFrame_renFrame old new (hwf.1.2 f hf), upToDate_updateReceiver _⟩
    · rw [renameEcu_of_not_mem h]
      exact hwf
  | delGlob p => exact wf_delEcuGlob m p hwf
  | delInst n => exact wf_delOne m n hwf
  | update =>
    show Wf m.updateEcuList
    rw [updateEcuList_eq]
    refine wf_mk (nodup_foldl_ecuStep hwf.1.1) ?_
    intro f' hf'
    obtain ⟨f, hf, rfl⟩ := List.mem_map.mp hf'
    have := hwf.1.2 f hf
    exact ⟨nodupFrame_updateReceiver this.1 this.2.2, upToDate_updateReceiver f⟩
  | obsolete =>
    show Wf m.deleteObsoleteEcus
    rw [deleteObsoleteEcus_def]
    exact wf_foldl_delEcuGlob _ m hwf
  | addRecv gf gs ecu =>
    show Wf (m.addSignalReceiver gf gs ecu)
    unfold EMat.addSignalReceiver
    refine wf_mk hwf.1.1 ?_
    intro f' hf'
    obtain ⟨f, hf, rfl⟩ := List.mem_map.mp hf'
    have hfr := wf_frame hwf hf
    split
    · refine ⟨nodupFrame_updateReceiver hfr.1.1 ?_, upToDate_updateReceiver _⟩
      intro s' hs'
      obtain ⟨s, hs, rfl⟩ := List.mem_map.mp hs'
      split
      · exact nodup_addIfAbsent (hfr.1.2.2 s hs)
      · exact hfr.1.2.2 s hs
    · exact hfr
  | delRecv gf gs ecu =>
    show Wf (m.delSignalReceiver gf gs ecu)
    unfold EMat.delSignalReceiver
    refine wf_mk hwf.1.1 ?_
    intro f' hf'
    obtain ⟨f, hf, rfl⟩ := List.mem_map.mp hf'
    have hfr := wf_frame hwf hf
    split
    · refine ⟨nodupFrame_updateReceiver hfr.1.1 ?_, upToDate_updateReceiver _⟩
      intro s' hs'
      obtain ⟨s, hs, rfl⟩ := List.mem_map.mp hs'
      split
      · exact (hfr.1.2.2 s hs).erase ecu
      · exact hfr.1.2.2 s hs
    · exact hfr

/-- the same for every sequence of operations -/
theorem wf_sequence (ops : List EOp) (m : EMat) (hwf : Wf m)
    (hok : ∀ k, (h : k < ops.length) → OpOk ((ops.take k).foldl EMat.apply m) ops[k]) :
    Wf (ops.foldl EMat.apply m) := by
  induction ops generalizing m with
  | nil => exact hwf
  | cons op ops ih =>
    rw [List.foldl_cons]
    refine ih _ (wf_preserved m op hwf (hok 0 (by simp))) ?_
    intro k hk
    have := hok (k + 1) (by simpa using hk)
    simpa using this

/-! non-vacuity -/
def exMat : EMat :=
  { ecus := ["A", "B", "C"],
    frames := [{ name := "F", transmitters := ["A"], receivers := ["B", "A"],
                 sigs := [{ name := "s", receivers := ["B"] }, { name := "t", receivers := ["A", "B"] }] }] }
example : (exMat.renameEcu "A" "N").frames =
    [{ name := "F", transmitters := ["N"], receivers := ["B", "N"],
       sigs := [{ name := "s", receivers := ["B"] }, { name := "t", receivers := ["B", "N"] }] }] := by decide
example : (exMat.deleteObsoleteEcus).ecus = ["A", "B"] := by decide

end CanVerif.C11
