"""C06 - every write+read format preserves frame identity and signal bit layout."""
import copy
import json
import os
import re
import shutil
import tempfile

from lib import roundtrip as R

EXTRA_PROPS = ("C06b",)          # DBC at the level of the whole file: corollaries of the file round trip (Props/C05o)
PID = "C06"
FEATURES_LEVEL = "layout"
RULE = ("case 'sig' = (format out of dbc, dbf, sym, kcd, json, xls, arxml; for json/xls the Motorola notation option of writer and "
        "reader; a generated matrix inside the format's envelope: unique ids, frame lengths 1..64 where the format allows, Intel and "
        "Motorola signals at any non-overlapping placement, standard and extended ids, simple multiplexing; one of its signals): the "
        "position number stored in the file (extracted by a mini-parser for dbc, dbf, sym, kcd, json), and start/width/byte order of "
        "the signal after reading the file back. case 'frame' = presence of the frame (identifier + format) after the round trip. "
        "30 % of the extended frames are flagged J1939. Half of the matrices are built with the extended flag as the integer 1 (as the readers set it), signed signals name negative raw values in their value tables, identifier numbers occur in both formats, frames longer than 8 bytes in every format. 40 % of the matrices name one to three of their ECUs, 20 % one frame and 20 % one signal with a word that contains the text of a keyword, column heading, tag or attribute of one of the file formats (BRIDGE, VIDEO, Motor_ID, CycleCtrl, ValueSrv, BO_Gw, SG_1, Mux, Var, Type, Message, Producer, START_MSG ...); three matrices in ten have plain signals (factor 1, offset 0, no unit, mostly no value table, some shrunk to 1 bit flags, some with explicit limits 0..1 / 0..0) for which the writers omit optional elements; one matrix in four has names of 33..64 characters - longer than a DBC symbol, so that the DBC writer cuts them and restores them from attribute statements - for a third, two thirds or all of its signals and frames and some of its ECUs, in a third of these matrices the long signal names of a frame are equal in their first 32 characters (..._Bank1 / ..._Bank2); one matrix in five has names that end or begin like a token of a format's grammar when it stands alone (the DBC multiplexer indicators M / m2 / m12M as in EngineRPM, FanPWM, Area_m2; exponent letters, SYM's h, underscores, digits, statement keywords) for a third, two thirds or all of its signals (plain, multiplexer, multiplexed) and some of its frames, also in the clusters; one matrix in six has names that differ in capitalisation only (two signals of a frame, two frames, two ECUs); one matrix in six (not XLS) has a frame without any signal (one frame stripped, a further trigger frame, or no signals at all); half of the JSON matrices are written by the writer's default compact export (jsonExportAll off, with and without jsonNativeTypes) instead of the complete one; one matrix in twelve is written and read through a file path (dumpp/loadp, format taken from the extension) instead of a byte buffer. case 'bus' = a cluster of 1..3 buses for KCD/ARXML; in KCD the names of frames and signals are local to a bus in half of the clusters (the same names on every bus), and most clusters with several buses carry one or two routed frames: a frame of one bus (same identifier, format and name) also on another bus, as an equal copy, as the very same Frame object, or (KCD) with other signals and length. Non-trivial = distinct case with a Motorola signal or a signal wider than one bit.")
PARTIAL = ["only the field kernels (position and identifier numbers) carry theorems; file assembly, XML plumbing and reference "
           "resolution are tied by this correspondence check only",
           "multi-bus files (KCD/ARXML, 2..3 buses) are compared per bus on the layout normal form (case 'bus')",
           "ARXML: versions 4.1.0 and 3.2.3 of the writer"]
ASSUMPTIONS = ["SYM: the multiplexer is renamed <frame>_MUX by design and static signals of multiplexed messages are repeated per group",
               "XLS: identifier numbers unique across standard/extended, value-table keys below 2^53 (cells hold doubles)", "ARXML: matrix-unique signal names, no ECU both sends and receives a frame"]
TRUSTED = ["lxml, xlrd/xlwt, json used by the writers/readers", "regular-expression mini-parsers of the harness"]
CORRESPONDENCE = "stored position numbers and re-read layout == CanVerif.emitPos / parsePos (Model/Fields.lean)"


def gen(rng, tier, shard, nshards, rich=False):
    total = {"quick": 1000, "thorough": 8000}[tier] // nshards + 1
    for _ in range(total // 12 + 1):
        yield gen_bus(rng)
    for _ in range(total):
        fmt = rng.choice(R.FORMATS)
        wn, rn = "lsb", "lsb"
        # only the option pairs the reader understands (JSON reads `lsb` only, see theorem json_notation_mismatch)
        if fmt == "xls":
            wn = rng.choice(R.NOTATIONS)
            rn = wn
        if fmt == "arxml" and rng.random() < 0.4:
            wn = "3.2.3"          # the other AUTOSAR version the writer offers (default 4.1.0)
        desc = R.gen_case_matrix(rng, fmt, rich)
        plain_signals(rng, desc, fmt)
        long_names(rng, desc, fmt)
        keyword_names(rng, desc, fmt, wn, rich)
        jopt = None
        if not rich:
            # (layout stream only: the value stream C07 keeps its matrices and the complete JSON export)
            token_edge_names(rng, desc, fmt)
            case_twins(rng, desc, fmt)
            empty_frames(rng, desc, fmt)
            if fmt == "json" and rng.random() < 0.5:
                # the JSON writer's own default is the compact export (name, identifier, format and the signals' layout, factor
                # and offset only); `jsonNativeTypes` writes the numbers as JSON numbers.  The CANard export has no reader.
                jopt = {"jsonExportAll": False, "jsonNativeTypes": rng.random() < 0.4}
        # the same round trip through a file path (dumpp / loadp pick the format by the extension) instead of a byte buffer
        via = "path" if rng.random() < 0.08 else "bytes"
        for f in desc["frames"]:
            yield {"op": "frame", "c": {"fmt": fmt, "wn": wn, "rn": rn, "m": desc, "fid": f["id"], "ext": f["ext"], "lvl": "full" if rich else "layout", "via": via, "jopt": jopt}}
            for s in f["signals"]:
                yield {"op": "sig", "c": {"fmt": fmt, "wn": wn, "rn": rn, "m": desc, "fid": f["id"], "ext": f["ext"], "sname": s["name"],
                                          "sig": [s["name"], s["start"], s["size"], s["little"], s["signed"], s["float"]],
                                          "x": fmt in ("dbc", "dbf", "sym", "kcd", "json"), "lvl": "full" if rich else "layout", "via": via, "jopt": jopt}}


# Words that are legal names everywhere and contain the text of a keyword, column heading, tag or attribute of one of the file
# formats (XLS headings ID / Cycle / Value / Byteorder / Signal / Frame / Name; DBC statement keywords; SYM and DBF keys; KCD and
# ARXML tags and attributes, the fixed package names of the ARXML writer).  Real networks have them: BRIDGE, VIDEO, HYBRID, SIDE_L, Motor_ID ...
ECU_WORDS = ["BRIDGE", "VIDEO", "HYBRID", "SIDE_L", "Motor_ID", "IDC", "ID", "CAN_ID", "CycleCtrl", "Cycle", "ValueSrv", "Value", "Byteorder", "ByteorderGw",
             "Launch", "Function", "Signal", "Frame", "Name", "Mux", "Type", "Var", "Len", "Enum", "Sig", "BO_Gw", "SG_1", "BU_x", "VAL_ECU", "CM_Unit",
             "NS_", "EV_", "BA_", "Node", "NODE", "Bus", "Message", "Producer", "Consumer", "NodeRef", "Multiplex", "MuxGroup", "format", "extended",
             "START_MSG", "END_MSG", "Unit", "Label", "Receiver", "Vector", "ECU", "Tx", "Rx", "true", "false", "None", "null", "xh",
             "CAN", "CanFrame", "Cluster", "DataType", "IPDUGroup", "ISignal", "PDU", "Semantics"]
NAME_WORDS = ["BRIDGE", "VIDEO", "ID", "Value", "Cycle", "Byteorder", "Mux", "Type", "Var", "Len", "Signal", "Frame", "Name", "BO_", "SG_", "BU_", "VAL_", "CM_",
              "NS_", "EV_", "BO_TX_BU_", "SIG_GROUP_", "VAL_TABLE_", "BA_", "BA_DEF_", "SG_MUL_VAL_", "Node", "Bus", "Message", "format", "extended", "Enum", "Sig",
              "ECU", "Unit", "Label", "Producer", "Consumer", "Multiplex", "MuxGroup", "START_MSG", "END_MSG", "NODE", "START_SIGNALS", "true", "false", "None",
              "null", "CycleTime", "DLC", "Timeout", "MinInterval", "Color", "FormatVersion", "Title", "SENDRECEIVE", "SEND", "RECEIVE", "ENUMS", "SIGNALS",
              "unsigned", "signed", "float", "double", "bit", "char", "string", "raw", "M0", "m3", "hex", "Intel", "Motorola", "little", "big", "id", "name",
              "messages", "signals", "start_bit", "is_extended_frame",
              "CAN", "CanFrame", "Cluster", "DataType", "IPDUGroup", "ISignal", "PDU", "Semantics"]


def ecu_word_ok(fmt, word):
    """Kept out of the generated stream for now: the XLS reader of the unchanged code finds its columns by the heading text, and an ECU
    column headed exactly `ID` or containing `Byteorder` is taken for that column (no frame is read / ValueError; layouts and receivers
    change).  Reported as a finding of the strengthening round; every other word goes to every format."""
    return True          # (the XLS reader took an ECU column headed `ID` or `Byteorder...` for that column: repaired, see known_findings.json C06-xls-ecu-named-like-heading)


def signal_word_ok(fmt, wn, rich, word):
    """Kept out of the generated stream for now: in an ARXML 3.2.3 file of the unchanged code a signal named like the writer's packages
    `Unit` or `Semantics` (/DataType/Unit, /DataType/Semantics) comes back with factor 1, offset 0 and without its value table.  The bits
    are kept, so the layout stream (C06) has these names; the value stream (C07, `rich`) does not.  Reported as a finding of the
    strengthening round."""
    return True          # (ARXML 3.2.3: see the open finding C07-arxml3-signal-named-like-package, recognised by c07.classify)


def plain_signals(rng, desc, fmt):
    """Signals about which there is nothing to say (in place): three matrices in ten have signals with factor 1, offset 0, no unit and
    mostly no value table - status flags, counters, raw fields.  A writer leaves out what equals the format's default (KCD the whole
    <Value> element, SYM the /f: /o: /u: switches, ARXML the COMPU-METHOD / UNIT, DBF and DBC nothing), so the reader's own defaults decide
    what comes back.  Some of them shrink to a 1 bit flag at the same start bit (a subset of the bits they had, so nothing overlaps),
    some carry the explicit limits 0..1 or 0..0 that a flag has (for a wider signal these are also what the KCD writer takes as
    `nothing to say`).  Signed and unsigned alike; the multiplexer itself is already plain."""
    if rng.random() >= 0.3:
        return
    p = rng.choice([0.3, 0.6, 1.0])
    for f in desc["frames"]:
        for s in f["signals"]:
            if s["mux"] == "Multiplexor" or rng.random() >= p:
                continue
            s["factor"], s["offset"], s["unit"] = "1", "0", ""
            if not s["float"] and rng.random() < 0.3:
                s["size"] = 1
            lo, hi = (0, 0) if s["float"] else (-(1 << (s["size"] - 1)), (1 << (s["size"] - 1)) - 1) if s["signed"] else (0, (1 << s["size"]) - 1)
            s["values"] = {} if rng.random() < 0.7 else {k: v for k, v in s["values"].items() if lo <= int(k) <= hi}
            if not s["float"] and rng.random() < 0.3:
                s["min"], s["max"] = rng.choice([("0", "1"), ("0", "1"), ("0", "0")])
            if rng.random() < 0.3:
                s["receivers"] = []


# Real networks spell their names out: a good part of them is longer than the 32 characters a DBC symbol may have (the DBC writer cuts
# such a name and restores it from an attribute statement that refers to the frame by number, the other formats take it as it is).
LONG_TAILS = ["EngineCoolantTemperatureSensorRawValue_Bank1", "TransmissionOutputShaftSpeedFiltered", "BatteryManagementSystemCellVoltageMinimum",
              "AdaptiveCruiseControlTargetDistance_Status", "ExhaustGasRecirculationValvePositionActual", "x" * 36, "Steering_Wheel_Angle_Sensor_Calibration_State",
              "HighVoltageInterlockLoopDiagnosticCounter_0123456789"]


def long_name(rng, name, shared_head=None):
    """`name` made longer than 32 characters (33..64 for the short generated names): the given name stays the head, so the first 32
    characters still tell the names apart - or, with `shared_head` (a text of 32 characters or more), it becomes the tail behind that
    head: ..._Bank1 / ..._Bank2, names that are equal in their first 32 characters"""
    if shared_head:
        return shared_head + "_" + name
    tail = rng.choice(LONG_TAILS)
    long = name + "_" + tail
    while len(long) <= 32:
        long += "_" + tail
    return long[:max(rng.randint(33, 64), len(name) + 2)]


def long_names(rng, desc, fmt):
    """names longer than 32 characters (in place): in one matrix out of four a third, two thirds or all of the signals, frames and ECUs
    carry a name of 33..64 characters; in a third of these matrices the long signal names of a frame differ only behind the 32nd character"""
    if rng.random() >= 0.25:
        return
    p = rng.choice([0.3, 0.6, 1.0])
    shared = rng.random() < 0.33
    for f in desc["frames"]:
        if rng.random() < p:
            f["name"] = long_name(rng, f["name"])
        head = rng.choice(LONG_TAILS)[:rng.randint(32, 40)] if shared else None
        for s in f["signals"]:
            if rng.random() < p:
                s["name"] = long_name(rng, s["name"], head)
    present = sorted(set(desc["ecus"]))
    mp = {e: long_name(rng, e) for e in present if rng.random() < p / 2}
    if mp:
        desc["ecus"] = sorted(mp.get(e, e) for e in desc["ecus"])
        for f in desc["frames"]:
            f["transmitters"] = [mp.get(e, e) for e in f["transmitters"]]
            for s in f["signals"]:
                s["receivers"] = sorted(mp.get(e, e) for e in s["receivers"])


def keyword_names(rng, desc, fmt, wn="lsb", rich=False):
    """names of ECUs, frames and signals that contain the text of a keyword of one of the formats (in place)"""
    if rng.random() < 0.4:
        present = sorted(set(desc["ecus"]))
        old = rng.sample(present, min(len(present), rng.randint(1, 3)))
        words = [w for w in rng.sample(ECU_WORDS, 6) if ecu_word_ok(fmt, w) and w not in present][:len(old)]
        mp = dict(zip(old, words))
        desc["ecus"] = sorted(mp.get(e, e) for e in desc["ecus"])
        for f in desc["frames"]:
            f["transmitters"] = [mp.get(e, e) for e in f["transmitters"]]
            for s in f["signals"]:
                s["receivers"] = sorted(mp.get(e, e) for e in s["receivers"])
    if rng.random() < 0.2:
        f = rng.choice(desc["frames"])
        w = rng.choice(NAME_WORDS)
        if not any(g["name"] == w for g in desc["frames"]):
            f["name"] = w
    if rng.random() < 0.2:
        f = rng.choice(desc["frames"])
        s = rng.choice(f["signals"])          # (frames lose their signals only afterwards: empty_frames)
        w = rng.choice(NAME_WORDS)
        taken = {t["name"] for g in (desc["frames"] if fmt == "arxml" else [f]) for t in g["signals"]}
        if w not in taken and signal_word_ok(fmt, wn, rich, w):
            s["name"] = w


# The generated names are s0, g1_0, mx, F1 ...: they all end in a digit or a small letter behind a letter.  Real names end (and begin) in
# anything an identifier may hold, and quite often in the very letters that are a token of a format's grammar when they stand alone
# behind (or in front of) a name: the multiplexer indicators of a DBC SG_ line (M, m2, m12M: EngineRPM, FanPWM, Torque_Nm, Area_m2,
# Volume_m3), the exponent of a number (_e3, E), the hexadecimal mark of SYM (h), an underscore, a digit, a statement keyword.
NAME_TAILS = ["M", "M", "m0", "m3", "m12", "m3M", "m0M", "RPM", "PWM", "_M", "_m2", "_m3", "_Nm", "_mA", "_kmh", "_degC", "_V", "_pct", "_E", "E", "_e3", "e3",
              "_0", "0", "7", "_", "__", "_X", "h", "_1h", "_Hz", "_m", "m", "_mM", "Mm1"]
NAME_HEADS = ["M", "M_", "m3_", "m3M_", "m", "_", "__", "SG_", "BO_", "Var", "Mux", "ID", "E", "e3_", "x", "X_", "h_", "RPM_", "m12"]


def token_edge_names(rng, desc, fmt, p_matrix=0.2):
    """names that end or begin like a token of a format's grammar (in place): in one matrix out of five a third, two thirds or all of
    the signals - plain ones, multiplexers and multiplexed ones alike - and some of the frames get a tail (three out of four) or a
    head out of NAME_TAILS / NAME_HEADS added to their name, as long as the names stay distinct where the format wants them distinct."""
    if rng.random() >= p_matrix:
        return
    p = rng.choice([0.3, 0.6, 1.0])

    def edge(name):
        return name + rng.choice(NAME_TAILS) if rng.random() < 0.75 else rng.choice(NAME_HEADS) + name

    for f in desc["frames"]:
        if rng.random() < p / 3:
            new = edge(f["name"])
            if not any(g["name"].lower() == new.lower() for g in desc["frames"]):
                f["name"] = new
        for s in f["signals"]:
            if rng.random() >= p:
                continue
            new = edge(s["name"])
            taken = {t["name"].lower() for g in (desc["frames"] if fmt == "arxml" else [f]) for t in g["signals"]}
            if new.lower() not in taken:
                s["name"] = new


MUX_TAIL = re.compile(r"(M|m\d+M?)$")


def case_variants(name):
    """the other spellings of `name` that differ from it in capitalisation only"""
    out = []
    for v in (name.upper(), name.lower(), name.swapcase(), name[:1].swapcase() + name[1:], name[:-1] + name[-1:].swapcase()):
        if v != name and v not in out:
            out.append(v)
    return out


def case_twins(rng, desc, fmt):
    """names that differ in capitalisation only (in place): every format of the property takes names as they are written - `Speed` and
    `speed` are two signals, `Gw` and `GW` two ECUs.  One matrix in six gets such a pair among the signals of one frame (at either
    position of the signal list), and/or among its frames, and/or among its ECUs."""
    if rng.random() >= 0.17:
        return
    what = rng.choice(["signal", "signal", "signal", "frame", "ecu", "all"])
    if what in ("signal", "all"):
        for f in rng.sample(desc["frames"], rng.randint(1, len(desc["frames"]))):
            if len(f["signals"]) < 2:
                continue
            a, b = rng.sample(f["signals"], 2)
            taken = {t["name"] for g in (desc["frames"] if fmt == "arxml" else [f]) for t in g["signals"]}
            vs = [v for v in case_variants(a["name"]) if v not in taken]
            if vs:
                b["name"] = rng.choice(vs)
    if what in ("frame", "all") and len(desc["frames"]) >= 2:
        a, b = rng.sample(desc["frames"], 2)
        vs = [v for v in case_variants(a["name"]) if not any(g["name"] == v for g in desc["frames"])]
        if vs:
            old, b["name"] = b["name"], rng.choice(vs)
            if fmt == "arxml":
                # (ARXML: signal names are unique in the matrix - they carry the frame's name in front)
                for t in b["signals"]:
                    if t["name"].startswith(old + "_"):
                        t["name"] = b["name"] + t["name"][len(old):]
                names = [t["name"] for g in desc["frames"] for t in g["signals"]]
                if len(set(names)) != len(names):
                    b["name"] = old + "x"
                    for t in b["signals"]:
                        t["name"] = "x" + t["name"]
    if what in ("ecu", "all"):
        present = sorted(set(desc["ecus"]))
        if present:
            a = rng.choice(present)
            vs = [v for v in case_variants(a) if v not in present]
            others = [e for e in present if e != a]
            if vs:
                v = rng.choice(vs)
                if others and rng.random() < 0.6:
                    # another ECU of the matrix gets the name (with everything it sends and receives) ...
                    mp = {rng.choice(others): v}
                    desc["ecus"] = sorted(mp.get(e, e) for e in desc["ecus"])
                    for f in desc["frames"]:
                        f["transmitters"] = [mp.get(e, e) for e in f["transmitters"]]
                        for s in f["signals"]:
                            s["receivers"] = sorted(mp.get(e, e) for e in s["receivers"])
                else:
                    # ... or a further ECU that neither sends nor receives
                    desc["ecus"] = sorted(set(desc["ecus"]) | {v})


def empty_frames_ok(fmt):
    """Every format gets frames without signals (the XLS reader used to raise UnboundLocalError for a sheet whose first frame has no
    signal and to go on with the signal of the frame before otherwise: repaired in round 11, /repo 863fdd5)."""
    return True


def empty_frames(rng, desc, fmt):
    """frames without any signal (in place): a trigger, wake-up or not yet described frame is a frame of the matrix like any other - its
    identifier and format are all it has.  One matrix in six: one of its frames loses its signals, a further frame without signals is
    added (at any position), or - rarely - no frame has signals."""
    if rng.random() >= 0.17 or not empty_frames_ok(fmt):
        return
    how = rng.choice(["strip", "strip", "add", "add", "add", "all"])
    if how == "strip":
        rng.choice(desc["frames"])["signals"] = []
    elif how == "all":
        for f in desc["frames"]:
            f["signals"] = []
    else:
        ext = rng.random() < 0.35
        for _ in range(10):
            fid = rng.randrange(0, 1 << 29) if ext else rng.randrange(0, 1 << 11)
            if not any(g["id"] == fid for g in desc["frames"]):
                break
        else:
            return
        name = rng.choice(["Trigger", "WakeUp", "NM_Alive", "Sync"])
        if any(g["name"] == name for g in desc["frames"]):
            return
        size = rng.choice([1, 2, 8, 8, 8])
        tx = sorted(rng.sample(sorted(set(desc["ecus"])), min(len(set(desc["ecus"])), rng.choice([0, 1, 1]))))
        desc["frames"].insert(rng.randint(0, len(desc["frames"])),
                              {"name": name, "id": fid, "ext": ext, "size": size, "transmitters": tx, "comment": None, "fd": False, "j1939": False,
                               "signals": [], "cycle": 0})


def gen_bus(rng):
    fmt = rng.choice(["kcd", "arxml"])
    # ARXML: short names are unique within the file (AUTOSAR packages); KCD: the names of frames and signals are local to a bus
    prefix = fmt == "arxml" or rng.random() < 0.5
    buses = []
    for name in ("BusA", "BusB", "BusC")[:rng.choice([1, 2, 2, 2, 3, 3, 3])]:
        d = R.gen_case_matrix(rng, fmt, False)
        long_names(rng, d, fmt)
        keyword_names(rng, d, fmt)
        token_edge_names(rng, d, fmt)
        if prefix:
            for f in d["frames"]:
                f["name"] = name + "_" + f["name"]
                for s in f["signals"]:
                    s["name"] = name + "_" + s["name"]
        buses.append([name, d])
    # routed frames: a gateway puts a frame of one bus on another bus too - the same identifier, format and name there
    routed = []
    for _ in range(rng.choice([0, 1, 1, 2]) if len(buses) > 1 else 0):
        i, j = rng.sample(range(len(buses)), 2)
        src = rng.choice(buses[i][1]["frames"])
        tgt = buses[j][1]
        if any(f["id"] == src["id"] or f["name"] == src["name"] for f in tgt["frames"]) or any(r[2] == src["id"] for r in routed):
            continue
        how = rng.choice(["copy", "object", "other-signals"] if fmt == "kcd" else ["copy", "object"])
        fr = copy.deepcopy(src)
        if how == "other-signals":
            # the target bus carries other signals (and another length) under the same identifier and name
            other = R.gen_case_matrix(rng, fmt, False)["frames"][0]
            fr["signals"], fr["size"], fr["fd"] = other["signals"], other["size"], other["fd"]
            if prefix:
                for s in fr["signals"]:
                    s["name"] = buses[j][0] + "_" + s["name"]
        if how == "object":
            tgt["frames"].append(fr)             # (added to the built matrix with add_frame: it comes last)
        else:
            tgt["frames"].insert(rng.randint(0, len(tgt["frames"])), fr)
        tgt["ecus"] = sorted(set(tgt["ecus"]) | set(fr["transmitters"]) | {r for s in fr["signals"] for r in s["receivers"]})
        routed.append([buses[i][0], buses[j][0], fr["id"], fr["ext"], how])
    return {"op": "bus", "c": {"fmt": fmt, "names": [b[0] for b in buses], "buses": buses, "routed": routed, "prefix": prefix}}


def observe_bus(c):
    import canmatrix.formats
    from lib import matrices as M
    try:
        dbs = {name: M.build(d) for name, d in c["buses"]}
        for a, b, fid, ext, how in c.get("routed", []):
            if how == "object":
                # one Frame object in both matrices
                mine = [f for f in dbs[b].frames if f.arbitration_id.id == fid and bool(f.arbitration_id.extended) == ext][0]
                theirs = [f for f in dbs[a].frames if f.arbitration_id.id == fid and bool(f.arbitration_id.extended) == ext][0]
                dbs[b].remove_frame(mine)
                dbs[b].add_frame(theirs)
        before = {name: M.normal_form(dbs[name], "layout") for name in dbs}
        b = M.NamedBytes()
        canmatrix.formats.dump(dbs, b, c["fmt"])
        got, _ = M.import_bytes(b.getvalue(), c["fmt"])
        return {"keys": sorted(got.keys()),
                "same": [name in got and before[name] == M.normal_form(got[name], "layout") for name in dbs]}
    except Exception as e:  # noqa
        return {"exc": type(e).__name__ + ": " + str(e)[:160]}


_path_cache = {}


def run_path(desc, fmt, wn, rn, jopt=None):
    """as roundtrip.run, but through the path functions of the public API: dumpp writes <dir>/matrix.<extension>, loadp reads it, both
    take the format from the extension"""
    import canmatrix.formats
    from lib import matrices as M
    key = json.dumps([desc, fmt, wn, rn, jopt], sort_keys=True)
    if key in _path_cache:
        return _path_cache[key]
    import contextlib
    import io
    wopts, ropts = {}, {}
    if fmt == "json":
        wopts = {"jsonExportAll": True, "jsonMotorolaBitFormat": wn}
        wopts.update(jopt or {})
    if fmt == "xls":
        wopts = {"xlsMotorolaBitFormat": wn}
        ropts = {"xlsMotorolaBitFormat": rn}
    if fmt == "arxml" and wn == "3.2.3":
        wopts = {"arVersion": "3.2.3"}
    res = {"exc": None}
    tmp = tempfile.mkdtemp(prefix="c06-")
    try:
        db = M.build(desc)
        path = os.path.join(tmp, "matrix." + canmatrix.formats.extensionMapping[fmt])
        with contextlib.redirect_stdout(io.StringIO()):
            canmatrix.formats.dumpp({"": db}, path, **wopts)
            with open(path, "rb") as fh:
                res["stored"] = R.extract_positions(fmt, fh.read())
            dbs = canmatrix.formats.loadp(path, **ropts)
        db2 = list(dbs.values())[0]
        res["got"] = M.normal_form(db2, "full")
        res["orig"] = M.normal_form(db, "full")
    except Exception as e:  # noqa
        res["exc"] = type(e).__name__ + ": " + str(e)[:200]
    finally:
        shutil.rmtree(tmp, ignore_errors=True)
    if len(_path_cache) > 8:
        _path_cache.clear()
    _path_cache[key] = res
    return res


def neighbours(case, rng, shard, nshards):
    if case["op"] == "bus":
        return
    c = case["c"]
    for _ in range(6 // nshards + 1):
        desc = R.gen_case_matrix(rng, c["fmt"], False)
        for f in desc["frames"]:
            for s in f["signals"]:
                yield {"op": "sig", "c": {"fmt": c["fmt"], "wn": c["wn"], "rn": c["rn"], "m": desc, "fid": f["id"], "ext": f["ext"], "sname": s["name"],
                                          "sig": [s["name"], s["start"], s["size"], s["little"], s["signed"], s["float"]], "x": c.get("x", False), "lvl": c.get("lvl", "full")}}


def observe(case):
    c = case["c"]
    if case["op"] == "bus":
        return observe_bus(c)
    if c.get("via") == "path":
        r = run_path(c["m"], c["fmt"], c["wn"], c["rn"], c.get("jopt"))
    elif c.get("jopt"):
        r = R.run(c["m"], c["fmt"], c["wn"], c["rn"], wextra=c["jopt"])
    else:
        r = R.run(c["m"], c["fmt"], c["wn"], c["rn"])
    if r["exc"]:
        if case["op"] == "frame":
            return {"exc": r["exc"], "got": None, "orig": None}
        return {"exc": r["exc"], "emit": None, "back": None, "type": None}
    gf = R.find_frame(r["got"], c["fid"], c["ext"])
    of = R.find_frame(r["orig"], c["fid"], c["ext"])
    if case["op"] == "frame":
        return {"got": gf, "orig": of}
    is_mux = any(s["name"] == c["sname"] and s["mux"] == "Multiplexor" for s in of["signals"])
    gs = R.find_signal(gf, c["sname"], c["fmt"], is_mux, of["name"]) if gf else None
    stored = r["stored"].get((c["fid"], c["ext"], c["sname"]))
    if stored is None and c["fmt"] == "sym" and is_mux:
        stored = r["stored"].get((c["fid"], c["ext"], "<mux>"))
    if stored is None and c["fmt"] == "dbc" and len(c["sname"]) > 32:
        # the SG_ line of a DBC file has the name cut to 32 characters (the whole name is in a BA_ statement); the signals of a
        # frame whose names are equal up to there are numbered in their order
        cut = [s["name"] for s in of["signals"] if s["name"][:32] == c["sname"][:32]]
        stored = r["stored"].get((c["fid"], c["ext"], c["sname"][:32] + (str(cut.index(c["sname"])) if len(cut) > 1 else "")))
    return {"emit": stored if c.get("x") else None,
            "back": [gs["start"], gs["size"], gs["little"]] if gs else None,
            # the sign flag of a float signal carries no meaning and is not stored by DBF/KCD/SYM
            "type": [None if gs["float"] else gs["signed"], gs["float"]] if (gs and c["fmt"] != "xls" and c.get("lvl") != "layout") else None}


def project(impl):
    if "keys" in impl or ("exc" in impl and "back" not in impl and "got" not in impl):
        return {}
    if "got" in impl and "back" not in impl:
        return {}
    return {"emit": impl.get("emit"), "back": impl.get("back"), "type": impl.get("type")}


def to_model_case(case):
    return case


def features(case, impl):
    c = case["c"]
    yield "op=" + case["op"]
    if case["op"] == "bus":
        yield "buses=%s/%d" % (c["fmt"], len(c["names"]))
        if not c.get("prefix", True):
            yield "buses:same-names-on-every-bus"
        if any(len(s["name"]) > 32 or len(f["name"]) > 32 for _, d in c["buses"] for f in d["frames"] for s in f["signals"]):
            yield "buses:long-names/" + c["fmt"]
        for r in c.get("routed", []):
            yield "buses:routed-frame=%s/%s" % (c["fmt"], r[4])
        return
    yield "fmt=" + c["fmt"] + ("/" + c["wn"] + ">" + c["rn"] if c["fmt"] in ("json", "xls") else "/" + c["wn"] if c["wn"] == "3.2.3" else "")
    fr = c["m"]["frames"]
    if c.get("via") == "path":
        yield "via=path/" + c["fmt"]
    if any(e in ECU_WORDS for e in c["m"]["ecus"]):
        yield "matrix:keyword-in-ecu-name/" + c["fmt"]
    if any(f["name"] in NAME_WORDS for f in fr):
        yield "matrix:keyword-in-frame-name"
    if any(s["name"] in NAME_WORDS for f in fr for s in f["signals"]):
        yield "matrix:keyword-in-signal-name"
    for f in fr:
        for s in f["signals"]:
            if MUX_TAIL.search(s["name"]) and not re.fullmatch(r"[sg][\d_]+", s["name"]):
                yield "matrix:signal-name-ends-like-mux-indicator/%s/%s" % (c["fmt"], "plain" if s["mux"] is None else "multiplexer" if s["mux"] == "Multiplexor" else "multiplexed")
            if s["name"][:1] in "_Mm" and s["name"] != "mx":
                yield "matrix:signal-name-begins-like-token/" + c["fmt"]
        if MUX_TAIL.search(f["name"]):
            yield "matrix:frame-name-ends-like-mux-indicator/" + c["fmt"]
    twin = any(f["id"] == g["id"] and f["ext"] != g["ext"] for f in fr for g in fr)
    if twin:
        yield "matrix:same-number-in-both-formats"
    for what, names in (("signal", [s["name"] for f in fr for s in f["signals"]]), ("frame", [f["name"] for f in fr]), ("ecu", c["m"]["ecus"])):
        if any(len(n) > 32 for n in names):
            yield "matrix:long-%s-name/%s%s" % (what, c["fmt"], "+same-number-in-both-formats" if twin else "")
    if any(len(s["name"]) > 32 and len(t["name"]) > 32 and s["name"] != t["name"] and s["name"][:32] == t["name"][:32] for f in fr for s in f["signals"] for t in f["signals"]):
        yield "matrix:long-signal-names-equal-in-32-characters/" + c["fmt"]
    if any(f["size"] > 8 for f in fr):
        yield "matrix:fd-length"
    if c.get("jopt"):
        yield "json:compact-export%s" % ("/native-types" if c["jopt"].get("jsonNativeTypes") else "")
    if any(not f["signals"] for f in fr):
        yield "matrix:frame-without-signals/%s%s" % (c["fmt"], "/all" if not any(f["signals"] for f in fr) else "")
    if any(s["name"] != t["name"] and s["name"].lower() == t["name"].lower() for f in fr for s in f["signals"] for t in f["signals"]):
        yield "matrix:signal-names-differ-in-case-only/" + c["fmt"]
    if any(f["name"] != g["name"] and f["name"].lower() == g["name"].lower() for f in fr for g in fr):
        yield "matrix:frame-names-differ-in-case-only/" + c["fmt"]
    if len({e.lower() for e in c["m"]["ecus"]}) < len(set(c["m"]["ecus"])):
        yield "matrix:ecu-names-differ-in-case-only/" + c["fmt"]
    if case["op"] == "sig":
        d = c["sig"]
        yield "%s:%s%s" % (c["fmt"], "intel" if d[3] else "motorola", "/float" if d[5] else "")
        for f in fr:
            for t in f["signals"]:
                if f["id"] == c["fid"] and f["ext"] == c["ext"] and t["name"] == c["sname"] and t["mux"] != "Multiplexor" \
                        and (t["factor"], t["offset"], t["unit"]) == ("1", "0", ""):
                    yield "sig:plain/%s/%s%s%s" % (c["fmt"], "float" if t["float"] else "signed" if t["signed"] else "unsigned", "/1bit" if t["size"] == 1 else "",
                                                  "/limits=%s..%s" % (t["min"], t["max"]) if t.get("min") is not None else "")
        if impl.get("exc"):
            yield "exception:" + c["fmt"]


def nontrivial(case, impl):
    if case["op"] == "bus":
        return True
    return case["op"] == "sig" and (not case["c"]["sig"][3] or case["c"]["sig"][2] > 1)


def classify(case, impl, spec):
    """known finding: SYM names an enumeration after its signal, so two equal-named signals of different frames with different
    value tables share one enumeration after the round trip"""
    c = case["c"]
    if c["fmt"] == "arxml" and c.get("wn") == "3.2.3" and spec and re.search(r"signedness|float type|unit of ", spec):
        return "C07-arxml3-type-unit"
    if c["fmt"] == "arxml" and c.get("wn") == "3.2.3" and spec and re.search(r"^fail: (factor|offset|value table|minimum|maximum) of (Unit|Semantics) ", spec):
        # the AUTOSAR 3 writer names the data type of a signal after the signal, in the package that also holds the sub-packages Unit and Semantics
        return "C07-arxml3-signal-named-like-package"
    if case["op"] == "frame" and c["fmt"] == "sym" and spec and spec.startswith("fail: value table of "):
        name = spec[len("fail: value table of "):].split(" ")[0]
        tables = [json.dumps(s["values"], sort_keys=True) for f in c["m"]["frames"] for s in f["signals"] if s["name"] == name and s["values"]]
        if len(set(tables)) > 1:
            return "C07-sym-enum-name-collision"
    return None
