"""Shared helpers: build canmatrix frames from case descriptions, observe decode/encode, generators."""
import logging
import decimal
import math
import struct

import canmatrix.canmatrix as cm

logging.disable(logging.CRITICAL)

FD_LENGTHS = [1, 2, 3, 4, 5, 6, 7, 8, 12, 16, 20, 24, 32, 48, 64]
ALL_LENGTHS = FD_LENGTHS + [9, 10, 11, 13, 15, 17, 31, 33, 47, 63]

ERRMAP = {
    "DecodingFrameLength": "frameLength",
    "EncodingComplexMultiplexed": "complexMux",
    "DecodingComplexMultiplexed": "complexMux",
    "EncodingConatainerPdu": "containerPdu",
    "DecodingConatainerPdu": "containerPdu",
    "MissingMuxSignal": "missingMux",
    "KeyError": "keyError",
    "StartbitLowerZero": "startbitLowerZero",
    "ArbitrationIdOutOfRange": "idOutOfRange",
    "J1939NeedsExtendedIdentifier": "needsExtended",
}


def errname(e):
    n = type(e).__name__
    return ERRMAP.get(n, "exc:" + n)


def sigdesc(name, start, size, little, signed=False, is_float=False, is_muxer=False, mux_val=None, grp=None, muxer_for=None):
    return [name, start, size, bool(little), bool(signed), bool(is_float), bool(is_muxer), mux_val, grp or [], muxer_for]


def mksignal(d):
    name, start, size, little, signed, is_float = d[:6]
    is_muxer, mux_val, grp, muxer_for = (d[6:10] if len(d) > 6 else (False, None, [], None))
    multiplex = "Multiplexor" if is_muxer else mux_val
    s = cm.Signal(name, start_bit=start, size=size, is_little_endian=little, is_signed=signed, is_float=is_float,
                  multiplex=multiplex)
    if not little and size > 0 and (start + size) % 3 == 0:
        # a Motorola signal placed the way a DBC reader does it: by the number of its most significant bit in the file's numbering
        s.start_bit = 0
        s.set_startbit(sig_addrs(False, start, size)[-1], bitNumbering=1)
    s.mux_val_grp = [list(r) for r in grp]
    s.muxer_for_signal = muxer_for
    if is_muxer and mux_val is not None:
        # nested multiplexer (DBC 'm3M'): is_multiplexer with a selector value of its own
        s.mux_val = mux_val
    return s


def mkframe(fd, name="F", arbid=0x123, extended=False):
    fr = cm.Frame(name, arbitration_id=cm.ArbitrationId(arbid, extended), size=fd["size"])
    if fd["size"] > 8:
        fr.is_fd = True          # a CAN FD frame; its declared length need not be one of the DLC steps
    if fd.get("j"):
        fr.is_j1939 = True       # a frame of a J1939 network (no business of the raw codec)
    for d in fd["sigs"]:
        fr.add_signal(mksignal(d))
    if fd.get("sc"):
        # physical scaling, limits and start values are no business of the raw codec: signals carry some
        for k, s_ in enumerate(fr.signals):
            if not s_.is_float:
                s_.offset = decimal.Decimal(k + 3)
                s_.factor = decimal.Decimal("0.5")
                s_.min = decimal.Decimal(k + 3)
                s_.max = decimal.Decimal(k + 3) + (1 << min(s_.size, 20))
                s_.initial_value = decimal.Decimal(k + 4)
    fr.is_complex_multiplexed = bool(fd.get("cx", False))
    if fd.get("ct", False) and fd.get("ctfull"):
        # a container as the ARXML reader builds it: header signals (24 bit id, 8 bit length) and two PDUs with two signals each
        fr.signals = []

        def mot(nm, size, dbc_start):
            sg = cm.Signal(name=nm, size=size, is_signed=False, is_little_endian=False)
            sg.set_startbit(dbc_start, bitNumbering=1)
            return sg
        fr.add_signal(mot("Header_ID", 24, 7))
        fr.add_signal(mot("Header_DLC", 8, 7 + 24))
        for pid, nm in ((10, "pdu1"), (11, "pdu2")):
            pdu = cm.Pdu(name=nm, id=pid, size=2)
            pdu.add_signal(mot(nm + "_a", 8, 7))
            pdu.add_signal(mot(nm + "_b", 8, 7 + 8))
            fr.add_pdu(pdu)
        fr._verif_ctfull = True
    elif fd.get("ct", False):
        fr.add_pdu(cm.Pdu(name="P", size=1, id=1))
    return fr


def val_to_json(sig, v):
    if sig.is_float:
        if isinstance(v, float) and math.isnan(v):
            return "nan"
        fmt = ">f" if sig.size == 32 else ">d"
        return int.from_bytes(struct.pack(fmt, v), "big")
    return int(v)


def pattern_to_float(size, pattern):
    fmt = ">f" if size == 32 else ">d"
    return struct.unpack(fmt, pattern.to_bytes(size // 8, "big"))[0]


class edited_in_place(object):
    """context: the frame's signals are given another placement (first bit, one bit wide, other byte order, integer); on exit they
    get their own placement back by assignment to the same Signal objects.  What is computed afterwards must not remember the
    detour."""

    FIELDS = ("start_bit", "size", "is_little_endian", "is_signed", "is_float")

    def __init__(self, fr):
        self.fr = fr

    def __enter__(self):
        self.saved = [(s, [getattr(s, f) for f in self.FIELDS]) for s in self.fr.signals]
        for s, _ in self.saved:
            s.is_float = False
            s.size = 1
            s.start_bit = 0 if s.is_little_endian else 7
            s.is_little_endian = not s.is_little_endian
            s.is_signed = False
        return self

    def __exit__(self, *exc):
        for s, vals in self.saved:
            for f, v in zip(self.FIELDS, vals):
                setattr(s, f, v)
        return False


def _decode_call(fr, data, api, at, ae, db):
    if api == "unpack":
        return fr.unpack(bytes(data), allow_truncated=at, allow_exceeded=ae)
    if api == "mdecode":
        return db.decode(fr.arbitration_id, bytes(data))
    return fr.decode(bytes(data))


def container_reference(data, size):
    """the content of a payload of the container built by mkframe (ctfull): headers of 24 bit id + 8 bit length (in bytes), PDUs 10
    and 11 with two one-byte signals; unknown ids are skipped by their length.  Independent of canmatrix."""
    out = {"pdus": [], "Header_ID": [], "Header_DLC": []}
    off = 0
    while off * 8 + 32 < size * 8:
        hid = int.from_bytes(bytes(data[off:off + 3]), "big")
        dlc = data[off + 3]
        off += 4
        out["Header_ID"].append(["raw", repr(hid)])
        out["Header_DLC"].append(["raw", repr(dlc)])
        if hid in (10, 11):
            nm = "pdu1" if hid == 10 else "pdu2"
            if dlc < 2 or off + 2 > size:
                return None                      # not a payload this reference speaks about
            out["pdus"].append({nm: {nm + "_a": ["raw", repr(data[off])], nm + "_b": ["raw", repr(data[off + 1])]}})
        else:
            out["pdus"].append("None")
        off += dlc
    return out


def _plain(x):
    """a decode result as plain data (also the nested results of a PDU container)"""
    if isinstance(x, dict):
        return {str(k): _plain(v) for k, v in x.items()}
    if isinstance(x, (list, tuple)):
        return [_plain(v) for v in x]
    if hasattr(x, "raw_value"):
        return ["raw", repr(x.raw_value)]
    return repr(x)


def _normal(fr, d):
    out = {}
    for k, v in d.items():
        out[k] = val_to_json(v.signal, v.raw_value)
    return {"ok": out}


def observe_decode(fr, data, api="decode", at=False, ae=False, db=None, _again=True):
    """the same call is made twice on the same objects: a result that depends on what was decoded before is reported as an error;
    so is a result that differs after the signals were moved away and back in place, and a result that changes when another
    payload is decoded afterwards"""
    if _again:
        if not fr.is_pdu_container and not getattr(fr, "_verif_detour_done", False):
            # the very first use of these objects is with the signals somewhere else (then moved to their place)
            fr._verif_detour_done = True
            with edited_in_place(fr):
                observe_decode(fr, data, api, at, ae, db, _again=False)
                observe_encode(fr, [], _again=False)
        first = observe_decode(fr, data, api, at, ae, db, _again=False)
        second = observe_decode(fr, data, api, at, ae, db, _again=False)
        if first != second:
            return {"err": "exc:result-differs-when-repeated"}
        if not fr.is_pdu_container:
            with edited_in_place(fr):
                observe_decode(fr, data, api, at, ae, db, _again=False)
            third = observe_decode(fr, data, api, at, ae, db, _again=False)
            if first != third:
                return {"err": "exc:result-differs-after-signals-were-edited-in-place"}
            # a result belongs to its caller: decoding another payload afterwards does not change it
            try:
                kept = _decode_call(fr, data, api, at, ae, db)
                before = _normal(fr, kept)
                try:
                    _decode_call(fr, [b ^ 0xFF for b in data], api, at, ae, db)
                except Exception:  # noqa
                    pass
                if _normal(fr, kept) != before:
                    return {"err": "exc:an-earlier-result-changed-when-another-payload-was-decoded"}
            except Exception:  # noqa
                pass
        elif api == "unpack" and ((at and len(data) < fr.size) or (ae and len(data) > fr.size)):
            # containers are not modelled; the length rule is checked on the implementation itself:
            # a short payload reads as if padded with 0xFF, a long one as if cut
            same = list(data[:fr.size]) + [0xFF] * max(0, fr.size - len(data))
            try:
                a = _plain(_decode_call(fr, data, api, at, ae, db))
            except Exception as e:  # noqa
                a = "raised " + errname(e)
            try:
                b = _plain(_decode_call(fr, same, api, at, ae, db))
            except Exception as e:  # noqa
                b = "raised " + errname(e)
            if a != b:
                return {"err": "exc:container-with-opt-in-not-read-as-the-padded-or-cut-payload"}
        if fr.is_pdu_container and getattr(fr, "_verif_ctfull", False) and first == {"ok": "unmodelled"}:
            # the content of a container payload against the layout (reference above)
            eff = (list(data) + [0xFF] * max(0, fr.size - len(data)))[:fr.size]
            want = container_reference(eff, fr.size)
            if want is not None:
                try:
                    got = _plain(_decode_call(fr, data, api, at, ae, db))
                except Exception as e:  # noqa
                    got = "raised " + errname(e)
                if got != want:
                    return {"err": "exc:container-content-differs-from-its-layout"}
        return first
    try:
        d = _decode_call(fr, data, api, at, ae, db)
    except Exception as e:  # noqa
        kind = errname(e)
        if fr.is_pdu_container and kind != "frameLength":
            return {"ok": "unmodelled"}
        return {"err": kind}
    if fr.is_pdu_container:
        return {"ok": "unmodelled"}
    return _normal(fr, d)


def observe_encode(fr, data_pairs, _again=True, _shared=None):
    if _again:
        if not getattr(fr, "_verif_detour_done", False):
            fr._verif_detour_done = True
            with edited_in_place(fr):
                observe_encode(fr, data_pairs, _again=False)
                try:
                    fr.decode(bytes(fr.size))
                except Exception:  # noqa
                    pass
        first = observe_encode(fr, data_pairs, _again=False)
        second = observe_encode(fr, data_pairs, _again=False)
        if first != second:
            return {"err": "exc:result-differs-when-repeated"}
        with edited_in_place(fr):
            observe_encode(fr, data_pairs, _again=False)
        third = observe_encode(fr, data_pairs, _again=False)
        if first != third:
            return {"err": "exc:result-differs-after-signals-were-edited-in-place"}
        # one values dict used for several calls, with other selector values first: encoding reads the caller's dict, it does not own it
        mux = next((s for s in fr.signals if s.is_multiplexer and s.muxer_for_signal is None), None)
        names = [k for k, _ in data_pairs]
        if mux is not None and mux.name in names and not fr.is_complex_multiplexed:
            wanted = dict((k, v) for k, v in data_pairs)[mux.name]
            others = sorted({s.multiplex for s in fr.signals if isinstance(s.multiplex, int) and s.multiplex != wanted})[:2]
            shared = {}
            for other in others:
                observe_encode(fr, [[k, (other if k == mux.name else v)] for k, v in data_pairs], _again=False, _shared=shared)
            fourth = observe_encode(fr, data_pairs, _again=False, _shared=shared)
            if first != fourth:
                return {"err": "exc:result-differs-when-the-callers-values-dict-is-used-again"}
        return first
    data = {} if _shared is None else _shared
    filled = bool(data)
    for k, v in data_pairs:
        s = fr.signal_by_name(k)
        if s is not None and s.is_float:
            v = pattern_to_float(s.size, v)
        if not filled or (s is not None and s.is_multiplexer):
            data[k] = v          # a dict that is used again only gets the new selector value
    try:
        b = fr.encode(data)
    except Exception as e:  # noqa
        return {"err": errname(e)}
    return {"ok": list(b)}


# ------------------------------------------------------------------------------------------
# generators
# ------------------------------------------------------------------------------------------
def rand_payload(rng, n):
    k = rng.random()
    if k < 0.08:
        return [0] * n
    if k < 0.16:
        return [255] * n
    if k < 0.30:
        p = [0] * n
        b = rng.randrange(8 * n)
        p[b // 8] = 1 << (b % 8)
        return p
    if k < 0.40:
        p = [255] * n
        b = rng.randrange(8 * n)
        p[b // 8] ^= 1 << (b % 8)
        return p
    return [rng.randrange(256) for _ in range(n)]


def rand_size(rng, maxbits):
    c = rng.random()
    if c < 0.15:
        s = 1
    elif c < 0.3:
        s = rng.choice([7, 8, 9, 15, 16, 17])
    elif c < 0.4:
        s = rng.choice([31, 32, 33, 63, 64])
    else:
        s = rng.randint(1, 64)
    return max(1, min(s, maxbits))


def rand_sig(rng, name, nbytes, allow_float=True):
    nbits = 8 * nbytes
    size = rand_size(rng, nbits)
    is_float = False
    if allow_float and rng.random() < 0.12 and nbits >= 32:
        size = 64 if (nbits >= 64 and rng.random() < 0.5) else 32
        is_float = True
    c = rng.random()
    if c < 0.2:
        start = 8 * rng.randrange(0, nbytes)
        if start + size > nbits:
            start = nbits - size
    elif c < 0.3:
        start = nbits - size
    elif c < 0.4:
        start = 0
    else:
        start = rng.randint(0, nbits - size)
    little = rng.random() < 0.5
    signed = rng.random() < 0.5
    return sigdesc(name, start, size, little, signed, is_float)


def sig_addrs(little, start, size):
    """independent (Python) statement of the convention, used only by generators"""
    if little:
        return [start + i for i in range(size)]
    out = []
    for i in range(size):
        j = start + size - 1 - i
        out.append(8 * (j // 8) + 7 - j % 8)
    return out


def rand_disjoint_sigs(rng, nbytes, maxn=8, allow_float=True, prefix="s"):
    used = set()
    sigs = []
    for k in range(rng.randint(1, maxn)):
        for _try in range(8):
            d = rand_sig(rng, "%s%d" % (prefix, k), nbytes, allow_float)
            a = set(sig_addrs(d[3], d[1], d[2]))
            if not (a & used):
                used |= a
                sigs.append(d)
                break
    return sigs


def raw_range(d):
    size, signed, is_float = d[2], d[4], d[5]
    if is_float:
        return 0, (1 << size) - 1
    if signed:
        return -(1 << (size - 1)), (1 << (size - 1)) - 1
    return 0, (1 << size) - 1


def rand_raw(rng, d):
    lo, hi = raw_range(d)
    c = rng.random()
    if d[5]:
        # float: exactly representable, non-NaN patterns
        while True:
            # incl. -0.0 (sign bit only) and the smallest negative denormal
            v = rng.choice([0, 1, hi, 1 << (d[2] - 1), (1 << (d[2] - 1)) | 1, rng.randint(lo, hi), rng.randint(lo, hi)])
            exp_all_ones = ((v >> 23) & 0xFF) == 0xFF if d[2] == 32 else ((v >> 52) & 0x7FF) == 0x7FF
            if not exp_all_ones:
                return v
    if c < 0.15:
        return lo
    if c < 0.3:
        return hi
    if c < 0.4:
        v = rng.choice([0, -1, 1, lo + 1, hi - 1]) if lo < 0 else rng.choice([0, 1, max(hi - 1, 0)])
        return max(lo, min(hi, v))
    return rng.randint(lo, hi)
