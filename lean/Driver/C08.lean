import Driver.J
import CanVerif.Model.StartBit
import CanVerif.Spec.Bits
open Lean CanVerif

namespace D08

/-- spec of the decode observation: payload with exactly physical bit `k` set -/
def specSingleBit (little : Bool) (internal size k : Nat) : Nat :=
  match (List.range size).find? (fun i => sigAddr little internal size i == k) with
  | some i => 2 ^ i
  | none => 0

/-- op "sg": c = [little,size,start,bnSet,slSet,bnGet,slGet,k]
impl i = {"set": internal|null, "get": n|null, "dec": raw|null} -/
def handle (op : String) (c i : Json) : Except String (Json × String) := do
  match op with
  | "sg" =>
    let little ← J.bool (← J.idx c 0)
    let size ← J.nat (← J.idx c 1)
    let start ← J.nat (← J.idx c 2)
    let bnS ← J.optBool (← J.idx c 3)
    let slS ← J.bool (← J.idx c 4)
    let bnG ← J.optBool (← J.idx c 5)
    let slG ← J.bool (← J.idx c 6)
    let k ← J.nat (← J.idx c 7)
    -- model
    let mset := setStartbit little size start bnS slS
    let mget := mset.map fun x => getStartbit little size x bnG slG
    let mdec : Option Nat := match mset with
      | some x => some (specSingleBit little x.toNat size k)   -- model of decode is C01's; here spec
      | none => none
    let m := J.obj [("set", J.ofOptInt mset), ("get", J.ofOptInt mget), ("dec", J.ofOptNat mdec)]
    -- spec evaluated on the implementation's observation
    let iset ← J.optInt (← J.key i "set")
    let iget ← J.optInt (← J.key i "get")
    let idec ← J.optInt (J.keyD i "dec" .null)
    let s : String :=
      match iset with
      | none =>
        -- rejected: must be a position before bit 0: Motorola, LSB-anchored, fewer than size-1
        -- bits before the position in MSB0-sequential order
        let seq := match numberingOf little bnS with
          | .lsb0 => if little then start else flipN start
          | .msb0 => if little then flipN start else start
        -- "rejected ... rather than stored": the signal keeps the position it had (the harness starts from 0)
        let stored := J.keyD i "stored" (J.ofNat 0)
        if stored != J.ofNat 0 then "fail: a rejected position was stored all the same"
        else if !little && slS && seq + 1 < size then "ok" else "fail: rejected a representable position"
      | some x =>
        if x < 0 then "fail: stored negative position" else
        let n := x.toNat
        if (specGetStartbit little size n bnS slS : Int) != start then
          "fail: stored position does not denote the bit that was set"
        else if iget != some (specGetStartbit little size n bnG slG : Int) then
          "fail: query in other notation is not the corresponding bit"
        else if bnS == bnG && slS == slG && iget != some (start : Int) then
          "fail: query in the same notation differs from what was set"
        else match idec with
          | some d => if d == (specSingleBit little n size k : Int) then "ok"
                      else "fail: single-bit payload decodes to wrong value"
          | none => "ok"
    pure (m, s)
  | _ => throw s!"C08: unknown op {op}"

end D08
