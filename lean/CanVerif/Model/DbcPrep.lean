import CanVerif.Model.DbcPost
/-!
# Model of what `dbc.dump` does to names longer than 32 characters before it writes (formats/dbc.py `dump`, "fix long ecu names" ~180,
"fix long frame names" ~205)

A frame (an ECU) whose name is longer than 32 characters gets the attribute `SystemMessageLongSymbol` (`SystemNodeLongSymbol`) with the
whole name and is written under the first 32 characters; the attribute is defined as STRING, so its value is written in quotes.
Compared with the matrix `dump` works on for every frame and ECU of every generated matrix (op `prep` of the C05 check).
-/
namespace CanVerif.Dbc
open CanVerif

/-- `obj.add_attribute(attr, obj.name); obj.name = obj.name[0:32]` for a name longer than 32 characters -/
def prepLong (attr : String) (name : Str) (attrs : List (Str × Str)) : Str × List (Str × Str) :=
  if name.length > 32 then (name.take 32, assocSet attrs attr.toList name) else (name, attrs)

/-- `create_attribute_string`: the value of an attribute whose definition is STRING is written in quotes -/
def writtenValue (isString : Bool) (v : Str) : Str := if isString then '"' :: v ++ ['"'] else v

end CanVerif.Dbc
