"""run as a subprocess under a given PYTHONHASHSEED: reads a JSON list of matrix descriptions on stdin, prints one JSON line:
{writer-key: [sha256 of the export of each matrix]}
or reads {"ms": [descriptions], "order": [[configuration key, matrix index], ...]} and makes the exports in that order (the export
history of this process); same output, over all configurations of c14.CONFIGS; with "env": {...} after moving to that environment
or, with --serve, answers requests for exports made in fresh processes (see serve)"""
import hashlib
import json
import os
import sys

sys.path.insert(0, os.path.dirname(os.path.dirname(os.path.abspath(__file__))))
from lib import matrices as M  # noqa: E402
from props import c14  # noqa: E402


def one(d, fmt, opts):
    try:
        db = c14.build(d)
        return hashlib.sha256(M.export_bytes(db, fmt, **opts)).hexdigest()
    except Exception as e:  # noqa
        return "EXC:" + type(e).__name__


def serve():
    """--serve: this process imports everything, exports NOTHING itself and answers one JSON line per request line:
    {"ms": [descriptions], "runs": [[[matrix index, configuration key], ...], ...], "text": bool, "envs": [null | environment per run]}
    -> [[sha256 (or latin-1 text, or "EXC:<type>") of every export of the run], ...].
    Every run is made in a child forked for it alone, i.e. in a process that has exported nothing before the first step of the
    run (the state of a fresh interpreter after the imports).  Within a run every matrix index is ONE object, built at its first
    use: a later step sees what an earlier step left in it and in the process."""
    import gc
    gc.collect()
    gc.freeze()          # (what the imports left is shared with the children as it is)
    for line in sys.stdin:
        if not line.strip():
            continue
        job = json.loads(line)
        pipes = []
        for n, run in enumerate(job["runs"]):
            r, w = os.pipe()
            pid = os.fork()
            if pid == 0:
                code = 0
                try:
                    os.close(r)
                    for r0, _ in pipes:
                        os.close(r0)
                    dbs = {}
                    res = []
                    if (job.get("envs") or [None] * (n + 1))[n]:
                        c14.enter_environment(job["envs"][n])
                    for k, key in run:
                        fmt, opts = c14.CONFIGS[key]
                        try:
                            if k not in dbs:
                                dbs[k] = c14.build(job["ms"][k])
                            data = M.export_bytes(dbs[k], fmt, **opts)
                            res.append(data.decode("latin-1") if job.get("text") else hashlib.sha256(data).hexdigest())
                        except Exception as e:  # noqa
                            res.append("EXC:" + type(e).__name__)
                    with os.fdopen(w, "w") as f:
                        f.write(json.dumps(res))
                except BaseException:  # noqa
                    code = 1
                finally:
                    os._exit(code)
            os.close(w)
            pipes.append((r, pid))
        out = []
        for r, pid in pipes:
            with os.fdopen(r) as f:
                data = f.read()
            os.waitpid(pid, 0)
            out.append(json.loads(data) if data else ["EXC:child died"])
        sys.stdout.write(json.dumps(out) + "\n")
        sys.stdout.flush()


if "--serve" in sys.argv[1:]:
    serve()
    sys.exit(0)

job = json.load(sys.stdin)
out = {}
if isinstance(job, list):
    for key, (fmt, opts) in c14.WRITERS.items():
        out[key] = [one(d, fmt, opts) for d in job]
else:
    descs = job["ms"]
    if job.get("env"):
        # this process runs somewhere else, at another time (time zone, clock, user, directory, locale)
        c14.enter_environment(job["env"])
    out = {key: [None] * len(descs) for key in c14.CONFIGS}
    for key, k in job["order"]:
        fmt, opts = c14.CONFIGS[key]
        out[key][k] = one(descs[k], fmt, opts)
print(json.dumps(out))
