import CanVerif.Spec.J1939
/-!
# Independent specification of frame lookups (C10)

A lookup is judged against a snapshot of the matrix at the moment of the call: the frames
currently in that matrix, each with a stable handle, its name, identifier and format.
It must return a frame that is in the snapshot and carries the key, and nothing exactly when no
frame of the snapshot carries the key.  Nothing else - in particular no other matrix - enters.
-/
namespace CanVerif.Spec

structure FrameSnap where
  handle : Nat
  name : String
  id : Nat
  ext : Bool
  deriving Repr, Inhabited

inductive Key
  | byId (id : Nat) (ext : Bool)
  | byName (name : String)
  | byPgn (pgn : Nat)
  deriving Repr

/-- the PGN a lookup by PGN asks for, normalised as J1939-21 prescribes (PDU1: low byte dropped) -/
def normPgn (p : Nat) : Nat := if p / 256 % 256 ≥ 240 then p % 2 ^ 18 else p % 2 ^ 18 / 256 * 256

def carries (k : Key) (f : FrameSnap) : Bool :=
  match k with
  | .byId id ext => f.id == id && f.ext == ext
  | .byName n => f.name == n
  | .byPgn p => f.ext && pgn f.id == normPgn p

/-- verdict on one lookup -/
def lookupOk (snap : List FrameSnap) (k : Key) (result : Option Nat) : Bool :=
  match result with
  | some h => snap.any fun f => f.handle == h && carries k f
  | none => !(snap.any (carries k))

end CanVerif.Spec
