import CanVerif.Model.StartBit
import CanVerif.Spec.Bits
import CanVerif.Proofs.Bits
import CanVerif.Props.C08
import CanVerif.Model.Codec
import CanVerif.Spec.Codec
import CanVerif.Proofs.Codec
import CanVerif.Props.C01
