"""C11 - ECU rename/delete/update keep every sender and receiver reference consistent."""
import fnmatch
import re

import canmatrix.canmatrix as cm

PID = "C11"
RULE = ("case 'seq' = (matrix with 1..5 frames, 0..4 signals each, sender/receiver lists drawn from a pool of 10 ECU names, some "
        "ECUs referenced but not listed and some listed but not referenced, frame receiver lists up to date, optional free signals; "
        "a sequence of 1..8 (thorough: ..30) operations rename (new name unused) / delete by instance / delete by glob pattern / "
        "update ECU list / remove obsolete / add+delete signal receiver by glob); the state after every operation is observed. "
        "Every third listed ECU has a comment, every third an attribute. A second stream of 'seq' cases draws the ECU names from a pool of "
        "RELATED names built from two stems (one name contained in another as prefix / suffix / infix, names that differ only in letter "
        "case, doubled and shortened names), takes the new names of renames from the same family (a case variant, an extension or a "
        "shortening of a name in use - still not in use as an exact name) and derives the deletion patterns from the names. "
        "A third stream of 'seq' cases draws the ECU names from a pool of LONG names (up to 300 characters) that fall into two or three groups; "
        "the names of a group agree in their first L characters, in their last L characters or in both (L from 7 to 256, around the usual "
        "identifier limits 8 / 16 / 32 / 64 / 128 / 255), one name of a group may be exactly the common part; new names of renames are cut, "
        "extended or re-tailed names in use (not in use as an exact name), deletion patterns are derived from the names. "
        "A fourth stream of 'seq' cases draws the ECU names from a pool of names WITH SEPARATORS: two or three plain words, all listed in the "
        "pool by themselves, and names composed of these words with a blank, comma, semicolon, bar, colon, slash, backslash, dot, hyphen, "
        "tab, doubled blank or another character that is no glob metacharacter in between ('Door Left', 'Door,Left', 'Door (Left)'); no name "
        "begins or ends with a blank. New names of renames are composed the same way (a name in use joined with another one, a name with "
        "its separator exchanged, one word of a composed name); deletion by string takes, besides the patterns, the exact name of an ECU in "
        "use - also a name an earlier rename of the sequence has given -, the words of a composed name joined by another separator (no "
        "ECU of that name) and patterns with the separator in them. "
        "A fifth stream of 'seq' cases (over all four kinds of ECU names) has frames and signals WITHOUT AN IDENTITY OF THEIR OWN: 2..6 frames whose "
        "names are drawn with repetition from a family of two to four names (several frames of one name, several frames without a name, a frame "
        "named like an ECU), signal names drawn with repetition from a small family (the same signal name twice in a frame and in several "
        "frames, signals without a name), identifiers that collide (the same number as standard and as extended identifier, several frames with "
        "identifier 0, the very same identifier twice) and sender/receiver lists drawn from 3..6 ECU names only, so that one ECU is referenced "
        "by several of the frames that share a name; frames are told apart by their position in the matrix only. The receiver operations "
        "address the frames and signals by these names and by patterns. "
        "case 'glob' = (pattern, name) for the glob matcher itself, also on the related, the long and the composed names. Non-trivial = distinct sequence in which at least one "
        "operation changed the matrix.")
PARTIAL = ["Ecu objects are modelled by their names (comment and attributes of an ECU play no role in reference maintenance)"]
ASSUMPTIONS = ["reference lists are duplicate-free and frame receiver lists up to date initially (the state the readers produce)",
               "new names of renames are not yet in use; ECU names contain no glob metacharacters (* ? [ ]); any other character may occur "
               "inside a name (blank, comma, ...), names do not begin or end with a blank (add_ecu compares stripped names)"]
TRUSTED = ["fnmatch.fnmatchcase for *, ?, [seq], [!seq], [a-z] is modelled by globMatch and compared directly (op 'glob')"]
CORRESPONDENCE = "CanMatrix.rename_ecu/del_ecu/update_ecu_list/delete_obsolete_ecus/add_signal_receiver/del_signal_receiver == CanVerif.EMat.apply"

POOL = ["E1", "E2", "ECU_A", "ECU_B", "Gw", "Test_A", "Test_B", "Test_C", "X", "Body"]
PATTERNS = ["Test_*", "E?", "*", "[EG]*", "ECU_[!A]", "*_B", "Test_[A-B]", "?", "Z*", "E[12]", "*o*"]


def dedup(l):
    out = []
    for x in l:
        if x not in out:
            out.append(x)
    return out


STEMS = ["GW", "Front", "Body", "E1", "Test", "Diag", "Bcm", "X", "Door_L", "abs"]


def variants(s, t):
    """names related to the stem s (and to a second stem t): containment and letter case"""
    return [s, s.upper(), s.lower(), s.swapcase(), s.capitalize(), s + "_" + t, t + "_" + s, s + t, s + "2", s + "12", s + "_",
            "_" + s, s + s, s[:-1], s[1:], s[:1], "My" + s + "x"]


def related_pool(rng):
    """10 names of which most are contained in another one or equal another one up to letter case"""
    a, b = rng.sample(STEMS, 2)
    cands = dedup([v for v in variants(a, b) + variants(b, a) if v])
    return rng.sample(cands, min(10, len(cands)))


def related_patterns(rng, pool):
    """deletion patterns derived from the names: exact prefix / suffix / infix, one letter open, letter of either case"""
    out = []
    for _ in range(6):
        n = rng.choice(pool)
        k = rng.randint(1, len(n))
        c = n[0]
        out.append(rng.choice([n[:k] + "*", "*" + n[-k:], "*" + n[k // 2:k] + "*", n[:k - 1] + "?" + n[k:], n[:k - 1] + "?" + n[k:] + "*",
                               "[" + c.lower() + c.upper() + "]" + n[1:], "[" + c.lower() + c.upper() + "]" + n[1:k] + "*",
                               "[!" + c + "]" + n[1:], n, n + "?", n.lower(), n.upper()]))
    return out


def derived_name(rng, name):
    """a name of the same family as `name`"""
    return rng.choice([name.upper(), name.lower(), name.swapcase(), name.capitalize(), name + "_Front", name + "2", name + "_",
                       "_" + name, name + name, name[:-1], name[1:], name[:1], name[:len(name) // 2 + 1], "My" + name])


WORDS = ["BodyControlModule", "FrontLeftDoor", "Gateway", "PowertrainDomainController", "RearAxleSteering", "Diag", "HeadUnit", "Battery",
         "ManagementSystem", "Cluster", "ADAS", "ParkAssist", "x", "ECU", "Node01", "Zone"]
LIMITS = [7, 8, 9, 15, 16, 17, 24, 31, 32, 33, 40, 48, 63, 64, 65, 100, 127, 128, 129, 255, 256]
TAILS = ["Master", "Slave", "Diag", "A", "B", "1", "2", "_", "a", "Left", "Right", "Master2", "Slave_Backup_Unit", "0", "Z"]


def common_part(rng, L):
    """an identifier of exactly L characters made of words"""
    s = ""
    while len(s) < L:
        s += rng.choice(WORDS) + rng.choice(["_", "_", "", "0"])
    s = s[:L]
    if s[0].isdigit():
        s = "K" + s[1:]
    return s


def long_group(rng, n):
    """n names that agree in their first L characters, in their last L characters or in both and differ right next to the common part;
    one of them may be exactly the common part"""
    L = rng.choice(LIMITS + [31, 32, 33, 64])
    shape = rng.choice(["prefix", "prefix", "suffix", "both"])
    c = common_part(rng, L)
    tails = rng.sample(TAILS, min(n, len(TAILS)))
    if rng.random() < 0.3:
        tails[0] = ""
    if shape == "prefix":
        return [c + t for t in tails]
    if shape == "suffix":
        return [(t + c) if not (t + c)[0].isdigit() else ("K" + t + c) for t in tails]
    d = common_part(rng, rng.choice(LIMITS))
    return [c + t + d for t in tails]


def long_pool(rng):
    """10 names in two or three groups of long names with a common part, plus short names"""
    k = rng.choice([2, 2, 3])
    sizes = {2: [rng.choice([4, 5]), rng.choice([3, 4])], 3: [3, 3, 3]}[k]
    pool = []
    for n in sizes:
        pool += long_group(rng, n)
    pool = dedup(pool)
    pool += [x for x in rng.sample(POOL, len(POOL)) if x not in pool][:max(0, 10 - len(pool))]
    rng.shuffle(pool)
    return pool


def long_derived(rng, name):
    """a name that agrees with `name` in a leading or trailing part: cut at / next to a usual limit, extended, other tail"""
    c = rng.choice([x for x in LIMITS if x < len(name)] or [max(1, len(name) - 1)])
    return rng.choice([name[:c], name[:c] + rng.choice(TAILS), name[:-1], name + rng.choice(TAILS), name[-c:] if not name[-c:][0].isdigit() else "K" + name[-c:],
                       rng.choice(TAILS) + name[-c:], name[:c] + "X" + name[c + 1:], name[:len(name) - len(name) // 4] + rng.choice(TAILS)])


SEP_WORDS = ["Door", "Left", "Right", "Rear", "Gateway", "GW", "Body", "Tester", "Front", "ECU", "A", "B", "N1", "Node", "T\u00fcr", "x", "Diag", "left"]
# what may stand between two words of a name: anything but the glob metacharacters * ? [ ]
SEPS = [" ", " ", " ", " ", ",", ",", ",", ", ", ", ", ";", "; ", "|", ":", "/", "\\", ".", "-", "+", "  ", "\t", " - ", "&", "=", "#", "~", "%", "@", "'", "\"", "^", "$",
        "!", " and ", "\u00a0", "<", ">", "(", "{", "}"]
WORD_RE = re.compile(r"[A-Za-z0-9_\u00c0-\u00ff]+")


def words_of(name):
    return WORD_RE.findall(name)


def has_sep(name):
    return len(words_of(name)) > 1 or (bool(name) and WORD_RE.fullmatch(name) is None)


def admissible(name):
    """a name of the property's domain: not empty, no glob metacharacter, no blank at either end"""
    return bool(name) and name == name.strip() and not any(ch in name for ch in "*?[]")


def sep_pool(rng):
    """10 names: two or three plain words and names composed of them with a separator in between"""
    a, b, c = rng.sample(SEP_WORDS, 3)
    s1, s2 = rng.choice(SEPS), rng.choice(SEPS)
    first = [a, b, a + s1 + b]
    cands = [c, b + s1 + a, a + s2 + b, b + s2 + a, a + s1 + b + s1 + c, a + s1 + b + s2 + c, a + s1 + c, c + s2 + a, c + s1 + b, a + s1 + a,
             a + " (" + b + ")", a + "{" + b + "}", a + " <" + c + ">", "!" + a, a + s1 + b.lower(), a + "  " + b, a + " " + b, a + "," + b, a + ", " + b,
             b + " " + c, a + b, a + "_" + b]
    cands = [x for x in dedup(cands) if admissible(x) and x not in first]
    pool = first + rng.sample(cands, min(7, len(cands)))
    rng.shuffle(pool)
    return pool


def sep_derived(rng, name, names):
    """a new name composed like the names of the pool: joined with another name, separator exchanged, one word of the name, a word added"""
    ws = words_of(name) or [name]
    other = rng.choice(sorted(names))
    sep = rng.choice(SEPS)
    new = rng.choice([name + sep + other, other + sep + name, name + sep + rng.choice(SEP_WORDS), sep.join(ws), sep.join(ws), rng.choice(ws),
                      " ".join(ws), ",".join(ws), name + " " + rng.choice(["Rear", "2", "new", "name"]), "new name", name + sep + name,
                      sep.join(reversed(ws)), "".join(ws)])
    return new if admissible(new) else None


def sep_patterns(rng, m_names):
    """deletion strings for the composed names: the exact name, its words joined by another separator (a list of names, not a name),
    patterns that have the separator in them"""
    out = []
    names = sorted(m_names)
    for _ in range(8):
        n = rng.choice(names)
        ws = words_of(n) or [n]
        w = rng.choice(ws)
        sep = rng.choice(SEPS)
        o = rng.choice(names)
        out.append(rng.choice([n, n, n, sep.join(ws), " ".join(ws), ",".join(ws), ", ".join(ws), "|".join(ws), ";".join(ws), "?".join(ws), "*".join(ws),
                               w + sep + "*", "*" + sep + w, "*" + sep + "*", w + "?*", "*?" + w, w + "*", "*" + w, w + " " + o, w + "," + o, o + ", " + w,
                               o + sep + w, n + sep + o, "* *", "*,*", "?*" + sep + "*?", n[:len(n) // 2] + "*", "*" + n[len(n) // 2:], "!" + n,
                               n + " ", " " + n, n + ",", w + sep]))
    return out


def gen_matrix(rng, POOL=POOL):
    listed = [e for e in POOL if rng.random() < 0.6]
    rng.shuffle(listed)
    frames = []
    for k in range(rng.randint(1, 5)):
        tx = rng.sample(POOL, rng.choice([0, 1, 1, 2]))
        sigs = []
        for j in range(rng.randint(0, 4)):
            sigs.append(["s%d_%d" % (k, j), rng.sample(POOL, rng.choice([0, 1, 2, 3]))])
        rx = dedup([r for s in sigs for r in s[1]])
        frames.append(["F%d" % k if rng.random() < 0.7 else "Msg_%d" % k, tx, rx, sigs])
    free = [["free%d" % j, rng.sample(POOL, rng.choice([0, 1, 2]))] for j in range(rng.choice([0, 0, 1, 2]))]
    return {"ecus": listed, "frames": frames, "free": free}


FRAME_FAMILIES = [["NM", "NM", "Diag"], ["", "", "F1"], ["F1", "F1", "Msg_1", "F0"], ["NM", ""], ["Msg_1", "Msg_2", "Msg_1", "F12"], ["", ""], ["X"],
                  ["Status", "status", "Status "], ["F1", "F*"], ["NM_Engine", "NM", "NM_Engine"]]
SIGNAL_FAMILIES = [["State", "Counter"], ["s0_0", "s1_1", "s1_2"], ["", "State"], ["NM_State"], ["s0_0", "s0_0", "S0_0", "s1_0"], ["CRC", "Alive", "State", ""]]
ID_FAMILIES = [[[0, False]], [[0, False], [0, True]], [[1, False], [1, True], [2, False]], [[0x400, False], [0x400, False], [0x401, False]],
               [[0x7FF, False], [0x7FF, True], [0x1FFFFFFF, True]], None, None]


def gen_matrix_shared(rng, pool):
    """a matrix whose frames (and signals) cannot be told apart by name or identifier: names and identifiers are drawn with repetition
    from small families; the references come from a few ECU names, so that an ECU is referenced by several frames of one name"""
    few = rng.sample(pool, min(len(pool), rng.randint(3, 6)))
    listed = [e for e in pool if rng.random() < (0.8 if e in few else 0.3)]
    rng.shuffle(listed)
    fam = list(rng.choice(FRAME_FAMILIES))
    if rng.random() < 0.15:
        fam.append(rng.choice(few))  # a frame named like an ECU
    sfam = rng.choice(SIGNAL_FAMILIES)
    ifam = rng.choice(ID_FAMILIES)
    frames, ids = [], []
    for k in range(rng.randint(2, 6)):
        tx = rng.sample(few, rng.choice([0, 1, 1, 2]))
        sigs = []
        for j in range(rng.randint(0, 4)):
            sigs.append([rng.choice(sfam) if rng.random() < 0.7 else "s%d_%d" % (k, j), rng.sample(few, rng.choice([0, 1, 1, 2, 2, 3]))])
        rx = dedup([r for s in sigs for r in s[1]])
        frames.append([rng.choice(fam) if rng.random() < 0.85 else "F%d" % k, tx, rx, sigs])
        ids.append(list(rng.choice(ifam)) if ifam and rng.random() < 0.85 else [k + 1, rng.random() < 0.3])
    free = [[rng.choice(sfam + ["free%d" % j]), rng.sample(few, rng.choice([0, 1, 2]))] for j in range(rng.choice([0, 0, 1, 2]))]
    return {"ecus": listed, "frames": frames, "free": free, "ids": ids, "shared": True}


def recv_globs(m):
    """frame and signal patterns of add/del_signal_receiver: the fixed ones and, for matrices with shared names, the names themselves"""
    fg, sg = ["*", "F*", "Msg_?", "F1"], ["*", "s?_0", "s1_*", "s*_[12]"]
    if m.get("shared"):
        fnames = dedup([f[0] for f in m["frames"]])
        snames = dedup([s[0] for f in m["frames"] for s in f[3]])
        fg = fg + fnames * 2 + [n[:1] + "*" for n in fnames] + ["?*", "NM*", ""]
        sg = sg + snames + [n[:1] + "*" for n in snames] + ["?*", "[Ss]*", ""]
    return fg, sg


def case_pool(m):
    """the names a case is about: its explicit pool (related names) or the fixed pool"""
    return m.get("pool") or POOL


def gen_ops(rng, m, n):
    ops = []
    fresh = 0
    related = bool(m.get("pool"))
    sep = m.get("kind") == "sep"
    POOL = case_pool(m)
    PATTERNS = globals()["PATTERNS"]
    if related:
        PATTERNS = PATTERNS + related_patterns(rng, POOL) * 2
    names_in_use = set(POOL) | set(m["ecus"]) | {r for f in m["frames"] for r in f[1] + f[2]} | {r for s in m.get("free", []) for r in s[1]}
    for _ in range(n):
        k = rng.random()
        if k < 0.3:
            old = rng.choice(sorted(names_in_use))
            new = None
            if related and rng.random() < 0.8:
                # a new name of the same family as a name in use (of the renamed ECU or of another one); "not yet in use"
                # is meant literally: no ECU and no reference has exactly this name
                src = rng.choice(sorted(names_in_use))
                if sep:
                    new = sep_derived(rng, rng.choice([old, src]), names_in_use) if rng.random() < 0.85 else derived_name(rng, src)
                else:
                    new = long_derived(rng, src) if (m.get("kind") == "long" and rng.random() < 0.8) else derived_name(rng, src)
                if not new or new in names_in_use:
                    new = None
                # names that begin or end with a blank are kept out of the stream for now: add_ecu compares the STRIPPED name of a listed
                # ECU with the new name, so update_ecu_list lists a referenced ECU 'Rear ' a second time (genuine defect of the unchanged
                # code, reported in round 9; found by this stream with [["rename", "Rear (A)", "Rear "], ["update"]])
                if sep and new is not None and not admissible(new):
                    new = None
            while new is None or new in names_in_use:
                fresh += 1
                new = "N%d" % fresh
            names_in_use.add(new)
            ops.append(["rename", old, new])
        elif k < 0.45:
            ops.append(["delInst", rng.choice(sorted(names_in_use))])
        elif k < 0.62:
            if sep and rng.random() < 0.75:
                # by string: the exact name of an ECU in use (of the pool or given by an earlier rename of this sequence), a list of
                # names that is no name, a pattern with the separator in it
                r = rng.random()
                given = [o[2] for o in ops if o[0] == "rename"]
                if r < 0.15 and given:
                    ops.append(["delGlob", rng.choice(given)])
                else:
                    ops.append(["delGlob", rng.choice(sorted(names_in_use)) if r < 0.5 else rng.choice(sep_patterns(rng, names_in_use))])
            else:
                ops.append(["delGlob", rng.choice(PATTERNS + POOL)])
        elif k < 0.74:
            ops.append(["update"])
        elif k < 0.84:
            ops.append(["obsolete"])
        elif k < 0.92:
            if m.get("shared"):
                fg, sg = recv_globs(m)
                ops.append(["addRecv", rng.choice(fg), rng.choice(sg), rng.choice(sorted(names_in_use))])
            else:
                ops.append(["addRecv", rng.choice(["*", "F*", "Msg_?", "F1"]), rng.choice(["*", "s?_0", "s1_*", "s*_[12]"]), rng.choice(sorted(names_in_use))])
        else:
            if m.get("shared"):
                fg, sg = recv_globs(m)
                ops.append(["delRecv", rng.choice(fg), rng.choice(sg), rng.choice(sorted(names_in_use))])
            else:
                ops.append(["delRecv", rng.choice(["*", "F*", "Msg_?", "F1"]), rng.choice(["*", "s?_0", "s1_*"]), rng.choice(sorted(names_in_use))])
    return ops


def gen(rng, tier, shard, nshards):
    total = {"quick": 6000, "thorough": 100000}[tier] // nshards
    maxlen = 8 if tier == "quick" else 30
    for _ in range(total):
        m = gen_matrix(rng)
        yield {"op": "seq", "c": {"m": m, "ops": gen_ops(rng, m, rng.randint(1, maxlen))}}
    for _ in range(total // 2):
        p = rng.choice(PATTERNS + ["[", "a[", "[]a]", "[!]]", "a*b*c", "**", "?*", "[a-", "x[0-9]y", "[-a]"])
        n = rng.choice(POOL + ["", "a", "]", "[", "abc", "axbxc", "x5y", "-", "Testo"])
        yield {"op": "glob", "c": [p, n]}
    # related names: one ECU name contained in another, names equal up to letter case; new names of the same family
    for _ in range(total // 2):
        pool = related_pool(rng)
        m = gen_matrix(rng, pool)
        m["pool"] = pool
        yield {"op": "seq", "c": {"m": m, "ops": gen_ops(rng, m, rng.randint(1, maxlen))}}
    for _ in range(total // 8):
        pool = related_pool(rng)
        yield {"op": "glob", "c": [rng.choice(related_patterns(rng, pool)), rng.choice(pool + [derived_name(rng, rng.choice(pool))])]}
    # long names that agree in a leading / trailing part of 7..256 characters (names are compared as a whole, never by a part)
    for _ in range(total // 3):
        pool = long_pool(rng)
        m = gen_matrix(rng, pool)
        m["pool"] = pool
        m["kind"] = "long"
        yield {"op": "seq", "c": {"m": m, "ops": gen_ops(rng, m, rng.randint(1, maxlen))}}
    for _ in range(total // 16):
        pool = long_pool(rng)
        yield {"op": "glob", "c": [rng.choice(related_patterns(rng, pool)), rng.choice(pool + [long_derived(rng, rng.choice(pool))])]}
    # names with a separator inside (blank, comma, ...) next to the ECUs named by their words: a name is one string, never a list or a pattern
    for _ in range(total // 3):
        pool = sep_pool(rng)
        m = gen_matrix(rng, pool)
        m["pool"] = pool
        m["kind"] = "sep"
        yield {"op": "seq", "c": {"m": m, "ops": gen_ops(rng, m, rng.randint(1, maxlen))}}
    for _ in range(total // 16):
        pool = sep_pool(rng)
        yield {"op": "glob", "c": [rng.choice(sep_patterns(rng, pool) + related_patterns(rng, pool)[:2]),
                                   rng.choice(pool + [sep_derived(rng, rng.choice(pool), pool) or pool[0]])]}
    # frames and signals without an identity of their own: names and identifiers shared by several frames, one ECU referenced by several of
    # them (bookkeeping of the operations must go by the objects, not by their names or identifiers); over all four kinds of ECU names
    for n in range(total // 3):
        kind = ["fixed", "related", "long", "sep"][n % 4]
        pool = {"fixed": lambda r: list(POOL), "related": related_pool, "long": long_pool, "sep": sep_pool}[kind](rng)
        m = gen_matrix_shared(rng, pool)
        if kind != "fixed":
            m["pool"] = pool
        if kind in ("long", "sep"):
            m["kind"] = kind
        yield {"op": "seq", "c": {"m": m, "ops": gen_ops(rng, m, rng.randint(1, maxlen))}}


def neighbours(case, rng, shard, nshards):
    if case["op"] != "seq":
        return
    for _ in range(200 // nshards + 1):
        m = case["c"]["m"]
        yield {"op": "seq", "c": {"m": m, "ops": gen_ops(rng, m, rng.randint(1, 6))}}


def build(m):
    db = cm.CanMatrix()
    for k, e in enumerate(m["ecus"]):
        ecu = cm.Ecu(e)
        # ECUs are told apart by their names; some carry a comment or an attribute
        if k % 3 == 1:
            ecu.comment = "node " + e
        if k % 3 == 2:
            ecu.add_attribute("NodeLayer", "1")
        db.ecus.append(ecu)
    ids = m.get("ids")
    for k, (name, tx, rx, sigs) in enumerate(m["frames"]):
        fr = cm.Frame(name, arbitration_id=cm.ArbitrationId(ids[k][0], bool(ids[k][1])) if ids else cm.ArbitrationId(k + 1, False), size=8,
                      transmitters=list(tx))
        for sname, srx in sigs:
            fr.add_signal(cm.Signal(sname, size=1, receivers=list(srx)))
        fr.receivers = list(rx)
        db.add_frame(fr)
    for sname, srx in m.get("free", []):
        db.add_signal(cm.Signal(sname, size=1, receivers=list(srx)))
    return db


def snapshot(db):
    return {"ecus": [e.name for e in db.ecus],
            "frames": [[f.name, list(f.transmitters), list(f.receivers), [[s.name, list(s.receivers)] for s in f.signals]] for f in db.frames],
            "free": [[s.name, list(s.receivers)] for s in db.signals]}


def observe(case):
    if case["op"] == "glob":
        return bool(fnmatch.fnmatchcase(case["c"][1], case["c"][0]))
    db = build(case["c"]["m"])
    states = []
    for op in case["c"]["ops"]:
        k = op[0]
        if k == "rename":
            db.rename_ecu(op[1], op[2])
        elif k == "delGlob":
            db.del_ecu(op[1])
        elif k == "delInst":
            e = db.ecu_by_name(op[1])
            db.del_ecu(e if e is not None else cm.Ecu(op[1]))
        elif k == "update":
            db.update_ecu_list()
        elif k == "obsolete":
            db.delete_obsolete_ecus()
        elif k == "addRecv":
            db.add_signal_receiver(op[1], op[2], op[3])
        elif k == "delRecv":
            db.del_signal_receiver(op[1], op[2], op[3])
        states.append(snapshot(db))
    return {"states": states}


def project(impl):
    return impl


def features(case, impl):
    yield "op=" + case["op"]
    if case["op"] == "seq":
        m = case["c"]["m"]
        prev = m
        yield ("names (frames with shared names)=" if m.get("shared") else "names=") + ("long (common leading / trailing part)" if m.get("kind") == "long" else "composed with separators (blank, comma, ...)" if m.get("kind") == "sep" else "related (containment / letter case)" if m.get("pool") else "fixed pool")
        if m.get("shared"):
            for f in shared_features(case, impl):
                yield f
        if m.get("kind") == "long":
            for f in long_features(case, impl):
                yield f
        if m.get("kind") == "sep":
            for f in sep_features(case, impl):
                yield f
        for op, st in zip(case["c"]["ops"], impl["states"]):
            changed = (st["ecus"] != prev["ecus"]) or (st["frames"] != prev["frames"])
            yield "%s:%s" % (op[0], "changed" if changed else "noop")
            present = set(prev["ecus"]) | {r for f in prev["frames"] for r in f[1] + f[2]}
            if op[0] == "rename" and op[1] in prev["ecus"]:
                if any(x != op[2] and x.lower() == op[2].lower() for x in present):
                    yield "rename of a listed ECU: new name equals a present name up to letter case"
                if any(x != op[2] and (x in op[2] or op[2] in x) for x in present):
                    yield "rename of a listed ECU: new name contains / is contained in a present name"
            if op[0] in ("delInst", "delGlob") and changed:
                gone = [e for e in prev["ecus"] if e not in st["ecus"]]
                if any(x not in gone and any(x in g or x.lower() == g.lower() for g in gone) for x in present):
                    yield "%s: a deleted name contains (or equals up to case) a name that stays" % op[0]
            prev = st
        refs = {r for f in m["frames"] for r in f[1] + f[2]}
        if refs - set(m["ecus"]):
            yield "has referenced-but-unlisted ECUs"
        if set(m["ecus"]) - refs:
            yield "has listed-but-unreferenced ECUs"
    else:
        yield "glob=%s" % impl


def shared_features(case, impl):
    """what the cases with shared frame / signal names reached: an operation that changed the receivers of two or more frames of one name
    (of one identifier), of two signals of one name in a frame"""
    m = case["c"]["m"]
    yield "frames: names shared by several frames"
    names = [f[0] for f in m["frames"]]
    if names.count("") > 1:
        yield "frames: several frames without a name"
    if any(names.count(n) > 1 for n in names if n):
        yield "frames: several frames of one name"
    if any(n in case_pool(m) for n in names):
        yield "frames: a frame named like an ECU"
    ids = [tuple(i) for i in m["ids"]]
    if any(ids.count(i) > 1 for i in ids):
        yield "frames: the very same identifier twice"
    if any([j[0] for j in ids].count(i[0]) > 1 for i in ids):
        yield "frames: one identifier number in several frames"
    if any([s[0] for s in f[3]].count(s[0]) > 1 for f in m["frames"] for s in f[3]):
        yield "frames: one signal name twice in a frame"
    prev = m
    for op, st in zip(case["c"]["ops"], impl["states"]):
        if len(st["frames"]) == len(prev["frames"]):
            hit = [k for k, (a, b) in enumerate(zip(prev["frames"], st["frames"])) if a[2] != b[2]]
            hn = [names[k] for k in hit]
            if any(hn.count(n) > 1 for n in hn):
                yield "%s changes the receiver lists of >=2 frames of one name" % op[0]
            hi = [ids[k][0] for k in hit]
            if any(hi.count(i) > 1 for i in hi):
                yield "%s changes the receiver lists of >=2 frames of one identifier number" % op[0]
            for a, b in zip(prev["frames"], st["frames"]):
                sn = [x[0] for x, y in zip(a[3], b[3]) if x[1] != y[1]]
                if any(sn.count(n) > 1 for n in sn):
                    yield "%s changes the receivers of >=2 signals of one name in a frame" % op[0]
                    break
        prev = st


def common_prefix_len(a, b):
    n = 0
    while n < len(a) and n < len(b) and a[n] == b[n]:
        n += 1
    return n


def long_features(case, impl):
    """what the long-name cases reached: an ECU added by update_ecu_list / a rename to a name while another present name agrees with it
    in a leading or trailing part of at least 8 / 32 / 64 / 128 / 255 characters"""
    prev = case["c"]["m"]
    for op, st in zip(case["c"]["ops"], impl["states"]):
        new = []
        if op[0] == "update":
            new = [(e, "update adds an ECU") for e in st["ecus"] if e not in prev["ecus"]]
        elif op[0] == "rename" and op[1] in prev["ecus"]:
            new = [(op[2], "rename of a listed ECU to a name")]
        for e, what in new:
            others = [x for x in st["ecus"] if x != e]
            lead = max([common_prefix_len(e, x) for x in others] or [0])
            trail = max([common_prefix_len(e[::-1], x[::-1]) for x in others] or [0])
            for lim in (8, 32, 64, 128, 255):
                if lead >= lim:
                    yield "%s that shares its first >=%d characters with another listed ECU" % (what, lim)
                if trail >= lim:
                    yield "%s that shares its last >=%d characters with another listed ECU" % (what, lim)
        prev = st


def sep_kind(name):
    return "blank" if " " in name else "comma" if "," in name else "other separator"


def sep_features(case, impl):
    """what the cases with composed names reached: an ECU with a separator in its name deleted by its name / removed as obsolete / added by
    update / renamed, while the ECUs named by its words are listed (or referenced) too; a deletion string that lists names"""
    prev = case["c"]["m"]
    renamed_to = set()
    for op, st in zip(case["c"]["ops"], impl["states"]):
        present = set(prev["ecus"]) | {r for f in prev["frames"] for r in f[1] + f[2]}
        gone = [e for e in prev["ecus"] if e not in st["ecus"]]
        parts = lambda n: [w for w in words_of(n) if w != n and w in present]
        if op[0] == "delGlob":
            if op[1] in prev["ecus"] and has_sep(op[1]):
                yield "delGlob by the exact name of a listed ECU, name with %s%s%s" % (
                    sep_kind(op[1]), "; ECUs named by its words are present" if parts(op[1]) else "",
                    "; name given by an earlier rename" if op[1] in renamed_to else "")
            elif op[1] not in prev["ecus"] and has_sep(op[1]) and not any(ch in op[1] for ch in "*?[]") and parts(op[1]):
                yield "delGlob by a string that lists present ECUs (%s) and is no name: %s" % (sep_kind(op[1]), "changed" if gone else "noop")
            elif has_sep(op[1]) and any(ch in op[1] for ch in "*?") and gone:
                yield "delGlob by a pattern with a separator in it: deletes"
        if op[0] == "delInst" and op[1] in prev["ecus"] and has_sep(op[1]):
            yield "delInst of a listed ECU, name with %s" % sep_kind(op[1])
        if op[0] == "obsolete":
            for g in gone:
                if has_sep(g):
                    yield "obsolete removes an ECU, name with %s%s" % (sep_kind(g), "; ECUs named by its words are present" if parts(g) else "")
        if op[0] == "update":
            for e in st["ecus"]:
                if e not in prev["ecus"] and has_sep(e):
                    yield "update adds an ECU, name with %s" % sep_kind(e)
        if op[0] == "rename" and op[1] in prev["ecus"]:
            if has_sep(op[2]):
                yield "rename of a listed ECU to a name with %s" % sep_kind(op[2])
                renamed_to.add(op[2])
            if has_sep(op[1]):
                yield "rename of a listed ECU whose name has: %s" % sep_kind(op[1])
        prev = st


def nontrivial(case, impl):
    if case["op"] != "seq":
        return True
    prev = case["c"]["m"]
    for st in impl["states"]:
        if st["ecus"] != prev["ecus"] or st["frames"] != prev["frames"]:
            return True
        prev = st
    return False


def shrink_candidates(case):
    if case["op"] != "seq":
        return
    c = case["c"]
    ops = c["ops"]
    for i in range(len(ops)):
        if len(ops) > 1:
            yield {"op": "seq", "c": {"m": c["m"], "ops": ops[:i] + ops[i + 1:]}}
    m = c["m"]
    for i in range(len(m["frames"])):
        if len(m["frames"]) > 1:
            m2 = dict(m, frames=m["frames"][:i] + m["frames"][i + 1:])
            if m.get("ids"):
                m2["ids"] = m["ids"][:i] + m["ids"][i + 1:]
            yield {"op": "seq", "c": {"m": m2, "ops": ops}}
