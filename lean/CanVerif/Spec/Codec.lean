import CanVerif.Spec.Bits
/-!
# Independent specification of decoding / encoding (C01, C02, C03)

Signals are described by plain tuples here (the Spec does not use the model's structures).
-/
namespace CanVerif.Spec

structure SigD where
  name : String
  little : Bool
  start : Nat     -- internal start (Intel: LSB address; Motorola: MSB0-sequential index of the MSB)
  size : Nat
  signed : Bool
  isFloat : Bool
  deriving Repr, Inhabited

/-- value of one signal in a payload, by the convention -/
def valueOf (s : SigD) (p : Payload) : Int :=
  let u := specRaw p s.little s.start s.size
  if s.isFloat then (u : Int)            -- IEEE pattern, interpreted by the (trusted) float conversion
  else if s.signed then specSigned u s.size else (u : Int)

/-- the length rule: which payload is actually read, or `none` = refused with a length error -/
def fit (declared : Nat) (data : Payload) (allowTruncated allowExceeded : Bool) : Option Payload :=
  if data.length = declared then some data
  else if data.length < declared then
    (if allowTruncated then some (data ++ List.replicate (declared - data.length) 0xFF) else none)
  else (if allowExceeded then some (data.take declared) else none)

/-- addresses covered by a signal -/
def addrs (s : SigD) : List Nat := sigAddrs s.little s.start s.size

def insideFrame (s : SigD) (nbytes : Nat) : Bool := s.start + s.size ≤ 8 * nbytes && 1 ≤ s.size

/-- raw range of an integer signal -/
def inRange (s : SigD) (v : Int) : Bool :=
  if s.isFloat then 0 ≤ v && v < (2:Int) ^ s.size
  else if s.signed then -((2:Int) ^ (s.size - 1)) ≤ v && v < (2:Int) ^ (s.size - 1)
  else 0 ≤ v && v < (2:Int) ^ s.size

/-- is the 32/64-bit pattern a NaN -/
def isNaNPattern (size : Nat) (u : Nat) : Bool :=
  if size = 32 then (u / 2 ^ 23) % 256 = 255 && u % 2 ^ 23 ≠ 0
  else if size = 64 then (u / 2 ^ 52) % 2048 = 2047 && u % 2 ^ 52 ≠ 0
  else false

end CanVerif.Spec
