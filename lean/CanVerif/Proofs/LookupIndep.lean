import CanVerif.Model.Lookup
import CanVerif.Spec.Lookup
import CanVerif.Proofs.Lookup
/-!
# Helper lemmas for C10b (the independence judge accepts every history of the model)

The predicates are stated over the heap (`KOk`, `SnapTrue`); `CanVerif.Props.C10b` (which imports
this file) defines `KnownOk`, `snapMat`, `snapWith`, `editWith`; the copies `snapOf`/`editOf` here
are definitionally the same functions.
-/
namespace CanVerif.LookupIndep
open CanVerif

/-- unfolded form of `C10.KnownOk`: what the judge knows is true of the heap -/
def KOk (heap : List FObj) (ks : List Spec.Known) : Prop :=
  ∀ k ∈ ks, ∃ o, heap[k.handle]? = some o ∧ o.id = k.id ∧ o.ext = k.ext ∧ o.name ∈ k.names

/-- every entry of the snapshot describes a live object of the heap -/
def SnapTrue (heap : List FObj) (sn : List Spec.FrameSnap) : Prop :=
  ∀ f ∈ sn, ∃ o, heap[f.handle]? = some o ∧ o.name = f.name ∧ o.id = f.id ∧ o.ext = f.ext

theorem lt_of_get {α} {l : List α} {i : Nat} {a : α} (h : l[i]? = some a) : i < l.length := by
  obtain ⟨hl, _⟩ := List.getElem?_eq_some_iff.mp h
  exact hl

theorem get_append {α} {l : List α} (l' : List α) {i : Nat} {a : α} (h : l[i]? = some a) :
    (l ++ l')[i]? = some a := by
  rw [List.getElem?_append_left (lt_of_get h)]
  exact h

theorem kOk_append {heap : List FObj} {ks : List Spec.Known} (l : List FObj) (h : KOk heap ks) :
    KOk (heap ++ l) ks := by
  intro k hk
  obtain ⟨o, ho, r⟩ := h k hk
  exact ⟨o, get_append l ho, r⟩

theorem snapTrue_append {heap : List FObj} {sn : List Spec.FrameSnap} (l : List FObj)
    (h : SnapTrue heap sn) : SnapTrue (heap ++ l) sn := by
  intro f hf
  obtain ⟨o, ho, r⟩ := h f hf
  exact ⟨o, get_append l ho, r⟩

/-! ## the judge's two functions on true snapshots -/

theorem snapAgrees_of {heap : List FObj} {ks : List Spec.Known} {sn : List Spec.FrameSnap}
    (hk : KOk heap ks) (hs : SnapTrue heap sn) : Spec.snapAgrees ks sn = true := by
  unfold Spec.snapAgrees
  rw [List.all_eq_true]
  intro f hf
  obtain ⟨o, ho, hn, hi, he⟩ := hs f hf
  split
  · rfl
  · rename_i k hfind
    have hmem := List.mem_of_find?_eq_some hfind
    have hh : k.handle = f.handle := by simpa using List.find?_some hfind
    obtain ⟨o', ho', hi', he', hn'⟩ := hk k hmem
    rw [hh, ho] at ho'
    cases ho'
    rw [← hi', ← he', hi, he, hn] at *
    simp only [beq_self_eq_true, Bool.true_and, List.contains_iff_mem]
    exact hn'

theorem kOk_note {heap : List FObj} {ks : List Spec.Known} (hk : KOk heap ks) (f : Spec.FrameSnap)
    (hf : ∃ o, heap[f.handle]? = some o ∧ o.name = f.name ∧ o.id = f.id ∧ o.ext = f.ext) :
    KOk heap ({ handle := f.handle, id := f.id, ext := f.ext, names := [f.name] } ::
      ks.filter (·.handle != f.handle)) := by
  intro k hmem
  rcases List.mem_cons.mp hmem with rfl | hmem
  · obtain ⟨o, ho, hn, hi, he⟩ := hf
    exact ⟨o, ho, hi, he, by simp [hn]⟩
  · exact hk k (List.mem_filter.mp hmem).1

theorem noteSnap_ok {heap : List FObj} {sn : List Spec.FrameSnap} :
    ∀ {ks : List Spec.Known}, KOk heap ks → SnapTrue heap sn → KOk heap (Spec.noteSnap ks sn) := by
  unfold Spec.noteSnap
  induction sn with
  | nil => intro ks hk _; exact hk
  | cons f t ih =>
    intro ks hk hs
    rw [List.foldl_cons]
    apply ih
    · exact kOk_note hk f (hs f (List.mem_cons_self ..))
    · intro g hg
      exact hs g (List.mem_cons_of_mem _ hg)

/-! ## what the judge learns from the operation itself stays true of the heap after the step -/

/-- the same function as `C10.editWith` -/
def editOf (w : World) : LOp → Spec.Edit
  | .newFrame name id ext => .create w.heap.length name id ext
  | .setId h id ext => .setId h id ext
  | .renameFrame _ old new => .rename old new
  | _ => .none

theorem rename_get (heap : List FObj) (P : Nat → FObj → Bool) (new : String) {i : Nat} {o : FObj}
    (h : heap[i]? = some o) :
    ((List.range heap.length).map fun h =>
        match heap[h]? with
        | some o => if P h o then { o with name := new } else o
        | none => default)[i]? = some (if P i o then { o with name := new } else o) := by
  rw [List.getElem?_map, List.getElem?_range (lt_of_get h)]
  simp only [Option.map_some, h]

theorem noteEdit_ok (w : World) (op : LOp) (ks : List Spec.Known) (hk : KOk w.heap ks) :
    KOk (step w op).1.heap (Spec.noteEdit ks (editOf w op)) := by
  have grow : ∀ op', (∀ a b c, op' ≠ .setId a b c) → (∀ a b c, op' ≠ .renameFrame a b c) →
      KOk (step w op').1.heap ks := by
    intro op' h1 h2
    obtain ⟨l, hl⟩ := LookupProofs.step_heap w op' h1 h2
    rw [hl]
    exact kOk_append l hk
  cases op with
  | newFrame name id ext =>
    simp only [step, editOf, Spec.noteEdit]
    intro k hmem
    rcases List.mem_cons.mp hmem with rfl | hmem
    · exact ⟨{ name, id, ext }, by simp, rfl, rfl, by simp⟩
    · exact kOk_append _ hk k (List.mem_filter.mp hmem).1
  | setId h id ext =>
    simp only [editOf, Spec.noteEdit]
    intro k hmem
    obtain ⟨k0, hk0, rfl⟩ := List.mem_map.mp hmem
    obtain ⟨o0, ho0, hi0, he0, hn0⟩ := hk k0 hk0
    simp only [step, World.obj]
    split
    · rename_i o ho
      by_cases hh : k0.handle = h
      · subst hh
        rw [ho0] at ho
        cases ho
        refine ⟨{ o0 with id := id, ext := ext }, ?_, ?_⟩
        · simp only [beq_self_eq_true, if_true]
          exact List.getElem?_set_self (lt_of_get ho0)
        · simp only [beq_self_eq_true, if_true]
          exact ⟨trivial, trivial, hn0⟩
      · have hb : (k0.handle == h) = false := by simpa using hh
        simp only [hb]
        refine ⟨o0, ?_, hi0, he0, hn0⟩
        show (w.heap.set h _)[k0.handle]? = some o0
        rw [List.getElem?_set_ne (Ne.symm hh)]
        exact ho0
    · rename_i hnone
      have hh : k0.handle ≠ h := by
        intro hh
        rw [hh, hnone] at ho0
        cases ho0
      have hb : (k0.handle == h) = false := by simpa using hh
      simp only [hb]
      exact ⟨o0, ho0, hi0, he0, hn0⟩
  | renameFrame m old new =>
    simp only [editOf, Spec.noteEdit]
    intro k hmem
    obtain ⟨k0, hk0, rfl⟩ := List.mem_map.mp hmem
    obtain ⟨o0, ho0, hi0, he0, hn0⟩ := hk k0 hk0
    have hnames : ∀ s, s ∈ k0.names →
        s ∈ (if k0.names.contains old then { k0 with names := new :: k0.names } else k0).names := by
      intro s hs
      split
      · exact List.mem_cons_of_mem _ hs
      · exact hs
    have hhandle : (if k0.names.contains old then { k0 with names := new :: k0.names } else k0).handle
        = k0.handle := by split <;> rfl
    have hid : (if k0.names.contains old then { k0 with names := new :: k0.names } else k0).id
        = k0.id := by split <;> rfl
    have hext : (if k0.names.contains old then { k0 with names := new :: k0.names } else k0).ext
        = k0.ext := by split <;> rfl
    rw [hhandle, hid, hext]
    simp only [step]
    split
    · rename_i x hx
      have hg := rename_get w.heap (fun h o => x.frames.contains h && o.name == old) new ho0
      by_cases hc : (x.frames.contains k0.handle && o0.name == old) = true
      · refine ⟨{ o0 with name := new }, ?_, hi0, he0, ?_⟩
        · simp only [hc, if_true] at hg
          exact hg
        · have hold : o0.name = old := by
            simp only [Bool.and_eq_true, beq_iff_eq] at hc
            exact hc.2
          have hcont : k0.names.contains old = true := by
            rw [List.contains_iff_mem, ← hold]
            exact hn0
          simp only [hcont, if_true]
          exact List.mem_cons_self ..
      · refine ⟨o0, ?_, hi0, he0, hnames _ hn0⟩
        simp only [hc] at hg
        exact hg
    · exact ⟨o0, ho0, hi0, he0, hnames _ hn0⟩
  | newMatrix => exact grow _ (fun _ _ _ h => by cases h) (fun _ _ _ h => by cases h)
  | addFrame m h => exact grow _ (fun _ _ _ h => by cases h) (fun _ _ _ h => by cases h)
  | appendFrame m h => exact grow _ (fun _ _ _ h => by cases h) (fun _ _ _ h => by cases h)
  | removeFrame m h => exact grow _ (fun _ _ _ h => by cases h) (fun _ _ _ h => by cases h)
  | delFrame m h => exact grow _ (fun _ _ _ h => by cases h) (fun _ _ _ h => by cases h)
  | delFrameByName m name => exact grow _ (fun _ _ _ h => by cases h) (fun _ _ _ h => by cases h)
  | addEcu m => exact grow _ (fun _ _ _ h => by cases h) (fun _ _ _ h => by cases h)
  | copyFrame src dst id ext => exact grow _ (fun _ _ _ h => by cases h) (fun _ _ _ h => by cases h)
  | merge dst src => exact grow _ (fun _ _ _ h => by cases h) (fun _ _ _ h => by cases h)
  | deepcopy m => exact grow _ (fun _ _ _ h => by cases h) (fun _ _ _ h => by cases h)
  | loadMatrix fs => exact grow _ (fun _ _ _ h => by cases h) (fun _ _ _ h => by cases h)
  | byId m id ext => exact grow _ (fun _ _ _ h => by cases h) (fun _ _ _ h => by cases h)
  | byName m name => exact grow _ (fun _ _ _ h => by cases h) (fun _ _ _ h => by cases h)
  | byPgn m p => exact grow _ (fun _ _ _ h => by cases h) (fun _ _ _ h => by cases h)

/-! ## snapshots are true descriptions of the heap after the step -/

/-- the same function as `C10.snapMat` -/
def snapMatOf (w : World) (m : Nat) : Option (List Spec.FrameSnap) :=
  (w.mat m).map fun x => x.frames.filterMap fun h =>
    (w.obj h).map fun o => { handle := h, name := o.name, id := o.id, ext := o.ext }

/-- the same function as `C10.snapWith` -/
def snapOf (w w' : World) : LOp → Option (List Spec.FrameSnap)
  | .byId m _ _ | .byName m _ | .byPgn m _ => snapMatOf w m
  | .copyFrame _ dst _ _ => snapMatOf w' dst
  | .merge dst _ => snapMatOf w' dst
  | .deepcopy _ | .loadMatrix _ => snapMatOf w' w.mats.length
  | _ => none

/-- snapshot entries are true -/
theorem snapMatOf_true {w : World} {m : Nat} {sn : List Spec.FrameSnap}
    (h : snapMatOf w m = some sn) : SnapTrue w.heap sn := by
  unfold snapMatOf at h
  obtain ⟨x, _, rfl⟩ := Option.map_eq_some_iff.mp h
  intro f hf
  obtain ⟨h0, _, hf⟩ := List.mem_filterMap.mp hf
  obtain ⟨o, ho, rfl⟩ := Option.map_eq_some_iff.mp hf
  exact ⟨o, ho, rfl, rfl, rfl⟩

theorem snapOf_true (w : World) (op : LOp) {sn : List Spec.FrameSnap}
    (h : snapOf w (step w op).1 op = some sn) : SnapTrue (step w op).1.heap sn := by
  have look : ∀ op' m, (∀ a b c, op' ≠ .setId a b c) → (∀ a b c, op' ≠ .renameFrame a b c) →
      snapMatOf w m = some sn → SnapTrue (step w op').1.heap sn := by
    intro op' m h1 h2 hs
    obtain ⟨l, hl⟩ := LookupProofs.step_heap w op' h1 h2
    rw [hl]
    exact snapTrue_append l (snapMatOf_true hs)
  cases op with
  | byId m id ext => exact look _ m (fun _ _ _ h => by cases h) (fun _ _ _ h => by cases h) h
  | byName m name => exact look _ m (fun _ _ _ h => by cases h) (fun _ _ _ h => by cases h) h
  | byPgn m p => exact look _ m (fun _ _ _ h => by cases h) (fun _ _ _ h => by cases h) h
  | copyFrame src dst id ext => exact snapMatOf_true h
  | merge dst src => exact snapMatOf_true h
  | deepcopy m => exact snapMatOf_true h
  | loadMatrix fs => exact snapMatOf_true h
  | newMatrix => cases h
  | newFrame name id ext => cases h
  | addFrame m h' => cases h
  | appendFrame m h' => cases h
  | removeFrame m h' => cases h
  | delFrame m h' => cases h
  | delFrameByName m name => cases h
  | renameFrame m old new => cases h
  | setId h' id ext => cases h
  | addEcu m => cases h

end CanVerif.LookupIndep
