import CanVerif.Proofs.DbcMatrix
/-!
# The core round trip of a DBC file at the level of the whole reader (Model/DbcFile.lean): frames, signals, senders, comments.
Sections of the file are folds over the frames; a frame only sees the statements written for it (`sec_fold`), and the statements of a
frame turn the frame the frame section built into the frame that was written (`per_frame`).
-/
namespace CanVerif.Dbc.FileProofs
open CanVerif CanVerif.Dbc

/-- the item a file statement stands for -/
def FileStmt.toItem : FileStmt → Option Item
  | .one s => s.item
  | .cm h text => some (.cm h text)

theorem apply_eq_items (fs : List FileStmt) (m : RMatrix) :
    fs.foldl FileStmt.apply m = (fs.filterMap FileStmt.toItem).foldl applyItem m := by
  induction fs generalizing m with
  | nil => rfl
  | cons f fs ih =>
    simp only [List.foldl_cons, List.filterMap_cons]
    cases f with
    | one s =>
      simp only [FileStmt.apply, applyStmt, FileStmt.toItem]
      cases hs : s.item with
      | none => simp only; exact ih m
      | some it => simp only [List.foldl_cons]; exact ih _
    | cm h text => simp only [FileStmt.apply, FileStmt.toItem, List.foldl_cons]; exact ih _

/-- an update for another identifier leaves the frame alone -/
theorem itemUpd_other (it : Item) (n : Nat) (g : RFrame → RFrame) (f : RFrame) (h : itemFrameUpd it = some (n, g))
    (hk : keyOfCompound n ≠ some f.key) : itemUpd it f = f := by
  simp only [itemUpd, h, updByNumber]
  have : (keyOfCompound n == some f.key) = false := by simpa using hk
  simp [this]

theorem itemUpd_hit (it : Item) (n : Nat) (g : RFrame → RFrame) (f : RFrame) (h : itemFrameUpd it = some (n, g))
    (hk : keyOfCompound n = some f.key) : itemUpd it f = g f := by
  simp [itemUpd, h, updByNumber, hk]

/-- the number a statement about a frame or a signal carries -/
def itemNumber (it : Item) : Option Nat := (itemFrameUpd it).map (·.1)

theorem fold_skip (its : List Item) (f : RFrame)
    (h : ∀ it ∈ its, ∃ n g, itemFrameUpd it = some (n, g) ∧ keyOfCompound n ≠ some f.key) :
    its.foldl (fun acc it => itemUpd it acc) f = f := by
  induction its with
  | nil => rfl
  | cons it its ih =>
    obtain ⟨n, g, hg, hk⟩ := h it (by simp)
    simp only [List.foldl_cons]
    rw [itemUpd_other it n g f hg hk]
    exact ih (fun x hx => h x (List.mem_cons_of_mem _ hx))

theorem fold_key (its : List Item) (f : RFrame) : (its.foldl (fun acc it => itemUpd it acc) f).key = f.key := by
  induction its generalizing f with
  | nil => rfl
  | cons it its ih => simp only [List.foldl_cons]; rw [ih, itemUpd_key]

/-- one section of the file (the statements of one kind for all frames, frame by frame): a frame only sees the statements written for it -/
theorem sec_fold (sec : WFrame → List Item)
    (hsec : ∀ f it, it ∈ sec f → ∃ g, itemFrameUpd it = some (f.bo.id, g))
    (ps : List (WFrame × (Nat × Bool))) (hnum : ∀ p ∈ ps, keyOfCompound p.1.bo.id = some p.2)
    (hdist : ps.Pairwise fun p q => p.2 ≠ q.2) (p : WFrame × (Nat × Bool)) (hp : p ∈ ps) (a : RFrame) (ha : a.key = p.2) :
    (ps.flatMap fun q => sec q.1).foldl (fun acc it => itemUpd it acc) a = (sec p.1).foldl (fun acc it => itemUpd it acc) a := by
  induction ps generalizing a with
  | nil => simp at hp
  | cons q rest ih =>
    rw [List.pairwise_cons] at hdist
    simp only [List.flatMap_cons, List.foldl_append]
    rcases List.mem_cons.mp hp with rfl | hp'
    · -- the frame's own statements come first, the others are skipped
      apply fold_skip
      intro it hit
      obtain ⟨r, hr, hir⟩ := List.mem_flatMap.mp hit
      obtain ⟨g, hg⟩ := hsec r.1 it hir
      refine ⟨_, g, hg, ?_⟩
      rw [hnum r (List.mem_cons_of_mem _ hr), fold_key, ha]
      intro e; injection e with e
      exact hdist.1 r hr e.symm
    · have hskip : (sec q.1).foldl (fun acc it => itemUpd it acc) a = a := by
        apply fold_skip
        intro it hit
        obtain ⟨g, hg⟩ := hsec q.1 it hit
        refine ⟨_, g, hg, ?_⟩
        rw [hnum q (by simp), ha]
        intro e; injection e with e
        exact hdist.1 p hp' e
      rw [hskip]
      exact ih (fun r hr => hnum r (List.mem_cons_of_mem _ hr)) hdist.2 hp' a ha

def txItems (f : WFrame) : List Item := if f.moreSenders.isEmpty then [] else [.tx ⟨f.bo.id, f.senders⟩]
def cmItems (f : WFrame) : List Item := match f.comment with | some c => [.cm (.bo f.bo.id) c] | none => []
def sigCmItems (f : WFrame) : List Item := f.sigs.filterMap fun s => s.comment.map fun c => .cm (.sg f.bo.id s.sg.name) c

theorem txItems_eq (f : WFrame) : f.txStmts.filterMap FileStmt.toItem = txItems f := by
  unfold WFrame.txStmts txItems; split <;> rfl
theorem cmItems_eq (f : WFrame) : f.cmStmts.filterMap FileStmt.toItem = cmItems f := by
  unfold WFrame.cmStmts cmItems; cases f.comment <;> rfl
theorem sigCmItems_eq (f : WFrame) : f.sigCmStmts.filterMap FileStmt.toItem = sigCmItems f := by
  unfold WFrame.sigCmStmts sigCmItems
  rw [List.filterMap_filterMap]
  congr 1
  funext s
  cases s.comment <;> rfl

/-- the senders -/
theorem tx_section (f : WFrame) (a : RFrame) (hk : keyOfCompound f.bo.id = some a.key) (ht : a.transmitters = [f.bo.transmitter])
    (hnd : f.senders.Nodup) :
    (txItems f).foldl (fun acc it => itemUpd it acc) a = { a with transmitters := f.senders } := by
  unfold txItems
  split
  · rename_i he
    have : f.moreSenders = [] := by simpa using he
    simp only [List.foldl_nil, WFrame.senders, this]
    cases a; simp_all
  · simp only [List.foldl_cons, List.foldl_nil]
    rw [itemUpd_hit _ f.bo.id _ a rfl hk]
    simp only [ht]
    rw [show addTransmitters [f.bo.transmitter] f.senders = f.senders from
      StmtProofs.addTransmitters_after_first f.bo.transmitter f.moreSenders hnd]

/-- the comment of the frame -/
theorem cm_section (f : WFrame) (a : RFrame) (hk : keyOfCompound f.bo.id = some a.key) (hc : a.comment = none) :
    (cmItems f).foldl (fun acc it => itemUpd it acc) a = { a with comment := f.comment } := by
  unfold cmItems
  cases hcm : f.comment with
  | none => simp only [List.foldl_nil]; cases a; simp_all
  | some c =>
    simp only [List.foldl_cons, List.foldl_nil]
    rw [itemUpd_hit _ f.bo.id _ a rfl hk]

def fullSig (s : WSig) : RSig := { sg := rereadSg s.sg, comment := s.comment }
def plainSig (s : WSig) : RSig := { sg := rereadSg s.sg }

theorem modifyAt_mid {α} (l1 l2 : List α) (x : α) (g : α → α) : modifyAt (l1 ++ x :: l2) l1.length g = l1 ++ g x :: l2 := by
  induction l1 with
  | nil => rfl
  | cons y r ih => simp [modifyAt, ih]

theorem rereadSg_name (s : SgLine) : (rereadSg s).name = s.name := rfl

theorem namesUnique_of (a : RFrame) (names : List Str) (h : a.sigs.map (·.sg.name) = names) (hnd : names.Nodup) : NamesUnique a := by
  unfold NamesUnique
  have : (a.sigs.map (·.sg.name)).Pairwise (· ≠ ·) := by rw [h]; exact hnd
  rwa [List.pairwise_map] at this

/-- the comments of the signals of one frame -/
theorem sigcm_fold (n : Nat) (todo done : List WSig) (a : RFrame) (hk : keyOfCompound n = some a.key)
    (hs : a.sigs = done.map fullSig ++ todo.map plainSig) (hnd : ((done ++ todo).map (·.sg.name)).Nodup) :
    (todo.filterMap fun s => s.comment.map fun c => Item.cm (.sg n s.sg.name) c).foldl (fun acc it => itemUpd it acc) a =
      { a with sigs := (done ++ todo).map fullSig } := by
  induction todo generalizing done a with
  | nil =>
    simp only [List.filterMap_nil, List.foldl_nil, List.append_nil]
    simp only [List.map_nil, List.append_nil] at hs
    cases a; simp_all
  | cons s rest ih =>
    cases hc : s.comment with
    | none =>
      simp only [List.filterMap_cons, hc, Option.map_none]
      have hfp : fullSig s = plainSig s := by simp [fullSig, plainSig, hc]
      have := ih (done ++ [s]) a hk (by rw [hs]; simp [hfp]) (by simpa using hnd)
      simpa using this
    | some c =>
      simp only [List.filterMap_cons, hc, Option.map_some, List.foldl_cons]
      rw [itemUpd_hit _ n _ a rfl hk]
      have hnames : a.sigs.map (·.sg.name) = (done ++ s :: rest).map (·.sg.name) := by
        rw [hs]
        have e1 : ∀ l : List WSig, l.map (fun x => (fullSig x).sg.name) = l.map (·.sg.name) := fun l => rfl
        have e2 : ∀ l : List WSig, l.map (fun x => (plainSig x).sg.name) = l.map (·.sg.name) := fun l => rfl
        simp only [List.map_append, List.map_map, List.map_cons, Function.comp_def]
        rw [e1, e2]; rfl
      have hget : a.sigs[done.length]? = some (plainSig s) := by
        rw [hs]; simp
      have hidx : sigIdx a s.sg.name = some done.length := by
        have := lookup_signal a (namesUnique_of a _ hnames hnd) done.length (plainSig s) hget
        simpa [plainSig, rereadSg_name] using this
      have hmod : modSigByName s.sg.name (fun x => { x with comment := some c }) a =
          { a with sigs := (done ++ [s]).map fullSig ++ rest.map plainSig } := by
        unfold modSigByName
        rw [hidx]
        simp only [RFrame.modSig, hs]
        have e : done.map fullSig ++ (s :: rest).map plainSig = done.map fullSig ++ plainSig s :: rest.map plainSig := by simp
        have hl : done.length = (done.map fullSig).length := by simp
        rw [e, hl, modifyAt_mid]
        simp [fullSig, plainSig, hc]
      rw [hmod]
      have := ih (done ++ [s]) { a with sigs := (done ++ [s]).map fullSig ++ rest.map plainSig } hk rfl (by simpa using hnd)
      simpa using this

theorem txItems_num (f : WFrame) (it : Item) (h : it ∈ txItems f) : ∃ g, itemFrameUpd it = some (f.bo.id, g) := by
  unfold txItems at h
  split at h
  · simp at h
  · simp only [List.mem_singleton] at h; subst h; exact ⟨_, rfl⟩

theorem cmItems_num (f : WFrame) (it : Item) (h : it ∈ cmItems f) : ∃ g, itemFrameUpd it = some (f.bo.id, g) := by
  unfold cmItems at h
  cases hc : f.comment with
  | none => rw [hc] at h; simp at h
  | some c => rw [hc] at h; simp only [List.mem_singleton] at h; subst h; exact ⟨_, rfl⟩

theorem sigCmItems_num (f : WFrame) (it : Item) (h : it ∈ sigCmItems f) : ∃ g, itemFrameUpd it = some (f.bo.id, g) := by
  unfold sigCmItems at h
  obtain ⟨s, _, hs⟩ := List.mem_filterMap.mp h
  cases hc : s.comment with
  | none => rw [hc] at hs; simp at hs
  | some c => rw [hc] at hs; simp only [Option.map_some, Option.some.injEq] at hs; subst hs; exact ⟨_, rfl⟩

theorem wf_unpack {f : WFrame} {k : Nat × Bool} (h : f.wf k = true) :
    wfBlock f.block = true ∧ boKey f.bo = some k ∧ keyOfCompound f.bo.id = some k ∧ (∀ e ∈ f.senders, isIdent e = true) ∧ f.senders.Nodup ∧
    (∀ c, f.comment = some c → wfComment c = true) ∧ (∀ s ∈ f.sigs, ∀ c, s.comment = some c → wfComment c = true) ∧
    (f.sigs.map (·.sg.name)).Nodup := by
  simp only [WFrame.wf, Bool.and_eq_true, beq_iff_eq, List.all_eq_true, decide_eq_true_eq] at h
  obtain ⟨⟨⟨⟨⟨⟨⟨h1, h2⟩, h3⟩, h4⟩, h5⟩, h6⟩, h7⟩, h8⟩ := h
  refine ⟨h1, h2, h3, h4, h5, ?_, ?_, h8⟩
  · intro c hc; rw [hc] at h6; exact h6
  · intro s hs c hc; have := h7 s hs; rw [hc] at this; exact this

/-- what a frame of the written frame section becomes under the statements of the three following sections -/
theorem per_frame (ps : List (WFrame × (Nat × Bool))) (hwf : ∀ p ∈ ps, p.1.wf p.2 = true) (hdist : ps.Pairwise fun p q => p.2 ≠ q.2)
    (p : WFrame × (Nat × Bool)) (hp : p ∈ ps) :
    ((ps.flatMap fun q => txItems q.1) ++ (ps.flatMap fun q => cmItems q.1) ++ (ps.flatMap fun q => sigCmItems q.1)).foldl
      (fun acc it => itemUpd it acc) (frameOfBlock p.1.block p.2) = p.1.expect p.2 := by
  obtain ⟨f, k⟩ := p
  obtain ⟨_, _, hnum, _, hnd, _, _, hnames⟩ := wf_unpack (hwf (f, k) hp)
  have hnumAll : ∀ q ∈ ps, keyOfCompound q.1.bo.id = some q.2 := fun q hq => (wf_unpack (hwf q hq)).2.2.1
  simp only [List.foldl_append]
  rw [sec_fold txItems txItems_num ps hnumAll hdist (f, k) hp _ rfl]
  rw [tx_section f _ hnum rfl hnd]
  rw [sec_fold cmItems cmItems_num ps hnumAll hdist (f, k) hp _ rfl]
  rw [cm_section f _ hnum rfl]
  rw [sec_fold sigCmItems sigCmItems_num ps hnumAll hdist (f, k) hp _ rfl]
  have := sigcm_fold f.bo.id f.sigs [] { (frameOfBlock f.block k) with transmitters := f.senders, comment := f.comment } hnum
    (by simp [frameOfBlock, sigsOf, WFrame.block, plainSig]) (by simpa using hnames)
  unfold sigCmItems
  rw [this]
  simp [WFrame.expect, frameOfBlock, fullSig, WFrame.block, List.any_map, Function.comp_def]

theorem filterMap_flatMap {α β γ} (l : List α) (f : α → List β) (g : β → Option γ) :
    (l.flatMap f).filterMap g = l.flatMap fun x => (f x).filterMap g := by
  induction l with
  | nil => rfl
  | cons a r ih => simp [List.flatMap_cons, List.filterMap_append, ih]

/-- the look-up of a frame number depends on the identifiers of the frames only -/
theorem frameIdx_keys (m m' : RMatrix) (h : m'.frames.map (·.key) = m.frames.map (·.key)) (n : Nat) :
    frameIdx m' n = frameIdx m n := by
  unfold frameIdx
  cases keyOfCompound n with
  | none => rfl
  | some k =>
    simp only
    have : ∀ (l : List RFrame) (i : Nat) (best : Option Nat),
        findLastIdx.go (fun f => f.key == k) i best l = findLastIdx.go (fun x => x == k) i best (l.map (·.key)) := by
      intro l
      induction l with
      | nil => intro i best; rfl
      | cons a r ih => intro i best; simp only [findLastIdx.go, List.map_cons]; exact ih _ _
    unfold findLastIdx
    rw [this, this, h]

theorem apply_keys (m : RMatrix) (hu : KeysUnique m) (it : Item) (hit : (itemFrameUpd it).isSome = true) :
    (applyItem m it).frames.map (·.key) = m.frames.map (·.key) := by
  rw [applyItem_frames' m hu it hit, List.map_map]
  apply List.map_congr_left
  intro f _
  exact itemUpd_key it f

/-- a statement of the three sections that can be read wherever the frame it names is known -/
def staticOk (keys : List (Nat × Bool)) : FileStmt → Prop
  | .one s => s.wf = true ∧ ∃ it, s.item = some it ∧ (itemFrameUpd it).isSome = true
  | .cm h text => wfCmHead h = true ∧ wfComment text = true ∧ (itemFrameUpd (.cm h text)).isSome = true ∧
      ∃ n k, (h = .bo n ∨ ∃ name, h = .sg n name) ∧ keyOfCompound n = some k ∧ k ∈ keys

theorem frameIdx_some_of_mem (m : RMatrix) (hu : KeysUnique m) (n : Nat) (k : Nat × Bool) (hk : keyOfCompound n = some k)
    (hmem : k ∈ m.frames.map (·.key)) : (frameIdx m n).isSome = true := by
  obtain ⟨f, hf, rfl⟩ := List.mem_map.mp hmem
  obtain ⟨i, hi⟩ := List.getElem?_of_mem hf
  rw [lookup_by_identifier m hu i f n hi hk]; rfl

theorem okFile_static (stmts : List FileStmt) (m : RMatrix) (hu : KeysUnique m)
    (h : ∀ s ∈ stmts, staticOk (m.frames.map (·.key)) s) : okFile m stmts = true := by
  induction stmts generalizing m with
  | nil => rfl
  | cons s rest ih =>
    simp only [okFile, Bool.and_eq_true]
    have hs := h s (by simp)
    have hitem : ∃ it, FileStmt.toItem s = some it ∧ (itemFrameUpd it).isSome = true ∧ s.apply m = applyItem m it := by
      cases s with
      | one st =>
        obtain ⟨_, it, hit, hsome⟩ := hs
        exact ⟨it, hit, hsome, by simp [FileStmt.apply, applyStmt, hit]⟩
      | cm hd text => exact ⟨_, rfl, hs.2.2.1, rfl⟩
    obtain ⟨it, _, hsome, happ⟩ := hitem
    refine ⟨?_, ?_⟩
    · cases s with
      | one st => exact hs.1
      | cm hd text =>
        obtain ⟨hw, hc, _, n, k, hform, hk, hmem⟩ := hs
        simp only [FileStmt.okIn, hw, hc, Bool.and_self, Bool.true_and, Bool.or_eq_true, Bool.not_eq_true']
        right
        rcases hform with rfl | ⟨name, rfl⟩
        · simp [hk]
        · exact frameIdx_some_of_mem m hu n k hk hmem
    · rw [happ]
      have hkeys := apply_keys m hu it hsome
      apply ih _ (keysUnique_of_keys m _ hkeys hu)
      intro x hx
      rw [hkeys]
      exact h x (List.mem_cons_of_mem _ hx)

theorem framesOfBlocks_ps (ps : List (WFrame × (Nat × Bool))) :
    framesOfBlocks (ps.map fun p => p.1.block) (ps.map (·.2)) = ps.map fun p => frameOfBlock p.1.block p.2 := by
  induction ps with
  | nil => rfl
  | cons p r ih => simp [framesOfBlocks, ih]

theorem tx_static (f : WFrame) (k : Nat × Bool) (hwf : f.wf k = true) (keys : List (Nat × Bool)) :
    ∀ s ∈ f.txStmts, staticOk keys s := by
  intro s hs
  unfold WFrame.txStmts at hs
  split at hs
  · simp at hs
  · rename_i hne
    simp only [List.mem_singleton] at hs; subst hs
    obtain ⟨_, _, _, hid, _, _, _, _⟩ := wf_unpack hwf
    refine ⟨?_, _, rfl, rfl⟩
    simp only [Stmt.wf, wfTx, Bool.and_eq_true, Bool.not_eq_true', List.all_eq_true]
    exact ⟨by simp [WFrame.senders], hid⟩

theorem cm_static (f : WFrame) (k : Nat × Bool) (hwf : f.wf k = true) (keys : List (Nat × Bool)) (hk : k ∈ keys) :
    ∀ s ∈ f.cmStmts, staticOk keys s := by
  intro s hs
  unfold WFrame.cmStmts at hs
  obtain ⟨_, _, hnum, _, _, hcm, _, _⟩ := wf_unpack hwf
  cases hc : f.comment with
  | none => rw [hc] at hs; simp at hs
  | some c =>
    rw [hc] at hs; simp only [List.mem_singleton] at hs; subst hs
    exact ⟨rfl, hcm c hc, rfl, f.bo.id, k, Or.inl rfl, hnum, hk⟩

theorem sigcm_static (f : WFrame) (k : Nat × Bool) (hwf : f.wf k = true) (keys : List (Nat × Bool)) (hk : k ∈ keys) :
    ∀ s ∈ f.sigCmStmts, staticOk keys s := by
  intro s hs
  unfold WFrame.sigCmStmts at hs
  obtain ⟨hblk, _, hnum, _, _, _, hsc, _⟩ := wf_unpack hwf
  obtain ⟨w, hw, hsw⟩ := List.mem_filterMap.mp hs
  cases hc : w.comment with
  | none => rw [hc] at hsw; simp at hsw
  | some c =>
    rw [hc] at hsw; simp only [Option.map_some, Option.some.injEq] at hsw; subst hsw
    have hname : isIdent w.sg.name = true := by
      have := (wfBlock_unpack hblk).2 w.sg (by simp [WFrame.block]; exact ⟨w, hw, rfl⟩)
      exact (wfSg_unpack this).1
    exact ⟨hname, hsc w hw c hc, rfl, f.bo.id, k, Or.inr ⟨_, rfl⟩, hnum, hk⟩

/-- **The core round trip.**  For any list of frames - any number, any number of signals, senders and comments over any number of lines -
whose lines are well formed, whose numbers denote pairwise different identifiers and whose signal names are pairwise different within a
frame: reading the file the core of the writer makes of them (frame section, `BO_TX_BU_` lines, frame comments, signal comments) builds
exactly these frames - identifier, name, length, all senders in their order, the signals in their order with their comments, the frame's
comment - and leaves no comment open. -/
theorem roundtrip_core (ps : List (WFrame × (Nat × Bool))) (hwf : ∀ p ∈ ps, p.1.wf p.2 = true)
    (hdist : ps.Pairwise fun p q => p.2 ≠ q.2) :
    (readFile (writeCore (ps.map (·.1)))).frames = ps.map (fun p => p.1.expect p.2) ∧
    (readFile (writeCore (ps.map (·.1)))).pending = none := by
  unfold readFile writeCore
  rw [List.foldl_append]
  have hblocks : (ps.map (·.1)).map WFrame.block = ps.map fun p => p.1.block := by rw [List.map_map]; rfl
  have hkeys : (ps.map fun p => p.1.block).map (fun b => boKey b.bo) = (ps.map (·.2)).map some := by
    rw [List.map_map, List.map_map]
    apply List.map_congr_left
    intro p hp
    exact (wf_unpack (hwf p hp)).2.1
  have hA := frames_fold (ps.map fun p => p.1.block) (ps.map (·.2)) {} rfl
    (by intro b hb; obtain ⟨p, hp, rfl⟩ := List.mem_map.mp hb; exact (wf_unpack (hwf p hp)).1) hkeys
  rw [hblocks]
  generalize hmA : (writeFrames (ps.map fun p => p.1.block)).foldl stepFile {} = mA at hA
  obtain ⟨hAf, hAp, _, _⟩ := hA
  rw [framesOfBlocks_ps] at hAf
  simp only [List.nil_append] at hAf
  have hAkeys : mA.frames.map (·.key) = ps.map (·.2) := by
    rw [hAf, List.map_map]; rfl
  have huA : KeysUnique mA := by
    unfold KeysUnique
    have : (mA.frames.map (·.key)).Pairwise (· ≠ ·) := by
      rw [hAkeys, List.pairwise_map]; exact hdist
    rwa [List.pairwise_map] at this
  -- every statement of the three sections can be read
  have hstatic : ∀ s ∈ ((ps.map (·.1)).flatMap WFrame.txStmts ++ (ps.map (·.1)).flatMap WFrame.cmStmts ++
      (ps.map (·.1)).flatMap WFrame.sigCmStmts), staticOk (mA.frames.map (·.key)) s := by
    intro s hs
    rw [hAkeys]
    simp only [List.mem_append, List.mem_flatMap, List.mem_map] at hs
    rcases hs with (⟨f, ⟨p, hp, rfl⟩, hsf⟩ | ⟨f, ⟨p, hp, rfl⟩, hsf⟩) | ⟨f, ⟨p, hp, rfl⟩, hsf⟩
    · exact tx_static p.1 p.2 (hwf p hp) _ s hsf
    · exact cm_static p.1 p.2 (hwf p hp) _ (List.mem_map.mpr ⟨p, hp, rfl⟩) s hsf
    · exact sigcm_static p.1 p.2 (hwf p hp) _ (List.mem_map.mpr ⟨p, hp, rfl⟩) s hsf
  have hok := okFile_static _ mA huA hstatic
  rw [read_file _ mA hAp hok, apply_eq_items]
  simp only [List.filterMap_append, filterMap_flatMap, List.flatMap_map, txItems_eq, cmItems_eq, sigCmItems_eq]
  constructor
  · rw [frames_after_items _ mA huA]
    · rw [hAf, List.map_map]
      apply List.map_congr_left
      intro p hp
      exact per_frame ps hwf hdist p hp
    · intro it hit
      simp only [List.mem_append, List.mem_flatMap] at hit
      rcases hit with (⟨p, _, h⟩ | ⟨p, _, h⟩) | ⟨p, _, h⟩
      · obtain ⟨g, hg⟩ := txItems_num p.1 it h; rw [hg]; rfl
      · obtain ⟨g, hg⟩ := cmItems_num p.1 it h; rw [hg]; rfl
      · obtain ⟨g, hg⟩ := sigCmItems_num p.1 it h; rw [hg]; rfl
  · -- no comment stays open: every item is a complete comment or a sender statement
    have : ∀ (its : List Item) (m : RMatrix), m.pending = none → (∀ it ∈ its, ∀ hd first, it ≠ .cmOpen hd first) →
        (its.foldl applyItem m).pending = none := by
      intro its
      induction its with
      | nil => intro m hm _; exact hm
      | cons it its ih =>
        intro m hm hall
        simp only [List.foldl_cons]
        exact ih _ (applyItem_pending m it hm (hall it (by simp))) (fun x hx => hall x (List.mem_cons_of_mem _ hx))
    apply this _ mA hAp
    intro it hit hd first e
    subst e
    simp only [List.mem_append, List.mem_flatMap] at hit
    rcases hit with (⟨p, _, h⟩ | ⟨p, _, h⟩) | ⟨p, _, h⟩
    · obtain ⟨g, hg⟩ := txItems_num p.1 _ h; simp [itemFrameUpd] at hg
    · obtain ⟨g, hg⟩ := cmItems_num p.1 _ h; simp [itemFrameUpd] at hg
    · obtain ⟨g, hg⟩ := sigCmItems_num p.1 _ h; simp [itemFrameUpd] at hg

end CanVerif.Dbc.FileProofs
