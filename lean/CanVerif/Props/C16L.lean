import CanVerif.Model.Layout
import CanVerif.Props.C16
import CanVerif.Proofs.CompressLittle
/-!
# C16 — `compress` on Intel frames (`_compress_little`): no overlap, no unused bit before a signal, order kept, termination

For Intel signals `start` is the position of the least significant bit, positions counted from the least significant bit of
byte 0 (the numbering in which an Intel signal occupies `start … start + size - 1`).  `_compress_little` scans the usage map
byte by byte and inside a byte from index 7 down to 0, which is ascending order in that numbering.
-/
namespace CanVerif.C16L
open CanVerif CanVerif.C16

/-- a frame `_compress_little` is meant for: Intel signals only, each with a name of its own and at least one bit, inside the
frame, no two of them on the same bit (`occ` is `start ≤ j < start + size`, here in the Intel numbering) -/
def compressibleLittle (f : Frame) : Prop :=
  (∀ s ∈ f.sigs, s.little = true ∧ 1 ≤ s.size ∧ s.start + s.size ≤ 8 * f.size) ∧ (f.sigs.map (·.name)).Nodup ∧
  (∀ a ∈ f.sigs, ∀ b ∈ f.sigs, a.name ≠ b.name → ∀ j, ¬ (occ a j ∧ occ b j))

/-- compressing creates no overlap -/
theorem compress_little_no_overlap (f g : Frame) (hf : compressibleLittle f) (h : f.compress = .ok g) :
    ∀ a ∈ g.sigs, ∀ b ∈ g.sigs, a.name ≠ b.name → ∀ j, ¬ (occ a j ∧ occ b j) := by
  exact (CompressLittle.compress_little_spec f g hf h).1

/-- ... and leaves no unused bit before a signal: every position below a signal's least significant bit belongs to some signal -/
theorem compress_little_no_gap (f g : Frame) (hf : compressibleLittle f) (h : f.compress = .ok g) :
    ∀ s ∈ g.sigs, ∀ j, j < s.start → ∃ t ∈ g.sigs, occ t j := by
  exact (CompressLittle.compress_little_spec f g hf h).2.1

/-- ... and keeps the relative order of the signals in the payload -/
theorem compress_little_keeps_order (f g : Frame) (hf : compressibleLittle f) (h : f.compress = .ok g)
    (a b : Sig) (ha : a ∈ f.sigs) (hb : b ∈ f.sigs) (hab : a.start < b.start) :
    ∀ a' ∈ g.sigs, ∀ b' ∈ g.sigs, a'.name = a.name → b'.name = b.name → a'.start < b'.start := by
  exact (CompressLittle.compress_little_spec f g hf h).2.2 a ha b hb hab

/-- ... keeps every signal's width, byte order and name, and the frame's length -/
theorem compress_little_keeps_shape (f g : Frame) (hf : compressibleLittle f) (h : f.compress = .ok g) :
    g.size = f.size ∧ g.sigs.map (fun s => (s.name, s.size, s.little)) = f.sigs.map (fun s => (s.name, s.size, s.little)) := by
  have _ := hf
  obtain ⟨h1, h2⟩ := compress_preserves f g h
  have := congrArg (List.map fun p : String × Nat × Bool × Bool => (p.1, p.2.1, p.2.2.1)) h1
  simp only [List.map_map] at this
  exact ⟨h2, this⟩

/-- the loop always ends within the fuel of the model (the Python `while gap_found` terminates) -/
theorem compress_little_terminates (f : Frame) (hf : compressibleLittle f) : ∃ g, f.compress = .ok g := by
  exact CompressLittle.compress_little_ok f hf

/-! non-vacuity -/
def exL : Frame := { size := 3, sigs := [{ name := "b", start := 14, size := 2 }, { name := "a", start := 4, size := 8 }, { name := "c", start := 20, size := 3 }] }
example : (exL.compress.toOption.map fun g => g.sigs.map (·.start)) = some [8, 0, 10] := by decide

end CanVerif.C16L
