import CanVerif.Model.DbcComment
/-!
# Model of two more DBC statements (C05, C15): `VAL_TABLE_` (global value tables) and `SIG_GROUP_` (signal groups)

Writer: formats/dbc.py `dump`
  `"VAL_TABLE_ " + name`, then ` <key> "<text>"` per entry (a quote in a text written as `\"`), a blank if there is no entry, then `;`
  `"SIG_GROUP_ " + str(frame id) + " " + name + " " + str(group id) + " :"`, then ` <signal>` per member, then `;`
Reader: `load`
  `^VAL_TABLE_ +(\S+) +(.*) *;` then `escape_aware_split(group(2), '"')`: keys (`strip()`ped, they stay texts) and texts alternate
  `^SIG_GROUP_ +(\S+) +(\S+) +(\S+) +\:(.*) *; *` then `group(4).split(' ')`; `add_signal_group` strips the names and skips empty ones
-/
namespace CanVerif.Dbc
open CanVerif

/-! ## `VAL_TABLE_` -/

structure VtLine where
  name : Str
  entries : List (Str × Str)      -- key as written (a number text), text
  deriving Repr, DecidableEq, Inhabited

/-- (a table without entries gets a blank behind its name: the reader's pattern asks for one) -/
def renderVt (v : VtLine) : Str :=
  "VAL_TABLE_ ".toList ++ v.name ++ (v.entries.flatMap fun (k, t) => ' ' :: k ++ " \"".toList ++ escapeQuotes t ++ ['"']) ++
  (if v.entries.isEmpty then [' '] else []) ++ [';']

/-- `temp_list[2i]` stripped, `temp_list[2i+1]` with `\"` turned back into `"`, for `i < len // 2` -/
def pairsUnescaped : List Str → List (Str × Str)
  | a :: b :: r => (stripWs a, unescapeQuotes b) :: pairsUnescaped r
  | _ => []

def parseVt (line : Str) : Option VtLine :=
  if !startsWith line "VAL_TABLE_ ".toList then none else
  match (skipSp (line.drop 10)).span (fun c => !isBlank c) with
  | ([], _) => none
  | (name, r) =>
    match r with
    | ' ' :: _ =>
      match uptoLastSemicolon (skipSp r) with
      | some body => some { name, entries := pairsUnescaped (escapeAwareSplit body) }
      | none => none
    | _ => none

/-- texts as for `VAL_`: no backslash (it would escape the closing quote), no line end -/
def wfVt (v : VtLine) : Bool :=
  isIdent v.name && v.entries.all fun (k, t) => !k.isEmpty && k.all isDigit && wfText t

/-! ## `SIG_GROUP_` -/

structure GroupLine where
  frameId : Nat
  name : Str
  groupId : Nat
  members : List Str
  deriving Repr, DecidableEq, Inhabited

def renderGroup (g : GroupLine) : Str :=
  "SIG_GROUP_ ".toList ++ natDigits g.frameId ++ ' ' :: g.name ++ ' ' :: natDigits g.groupId ++ " :".toList ++
  (g.members.flatMap fun m => ' ' :: m) ++ [';']

/-- the member names: `split(' ')`, each stripped, empty ones skipped -/
def groupMembers (s : Str) : List Str := ((splitRaw ' ' s).map stripWs).filter (!·.isEmpty)

def parseGroup (line : Str) : Option GroupLine :=
  if !startsWith line "SIG_GROUP_ ".toList then none else
  match (skipSp (line.drop 10)).span (fun c => !isBlank c) with
  | ([], _) => none
  | (idS, r1) =>
    match r1 with
    | ' ' :: _ =>
      match (skipSp r1).span (fun c => !isBlank c) with
      | ([], _) => none
      | (name, r2) =>
        match r2 with
        | ' ' :: _ =>
          match (skipSp r2).span (fun c => !isBlank c) with
          | ([], _) => none
          | (gidS, r3) =>
            match r3 with
            | ' ' :: _ =>
              match skipSp r3 with
              | ':' :: r4 =>
                match uptoLastSemicolon r4 with
                | some body =>
                  (digitsToNat idS).bind fun fid => (digitsToNat gidS).map fun gid =>
                    { frameId := fid, name, groupId := gid, members := groupMembers body }
                | none => none
              | _ => none
            | _ => none
        | _ => none
    | _ => none

def wfGroup (g : GroupLine) : Bool := isIdent g.name && g.members.all isIdent

end CanVerif.Dbc
