"""C20 - readers tolerate bad lines and truncation without losing good content."""
import contextlib
import glob
import io
import os
import re

import canmatrix.formats
from lib import matrices as M
from props import c14

PID = "C20"
RULE = ("case 'bad' = (well-formed DBC or SYM text: canmatrix's own output for a generated matrix (long names, multiplexing, "
        "attributes, comments over several lines, value tables, several senders) or a sample file shipped under tests/files; a "
        "multiset of 1..6 malformed lines of the three fault kinds (unknown keyword, truncated statement, wrong field type) inserted "
        "at positions between complete statements, outside multi-line comments and outside a frame's signal list): the load must "
        "not raise, the normal form of the result must equal the one without the bad lines, the DBC reader's 'error with line no' "
        "output is compared line by line with the dispatcher model, the SYM reader must record one load error per malformed "
        "statement. case 'cut' = the same texts cut at a byte position (25 random positions per text plus up to three right after each kind of "
        "punctuation character, i.e. inside a switch, a quoted text, a bracket; half of the texts also as UTF-8 files with characters "
        "outside ASCII, read with the UTF-8 import option and cut inside multi-byte characters; thorough: in addition every position of "
        "the first 4000 bytes of a DBC and a SYM text): the load must not raise and every frame and signal defined wholly before the cut "
        "Some malformed DBC lines that name an existing frame and signal stand in front of the frame's definition. keeps placement, byte order, signedness and scaling. Non-trivial = every distinct case.")
EXHAUSTIVE = {"quick": False, "thorough": False}
PARTIAL = ["only the control skeleton of the DBC reader (dispatcher, per-line error handling as a fold) is modelled and proved; that "
           "each real handler writes nothing before a failing pattern match, the multi-line comment state and the post-processing "
           "are tied by this correspondence check", "the SYM reader is tied by correspondence only (no Lean model of its line parser)"]
ASSUMPTIONS = ["a line that opens a quoted comment without closing it starts a multi-line comment by the format's rules and is not a "
               "'truncated statement'; '[name' in SYM starts a new section", "malformed lines are inserted as whole lines"]
TRUSTED = ["regular expressions of the readers"]
CORRESPONDENCE = "DBC reader stdout ('error with line no') per malformed line == CanVerif.printsError (Model/DbcLines.lean)"

SAMPLES = None


def samples():
    global SAMPLES
    if SAMPLES is None:
        SAMPLES = {"dbc": [], "sym": []}
        for fmt in ("dbc", "sym"):
            for path in sorted(glob.glob("/repo/tests/files/%s/*.%s" % (fmt, fmt))):
                try:
                    data = open(path, "rb").read()
                    if len(data) < 60000:
                        load(data, fmt)
                        SAMPLES[fmt].append(data.decode("iso-8859-1"))
                except Exception:  # noqa
                    pass
    return SAMPLES


def load(data, fmt, enc=None):
    out = io.StringIO()
    opts = {}
    if enc:
        opts = {"dbcImportEncoding": enc, "dbcImportCommentEncoding": enc, "symImportEncoding": enc}
    with contextlib.redirect_stdout(out):
        db = canmatrix.formats.loads_flat(data if isinstance(data, bytes) else data.encode(enc or "iso-8859-1"), fmt, **opts)
    return db, out.getvalue()


UNKNOWN_DBC = ["FOO_ 1 2 3;", "XYZ", "BO__ 5 x", "NS_DESC_ x", "SGX_ a : 1|2", "BA_DEFX \"a\";", "CAT_DEF_ 1 x 2;", "FILTER 0 CM_", "BOX_ 16"]
TRUNC_DBC = ["BO_ 16 F", "BO_ 16", "BO_TX_BU_ 16", "BO_TX_BU_ 16 :", "VAL_ 16 s 0", "VAL_TABLE_ t", "BA_DEF_ BO_ \"X\"", "BA_DEF_  \"X\"",
             "BA_DEF_DEF_ \"X\"", "BA_ \"X\"", "BA_ \"X\" BO_ 16", "BA_ \"X\" SG_ 16 s", "BA_ \"X\" BU_ E", "SIG_GROUP_ 16 g", "SIG_VALTYPE_ 16",
             "SG_MUL_VAL_ 16 s", "EV_ v : 0", "CM_ BO_ 16", "CM_ SG_ 16 s", "CM_ BU_ E"]
WRONG_DBC = ["BO_ abc F: 8 E1", "BO_ 16 F: x E1", "BO_TX_BU_ abc : E1;", "SIG_VALTYPE_ abc s : 1;", "SIG_GROUP_ abc g 1 : s;",
             "VAL_ abc s 0 \"a\";", "SG_MUL_VAL_ abc s m 1-1;", "BA_ \"X\" BO_ abc 5;", "BA_ \"X\" SG_ abc s 5;",
             "EV_ v : x [0|1] \"\" 0 1 DUMMY_NODE_VECTOR0 Vector__XXX;", "SG_MUL_VAL_ {fid} {sig} {sig} x-y;",
             "BA_ \"GenMsgCycleTime\" BO_ {fid} abc;", "BA_ \"GenSigStartValue\" SG_ {fid} {sig} abc;", "BA_ \"GenSigCycleTime\" SG_ {fid} {sig} 1.5;",
             "SG_MUL_VAL_ {fid} nosuchsignal {sig} 1-1;"]
RAISES = {"BO_ abc F: 8 E1", "BO_ 16 F: x E1", "SIG_VALTYPE_ abc s : 1;", "SIG_GROUP_ abc g 1 : s;", "SG_MUL_VAL_ {fid} {sig} {sig} x-y;"}
MATCHOK = {"SG_MUL_VAL_ {fid} nosuchsignal {sig} 1-1;"}
UNKNOWN_SYM = ["FOO=bar", "XYZ", "Len=8", "Color=red", "Type=Extnded", "Type=", "Type=29", "{FOO}", "{SIGNALS}"]
BAD_SYM = ["Type", "Var=x unsigned", "Var=x unsigned a,b", "Var=x nosuchtype 0,8", "DLC=abc", "Var=", "Mux=m 0,x 1", "CycleTime=abc", "ID=zzzh"]


def allowed_positions_dbc(lines):
    ok = []
    in_comment = False
    for p in range(len(lines) + 1):
        if p < len(lines):
            nxt = lines[p]
        else:
            nxt = ""
        if not in_comment and not nxt.lstrip().startswith("SG_ "):
            ok.append(p)
        if p < len(lines):
            l = lines[p].strip()
            if in_comment:
                if re.match(r'.*" *;\Z', l):
                    in_comment = False
            elif l.startswith("CM_ ") and not re.match(r'.*" *;\Z', l):
                in_comment = True
    return ok


def allowed_positions_sym(lines):
    """inside a message block: after its ID= line and before the blank line that ends the block"""
    ok = []
    in_block = False
    for p, l in enumerate(lines):
        if l.startswith("["):
            in_block = False
        if in_block and l.strip() != "":
            ok.append(p)              # insert before line p (a Var=/DLC=/… line of the block)
        if l.startswith("ID="):
            in_block = True
        if l.strip() == "":
            in_block = False
    return ok


def gen_text(rng, fmt):
    s = samples()[fmt]
    if s and rng.random() < 0.3:
        return rng.choice(s)
    d = c14.gen_desc(rng)
    d["free"] = []
    seen = set()
    for f in d["frames"]:
        while f["name"] in seen:
            f["name"] += "x"
        seen.add(f["name"])
    for f in d["frames"]:
        if rng.random() < 0.3:
            f["comment"] = "first line\nsecond line of the comment"
    db = c14.build(d)
    text = M.export_bytes(db, fmt).decode("iso-8859-1")
    if fmt == "dbc" and rng.random() < 0.5:
        # the order of the SG_ lines of a frame is free: a multiplexed signal may stand before its multiplexer
        out, block = [], []
        for line in text.split("\n"):
            if line.startswith(" SG_ "):
                block.append(line)
                continue
            if block:
                rng.shuffle(block)
                out.extend(block)
                block = []
            out.append(line)
        text = "\n".join(out + block)
    return text


def gen(rng, tier, shard, nshards):
    total = {"quick": 500, "thorough": 6000}[tier] // nshards + 1
    for _ in range(total):
        fmt = "dbc" if rng.random() < 0.7 else "sym"
        text = gen_text(rng, fmt)
        lines = text.split("\n")
        if rng.random() < 0.6:
            pos = allowed_positions_dbc(lines) if fmt == "dbc" else allowed_positions_sym(lines)
            if not pos:
                continue
            m = re.search(r"^BO_ (\d+) ", text, re.M)
            ms = re.search(r"^ SG_ (\w+) ", text, re.M)
            bads = []
            for _k in range(rng.randint(1, 6)):
                if fmt == "dbc":
                    kind = rng.choice(["unknown", "trunc", "wrong"])
                    b = rng.choice({"unknown": UNKNOWN_DBC, "trunc": TRUNC_DBC, "wrong": WRONG_DBC}[kind])
                    if b in RAISES:
                        kind = "raises"       # the pattern matches, a field conversion raises inside the per-line try
                    if b in MATCHOK:
                        kind = "matchok"      # the pattern matches and nothing is written (unknown signal)
                    if "{fid}" in b:
                        if not (m and ms):
                            continue
                        b = b.replace("{fid}", m.group(1)).replace("{sig}", ms.group(1))
                        if b.startswith("BA_ "):
                            attr = b.split('"')[1]
                            kind = "wrongvalue:" + attr
                else:
                    kind = rng.choice(["unknown", "bad"])
                    b = rng.choice(UNKNOWN_SYM if kind == "unknown" else BAD_SYM)
                p = rng.choice(pos)
                if fmt == "dbc" and m and (m.group(1) + " ") in b and not b.startswith("BO_"):
                    # a line naming the first frame must come after that frame's definition to reach its handler
                    first_bo = [n for n, l in enumerate(lines) if l.startswith("BO_ %s " % m.group(1))]
                    after = [q for q in pos if first_bo and q > first_bo[0] + 1]
                    if not after:
                        continue
                    p = rng.choice(after)
                if kind.startswith("wrongvalue:"):
                    # the value check needs the attribute's numeric definition to have been read already
                    attr = kind.split(":")[1]
                    defline = [n for n, l in enumerate(lines) if re.match(r'^BA_DEF_ \w+ +"%s" (INT|HEX|FLOAT)' % attr, l)]
                    first_bo = [n for n, l in enumerate(lines) if m and l.startswith("BO_ %s " % m.group(1))]
                    later = [q for q in pos if defline and first_bo and q > defline[0] and q > first_bo[0] + 1]
                    early = [q for q in pos if defline and first_bo and first_bo[0] + 1 < q <= defline[0]]
                    if early and (not later or rng.random() < 0.35):
                        # before the definition has been read the value cannot be checked at the line: it is stored and
                        # has to be dropped by the post-processing (which must not raise)
                        p = rng.choice(early)
                        kind = "matchok"
                    elif later:
                        p = rng.choice(later)
                        kind = "wrongvalue"
                    else:
                        continue
                if any(b2 == b and k2 != kind for _, b2, k2 in bads):
                    continue      # printed errors are attributed by the echoed text: one expectation per text
                bads.append([p, b, kind])
            if fmt == "dbc" and rng.random() < 0.4:
                # the malformed twin of a good attribute line, after it: the good value must survive
                goods = []
                for n, l in enumerate(lines):
                    g = re.match(r'^BA_ "(\w+)" (BO_ \d+|SG_ \d+ \w+|BU_ \w+) -?[\d.]+;\s*$', l)
                    if g:
                        kw = g.group(2).split(" ")[0]
                        defline = [k for k, dl in enumerate(lines[:n]) if re.match(r'^BA_DEF_ %s +"%s" (INT|HEX|FLOAT)' % (kw, g.group(1)), dl)]
                        later = [q for q in pos if q > n]
                        if defline and later:
                            goods.append((g, later))
                if goods:
                    g, later = rng.choice(goods)
                    b = 'BA_ "%s" %s abc;' % (g.group(1), g.group(2))
                    if not any(b2 == b for _, b2, _ in bads):
                        bads.append([rng.choice(later), b, "wrongvalue"])
            if fmt == "dbc" and m and ms and rng.random() < 0.3:
                # a malformed line that names an existing frame and signal but stands before the frame's definition
                first_bo = [n for n, l in enumerate(lines) if l.startswith("BO_ ")]
                before = [q for q in pos if first_bo and q <= first_bo[0]]
                if before:
                    b = rng.choice(['VAL_ {fid} {sig} x "broken";', 'BA_ "GenSigStartValue" SG_ {fid} {sig} abc;', "SG_MUL_VAL_ {fid} {sig} {sig} x-y;"])
                    b = b.replace("{fid}", m.group(1)).replace("{sig}", ms.group(1))
                    if not any(b2 == b for _, b2, _ in bads):
                        bads.append([rng.choice(before), b, "early"])
            if bads:
                yield {"op": "bad", "c": {"fmt": fmt, "text": text, "ins": bads, "bad": [b for _, b, _ in bads]}}
        else:
            n = len(text)
            ks = {rng.randrange(n + 1) for _ in range(25)} | {0, n}
            # cuts inside a token: right after a punctuation character (a lone '-' of '-m', '/' of '/f:', an open quote or bracket)
            for ch in '-/:=,"([|@':
                occ = [i + 1 for i, x in enumerate(text) if x == ch]
                ks |= set(rng.sample(occ, min(len(occ), 3)))
            ks = sorted(ks)
            for k in ks:
                yield {"op": "cut", "c": {"fmt": fmt, "text": text, "k": k}}
            if rng.random() < 0.5:
                # the same file in UTF-8 with characters outside ASCII, read with the UTF-8 import option and cut at byte positions:
                # inside every multi-byte character and at some others
                t8 = text.replace("degC", "\u00b0C").replace("rpm", "\u03a9pm").replace("frame comment", "Rahmen gr\u00f6\u00dfer").replace("sig comment", "Signal \u00b5")
                raw = t8.encode("utf-8")
                inside = [i for i, b in enumerate(raw) if 0x80 <= b < 0xC0]
                kb = set(rng.sample(inside, min(len(inside), 12))) | {rng.randrange(len(raw) + 1) for _ in range(6)}
                for k in sorted(kb):
                    yield {"op": "cut", "c": {"fmt": fmt, "text": t8, "k": k, "enc": "utf-8"}}
    if tier == "thorough" and shard == 0:
        text = gen_text(rng, "dbc")[:4000]
        for k in range(len(text) + 1):
            yield {"op": "cut", "c": {"fmt": "dbc", "text": text, "k": k}}
        text = gen_text(rng, "sym")[:4000]
        for k in range(len(text) + 1):
            yield {"op": "cut", "c": {"fmt": "sym", "text": text, "k": k}}


def neighbours(case, rng, shard, nshards):
    return []


def sig_key(s):
    return [s.start_bit, s.size, bool(s.is_little_endian), bool(s.is_signed), str(s.factor.normalize()), str(s.offset.normalize())]


def observe(case):
    c = case["c"]
    fmt = c["fmt"]
    base_db, _ = load(c["text"], fmt, c.get("enc"))
    if case["op"] == "bad":
        lines = c["text"].split("\n")
        ins = sorted(enumerate(c["ins"]), key=lambda t: t[1][0])
        out_lines = []
        where = {}
        j = 0
        for p in range(len(lines) + 1):
            while j < len(ins) and ins[j][1][0] == p:
                where[ins[j][0]] = len(out_lines) + 1      # 1-based line number in the modified file
                out_lines.append(ins[j][1][1])
                j += 1
            if p < len(lines):
                out_lines.append(lines[p])
        try:
            db, out = load("\n".join(out_lines), fmt)
        except Exception as e:  # noqa
            return {"raised": True, "same": False, "exc": type(e).__name__ + ": " + str(e)[:100]}
        same = M.normal_form(db, "all") == M.normal_form(base_db, "all")
        r = {"raised": False, "same": same}
        if fmt == "dbc":
            # attribute the messages by the echoed line text: the reader's line counter is clobbered by the loop
            # variable of its VAL_ handler, so the printed numbers are unreliable
            echoed = re.findall(r"error with line no: \d+\n(b'.*?'|b\".*?\")\n", out)
            texts = set()
            for e in echoed:
                try:
                    texts.add(eval(e).decode("iso-8859-1").strip())
                except Exception:  # noqa
                    pass
            # (whether a line that refers to a frame not yet defined is echoed depends on the handler: not compared)
            r["printed"] = [c["ins"][i][2] != "early" and c["ins"][i][1].strip() in texts for i in range(len(c["ins"]))]
        else:
            r["errors"] = len(db.load_errors) - len(base_db.load_errors)
            r["expected_errors"] = sum(1 for _, _, kind in c["ins"] if kind != "unknown")
        return r
    k = c["k"]
    enc = c.get("enc")
    data = c["text"].encode(enc or "iso-8859-1")[:k]
    if enc:
        k = len(data.decode(enc, "ignore"))       # the cut in characters of the text (a partial character does not count)
    try:
        db, out = load(data, fmt, enc)
    except Exception as e:  # noqa
        return {"raised": True, "kept": False, "exc": type(e).__name__ + ": " + str(e)[:100]}
    # which frames / signals are defined wholly before the cut
    kept = True
    missing = None
    text = c["text"]
    if fmt == "dbc":
        for fr in base_db.frames:
            mo = re.search(r"^BO_ %d [^\n]*\n" % fr.arbitration_id.to_compound_integer(), text, re.M)
            if not mo or mo.end() > k:
                continue
            g = db.frame_by_id(fr.arbitration_id)
            if g is None:
                kept, missing = False, "frame %x" % fr.arbitration_id.id
                break
            off = mo.end()
            for idx, s in enumerate(fr.signals):
                ms = re.compile(r" SG_ [^\n]*\n").match(text, off)
                if not ms or ms.end() > k:
                    break
                off = ms.end()
                if idx >= len(g.signals) or sig_key(g.signals[idx]) != sig_key(s):
                    kept, missing = False, "signal %d of frame %x" % (idx, fr.arbitration_id.id)
                    break
            if not kept:
                break
    else:
        for fr in base_db.frames:
            mo = re.search(r"^\[%s\]\n(?:[^\n\[]*\n)*?ID=[0-9A-Fa-f]+h[^\n]*\n" % re.escape(fr.name), text, re.M)
            if not mo or mo.end() > k:
                continue
            # frame header incl. ID line complete: the frame must exist once at least one more complete line follows
            blk = re.compile(r"(?:[^\n\[]+\n)*").match(text, mo.end())
            if blk.end() > k:
                continue
            g = db.frame_by_id(fr.arbitration_id)
            if g is None:
                kept, missing = False, "frame %s" % fr.name
                break
    return {"raised": False, "kept": kept, "missing": missing}


def project(impl):
    if "kept" in impl:
        return {"raised": impl["raised"], "kept": impl["kept"]}
    r = {"raised": impl["raised"], "same": impl["same"]}
    if "printed" in impl:
        r["printed"] = impl["printed"]
    if "errors" in impl:
        r["errors"] = impl["errors"]
    return r


def features(case, impl):
    yield "op=%s/%s%s" % (case["op"], case["c"]["fmt"], "/utf-8" if case["c"].get("enc") else "")
    if case["op"] == "bad":
        for _, b, kind in case["c"]["ins"]:
            yield "fault=" + kind
        if impl.get("printed"):
            yield "error-printed" if any(impl["printed"]) else "silent"
    if impl.get("raised"):
        yield "RAISED"


def nontrivial(case, impl):
    return True
