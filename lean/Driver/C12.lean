import Driver.J
import CanVerif.Model.Copy
import CanVerif.Spec.CopySpec
open Lean CanVerif

namespace D12

def attrsOf (j : Json) : Except String Attrs := do
  (← J.arr j).mapM fun kv => do pure ((← J.str (← J.idx kv 0)), (← J.str (← J.idx kv 1)))
def optStr (j : Json) : Except String (Option String) := if J.isNull j then pure none else some <$> J.str j
def defsOf (j : Json) : Except String Defs := do
  (← J.arr j).mapM fun d => do
    pure ((← J.str (← J.idx d 0)), ({ definition := ← J.str (← J.idx d 1), kind := ← J.str (← J.idx d 2),
                                       values := ← J.strList (← J.idx d 3), default := ← optStr (← J.idx d 4) } : Define))
def ecuOf (j : Json) : Except String CEcu := do
  pure { name := ← J.str (← J.idx j 0), body := ← J.str (← J.idx j 1), attrs := ← attrsOf (← J.idx j 2) }
def sigOf (j : Json) : Except String CSig := do
  pure { name := ← J.str (← J.idx j 0), body := ← J.str (← J.idx j 1), receivers := ← J.strList (← J.idx j 2), attrs := ← attrsOf (← J.idx j 3) }
def frameOf (j : Json) : Except String CFrame := do
  pure { id := ← J.nat (← J.idx j 0), ext := ← J.bool (← J.idx j 1), name := ← J.str (← J.idx j 2), body := ← J.str (← J.idx j 3),
         transmitters := ← J.strList (← J.idx j 4), attrs := ← attrsOf (← J.idx j 5), sigs := ← (← J.arr (← J.idx j 6)).mapM sigOf }
def matOf (j : Json) : Except String CMat := do
  pure { ecus := ← (← J.arr (← J.key j "ecus")).mapM ecuOf, frames := ← (← J.arr (← J.key j "frames")).mapM frameOf,
         freeSigs := ← (← J.arr (← J.key j "free")).mapM sigOf,
         frameDefs := ← defsOf (← J.key j "fd"), sigDefs := ← defsOf (← J.key j "sd"), ecuDefs := ← defsOf (← J.key j "ed") }

def attrsJ (a : Attrs) : Json := J.ofList (a.map fun kv => J.ofList [Json.str kv.1, Json.str kv.2])
def defsJ (d : Defs) : Json := J.ofList (d.map fun kv =>
  J.ofList [Json.str kv.1, Json.str kv.2.definition, Json.str kv.2.kind, J.ofStrList kv.2.values,
            match kv.2.default with | some v => Json.str v | none => .null])
def sigJ (s : CSig) : Json := J.ofList [Json.str s.name, Json.str s.body, J.ofStrList s.receivers, attrsJ s.attrs]
def matJ (m : CMat) : Json :=
  J.obj [("ecus", J.ofList (m.ecus.map fun e => J.ofList [Json.str e.name, Json.str e.body, attrsJ e.attrs])),
         ("frames", J.ofList (m.frames.map fun f => J.ofList [J.ofNat f.id, Json.bool f.ext, Json.str f.name, Json.str f.body,
            J.ofStrList f.transmitters, attrsJ f.attrs, J.ofList (f.sigs.map sigJ)])),
         ("free", J.ofList (m.freeSigs.map sigJ)),
         ("fd", defsJ m.frameDefs), ("sd", defsJ m.sigDefs), ("ed", defsJ m.ecuDefs)]

def toSpecD (d : Defs) : List SpecCopy.D :=
  d.map fun kv => { name := kv.1, definition := kv.2.definition, kind := kv.2.kind, values := kv.2.values, default := kv.2.default }
def toSpecS (s : CSig) : SpecCopy.S := { name := s.name, body := s.body, receivers := s.receivers, attrs := s.attrs }
def toSpec (m : CMat) : SpecCopy.M :=
  { ecus := m.ecus.map fun e => { name := e.name, body := e.body, attrs := e.attrs },
    frames := m.frames.map fun f => { id := f.id, ext := f.ext, name := f.name, body := f.body, transmitters := f.transmitters,
                                      attrs := f.attrs, sigs := f.sigs.map toSpecS },
    free := m.freeSigs.map toSpecS, fd := toSpecD m.frameDefs, sd := toSpecD m.sigDefs, ed := toSpecD m.ecuDefs }

/-- op "copy": c = {"src": m, "tgt": m, "req": [...]}; impl i = {"res": bool|null|"raised", "tgt": m, "src": m} -/
def handle (op : String) (c i : Json) : Except String (Json × String) := do
  match op with
  | "copy" =>
    let src ← matOf (← J.key c "src")
    let tgt ← matOf (← J.key c "tgt")
    let req ← J.key c "req"
    let kind ← J.str (← J.idx req 0)
    let itgt ← matOf (← J.key i "tgt")
    let isrc ← matOf (← J.key i "src")
    let ires := J.keyD i "res" .null
    let srcUnchanged := isrc == src
    match kind with
    | "frame" =>
      let id ← J.nat (← J.idx req 1)
      let ext ← J.bool (← J.idx req 2)
      let (m, res) := match copyFrame src tgt id ext with
        | some (t, b) => (t, Json.bool b)
        | none => (tgt, Json.str "raised")
      let mj := J.obj [("res", res), ("tgt", matJ m), ("src", matJ src)]
      let s := if !srcUnchanged then "fail: the source matrix was modified by the copy"
        else match ires with
        | .bool b => if SpecCopy.copyFrameOk (toSpec src) (toSpec tgt) id ext b (toSpec itgt) then "ok"
                     else "fail: copy_frame did not carry the frame over completely or disturbed the target"
        | _ => if (src.frameById id ext).isNone then "ok" else "fail: copy_frame raised"
      pure (mj, s)
    | "merge" =>
      let m := mergeInto tgt src
      let mj := J.obj [("res", .null), ("tgt", matJ m), ("src", matJ src)]
      let s := if !srcUnchanged then "fail: the source matrix was modified by the merge"
        else if SpecCopy.mergeOk (toSpec src) (toSpec tgt) (toSpec itgt) then "ok"
        else "fail: merge did not apply the frame rule to every frame or disturbed the target"
      pure (mj, s)
    | "ecuframes" =>
      let pat ← J.str (← J.idx req 1)
      let rx ← J.bool (← J.idx req 2)
      let tx ← J.bool (← J.idx req 3)
      let direct ← J.bool (← J.idx req 4)
      let m := copyEcuWithFrames src tgt pat rx tx direct
      let mj := J.obj [("res", .null), ("tgt", matJ m), ("src", matJ src)]
      let s := if !srcUnchanged then "fail: the source matrix was modified by the copy"
        else if SpecCopy.copyEcuFramesOk (toSpec src) (toSpec tgt) pat rx tx (toSpec itgt) then "ok"
        else "fail: copy_ecu_with_frames did not copy exactly the frames the ECU sends/receives"
      pure (mj, s)
    | "signal" =>
      let pat ← J.str (← J.idx req 1)
      let m := copySignal src tgt pat
      let mj := J.obj [("res", .null), ("tgt", matJ m), ("src", matJ src)]
      pure (mj, if srcUnchanged then "ok" else "fail: the source matrix was modified by the copy")
    | _ => throw s!"unknown request {kind}"
  | _ => throw s!"C12: unknown op {op}"

end D12
