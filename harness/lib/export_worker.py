"""run as a subprocess under a given PYTHONHASHSEED: reads a JSON list of matrix descriptions on stdin, prints one JSON line:
{writer-key: [sha256 of the export of each matrix]}
or reads {"ms": [descriptions], "order": [[configuration key, matrix index], ...]} and makes the exports in that order (the export
history of this process); same output, over all configurations of c14.CONFIGS"""
import hashlib
import json
import os
import sys

sys.path.insert(0, os.path.dirname(os.path.dirname(os.path.abspath(__file__))))
from lib import matrices as M  # noqa: E402
from props import c14  # noqa: E402


def one(d, fmt, opts):
    try:
        db = c14.build(d)
        return hashlib.sha256(M.export_bytes(db, fmt, **opts)).hexdigest()
    except Exception as e:  # noqa
        return "EXC:" + type(e).__name__


job = json.load(sys.stdin)
out = {}
if isinstance(job, list):
    for key, (fmt, opts) in c14.WRITERS.items():
        out[key] = [one(d, fmt, opts) for d in job]
else:
    descs = job["ms"]
    out = {key: [None] * len(descs) for key in c14.CONFIGS}
    for key, k in job["order"]:
        fmt, opts = c14.CONFIGS[key]
        out[key][k] = one(descs[k], fmt, opts)
print(json.dumps(out))
