import CanVerif.Model.DbcText
import CanVerif.Spec.DbcRT
import CanVerif.Proofs.Num
/-! helper lemmas for Props/C05.lean (tokenizer round trips on `List Char`) -/
namespace CanVerif.Dbc
open CanVerif CanVerif.Num

/-! ## string literals of the model as explicit lists -/

theorem lit_sgLead : " SG_ ".toList = [' ', 'S', 'G', '_', ' '] := by decide
theorem lit_colon : ": ".toList = [':', ' '] := by decide
theorem lit_paren : " (".toList = [' ', '('] := by decide
theorem lit_brack : ") [".toList = [')', ' ', '['] := by decide
theorem lit_quote : "] \"".toList = [']', ' ', '"'] := by decide
theorem lit_quote2 : "\" ".toList = ['"', ' '] := by decide
theorem lit_M : "M ".toList = ['M', ' '] := by decide
theorem lit_bo : "BO_ ".toList = ['B', 'O', '_', ' '] := by decide
theorem lit_sg : "SG_ ".toList = ['S', 'G', '_', ' '] := by decide
theorem lit_vec : " Vector__XXX".toList = [' ', 'V', 'e', 'c', 't', 'o', 'r', '_', '_', 'X', 'X', 'X'] := by decide

/-! ## character classes -/

theorem isDigit_iff (c : Char) : isDigit c = true ↔ IsDig c := by
  rw [isDig_iff]; simp [isDigit]

theorem isDigit_of_isDig {c : Char} (h : IsDig c) : isDigit c = true := (isDigit_iff c).mpr h

theorem isNumChar_of_isDig {c : Char} (h : IsDig c) : isNumChar c = true := by
  simp [isNumChar, isDigit_of_isDig h]

theorem isBlank_cases {c : Char} (h : isBlank c = true) :
    c = ' ' ∨ c = '\t' ∨ c = '\n' ∨ c = '\r' ∨ c = '\x0b' ∨ c = '\x0c' := by
  simp [isBlank, isWs] at h
  simpa only [or_assoc] using h

theorem isWs_isBlank {c : Char} (h : isWs c = true) : isBlank c = true := by
  simp [isBlank, h]

theorem identChar_not_blank {c : Char} (h : isIdentChar c = true) : isBlank c = false := by
  cases hb : isBlank c with
  | false => rfl
  | true =>
    exfalso
    rcases isBlank_cases hb with rfl | rfl | rfl | rfl | rfl | rfl <;> revert h <;> decide

theorem identChar_not_ws {c : Char} (h : isIdentChar c = true) : isWs c = false := by
  cases hb : isWs c with
  | false => rfl
  | true => have := isWs_isBlank hb; rw [identChar_not_blank h] at this; cases this

theorem identChar_ne_space {c : Char} (h : isIdentChar c = true) : c ≠ ' ' := by
  rintro rfl; revert h; decide
theorem identChar_ne_colon {c : Char} (h : isIdentChar c = true) : c ≠ ':' := by
  rintro rfl; revert h; decide
theorem identChar_ne_comma {c : Char} (h : isIdentChar c = true) : c ≠ ',' := by
  rintro rfl; revert h; decide
theorem identChar_ne_quote {c : Char} (h : isIdentChar c = true) : c ≠ '"' := by
  rintro rfl; revert h; decide

theorem isIdent_ne_nil {s : Str} (h : isIdent s = true) : s ≠ [] := by
  rintro rfl; revert h; decide

theorem isIdent_all {s : Str} (h : isIdent s = true) : ∀ c ∈ s, isIdentChar c = true := by
  simp [isIdent] at h
  exact h.2

theorem isDig_identChar {c : Char} (h : IsDig c) : isIdentChar c = true := by
  simp [isIdentChar, isDigit_of_isDig h]


/-! ## numbers -/

theorem reread_spec (d : Dec) : strToDec (formatFloat d) = some (reread d) := by
  unfold reread
  rcases strToDec_formatFloat' d with h | ⟨_, _, h⟩ <;> rw [h] <;> rfl

theorem reread_cases' (d : Dec) :
    reread d = d ∨ (d.exp = -1 ∧ d.coeff % 10 = 0 ∧ reread d = ⟨d.neg, d.coeff / 10, 0⟩) := by
  unfold reread
  rcases strToDec_formatFloat' d with h | ⟨h1, h2, h⟩
  · left; rw [h]; rfl
  · right; refine ⟨h1, h2, ?_⟩; rw [h]; rfl

/-- the shape of `formatFloat d`: sign, integer digits, optional fraction, optional exponent -/
theorem formatFloat_shape (d : Dec) : ∃ ip fp ex, AllDig ip ∧ AllDig fp ∧ ip ≠ [] ∧
    (ex = [] ∨ ∃ sg ds, ex = 'E' :: sg :: ds ∧ (sg = '-' ∨ sg = '+') ∧ AllDig ds) ∧
    formatFloat d = signStr d.neg ++ ip ++ dotStr fp ++ ex := by
  obtain ⟨ip, fp, e, h1, h2, h3, h4, h5, h6⟩ := decToStr_shape d
  have hm : ∀ x ∈ signStr d.neg ++ ip ++ dotStr fp, x ≠ 'E' := by
    intro x hx
    rcases List.mem_append.mp hx with hx | hx
    · rcases List.mem_append.mp hx with hx | hx
      · exact signStr_ne_E d.neg x hx
      · exact (h1 x hx).ne_E
    · exact dotStr_ne_E fp h2 x hx
  rw [formatFloat_eq]
  split
  · rename_i hc
    rw [h6] at hc ⊢
    obtain ⟨he, hfp⟩ := endsDot0_shape d.neg ip fp e h1 h2 hc.2
    subst he hfp
    have hx : signStr d.neg ++ ip ++ dotStr ['0'] ++ expStr 0 = (signStr d.neg ++ ip) ++ ['.', '0'] := by
      simp [dotStr, expStr]
    rw [hx, List.take_left' (by simp; omega)]
    refine ⟨ip, [], [], h1, by intro c hc; simp at hc, h3, Or.inl rfl, ?_⟩
    rw [padExp_noE]
    · simp [dotStr]
    · intro x hx
      rcases List.mem_append.mp hx with hx | hx
      · exact signStr_ne_E d.neg x hx
      · exact (h1 x hx).ne_E
  · rw [h6]
    by_cases he : e = 0
    · have hx : expStr e = [] := by simp [expStr, he]
      rw [hx, List.append_nil, padExp_noE _ hm]
      exact ⟨ip, fp, [], h1, h2, h3, Or.inl rfl, by simp⟩
    · have hx : expStr e = 'E' :: (if e < 0 then '-' else '+') :: natDigits e.natAbs := by simp [expStr, he]
      rw [hx, padExp_E _ _ _ hm]
      refine ⟨ip, fp, _, h1, h2, h3, Or.inr ⟨_, _, rfl, ?_, ?_⟩, rfl⟩
      · split <;> simp
      · exact allDig_append (allDig_replicate _) (natDigits_allDig _)

theorem formatFloat_ne_nil (d : Dec) : formatFloat d ≠ [] := by
  obtain ⟨ip, fp, ex, _, _, h3, _, h⟩ := formatFloat_shape d
  rw [h]
  intro hn
  simp at hn
  exact h3 hn.2.1

theorem formatFloat_numChars (d : Dec) : ∀ c ∈ formatFloat d, isNumChar c = true := by
  obtain ⟨ip, fp, ex, h1, h2, _, h4, h⟩ := formatFloat_shape d
  rw [h]
  intro c hc
  simp only [List.mem_append] at hc
  rcases hc with ((hc | hc) | hc) | hc
  · cases hn : d.neg <;> simp [signStr, hn] at hc
    subst hc; decide
  · exact isNumChar_of_isDig (h1 c hc)
  · unfold dotStr at hc
    split at hc
    · simp at hc
    · rcases List.mem_cons.mp hc with rfl | hc
      · decide
      · exact isNumChar_of_isDig (h2 c hc)
  · rcases h4 with rfl | ⟨sg, ds, rfl, hsg, hds⟩
    · simp at hc
    · rcases List.mem_cons.mp hc with rfl | hc
      · decide
      · rcases List.mem_cons.mp hc with rfl | hc
        · rcases hsg with rfl | rfl <;> decide
        · exact isNumChar_of_isDig (hds c hc)

/-! ## tokenizer pieces -/

theorem skipSp_space (r : Str) : skipSp (' ' :: r) = skipSp r := by
  simp [skipSp]

theorem skipSp_of_ne (c : Char) (r : Str) (h : c ≠ ' ') : skipSp (c :: r) = c :: r := by
  simp [skipSp, h]

theorem skipSp_append_of (a r : Str) (c : Char) (h : (a ++ r).head? = some c) (hc : c ≠ ' ') :
    skipSp (a ++ r) = a ++ r := by
  cases hx : a ++ r with
  | nil => rfl
  | cons x t =>
    rw [hx] at h; simp at h; subst h
    exact skipSp_of_ne x t hc

theorem natThen_of_span (stop : Char) (s ds r : Str) (hne : ds ≠ []) (h : s.span isDigit = (ds, stop :: r)) :
    natThen stop s = (digitsToNat ds).map (·, r) := by
  unfold natThen
  rw [h]
  cases ds with
  | nil => exact absurd rfl hne
  | cons a t => simp

theorem natThen_natDigits (stop : Char) (n : Nat) (r : Str) (hs : isDigit stop = false) :
    natThen stop (natDigits n ++ stop :: r) = some (n, r) := by
  rw [natThen_of_span stop _ (natDigits n) r (natDigits_ne_nil n), digitsToNat_natDigits']
  · rfl
  · exact span_append_of isDigit _ _ (fun c hc => isDigit_of_isDig (natDigits_allDig n c hc))
      (Or.inr ⟨_, _, rfl, hs⟩)

theorem numThen_of_span (stop : Char) (s ds r : Str) (hne : ds ≠ []) (h : s.span isNumChar = (ds, stop :: r)) :
    numThen stop s = (strToDec ds).map (·, r) := by
  unfold numThen
  rw [h]
  cases ds with
  | nil => exact absurd rfl hne
  | cons a t => simp

theorem numThen_formatFloat (stop : Char) (d : Dec) (r : Str) (hs : isNumChar stop = false) :
    numThen stop (formatFloat d ++ stop :: r) = some (reread d, r) := by
  rw [numThen_of_span stop _ (formatFloat d) r (formatFloat_ne_nil d), reread_spec]
  · rfl
  · exact span_append_of isNumChar _ _ (formatFloat_numChars d) (Or.inr ⟨_, _, rfl, hs⟩)


/-! ## receivers: `splitOn ',' ∘ joinComma` -/

theorem splitOn_go_append (a cur rest : Str) (h : ∀ c ∈ a, c ≠ ',') :
    splitOn.go ',' cur (a ++ rest) = splitOn.go ',' (a.reverse ++ cur) rest := by
  induction a generalizing cur with
  | nil => rfl
  | cons x a ih =>
    have hx : (x == ',') = false := by simpa using h x (by simp)
    simp only [List.cons_append, splitOn.go, hx]
    rw [ih (x :: cur) (fun c hc => h c (by simp [hc]))]
    simp

theorem splitOn_go_joinComma (a : Str) (rs : List Str) (cur : Str)
    (h : ∀ r ∈ a :: rs, ∀ c ∈ r, c ≠ ',') :
    splitOn.go ',' cur (joinComma (a :: rs)) = (cur.reverse ++ a) :: rs := by
  induction rs generalizing a cur with
  | nil =>
    have := splitOn_go_append a cur [] (h a (by simp))
    simp only [List.append_nil] at this
    simp [joinComma, this, splitOn.go]
  | cons b rs ih =>
    simp only [joinComma]
    rw [splitOn_go_append a cur _ (h a (by simp))]
    simp only [splitOn.go, beq_self_eq_true, if_true]
    rw [ih b [] (fun r hr => h r (List.mem_cons_of_mem _ hr))]
    simp

theorem splitOn_joinComma (rs : List Str) (hne : rs ≠ []) (h : ∀ r ∈ rs, ∀ c ∈ r, c ≠ ',') :
    splitOn ',' (joinComma rs) = rs := by
  cases rs with
  | nil => exact absurd rfl hne
  | cons a rs =>
    unfold splitOn
    rw [splitOn_go_joinComma a rs [] h]
    simp

/-! ## `stripWs` -/

theorem stripWs_id (s : Str) (a b : Char) (h1 : s.head? = some a) (h2 : s.getLast? = some b)
    (ha : isWs a = false) (hb : isWs b = false) : stripWs s = s := by
  unfold stripWs
  have e1 : s.dropWhile isWs = s := by
    cases s with
    | nil => rfl
    | cons x t => simp at h1; subst h1; simp [ha]
  rw [e1]
  have e2 : s.reverse.dropWhile isWs = s.reverse := by
    have : s.reverse.head? = some b := by rw [List.head?_reverse]; exact h2
    cases hr : s.reverse with
    | nil => rfl
    | cons x t => rw [hr] at this; simp at this; subst this; simp [hb]
  rw [e2, List.reverse_reverse]

theorem stripWs_drop_ws (c : Char) (s : Str) (hc : isWs c = true) : stripWs (c :: s) = stripWs s := by
  simp [stripWs, hc]

/-- a string that ends with an identifier character -/
def LastOK (s : Str) : Prop := ∃ c, s.getLast? = some c ∧ isIdentChar c = true

theorem LastOK.append (a : Str) {b : Str} (h : LastOK b) : LastOK (a ++ b) := by
  obtain ⟨c, hc, hi⟩ := h
  refine ⟨c, ?_, hi⟩
  rw [List.getLast?_append, hc]; rfl

theorem LastOK.cons (a : Char) {b : Str} (h : LastOK b) : LastOK (a :: b) :=
  LastOK.append [a] h

theorem LastOK.of_isIdent {s : Str} (h : isIdent s = true) : LastOK s := by
  have hne := isIdent_ne_nil h
  refine ⟨s.getLast hne, List.getLast?_eq_some_getLast hne, isIdent_all h _ (List.getLast_mem hne)⟩

theorem LastOK.joinComma (rs : List Str) (hne : rs ≠ []) (h : ∀ r ∈ rs, isIdent r = true) :
    LastOK (joinComma rs) := by
  induction rs with
  | nil => exact absurd rfl hne
  | cons a rs ih =>
    cases rs with
    | nil => exact LastOK.of_isIdent (h a (by simp))
    | cons b rs =>
      simp only [Dbc.joinComma]
      exact LastOK.append a (LastOK.cons ',' (ih (by simp) (fun r hr => h r (List.mem_cons_of_mem _ hr))))

theorem LastOK.ne_quote {s : Str} (h : LastOK s) : ¬ (s.getLast? = some '"') := by
  obtain ⟨c, hc, hi⟩ := h
  intro hq
  rw [hc] at hq
  injection hq with hq
  exact identChar_ne_quote hi hq

theorem stripWs_id_of (s : Str) (a : Char) (h1 : s.head? = some a) (ha : isWs a = false) (hl : LastOK s) :
    stripWs s = s := by
  obtain ⟨b, hb, hi⟩ := hl
  exact stripWs_id s a b h1 hb ha (identChar_not_ws hi)

theorem stripWs_ident {s : Str} (h : isIdent s = true) : stripWs s = s := by
  have hne := isIdent_ne_nil h
  cases s with
  | nil => exact absurd rfl hne
  | cons a t =>
    exact stripWs_id_of _ a rfl (identChar_not_ws (isIdent_all h a (by simp))) (LastOK.of_isIdent h)


/-! ## the `SG_` statement -/

theorem skipSp_of_head (s : Str) (c : Char) (h : s.head? = some c) (hc : c ≠ ' ') : skipSp s = s := by
  cases s with
  | nil => rfl
  | cons x t => simp at h; subst h; exact skipSp_of_ne x t hc

theorem skipSp_natDigits (n : Nat) (r : Str) : skipSp (natDigits n ++ r) = natDigits n ++ r := by
  obtain ⟨a, t, h⟩ := List.exists_cons_of_ne_nil (natDigits_ne_nil n)
  have ha : IsDig a := natDigits_allDig n a (by rw [h]; simp)
  rw [h]
  exact skipSp_of_ne a _ (by rintro rfl; revert ha; unfold IsDig; decide)

theorem skipSp_formatFloat (d : Dec) (r : Str) : skipSp (formatFloat d ++ r) = formatFloat d ++ r := by
  obtain ⟨a, t, h⟩ := List.exists_cons_of_ne_nil (formatFloat_ne_nil d)
  have ha : isNumChar a = true := formatFloat_numChars d a (by rw [h]; simp)
  rw [h]
  exact skipSp_of_ne a _ (by rintro rfl; revert ha; decide)

theorem skipSp_joinComma (rs : List Str) (hne : rs ≠ []) (h : ∀ r ∈ rs, isIdent r = true) :
    skipSp (joinComma rs) = joinComma rs := by
  cases rs with
  | nil => exact absurd rfl hne
  | cons a rs =>
    have ha := h a (by simp)
    obtain ⟨x, t, hx⟩ := List.exists_cons_of_ne_nil (isIdent_ne_nil ha)
    have hxi : isIdentChar x = true := isIdent_all ha x (by rw [hx]; simp)
    cases rs with
    | nil => simp only [joinComma]; rw [hx]; exact skipSp_of_ne x _ (identChar_ne_space hxi)
    | cons b rs => simp only [joinComma]; rw [hx]; exact skipSp_of_ne x _ (identChar_ne_space hxi)

theorem span_one (p : Char → Bool) (a b : Char) (r : Str) (ha : p a = true) (hb : p b = false) :
    (a :: b :: r).span p = ([a], b :: r) :=
  span_append_of p [a] (b :: r) (by intro c hc; simp at hc; subst hc; exact ha) (Or.inr ⟨_, _, rfl, hb⟩)

/-- the part of a rendered `SG_` line from the colon on -/
def sgTail (s : SgLine) : Str :=
  ':' :: ' ' :: (natDigits s.start ++ '|' :: (natDigits s.size ++ '@' :: (if s.little then '1' else '0') ::
    (if s.signed then '-' else '+') :: ' ' :: '(' :: (formatFloat s.factor ++ ',' :: (formatFloat s.offset ++
    ')' :: ' ' :: '[' :: (formatFloat s.min ++ '|' :: (formatFloat s.max ++ ']' :: ' ' :: '"' :: (s.unit ++
    '"' :: ' ' :: joinComma s.receivers)))))))

theorem renderSg_eq (s : SgLine) :
    renderSg s = ' ' :: 'S' :: 'G' :: '_' :: ' ' :: (s.name ++ ' ' :: (renderTag s.tag ++ sgTail s)) := by
  unfold renderSg sgTail
  rw [lit_sgLead, lit_colon, lit_paren, lit_brack, lit_quote, lit_quote2]
  simp only [List.append_assoc, List.cons_append, List.nil_append]

theorem parseSgTail_sgTail (name : Str) (tag : Tag) (cs : Bool) (s : SgLine)
    (hu : ∀ c ∈ s.unit, c ≠ '"') (hne : s.receivers ≠ []) (hr : ∀ r ∈ s.receivers, isIdent r = true) :
    parseSgTail name tag cs (' ' :: sgTail s) = some { rereadSg s with name := name, tag := tag } := by
  have hspanU : ∀ r, (s.unit ++ '"' :: r).span (· != '"') = (s.unit, '"' :: r) := fun r =>
    span_append_of _ _ _ (by intro c hc; simpa using hu c hc) (Or.inr ⟨_, _, rfl, by decide⟩)
  have hsplit : (splitOn ',' (joinComma s.receivers)).map stripWs = s.receivers := by
    rw [splitOn_joinComma _ hne (fun r hr' c hc => identChar_ne_comma (isIdent_all (hr r hr') c hc))]
    conv => rhs; rw [← List.map_id s.receivers]
    exact List.map_congr_left (fun r hr' => stripWs_ident (hr r hr'))
  unfold parseSgTail sgTail
  rw [skipSp_space, skipSp_of_ne ':' _ (by decide)]
  simp only [skipSp_space, skipSp_natDigits]
  rw [natThen_natDigits '|' _ _ (by decide)]
  simp only [Option.bind_some]
  rw [natThen_natDigits '@' _ _ (by decide)]
  simp only [Option.bind_some]
  cases hl : s.little <;> cases hsg : s.signed <;>
    simp only [if_true, if_false, Bool.false_eq_true] <;>
    rw [span_one isDigit _ _ _ (by decide) (by decide)] <;>
    simp only []
  all_goals
    simp only [show ('+' != '+' && '+' != '-' && '+' != '|') = false by decide,
      show ('-' != '+' && '-' != '-' && '-' != '|') = false by decide,
      show digitsToNat ['0'] = some 0 by decide, show digitsToNat ['1'] = some 1 by decide,
      Bool.false_eq_true, if_false, Option.bind_some, skipSp_space, skipSp_of_ne '(' _ (by decide),
      numThen_formatFloat ',' _ _ (by decide), numThen_formatFloat ')' _ _ (by decide),
      numThen_formatFloat '|' _ _ (by decide), numThen_formatFloat ']' _ _ (by decide),
      skipSp_formatFloat, ite_self, skipSp_of_ne '[' _ (by decide), skipSp_of_ne '"' _ (by decide),
      hspanU, skipSp_joinComma _ hne hr, hsplit]
  all_goals simp [rereadSg, hl, hsg]


theorem LastOK.sgTail (s : SgLine) (hne : s.receivers ≠ []) (hr : ∀ r ∈ s.receivers, isIdent r = true) :
    LastOK (sgTail s) := by
  unfold Dbc.sgTail
  repeat (first | apply LastOK.cons | apply LastOK.append)
  exact LastOK.joinComma _ hne hr

theorem parseTag_muxer : parseTag ['M'] = some .muxer := by simp [parseTag]

theorem parseTag_val (k : Nat) : parseTag ('m' :: natDigits k) = some (.val k) := by
  have hne := natDigits_ne_nil k
  have hlast : ¬ ((natDigits k).getLast? = some 'M') := by
    intro h
    have hm : 'M' ∈ natDigits k := List.mem_of_getLast? h
    have := natDigits_allDig k _ hm
    revert this; unfold IsDig; decide
  have he : (natDigits k).isEmpty = false := by cases h : natDigits k <;> simp_all
  simp [parseTag, hlast, he, digitsToNat_natDigits']

theorem parseTag_valMuxer (k : Nat) : parseTag ('m' :: (natDigits k ++ ['M'])) = some (.valMuxer k) := by
  have hne := natDigits_ne_nil k
  have he : (natDigits k).isEmpty = false := by cases h : natDigits k <;> simp_all
  simp [parseTag, he, digitsToNat_natDigits']


theorem skipSp_ident (a r : Str) (h : isIdent a = true) : skipSp (a ++ r) = a ++ r := by
  obtain ⟨x, t, hx⟩ := List.exists_cons_of_ne_nil (isIdent_ne_nil h)
  have hxi : isIdentChar x = true := isIdent_all h x (by rw [hx]; simp)
  rw [hx]
  exact skipSp_of_ne x _ (identChar_ne_space hxi)

theorem span_name (name rest : Str) (h : isIdent name = true) :
    (name ++ ' ' :: rest).span (fun c => !isBlank c && c != ':') = (name, ' ' :: rest) := by
  apply span_append_of
  · intro c hc
    have hi := isIdent_all h c hc
    simp [identChar_not_blank hi, identChar_ne_colon hi]
  · exact Or.inr ⟨_, _, rfl, by decide⟩

theorem parseSg_plain (name : Str) (s : SgLine) (hname : isIdent name = true)
    (hu : ∀ c ∈ s.unit, c ≠ '"') (hne : s.receivers ≠ []) (hr : ∀ r ∈ s.receivers, isIdent r = true) :
    parseSg ('S' :: 'G' :: '_' :: ' ' :: (name ++ ' ' :: sgTail s)) =
      some { rereadSg s with name := name, tag := .none } := by
  have hlast : LastOK ('S' :: 'G' :: '_' :: ' ' :: (name ++ ' ' :: sgTail s)) := by
    repeat (first | apply LastOK.cons | apply LastOK.append)
    exact LastOK.joinComma _ hne hr
  have hq : (('S' :: 'G' :: '_' :: ' ' :: (name ++ ' ' :: sgTail s)).getLast? == some '"') = false := by
    simpa using hlast.ne_quote
  obtain ⟨x, t, hx⟩ := List.exists_cons_of_ne_nil (isIdent_ne_nil hname)
  obtain ⟨tl, htl⟩ : ∃ tl, sgTail s = ':' :: tl := ⟨_, rfl⟩
  subst hx
  unfold parseSg
  rw [lit_sg, lit_vec]
  simp only [hq, Bool.false_eq_true, if_false]
  simp only [startsWith, List.take, List.length, List.drop, skipSp_space, skipSp_ident _ _ hname,
    span_name _ _ hname, beq_self_eq_true, Bool.not_true]
  rw [htl]
  simp only [skipSp_of_ne ':' _ (by decide)]
  rw [← htl]
  exact parseSgTail_sgTail _ _ _ s hu hne hr


theorem parseSg_tagged (name : Str) (c0 : Char) (tk : Str) (tag : Tag) (s : SgLine) (hname : isIdent name = true)
    (htok : ∀ c ∈ c0 :: tk, (!isBlank c && c != ':') = true) (hpt : parseTag (c0 :: tk) = some tag)
    (hu : ∀ c ∈ s.unit, c ≠ '"') (hne : s.receivers ≠ []) (hr : ∀ r ∈ s.receivers, isIdent r = true) :
    parseSg ('S' :: 'G' :: '_' :: ' ' :: (name ++ ' ' :: ((c0 :: tk) ++ ' ' :: sgTail s))) =
      some { rereadSg s with name := name, tag := tag } := by
  have hlast : LastOK ('S' :: 'G' :: '_' :: ' ' :: (name ++ ' ' :: ((c0 :: tk) ++ ' ' :: sgTail s))) := by
    repeat (first | apply LastOK.cons | apply LastOK.append)
    exact LastOK.joinComma _ hne hr
  have hq : (('S' :: 'G' :: '_' :: ' ' :: (name ++ ' ' :: ((c0 :: tk) ++ ' ' :: sgTail s))).getLast? == some '"')
      = false := by
    simpa using hlast.ne_quote
  have hc0 := htok c0 (by simp)
  have hc0s : c0 ≠ ' ' := by rintro rfl; revert hc0; decide
  have hc0c : c0 ≠ ':' := by rintro rfl; revert hc0; decide
  have hspan : ((c0 :: tk) ++ ' ' :: sgTail s).span (fun c => !isBlank c && c != ':') = (c0 :: tk, ' ' :: sgTail s) :=
    span_append_of _ _ _ htok (Or.inr ⟨_, _, rfl, by decide⟩)
  obtain ⟨x, t, hx⟩ := List.exists_cons_of_ne_nil (isIdent_ne_nil hname)
  subst hx
  unfold parseSg
  rw [lit_sg, lit_vec]
  simp only [hq, Bool.false_eq_true, if_false]
  simp only [startsWith, List.take, List.length, List.drop, skipSp_space, skipSp_ident _ _ hname,
    span_name _ _ hname, beq_self_eq_true, Bool.not_true]
  have hskip : skipSp (c0 :: tk ++ ' ' :: sgTail s) = c0 :: (tk ++ ' ' :: sgTail s) := skipSp_of_ne c0 _ hc0s
  simp only [Bool.false_eq_true, if_false, hskip]
  split
  · rename_i heq
    injection heq with h1 h2
    exact absurd h1 hc0c
  · rw [← List.cons_append, hspan]
    simp only [hpt, Option.bind_some]
    exact parseSgTail_sgTail _ _ _ s hu hne hr


theorem tokChar_of_identChar {c : Char} (h : isIdentChar c = true) : (!isBlank c && c != ':') = true := by
  simp [identChar_not_blank h, identChar_ne_colon h]

theorem renderTag_tok (tag : Tag) (htag : tag ≠ .none) (r : Str) :
    ∃ c0 tk, renderTag tag ++ r = (c0 :: tk) ++ ' ' :: r ∧
      (∀ c ∈ c0 :: tk, (!isBlank c && c != ':') = true) ∧ parseTag (c0 :: tk) = some tag := by
  cases tag with
  | none => exact absurd rfl htag
  | muxer =>
    refine ⟨'M', [], ?_, ?_, parseTag_muxer⟩
    · unfold renderTag; rw [lit_M]; rfl
    · intro c hc; simp at hc; subst hc; decide
  | val k =>
    refine ⟨'m', natDigits k, ?_, ?_, parseTag_val k⟩
    · simp [renderTag]
    · intro c hc
      rcases List.mem_cons.mp hc with rfl | hc
      · decide
      · exact tokChar_of_identChar (isDig_identChar (natDigits_allDig k c hc))
  | valMuxer k =>
    refine ⟨'m', natDigits k ++ ['M'], ?_, ?_, parseTag_valMuxer k⟩
    · unfold renderTag; rw [lit_M]; simp
    · intro c hc
      rcases List.mem_cons.mp hc with rfl | hc
      · decide
      · rcases List.mem_append.mp hc with hc | hc
        · exact tokChar_of_identChar (isDig_identChar (natDigits_allDig k c hc))
        · simp at hc; subst hc; decide

theorem wfSg_unpack {s : SgLine} (h : wfSg s = true) :
    isIdent s.name = true ∧ (∀ c ∈ s.unit, c ≠ '"') ∧ s.receivers ≠ [] ∧ ∀ r ∈ s.receivers, isIdent r = true := by
  simp only [wfSg, Bool.and_eq_true, Bool.not_eq_true', List.all_eq_true] at h
  obtain ⟨⟨⟨⟨h1, h2⟩, _⟩, h4⟩, h5⟩ := h
  refine ⟨h1, ?_, ?_, h5⟩
  · intro c hc hq
    subst hq
    simp at h2
    exact h2 hc
  · intro hn; rw [hn] at h4; simp at h4

/-- the stripped `SG_` line -/
theorem stripWs_renderSg (s : SgLine) (hne : s.receivers ≠ []) (hr : ∀ r ∈ s.receivers, isIdent r = true) :
    stripWs (renderSg s) = 'S' :: 'G' :: '_' :: ' ' :: (s.name ++ ' ' :: (renderTag s.tag ++ sgTail s)) := by
  rw [renderSg_eq, stripWs_drop_ws ' ' _ (by decide)]
  apply stripWs_id_of _ 'S' rfl (by decide)
  repeat (first | apply LastOK.cons | apply LastOK.append)
  exact LastOK.joinComma _ hne hr

theorem parseSg_renderSg (s : SgLine) (h : wfSg s = true) :
    parseSg (stripWs (renderSg s)) = some (rereadSg s) := by
  obtain ⟨h1, h2, h3, h4⟩ := wfSg_unpack h
  rw [stripWs_renderSg s h3 h4]
  by_cases htag : s.tag = .none
  · rw [htag]
    simp only [renderTag, List.nil_append]
    rw [parseSg_plain _ s h1 h2 h3 h4, ← htag]
    rfl
  · obtain ⟨c0, tk, e, ht, hp⟩ := renderTag_tok s.tag htag (sgTail s)
    rw [e, parseSg_tagged _ c0 tk s.tag s h1 ht hp h2 h3 h4]
    rfl


/-! ## the `BO_` statement -/

theorem sps_succ (n : Nat) : sps (n + 1) = ' ' :: sps n := rfl

theorem skipSp_sps (n : Nat) (r : Str) : skipSp (sps n ++ r) = skipSp r := by
  induction n with
  | zero => rfl
  | succ n ih => rw [sps_succ, List.cons_append, skipSp_space]; exact ih

theorem skipSp_sps_cons (n : Nat) (c : Char) (r : Str) (h : c ≠ ' ') : skipSp (sps n ++ c :: r) = c :: r := by
  rw [skipSp_sps, skipSp_of_ne c r h]

theorem skipSp_sps_app (n : Nat) (a r : Str) (hne : a ≠ []) (h : ∀ c ∈ a, c ≠ ' ') :
    skipSp (sps n ++ (a ++ r)) = a ++ r := by
  obtain ⟨x, t, rfl⟩ := List.exists_cons_of_ne_nil hne
  exact skipSp_sps_cons n x _ (h x (by simp))

/-- blanks followed by a colon start with a character that ends a name -/
theorem sps_colon_stop (p : Char → Bool) (hs : p ' ' = false) (hc : p ':' = false) (n : Nat) (r : Str) :
    sps n ++ ':' :: r = [] ∨ ∃ c t, sps n ++ ':' :: r = c :: t ∧ p c = false := by
  cases n with
  | zero => exact Or.inr ⟨':', r, rfl, hc⟩
  | succ n => exact Or.inr ⟨' ', sps n ++ ':' :: r, rfl, hs⟩

/-- the `BO_` statement with any number of additional blanks between its pieces -/
theorem parseBo_lex_core (k1 k2 k3 k4 k5 : Nat) (idS name szS tx : Str) (id size : Nat)
    (hid : idS ≠ []) (hid' : ∀ c ∈ idS, c ≠ ' ')
    (hnm : name ≠ []) (hnm' : ∀ c ∈ name, c ≠ ' ' ∧ c ≠ ':')
    (hsz : szS ≠ []) (hsz' : ∀ c ∈ szS, c ≠ ' ')
    (htx : tx ≠ []) (htx' : ∀ c ∈ tx, c ≠ ' ')
    (hidv : digitsToNat idS = some id) (hszv : digitsToNat szS = some size) :
    parseBo ('B' :: 'O' :: '_' :: ' ' :: (sps k1 ++ (idS ++ ' ' :: (sps k2 ++ (name ++ (sps k3 ++ ':' ::
      (sps k4 ++ (szS ++ ' ' :: (sps k5 ++ tx))))))))) = some ⟨id, name, size, tx⟩ := by
  have s1 : ∀ r, (idS ++ ' ' :: r).span (· != ' ') = (idS, ' ' :: r) := fun r =>
    span_append_of _ _ _ (by intro c hc; simpa using hid' c hc) (Or.inr ⟨_, _, rfl, by decide⟩)
  have s2 : ∀ r, (name ++ (sps k3 ++ ':' :: r)).span (fun c => c != ' ' && c != ':') = (name, sps k3 ++ ':' :: r) :=
    fun r => span_append_of _ _ _ (by intro c hc; simpa using hnm' c hc)
      (sps_colon_stop _ (by decide) (by decide) k3 r)
  have s3 : ∀ r, (szS ++ ' ' :: r).span (· != ' ') = (szS, ' ' :: r) := fun r =>
    span_append_of _ _ _ (by intro c hc; simpa using hsz' c hc) (Or.inr ⟨_, _, rfl, by decide⟩)
  have s4 : tx.span (· != ' ') = (tx, []) := by
    have := span_append_of (· != ' ') tx [] (by intro c hc; simpa using htx' c hc) (Or.inl rfl)
    simpa using this
  have k1' : ∀ r, skipSp (sps k1 ++ (idS ++ r)) = idS ++ r := fun r => skipSp_sps_app k1 idS r hid hid'
  have k2' : ∀ r, skipSp (sps k2 ++ (name ++ r)) = name ++ r := fun r =>
    skipSp_sps_app k2 name r hnm (fun c hc => (hnm' c hc).1)
  have k3' : ∀ r, skipSp (sps k3 ++ ':' :: r) = ':' :: r := fun r => skipSp_sps_cons k3 ':' r (by decide)
  have k4' : ∀ r, skipSp (sps k4 ++ (szS ++ r)) = szS ++ r := fun r => skipSp_sps_app k4 szS r hsz hsz'
  have k5' : skipSp (sps k5 ++ tx) = tx := by
    have := skipSp_sps_app k5 tx [] htx htx'
    simpa using this
  obtain ⟨a1, t1, e1⟩ := List.exists_cons_of_ne_nil hid
  obtain ⟨a2, t2, e2⟩ := List.exists_cons_of_ne_nil hnm
  obtain ⟨a3, t3, e3⟩ := List.exists_cons_of_ne_nil hsz
  obtain ⟨a4, t4, e4⟩ := List.exists_cons_of_ne_nil htx
  unfold parseBo
  rw [lit_bo]
  simp only [startsWith, List.take, List.length, List.drop, beq_self_eq_true, Bool.not_true,
    Bool.false_eq_true, if_false, skipSp_space, k1', s1]
  subst e1
  simp only [k2', s2]
  subst e2
  simp only [k3', k4', s3]
  subst e3
  simp only [k5', s4]
  subst e4
  simp [hidv, hszv]

theorem parseBo_core (idS name szS tx : Str) (id size : Nat)
    (hid : idS ≠ []) (hid' : ∀ c ∈ idS, c ≠ ' ')
    (hnm : name ≠ []) (hnm' : ∀ c ∈ name, c ≠ ' ' ∧ c ≠ ':')
    (hsz : szS ≠ []) (hsz' : ∀ c ∈ szS, c ≠ ' ')
    (htx : tx ≠ []) (htx' : ∀ c ∈ tx, c ≠ ' ')
    (hidv : digitsToNat idS = some id) (hszv : digitsToNat szS = some size) :
    parseBo ('B' :: 'O' :: '_' :: ' ' :: (idS ++ ' ' :: (name ++ ':' :: ' ' :: (szS ++ ' ' :: tx)))) =
      some ⟨id, name, size, tx⟩ :=
  parseBo_lex_core 0 0 0 1 0 idS name szS tx id size hid hid' hnm hnm' hsz hsz' htx htx' hidv hszv

theorem wfBo_unpack {b : BoLine} (h : wfBo b = true) : isIdent b.name = true ∧ isIdent b.transmitter = true := by
  simpa [wfBo] using h

theorem renderBo_eq (b : BoLine) :
    renderBo b = 'B' :: 'O' :: '_' :: ' ' :: (natDigits b.id ++ ' ' :: (b.name ++ ':' :: ' ' ::
      (natDigits b.size ++ ' ' :: b.transmitter))) := by
  unfold renderBo
  rw [lit_bo, lit_colon]
  simp only [List.append_assoc, List.cons_append, List.nil_append]

theorem stripWs_renderBo (b : BoLine) (h : wfBo b = true) : stripWs (renderBo b) = renderBo b := by
  rw [renderBo_eq]
  apply stripWs_id_of _ 'B' rfl (by decide)
  repeat (first | apply LastOK.cons | apply LastOK.append)
  exact LastOK.of_isIdent (wfBo_unpack h).2

theorem isDig_ne_space {c : Char} (h : IsDig c) : c ≠ ' ' := by
  rintro rfl; revert h; unfold IsDig; decide

theorem parseBo_renderBo (b : BoLine) (h : wfBo b = true) : parseBo (stripWs (renderBo b)) = some b := by
  obtain ⟨h1, h2⟩ := wfBo_unpack h
  rw [stripWs_renderBo b h, renderBo_eq]
  exact parseBo_core _ _ _ _ b.id b.size (natDigits_ne_nil _) (fun c hc => isDig_ne_space (natDigits_allDig _ c hc))
    (isIdent_ne_nil h1) (fun c hc => ⟨identChar_ne_space (isIdent_all h1 c hc), identChar_ne_colon (isIdent_all h1 c hc)⟩)
    (natDigits_ne_nil _) (fun c hc => isDig_ne_space (natDigits_allDig _ c hc))
    (isIdent_ne_nil h2) (fun c hc => identChar_ne_space (isIdent_all h2 c hc))
    (digitsToNat_natDigits' _) (digitsToNat_natDigits' _)


/-! ## classification and the reader step -/

theorem classify_of_sg (l d : Str) (h : stripWs l = 'S' :: 'G' :: '_' :: ' ' :: d) : classify l = .sg := by
  have hb : startsWith (stripWs l) "BO_ ".toList = false := by
    rw [h, lit_bo]; simp [startsWith]
  have hs : startsWith (stripWs l) "SG_ ".toList = true := by
    rw [h, lit_sg]; simp [startsWith]
  unfold classify
  simp only [hb, hs, Bool.false_eq_true, if_false, if_true]

theorem classify_of_bo (l d : Str) (h : stripWs l = 'B' :: 'O' :: '_' :: ' ' :: d) : classify l = .bo := by
  have hb : startsWith (stripWs l) "BO_ ".toList = true := by
    rw [h, lit_bo]; simp [startsWith]
  unfold classify
  simp only [hb, if_true]

theorem classify_renderSg (s : SgLine) (h : wfSg s = true) : classify (renderSg s) = .sg := by
  obtain ⟨_, _, h3, h4⟩ := wfSg_unpack h
  exact classify_of_sg _ _ (stripWs_renderSg s h3 h4)

theorem classify_renderBo (b : BoLine) (h : wfBo b = true) : classify (renderBo b) = .bo := by
  apply classify_of_bo _ _ (by rw [stripWs_renderBo b h, renderBo_eq])

theorem stepLine_nil (st : List Block) : stepLine framesReader st [] = st := by
  simp [stepLine, stripWs]

theorem stepLine_renderBo (st : List Block) (b : BoLine) (h : wfBo b = true) :
    stepLine framesReader st (renderBo b) = st ++ [⟨b, []⟩] := by
  have he : (stripWs (renderBo b)).isEmpty = false := by
    rw [stripWs_renderBo b h, renderBo_eq]; rfl
  unfold stepLine
  simp only [he, classify_renderBo b h, framesReader, parseBo_renderBo b h]
  simp

theorem stepLine_renderSg (st : List Block) (f : Block) (s : SgLine) (h : wfSg s = true) :
    stepLine framesReader (st ++ [f]) (renderSg s) = st ++ [{ f with sigs := f.sigs ++ [rereadSg s] }] := by
  obtain ⟨_, _, h3, h4⟩ := wfSg_unpack h
  have he : (stripWs (renderSg s)).isEmpty = false := by
    rw [stripWs_renderSg s h3 h4]; rfl
  unfold stepLine
  simp only [he, classify_renderSg s h, framesReader, parseSg_renderSg s h]
  simp

/-! ## the frame section -/

theorem loadLines_sigs (st : List Block) (bo : BoLine) (acc sigs : List SgLine) (h : ∀ s ∈ sigs, wfSg s = true) :
    loadLines framesReader (st ++ [⟨bo, acc⟩]) (sigs.map renderSg) = st ++ [⟨bo, acc ++ sigs.map rereadSg⟩] := by
  induction sigs generalizing acc with
  | nil => simp [loadLines]
  | cons s sigs ih =>
    have := ih (acc ++ [rereadSg s]) (fun x hx => h x (List.mem_cons_of_mem _ hx))
    simp only [loadLines, List.map_cons, List.foldl_cons] at this ⊢
    rw [stepLine_renderSg st _ s (h s (by simp)), this]
    simp

theorem wfBlock_unpack {b : Block} (h : wfBlock b = true) : wfBo b.bo = true ∧ ∀ s ∈ b.sigs, wfSg s = true := by
  simpa [wfBlock] using h

theorem loadLines_block (st : List Block) (b : Block) (h : wfBlock b = true) :
    loadLines framesReader st (writeBlock b) = st ++ [rereadBlock b] := by
  obtain ⟨h1, h2⟩ := wfBlock_unpack h
  have := loadLines_sigs st b.bo [] b.sigs h2
  simp only [loadLines] at this
  simp only [loadLines, writeBlock, List.foldl_cons, List.foldl_append, List.foldl_nil,
    stepLine_renderBo st b.bo h1, this, stepLine_nil]
  simp [rereadBlock]

theorem loadLines_frames (st : List Block) (bs : List Block) (h : ∀ b ∈ bs, wfBlock b = true) :
    loadLines framesReader st (writeFrames bs) = st ++ bs.map rereadBlock := by
  induction bs generalizing st with
  | nil => simp [loadLines, writeFrames]
  | cons b bs ih =>
    have h1 := loadLines_block st b (h b (by simp))
    have h2 := ih (st ++ [rereadBlock b]) (fun x hx => h x (List.mem_cons_of_mem _ hx))
    simp only [loadLines, writeFrames, List.flatMap_cons, List.foldl_append] at h1 h2 ⊢
    rw [h1, h2]
    simp


/-! ## rendering the number that was read -/

theorem decToStr_tenth (neg : Bool) (c : Nat) (h0 : c % 10 = 0) (h1 : ¬ c < 10) :
    decToStr ⟨neg, c, -1⟩ = signStr neg ++ natDigits (c / 10) ++ ['.', '0'] := by
  have hd : natDigits c = natDigits (c / 10) ++ ['0'] := by
    rw [natDigits_ge c h1, h0]; rfl
  have hL : 0 < (natDigits (c / 10)).length := List.length_pos_iff.mpr (natDigits_ne_nil _)
  unfold decToStr
  simp only []
  rw [hd]
  generalize natDigits (c / 10) = D at hL ⊢
  have hlen : (((D ++ ['0']).length : Nat) : Int) = (D.length : Int) + 1 := by simp
  rw [hlen]
  have hdp : (if (-1 : Int) ≤ 0 ∧ -1 + ((D.length : Int) + 1) > -6
      then -1 + ((D.length : Int) + 1) else 1) = (D.length : Int) := by
    rw [if_pos (by omega)]; omega
  rw [hdp]
  have e1 : ¬ ((D.length : Int) ≤ 0) := by omega
  have e2 : ¬ ((D.length : Int) ≥ D.length + 1) := by omega
  have e3 : (-1 + ((D.length : Int) + 1) - D.length = 0) := by omega
  simp only [e1, e2, e3, if_true, if_false]
  simp [signStr]

theorem decToStr_int (neg : Bool) (k : Nat) :
    decToStr ⟨neg, k, 0⟩ = signStr neg ++ natDigits k := by
  have hL : 0 < (natDigits k).length := List.length_pos_iff.mpr (natDigits_ne_nil _)
  unfold decToStr
  simp only []
  generalize natDigits k = D at hL ⊢
  have hdp : (if (0 : Int) ≤ 0 ∧ 0 + (D.length : Int) > -6 then 0 + (D.length : Int) else 1) = (D.length : Int) := by
    rw [if_pos (by omega)]; omega
  rw [hdp]
  have e1 : ¬ ((D.length : Int) ≤ 0) := by omega
  have e2 : ((D.length : Int) ≥ D.length) := by omega
  have e3 : (0 + (D.length : Int) - D.length = 0) := by omega
  simp only [e1, e2, e3, if_true, if_false]
  simp [signStr]

theorem signDigits_noE (neg : Bool) (k : Nat) : ∀ x ∈ signStr neg ++ natDigits k, x ≠ 'E' := by
  intro x hx
  rcases List.mem_append.mp hx with hx | hx
  · exact signStr_ne_E neg x hx
  · exact (natDigits_allDig k x hx).ne_E

theorem formatFloat_tenth (neg : Bool) (c : Nat) (h0 : c % 10 = 0) (h1 : ¬ c < 10) :
    formatFloat ⟨neg, c, -1⟩ = signStr neg ++ natDigits (c / 10) := by
  rw [formatFloat_eq, decToStr_tenth neg c h0 h1]
  have hc : (signStr neg ++ natDigits (c / 10) ++ ['.', '0']).length ≥ 2 ∧
      (signStr neg ++ natDigits (c / 10) ++ ['.', '0']).drop
        ((signStr neg ++ natDigits (c / 10) ++ ['.', '0']).length - 2) = ['.', '0'] := by
    refine ⟨by simp; omega, ?_⟩
    rw [drop_suffix _ _ (by simp)]; rfl
  rw [if_pos hc, List.take_left' (by simp; omega), padExp_noE _ (signDigits_noE neg _)]

theorem formatFloat_int (neg : Bool) (k : Nat) :
    formatFloat ⟨neg, k, 0⟩ = signStr neg ++ natDigits k := by
  rw [formatFloat_eq, decToStr_int neg k]
  have hc : ¬ ((signStr neg ++ natDigits k).length ≥ 2 ∧
      (signStr neg ++ natDigits k).drop ((signStr neg ++ natDigits k).length - 2) = ['.', '0']) := by
    rintro ⟨_, h⟩
    have hmem : '.' ∈ signStr neg ++ natDigits k := List.mem_of_mem_drop (by rw [h]; simp)
    rcases List.mem_append.mp hmem with hm | hm
    · exact signStr_ne_dot neg _ hm rfl
    · exact (natDigits_allDig k _ hm).ne_dot rfl
  rw [if_neg hc, padExp_noE _ (signDigits_noE neg _)]

theorem formatFloat_reread (d : Dec) : formatFloat (reread d) = formatFloat d := by
  rcases reread_cases' d with h | ⟨h1, h2, h⟩
  · rw [h]
  · rw [h]
    obtain ⟨neg, c, e⟩ := d
    simp only at h1 h2 ⊢
    subst h1
    by_cases hc : c < 10
    · have : c = 0 := by omega
      subst this
      cases neg <;> decide
    · rw [formatFloat_int, formatFloat_tenth neg c h2 hc]

theorem decEq_reread (d : Dec) : SpecRT.decEq (reread d) d = true := by
  rcases reread_cases' d with h | ⟨h1, h2, h⟩
  · rw [h]; simp [SpecRT.decEq]
  · rw [h]
    obtain ⟨neg, c, e⟩ := d
    simp only at h1 h2 ⊢
    subst h1
    have hm : min (0 : Int) (-1) = -1 := by decide
    have e1 : ((0 : Int) - -1).toNat = 1 := by decide
    have e2 : ((-1 : Int) - -1).toNat = 0 := by decide
    unfold SpecRT.decEq
    simp only [hm, e1, e2]
    have : c / 10 * 10 ^ 1 = c * 10 ^ 0 := by omega
    simp [this]


/-! ## sameness and the fixed point -/

theorem sgSame_rereadSg (s : SgLine) : SpecRT.sgSame (rereadSg s) s = true := by
  simp [SpecRT.sgSame, rereadSg, decEq_reread]

theorem sgListSame_reread (ss : List SgLine) : SpecRT.sgListSame (ss.map rereadSg) ss = true := by
  induction ss with
  | nil => rfl
  | cons s ss ih => simp [SpecRT.sgListSame, sgSame_rereadSg, ih]

theorem blocksSame_reread (bs : List Block) : SpecRT.blocksSame (bs.map rereadBlock) bs = true := by
  induction bs with
  | nil => rfl
  | cons b bs ih => simp [SpecRT.blocksSame, SpecRT.blockSame, rereadBlock, sgListSame_reread, ih]

theorem renderSg_rereadSg (s : SgLine) : renderSg (rereadSg s) = renderSg s := by
  unfold renderSg rereadSg
  simp only [formatFloat_reread]

theorem writeBlock_reread (b : Block) : writeBlock (rereadBlock b) = writeBlock b := by
  have h : (b.sigs.map rereadSg).map renderSg = b.sigs.map renderSg := by
    rw [List.map_map]
    apply List.map_congr_left
    intro s _
    exact renderSg_rereadSg s
  unfold writeBlock rereadBlock
  simp only [h]

theorem writeFrames_reread (bs : List Block) : writeFrames (bs.map rereadBlock) = writeFrames bs := by
  induction bs with
  | nil => rfl
  | cons b bs ih =>
    simp only [writeFrames, List.map_cons, List.flatMap_cons] at ih ⊢
    rw [writeBlock_reread, ih]

theorem mem_writeFrames {bs : List Block} {l : Str} (h : l ∈ writeFrames bs) :
    ∃ b ∈ bs, l = renderBo b.bo ∨ (∃ s ∈ b.sigs, l = renderSg s) ∨ l = [] := by
  simp only [writeFrames, List.mem_flatMap, writeBlock, List.mem_cons, List.mem_append, List.mem_map,
    List.mem_nil_iff, or_false] at h
  obtain ⟨b, hb, h⟩ := h
  refine ⟨b, hb, ?_⟩
  rcases h with h | ⟨s, hs, rfl⟩ | h
  · exact Or.inl h
  · exact Or.inr (Or.inl ⟨s, hs, rfl⟩)
  · exact Or.inr (Or.inr h)

theorem line_ok (bs : List Block) (h : ∀ b ∈ bs, wfBlock b = true) (l : Str) (hl : l ∈ writeFrames bs) :
    stripWs l = [] ∨ (classify l ≠ .unknown ∧ framesReader.matchesPattern (classify l) l = true) := by
  obtain ⟨b, hb, h1 | ⟨s, hs, h1⟩ | h1⟩ := mem_writeFrames hl
  · right
    have hw := (wfBlock_unpack (h b hb)).1
    subst h1
    rw [classify_renderBo _ hw]
    refine ⟨by decide, ?_⟩
    simp only [framesReader, parseBo_renderBo _ hw]
    rfl
  · right
    have hw := (wfBlock_unpack (h b hb)).2 s hs
    subst h1
    rw [classify_renderSg _ hw]
    refine ⟨by decide, ?_⟩
    simp only [framesReader, parseSg_renderSg _ hw]
    rfl
  · left; subst h1; rfl

end CanVerif.Dbc
