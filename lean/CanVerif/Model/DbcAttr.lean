import CanVerif.Model.DbcStmt
/-!
# Model of the attribute statements of a DBC file (C05, C15): `BA_DEF_`, `BA_DEF_DEF_`, `BA_`

Writer: formats/dbc.py `create_define` (`"BA_DEF_ " + level + ' "' + name + '" ' + definition + ';'`, level one of
`BU_`, `BO_`, `SG_`, `EV_` or empty), the `BA_DEF_DEF_ "name" value;` loop (text and ENUM defaults in quotes),
`create_attribute_string` (`'BA_ "' + attribute + '" ' + class + ' ' + name + ' ' + value + ';'`, text values in quotes; class and
name empty for a global attribute, name = `<id>` for a frame and `<id> <signal>` for a signal).
Reader: `load`
  `BA_DEF_` + level keyword: on the rest `^\"(.+?)\" +(.+); *`;   global: `^BA_DEF_ +\"(.+?)\" +(.+) *;`;  the definition is `strip()`ped
  `^BA_DEF_DEF_ +\"(.+?)\" +(.+?) *;` then `Define.set_default` (a value in quotes loses them)
  `BA_`: `^BA_ +\".+?\" +(.+)` decides the class by the first word; then one pattern per class, the value is `strip()`ped by
  `add_attribute`; text attributes lose their quotes in the post-processing (`[1:-1]`).
As in Model/DbcText.lean the patterns are deterministic tokenizers that agree with the regular expressions on the lines the
writer emits and on the lexical variants of C15 (several blanks between tokens).
-/
namespace CanVerif.Dbc
open CanVerif

inductive Level
  | ecu | frame | signal | env | global
  deriving Repr, DecidableEq, Inhabited

def Level.keyword : Level → Str
  | .ecu => "BU_".toList
  | .frame => "BO_".toList
  | .signal => "SG_".toList
  | .env => "EV_".toList
  | .global => []

/-- text up to the first `"` and the rest behind it (`\"(.+?)\"` on a name without quotes) -/
def quotedName (s : Str) : Option (Str × Str) :=
  match s with
  | '"' :: r =>
    match r.span (· != '"') with
    | ([], _) => none
    | (name, '"' :: rest) => some (name, rest)
    | _ => none
  | _ => none

/-- the text in front of the first `;` (what a lazy `(.+?) *;` reaches), `none` without a semicolon -/
def uptoFirstSemicolon (s : Str) : Option Str :=
  match s.span (· != ';') with
  | (b, ';' :: _) => some b
  | _ => none

def dropTrailingSp (s : Str) : Str := (s.reverse.dropWhile (· == ' ')).reverse

/-! ## `BA_DEF_` -/

structure DefLine where
  level : Level
  name : Str
  definition : Str        -- `INT 0 100`, `STRING`, `ENUM "a","b"`, … as `Define.definition` holds it
  deriving Repr, DecidableEq, Inhabited

def renderDef (d : DefLine) : Str :=
  "BA_DEF_ ".toList ++ d.level.keyword ++ " \"".toList ++ d.name ++ "\" ".toList ++ d.definition ++ [';']

def levelOfKeyword (k : Str) : Option Level :=
  if k == "SG_".toList then some .signal else if k == "BO_".toList then some .frame
  else if k == "BU_".toList then some .ecu else if k == "EV_".toList then some .env else none

/-- name in quotes, at least one blank, the definition up to the last semicolon -/
def parseDefBody (lvl : Level) (s : Str) : Option DefLine :=
  match quotedName s with
  | some (name, r) =>
    match r with
    | ' ' :: _ =>
      match uptoLastSemicolon (skipSp r) with
      | some body => if body.isEmpty then none else some { level := lvl, name, definition := stripWs body }
      | none => none
    | _ => none
  | none => none

def parseDef (line : Str) : Option DefLine :=
  if !startsWith line "BA_DEF_".toList then none else
  let sub := stripWs (line.drop 7)
  match levelOfKeyword (sub.take 3) with
  | some lvl => parseDefBody lvl (stripWs (sub.drop 3))
  | none =>
    if startsWith line "BA_DEF_ ".toList then parseDefBody .global (skipSp (line.drop 7)) else none

/-- a definition text as `Define` keeps it: not empty, no blank at either end, no semicolon -/
def wfDefinition (t : Str) : Bool := !t.isEmpty && stripWs t == t && !t.contains ';'

def wfAttrName (n : Str) : Bool := !n.isEmpty && n.all fun c => isIdentChar c || c == '-'

def wfDef (d : DefLine) : Bool := wfAttrName d.name && wfDefinition d.definition

/-! ## `BA_DEF_DEF_` -/

structure DefDefLine where
  name : Str
  isText : Bool           -- STRING and ENUM defaults are written in quotes
  value : Str
  deriving Repr, DecidableEq, Inhabited

def renderDefDef (d : DefDefLine) : Str :=
  "BA_DEF_DEF_ \"".toList ++ d.name ++ "\" ".toList ++ (if d.isText then '"' :: d.value ++ ['"'] else d.value) ++ [';']

/-- `Define.set_default`: a value of more than one character in quotes loses them -/
def unquoteDefault (v : Str) : Str :=
  if v.length > 1 && v.head? == some '"' && v.getLast? == some '"' then (v.drop 1).dropLast else v

/-- what the reader stores: the name and the default after `set_default` -/
def parseDefDef (line : Str) : Option (Str × Str) :=
  if !startsWith line "BA_DEF_DEF_ ".toList then none else
  match quotedName (skipSp (line.drop 11)) with
  | some (name, r) =>
    match r with
    | ' ' :: _ =>
      match uptoFirstSemicolon (skipSp r) with
      | some body =>
        let v := dropTrailingSp body
        if v.isEmpty then none else some (name, unquoteDefault v)
      | none => none
    | _ => none
  | none => none

/-- a default the statement can carry: no semicolon (the lazy pattern stops at the first one), and a number text is not empty, has no
blanks at its ends and is not itself in quotes -/
def wfDefDef (d : DefDefLine) : Bool :=
  wfAttrName d.name && !d.value.contains ';' &&
  (d.isText || (!d.value.isEmpty && !d.value.contains ' ' && !d.value.contains '"'))

/-! ## `BA_` -/

inductive BaTarget
  | global
  | ecu (name : Str)
  | frame (id : Nat)
  | signal (id : Nat) (name : Str)
  deriving Repr, DecidableEq, Inhabited

structure BaLine where
  attr : Str
  target : BaTarget
  value : Str             -- the value as written: a text in its quotes, a number as it is
  deriving Repr, DecidableEq, Inhabited

def renderBa (b : BaLine) : Str :=
  let cls : Str × Str := match b.target with
    | .global => ([], [])
    | .ecu n => ("BU_".toList, n)
    | .frame id => ("BO_".toList, natDigits id)
    | .signal id n => ("SG_".toList, natDigits id ++ ' ' :: n)
  "BA_ \"".toList ++ b.attr ++ "\" ".toList ++ cls.1 ++ ' ' :: cls.2 ++ ' ' :: b.value ++ [';']

/-- the value group `(.+) *; *` of the class patterns: up to the last semicolon, then `strip()`ped by `add_attribute` -/
def baValue (s : Str) : Option Str :=
  match uptoLastSemicolon s with
  | some body => if body.isEmpty then none else some (stripWs body)
  | none => none

/-- the value of a global attribute: `\".*\"` (to the last quote) or a run of non-blank characters, then ` *;` -/
def baGlobalValue (s : Str) : Option Str :=
  match s with
  | '"' :: _ =>
    -- greedy to the last quote that is followed by blanks and a semicolon
    let rev := s.reverse
    match (rev.dropWhile (· != ';')) with
    | ';' :: b =>
      let q := b.dropWhile (· == ' ')
      match q with
      | '"' :: _ => if q.length ≥ 2 then some q.reverse else none
      | _ => none
    | _ => none
  | _ =>
    match s.span (fun c => !isBlank c) with
    | ([], _) => none
    | (tok, r) =>
      match skipSp r with
      | ';' :: _ => some tok
      | _ => if tok.getLast? == some ';' && tok.length ≥ 2 then some tok.dropLast else none

def parseBa (line : Str) : Option BaLine :=
  if !startsWith line "BA_ ".toList then none else
  match quotedName (skipSp (line.drop 3)) with
  | some (attr, r) =>
    match r with
    | ' ' :: _ =>
      let rest := skipSp r
      if startsWith rest "BO_ ".toList then
        match (skipSp (rest.drop 3)).span isDigit with
        | ([], _) => none
        | (idS, r2) =>
          match r2 with
          | ' ' :: _ => (digitsToNat idS).bind fun id => (baValue (skipSp r2)).map fun v => { attr, target := .frame id, value := v }
          | _ => none
      else if startsWith rest "SG_ ".toList then
        match (skipSp (rest.drop 3)).span isDigit with
        | ([], _) => none
        | (idS, r2) =>
          match r2 with
          | ' ' :: _ =>
            match (skipSp r2).span (fun c => !isBlank c) with
            | ([], _) => none
            | (sig, r3) =>
              match r3 with
              | ' ' :: _ => (digitsToNat idS).bind fun id => (baValue (skipSp r3)).map fun v => { attr, target := .signal id sig, value := v }
              | _ => none
          | _ => none
      else if startsWith rest "BU_ ".toList then
        match (skipSp (rest.drop 3)).span (fun c => !isBlank c) with
        | ([], _) => none
        | (ecu, r2) =>
          match r2 with
          | ' ' :: _ => (baValue (skipSp r2)).map fun v => { attr, target := .ecu ecu, value := v }
          | _ => none
      else if startsWith rest "EV_ ".toList then none      -- environment variables: not modelled
      else (baGlobalValue rest).map fun v => { attr, target := .global, value := v }
    | _ => none
  | none => none

/-- post-processing of text attributes: `value[1:-1]` -/
def stripQuotes (v : Str) : Str := (v.drop 1).dropLast

/-- a value as the writer produces it: a text in quotes (no line end inside) or a number text (not empty, no blank, no quote, no semicolon) -/
def wfBaValue (v : Str) : Bool :=
  (v.length ≥ 2 && v.head? == some '"' && v.getLast? == some '"' && !v.any (fun c => c == '\n' || c == '\r')) ||
  (!v.isEmpty && v.all fun c => !isBlank c && c != '"' && c != ';')

def wfBa (b : BaLine) : Bool :=
  wfAttrName b.attr && wfBaValue b.value &&
  match b.target with
  | .global => true
  | .ecu n => isIdent n
  | .frame _ => true
  | .signal _ n => isIdent n

end CanVerif.Dbc
