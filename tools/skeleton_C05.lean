import CanVerif.Model.DbcText
import CanVerif.Spec.DbcRT
import CanVerif.Proofs.DbcText
import CanVerif.Props.C20
/-!
# C05 - DBC round trip is lossless and its output is a fixed point: the frame section

For every list of frames with their signals inside the envelope (`wfBlock`: identifier-style names, a unit
without quote, at least one receiver written), the lines the writer emits (`writeFrames`) are read back by the
line reader (`readFrames`, the dispatcher of Model/DbcLines.lean instantiated with the `BO_`/`SG_` statement
parsers) as the same frames and signals - names, multiplex tags, positions, widths, byte order, sign, unit,
receivers identical, numbers with the same value (`reread`) -, no line is rejected, and writing what was read
gives the same lines again.  Statement level: `SG_`, `BO_`, `VAL_` (with escaped quotes), multiplex tags.
The same holds when malformed lines are scattered through the file (C20's theorem instantiated).
-/
namespace CanVerif.C05
open CanVerif CanVerif.Dbc

/-! ## numbers -/

/-- a rendered number is read as the decimal itself, or - when the rendering ended in `.0` - as the same value
without that zero -/
theorem reread_cases (d : Dec) :
    reread d = d ∨ (d.exp = -1 ∧ d.coeff % 10 = 0 ∧ reread d = ⟨d.neg, d.coeff / 10, 0⟩) := by
  sorry

/-- the number that was read has the same value -/
theorem reread_value (d : Dec) : SpecRT.decEq (reread d) d = true := by
  sorry

/-- rendering the number that was read gives the same text (the second export prints the same digits) -/
theorem reread_render (d : Dec) : formatFloat (reread d) = formatFloat d := by
  sorry

/-! ## statements -/

theorem tag_roundtrip (mv : Option Nat) (m : Bool) : fieldsOf (tagOf mv m) = (mv, m, mv.isSome && m) := by
  sorry

/-- an `SG_` line is read as the signal it was rendered from -/
theorem sg_line_roundtrip (s : SgLine) (h : wfSg s = true) :
    parseSg (stripWs (renderSg s)) = some (rereadSg s) := by
  sorry

/-- ... which is the same signal in the sense of the specification -/
theorem sg_line_same (s : SgLine) (h : wfSg s = true) :
    ∃ q, parseSg (stripWs (renderSg s)) = some q ∧ SpecRT.sgSame q s = true := by
  sorry

theorem bo_line_roundtrip (b : BoLine) (h : wfBo b = true) : parseBo (stripWs (renderBo b)) = some b := by
  sorry

/-- rendering what was read gives the same line -/
theorem sg_line_fixed_point (s : SgLine) : renderSg (rereadSg s) = renderSg s := by
  sorry

theorem unescape_escape (t : Str) (h : wfText t = true) : unescapeQuotes (escapeQuotes t) = t := by
  sorry

/-- a `VAL_` line (value texts may contain quotes) is read as the table it was rendered from -/
theorem val_line_roundtrip (v : ValLine) (h : wfVal v = true) (hne : v.entries ≠ []) : parseVal (stripWs (renderVal v)) = some v := by
  sorry

/-! ## the frame section of a file -/

/-- reading the written frame section gives the frames and signals back -/
theorem frames_roundtrip (bs : List Block) (h : bs.all wfBlock = true) :
    readFrames (writeFrames bs) = bs.map rereadBlock := by
  sorry

theorem frames_same (bs : List Block) (h : bs.all wfBlock = true) :
    SpecRT.blocksSame (readFrames (writeFrames bs)) bs = true := by
  sorry

/-- the second export of the frame section is identical to the first -/
theorem frames_fixed_point (bs : List Block) (h : bs.all wfBlock = true) :
    writeFrames (readFrames (writeFrames bs)) = writeFrames bs := by
  sorry

/-- no line of the written frame section is rejected: every line is empty or a known statement whose pattern matches -/
theorem no_line_errors (bs : List Block) (h : bs.all wfBlock = true) :
    ∀ l ∈ writeFrames bs, stripWs l = [] ∨
      (classify l ≠ .unknown ∧ framesReader.matchesPattern (classify l) l = true) := by
  sorry

/-- malformed lines anywhere in the file do not change what is read (C20 instantiated with this reader) -/
theorem frames_roundtrip_with_bad_lines (bs : List Block) (h : bs.all wfBlock = true) (isBad : Str → Bool)
    (hbad : ∀ b, isBad b = true → C20.BadLine framesReader b) (lines : List Str)
    (hl : lines.filter (fun l => !isBad l) = writeFrames bs) :
    readFrames lines = bs.map rereadBlock := by
  unfold readFrames
  rw [C20.bad_lines_ignored framesReader isBad hbad [] lines, hl]
  exact frames_roundtrip bs h

/-! ## non-vacuity -/

def exSg0 : SgLine := { (default : SgLine) with name := "sig_1".toList, tag := .val 5, start := 34, size := 1 }
def exSg1 : SgLine := { exSg0 with factor := ⟨true, 5, -1⟩, offset := ⟨false, 15, -1⟩, min := ⟨false, 10, -1⟩, max := ⟨false, 15, -1⟩ }
def exSg : SgLine := { exSg1 with unit := "km/h".toList, receivers := ["Vector__XXX".toList, "AB".toList] }

example : wfSg exSg = true := by decide
example : String.ofList (renderSg exSg) = " SG_ sig_1 m5 : 34|1@0+ (-0.5,1.5) [1|1.5] \"km/h\" Vector__XXX,AB" := by decide
example : reread ⟨false, 10, -1⟩ = ⟨false, 1, 0⟩ := by decide

end CanVerif.C05
