"""C09 - CAN identifiers: range check, compound form, J1939 view, PGN based decode."""
import json
import os
import subprocess
import sys

import canmatrix.canmatrix as cm
from lib import frames as F

PID = "C09"
RULE = ("ops: mk (constructor, ints around 0 / 2^11 / 2^29 / 2^31 / 2^32 incl. negatives, both flags); compound / tocompound "
        "(both directions); fields (all J1939 getters of an identifier); set (priority / source / pgn setter, values incl. "
        "out-of-field ones that must be masked); frompgn; resolve (CanMatrix.decode in matrices mixing 11-bit and J1939 frames in "
        "any order, several source addresses per PGN, received id with other priority/source/destination). quick: all 2^11 standard "
        "ids for mk/compound + each field swept exhaustively with the others at boundary/random values + random; thorough: 10^6 more. "
        "Received identifiers include 29-bit ones with the number of an 11-bit frame of the matrix. "
        "The matrix of a 'resolve' case has a history (a frame carried the received identifier, was found under it, and got its own identifier back by assignment). case 'jdec' = canmatrix.j1939_decoder.decode(id, payload, matrix) on matrices whose frames carry PGNs the bundled J1939 database knows as well, and proprietary ones. Non-trivial = distinct case other than the zero identifier. "
        "History stream (every op, marked 'via' / 'hist' in the case; the driver judges the same shapes): the identifier under test is obtained through "
        "a path of the public API instead of the plain constructor (from_compound_integer; from_pgn + priority/source setters; a Frame created for "
        "another PGN and re-targeted with Frame.pgn/.priority/.source; an 11-bit identifier turned into a J1939 one by the setters; an object that "
        "carried another number, was read, and got the number by assignment or by the setters), and siblings obtained the same way with the same "
        "arguments are modified before and after it (setters, plain assignment): identifiers handed out by the factories must be independent objects. "
        "The frames of 'resolve' / 'jdec' matrices get their identifiers through these paths too; between building the matrix and decoding, the "
        "process works on identifiers of its own (obtained for the received PGN / identifier or a frame's, then re-targeted), looks frames up by PGN, "
        "and a frame is re-targeted to the received PGN (found there) and back. "
        "PDU format sweep: for every PDU format byte 0..255 (data page bits random) a 'jdec' and a 'resolve' matrix holds a frame of that PGN and "
        "an identifier of that PGN with another priority / source (/ destination) is received - also the PGNs the protocol itself uses (TP.CM 0xEC00, "
        "TP.DT 0xEB00, address claimed 0xEE00, request 0xEA00, acknowledgement 0xE800, ETP, DM1 ...), which user data bases list as ordinary frames. "
        "'jdec' frames and received identifiers are drawn from the whole PGN range, PDU1 frames are defined with a destination as well; the payload "
        "starts with the control bytes of the transport protocol (32 BAM, 16 RTS, 17 CTS, 19 ACK, 255 abort) as well; the decoder object of a 'jdec' case "
        "has a history ('dec': BAM announcements, TP.DT packets, connection management, address claims, frames of the matrix, the received identifier "
        "itself, with and without the matrix) before it decodes the received identifier. Kept out (unchanged code raises, outside C09): a received "
        "TP.DT without a matrix frame of PGN 0xEB00 on a decoder that saw no BAM announcement (AttributeError bytes_left; an announcement is put "
        "in front: jdec_guard), received PGNs only the bundled j1939.dbc knows with a length other than 8 or an empty signal (BUNDLED_LONG). "
        "Matrix context stream ('ctx' in a 'resolve' / 'jdec' case; the driver judges frames and received identifier as before): the matrix is more "
        "than its frames and is obtained through other paths of the public API - global attributes (ProtocolType J1939 / NMEA2000 / ISO11783 / "
        "ExtendedCAN / empty ..., BusType, DBName, NmType) set before or after the frames are added or just before decoding, set and changed or "
        "removed again, global attribute definitions with defaults, VFrameFormat frame attributes (agreeing with the frame kinds, on all or some "
        "frames) with their definition, ECUs and transmitters, CAN FD frames beside the J1939 ones; the matrix is the one built through the API, "
        "its deepcopy, the target of CanMatrix.merge, the result of dbc.dump + dbc.load, or read from a DBC text the harness writes itself "
        "(BA_ \"ProtocolType\" \"...\", BA_ \"VFrameFormat\" BO_ ... 3). Which frame decodes a received identifier depends on the frames alone. "
        "Frame kinds with a history ('was' / 'reflag' / 'exported' in the context): the matrix was built, read or exported (dbc.dump into a buffer, "
        "which leaves VFrameFormat on every frame) while its frames were of other kinds - plain extended frames, or J1939 ones - and the frames are "
        "flagged afterwards by assignment (frame.is_j1939 = ..., all frames incl. the 11-bit ones as canconvert --convertToJ1939 does, or "
        "some / none as --convertToExtended does), or constructed with the flag while the attributes name the earlier kind: the VFrameFormat "
        "attributes, definitions and global attributes left over from the earlier state are stale, the flags the frames have now decide.")
EXHAUSTIVE = {"quick": False, "thorough": False}
PARTIAL = ["the payload decoding after frame resolution is C01's; here only which frame is chosen is compared"]
ASSUMPTIONS = ["identifiers are Python ints, the extended flag a bool (the deprecated extended=None wildcard is outside the domain)"]
TRUSTED = ["CPython unbounded int &, |, <<, >> semantics for non-negative ints = Lean Nat &&&, |||, <<<, >>>"]
CORRESPONDENCE = "ArbitrationId / CanMatrix.decode dispatch == CanVerif.ArbId / resolveForDecode"

LIMITS = [0, 1, 0x7FE, 0x7FF, 0x800, 0x801, 0xFFF, (1 << 29) - 2, (1 << 29) - 1, 1 << 29, (1 << 29) + 1, (1 << 31) - 1,
          1 << 31, (1 << 31) + 1, (1 << 31) + 0x7FF, (1 << 31) + (1 << 29) - 1, (1 << 31) + (1 << 29), (1 << 32) - 1, 1 << 32,
          (1 << 32) + 5, -1, -2, -0x800, -(1 << 29)]


def compose(prio, edp, dp, pf, ps, sa):
    return (prio << 26) | (edp << 25) | (dp << 24) | (pf << 16) | (ps << 8) | sa


def rand_ext(rng):
    c = rng.random()
    if c < 0.3:
        return compose(rng.choice([0, 3, 6, 7]), rng.randint(0, 1), rng.randint(0, 1), rng.choice([0, 239, 240, 254, 255, rng.randint(0, 255)]),
                       rng.choice([0, 255, rng.randint(0, 255)]), rng.choice([0, 255, rng.randint(0, 255)]))
    return rng.randrange(1 << 29)


def gen(rng, tier, shard, nshards):
    if shard == 0:
        for i in range(1 << 11):
            yield {"op": "mk", "c": [i, False]}
            yield {"op": "compound", "c": [i]}
            yield {"op": "tocompound", "c": [i, False]}
        for v in LIMITS:
            for ext in (False, True):
                yield {"op": "mk", "c": [v, ext]}
            if v >= 0:
                yield {"op": "compound", "c": [v]}
        for i in range(1 << 11):
            yield {"op": "fields", "c": [i, False]} if i % 64 == 0 else {"op": "mk", "c": [i + 0x800, True]}
    # each field exhaustively, the others at boundary / random values
    sweeps = [("prio", 8), ("edp", 2), ("dp", 2), ("pf", 256), ("ps", 256), ("sa", 256)]
    reps = 3 if tier == "quick" else 40
    for rep in range(shard, reps * nshards, nshards):
        for fi, (fname, n) in enumerate(sweeps):
            others = [rng.choice([0, m - 1, rng.randrange(m)]) for m in (8, 2, 2, 256, 256, 256)]
            for v in range(n):
                vals = list(others)
                vals[fi] = v
                i = compose(*vals)
                yield {"op": "fields", "c": [i, True]}
                yield {"op": "tocompound", "c": [i, True]}
                yield {"op": "compound", "c": [i | (1 << 31)]}
                if fname == "pf":
                    # a frame of this PDU format in the matrix, an identifier of the same PGN received: both decoders
                    yield jdec_case(rng, pf=v)
                    yield resolve_case(rng, sweep_pf=v)
            # setters swept
            base = rand_ext(rng)
            if fname == "prio":
                for v in list(range(8)) + [8, 15, 255]:
                    yield {"op": "set", "c": [base, True, "prio", v]}
            if fname == "sa":
                for v in list(range(256)) + [256, 511, 0x1234]:
                    e = rng.random() < 0.9
                    yield {"op": "set", "c": [base if e else base % 2048, e, "src", v]}
            if fname == "pf":
                for v in range(256):
                    yield {"op": "set", "c": [base, True, "pgn", (rng.randrange(4) << 16) | (v << 8) | rng.choice([0, 255, rng.randrange(256)])]}
                    yield {"op": "frompgn", "c": [(rng.randrange(4) << 16) | (v << 8) | rng.choice([0, 255, rng.randrange(256)])]}
    total = {"quick": 20000, "thorough": 1000000}[tier] // nshards
    for _ in range(total):
        c = rng.random()
        if c < 0.15:
            yield {"op": "mk", "c": [rng.choice([rng.randrange(-5, 1 << 12), rng.randrange(1 << 33), rng.choice(LIMITS)]), rng.random() < 0.5]}
        elif c < 0.25:
            yield {"op": "compound", "c": [rng.choice([rng.randrange(1 << 32), rand_ext(rng) | (1 << 31), rng.randrange(1 << 11)])]}
        elif c < 0.4:
            yield {"op": "fields", "c": [rand_ext(rng), True]}
        elif c < 0.55:
            which = rng.choice(["prio", "src", "pgn"])
            v = rng.choice([rng.randrange(8), rng.randrange(256), rng.randrange(1 << 18), rng.randrange(1 << 20)])
            ext = rng.random() < 0.85
            yield {"op": "set", "c": [rand_ext(rng) if ext else rng.randrange(1 << 11), ext, which, v]}
        elif c < 0.6:
            yield {"op": "frompgn", "c": [rng.randrange(1 << 18)]}
        elif c < 0.9:
            yield resolve_case(rng)
        else:
            yield jdec_case(rng)
    # history stream: the same ops, the identifiers obtained through other paths of the public API, siblings modified, callers at work
    for _ in range({"quick": 12000, "thorough": 400000}[tier] // nshards):
        yield hist_case(rng)
    # matrix context stream: the matrix carries more than frames (attributes, definitions, ECUs) and comes from other paths of the API
    for _ in range({"quick": 6400, "thorough": 200000}[tier] // nshards):
        yield ctx_case(rng)


# ---------------------------------------------------------------------------------------------------------------------------------
# paths of the public API that lead to an identifier, and what else happens to identifiers obtained the same way
# ---------------------------------------------------------------------------------------------------------------------------------
EXT_PATHS = ["ctor", "compound", "pgn", "pgn", "frame", "std", "assign", "setters"]
STD_PATHS = ["ctor", "compound", "assign"]
M29 = (1 << 29) - 1


def pgn_of(i):
    """generator side only (choice of inputs): the PGN a frame_by_pgn caller would ask for"""
    return (i >> 8) & (0x3FFFF if ((i >> 16) & 0xFF) >= 240 else 0x3FF00)


def rand_pgn(rng, pool=()):
    c = rng.random()
    if pool and c < 0.6:
        return rng.choice(list(pool))
    if c < 0.8:
        return rng.choice([0, 0xFECA, 0xF004, 0xEF00, 0xEFFF, 0xF000, 0x3FFFF, 0x100, 0x1FF])
    return rng.randrange(1 << 18)


def rand_ghosts(rng, pool=()):
    """siblings (obtained the same way, same arguments) are modified before / after the identifier under test is obtained"""
    gs = []
    for when in ("before", "after"):
        for _ in range(rng.choice([0, 1, 1, 2])):
            which = rng.choice(["prio", "src", "pgn", "pgn", "id", "flag"])
            v = {"prio": rng.randrange(8), "src": rng.choice([0, 1, 0x21, 0xFE, 0xFF, rng.randrange(256)]), "pgn": rand_pgn(rng, pool),
                 "id": rand_ext(rng), "flag": 0}[which]
            gs.append([when, which, v])
    return gs


def rand_via(rng, ext, pool=(), paths=None, p_ghost=0.75):
    path = rng.choice(paths or (EXT_PATHS if ext else STD_PATHS))
    if path == "frame":
        aux = rand_pgn(rng, pool)
    elif path == "std":
        aux = rng.choice([0, 0x7FF, rng.randrange(1 << 11)])
    else:
        aux = rng.choice([rand_ext(rng), (rand_pgn(rng, pool) << 8) | (rng.randrange(8) << 26) | rng.randrange(256)])
    return {"path": path, "aux": aux, "ghost": rand_ghosts(rng, pool) if rng.random() < p_ghost else []}


def hist_case(rng):
    c = rng.random()
    if c < 0.12:
        ext = rng.random() < 0.8
        i = rand_ext(rng) if ext else rng.randrange(1 << 11)
        if rng.random() < 0.3:
            i = (i & ~0x3FFFF00) | (rand_pgn(rng) << 8) if ext else i
        return {"op": "fields", "c": [i, ext, rand_via(rng, ext, [pgn_of(i)] if ext else ())]}
    if c < 0.3:
        ext = rng.random() < 0.85
        i = rand_ext(rng) if ext else rng.randrange(1 << 11)
        which = rng.choice(["prio", "src", "pgn"])
        v = {"prio": rng.choice([rng.randrange(8), 8, 255]), "src": rng.choice([rng.randrange(256), 0, 255, 256, 0x1234]),
             "pgn": rng.choice([rand_pgn(rng), 0, rng.randrange(1 << 20)])}[which]
        return {"op": "set", "c": [i, ext, which, v, rand_via(rng, ext, [pgn_of(i)] if ext else ())]}
    if c < 0.4:
        p = rand_pgn(rng)
        return {"op": "frompgn", "c": [p, {"path": "frompgn", "aux": 0, "ghost": rand_ghosts(rng, [p])}]}
    if c < 0.46:
        ext = rng.random() < 0.7
        i = rand_ext(rng) if ext else rng.randrange(1 << 11)
        return {"op": "compound", "c": [i | (1 << 31) if ext else i, {"path": "fromcompound", "aux": 0, "ghost": rand_ghosts(rng)}]}
    if c < 0.52:
        ext = rng.random() < 0.7
        i = rand_ext(rng) if ext else rng.randrange(1 << 11)
        return {"op": "tocompound", "c": [i, ext, rand_via(rng, ext)]}
    if c < 0.56:
        ext = rng.random() < 0.6
        i = rng.choice([rand_ext(rng) if ext else rng.randrange(1 << 11), rng.choice(LIMITS)])
        return {"op": "mk", "c": [i, ext, {"path": "ctor", "aux": 0, "ghost": rand_ghosts(rng)}]}
    if c < 0.9:
        return with_history(rng, resolve_case(rng))
    return with_history(rng, jdec_case(rng))


def with_history(rng, case):
    """the frames of the matrix get their identifiers through paths of the public API; callers work on identifiers of their own and
    frames are re-targeted and restored between building the matrix and decoding"""
    c = case["c"]
    k = c["k"]
    pool = sorted({pgn_of(f[1]) for f in c["frames"] if f[2]} | ({pgn_of(k[0])} if k[1] else set()))
    if rng.random() < 0.5:
        pool.append(rand_pgn(rng))
    if k[1] and rng.random() < 0.3:
        # the received PGN is one a frame of the matrix was created for before it was re-targeted, or one nobody carries
        kp = rng.choice(pool)
        k = c["k"] = [(k[0] & ~0x3FFFF00) | (kp << 8), True]
    frames = []
    for f in c["frames"]:
        via = rand_via(rng, f[2], pool, p_ghost=0.4) if rng.random() < 0.7 else None
        frames.append(list(f[:4]) + [via])
    c["frames"] = frames
    ext_ids = [[f[1], True] for f in frames if f[2]]
    hist = []
    for _ in range(rng.choice([0, 1, 1, 2, 3])):
        h = rng.random()
        if h < 0.55:
            # a caller obtains an identifier of its own - for the received PGN / identifier or a frame's - and re-targets it
            src = rng.random()
            if src < 0.4 and k[1]:
                i, ext = pgn_of(k[0]) << 8, True
            elif src < 0.6:
                i, ext = k
            elif src < 0.85 and ext_ids:
                i, ext = rng.choice(ext_ids)
                if rng.random() < 0.5:
                    i = pgn_of(i) << 8
            else:
                i, ext = rand_pgn(rng, pool) << 8, True
            which = rng.choice(["pgn", "pgn", "pgn", "src", "prio", "id"])
            v = {"pgn": rand_pgn(rng, pool), "src": rng.randrange(256), "prio": rng.randrange(8),
                 "id": rng.choice(ext_ids)[0] if ext_ids and rng.random() < 0.7 else rand_ext(rng)}[which]
            hist.append(["req", i, bool(ext), rng.choice(["ctor", "compound", "pgn", "pgn", "pgn", "assign", "setters"] if ext else STD_PATHS),
                         rand_ext(rng), which, v])
        elif h < 0.7:
            hist.append(["bypgn", rand_pgn(rng, pool)])
        elif h < 0.8:
            hist.append(["dec", rand_ext(rng) if rng.random() < 0.5 or not ext_ids else rng.choice(ext_ids)[0], True])
        else:
            # a frame is re-targeted to another PGN (mostly the received one), looked up there, and gets its own PGN back
            hist.append(["retarget", rng.randrange(len(frames)) if frames else 0, pgn_of(k[0]) if k[1] and rng.random() < 0.7 else rand_pgn(rng, pool)])
    c["hist"] = hist
    return jdec_guard(case) if case["op"] == "jdec" else case


KNOWN_PGNS = [0xF004, 0xF002, 0xFE4A, 0xFEF1, 0x0100, 0xFEEE]      # PGNs the bundled j1939.dbc defines as well
OWN_PGNS = [0xFF04, 0xFF21, 0x1200, 0xEF00]                          # proprietary ones


# PGNs the protocol itself uses; user data bases list them as ordinary frames: TP.CM, TP.DT, address claimed, request, acknowledgement,
# ETP.CM, ETP.DT, request2, transfer, DM1, commanded address, proprietary A2
PROTO_PGNS = [0xEC00, 0xEB00, 0xEE00, 0xEA00, 0xE800, 0xC800, 0xC700, 0xC900, 0xCA00, 0xFECA, 0xFED8, 0x1EF00]
# PGNs the bundled j1939.dbc defines with a length other than 8 bytes (multi packet) or with an empty signal (ETH): decoding an 8 byte payload
# with them raises in the unchanged code - payload decoding, not C09's; not received unless the matrix has a frame of its own for them
BUNDLED_LONG = {0xFD78, 0xFD79, 0xFD98, 0xFD99, 0xFDBC, 0xFEB0, 0xFEB4, 0xFEB7, 0xFEB8, 0xFEB9, 0xFEBA, 0xFEBB, 0xFEBC, 0xFEE1, 0xFEE3, 0xFE90}
TP_CONTROL = [32, 16, 17, 19, 255]


def rand_jpgn(rng, pf=None):
    """a PGN as a data base defines it (PDU1: low byte 0), from the whole range"""
    c = rng.random()
    if pf is not None:
        p = pf << 8
    elif c < 0.35:
        p = rng.choice(KNOWN_PGNS + OWN_PGNS)
    elif c < 0.65:
        p = rng.choice(PROTO_PGNS)
    else:
        p = rng.choice([0, 1, 0xC7, 0xE8, 0xEA, 0xEB, 0xEC, 0xED, 0xEE, 0xEF, 0xF0, 0xFE, 0xFF, rng.randrange(256), rng.randrange(256)]) << 8
    if pf is not None or c >= 0.65:
        if (p >> 8) & 0xFF >= 240:
            p |= rng.choice([0, 1, 0x21, 0xCA, 255, rng.randrange(256)])
        if rng.random() < (0.5 if pf is not None else 0.2):
            p |= rng.choice([1, 1, 2, 3]) << 16          # data page / extended data page
    return p


def rand_payload(rng):
    c = rng.random()
    if c < 0.4:
        return [1, 2, 3, 4, 5, 6, 7, 8]
    if c < 0.8:
        # the control bytes of the transport protocol in front: length 9, two packets, PGN 0xFECA
        return [rng.choice(TP_CONTROL), 9, 0, rng.choice([0, 1, 2]), 0xFF, 0xCA, 0xFE, 0]
    return [rng.randrange(256) for _ in range(8)]


def rand_dec_history(rng, frames, k):
    """what the decoder object decoded before: [identifier, payload, with the matrix?]"""
    out = []
    ext = [f[1] for f in frames if f[2]]
    sa = rng.choice([k[0] & 0xFF, rng.randrange(256)])
    for _ in range(rng.choice([1, 1, 2, 3, 5])):
        h = rng.random()
        if h < 0.2:
            n = rng.choice([0, 1, 2, 3])
            tp = rng.choice([pgn_of(rng.choice(ext)) if ext else 0xFECA, pgn_of(k[0]), 0xFECA, rng.randrange(1 << 18)])
            out.append([0x1CECFF00 | sa, [32, (7 * n + 2) & 255, 0, n, 255, tp & 255, (tp >> 8) & 255, tp >> 16], rng.random() < 0.8])
        elif h < 0.4:
            out.append([0x1CEBFF00 | sa, [rng.randrange(1, 5)] + [rng.randrange(256) for _ in range(7)], rng.random() < 0.9])
        elif h < 0.5:
            i = rng.choice([0x18EC0000 | (rng.randrange(256) << 8) | sa, 0x18EEFF00 | sa, 0x18EAFF00 | sa])
            out.append([i, [rng.choice(TP_CONTROL[1:]), 9, 0, 2, 1, 0xCA, 0xFE, 0], rng.random() < 0.8])
        elif h < 0.7 and ext:
            i = rng.choice(ext)
            out.append([(i & ~0x1C0000FF & M29) | (rng.randrange(8) << 26) | rng.randrange(256), rand_payload(rng), rng.random() < 0.9])
        elif h < 0.85:
            out.append([k[0], rand_payload(rng), rng.random() < 0.8])
        else:
            out.append([rng.choice([rand_ext(rng), (rng.choice(KNOWN_PGNS) << 8) | rng.randrange(256)]), [1, 2, 3, 4, 5, 6, 7, 8], rng.random() < 0.8])
    return out


def jdec_guard(case):
    """inputs on which the unchanged code raises for reasons outside C09 are kept out (see RULE): a bundled multi packet PGN nobody in the
    matrix carries is replaced by one nobody knows; a received TP.DT nobody in the matrix carries gets a BAM announcement in front"""
    c = case["c"]
    k = c["k"]

    def carried():
        return any(f[2] and pgn_of(f[1]) == pgn_of(k[0]) for f in c["frames"])
    dec = [h for h in c.get("dec") or [] if len(h) < 4]
    if not carried() and pgn_of(k[0]) in BUNDLED_LONG:
        k = c["k"] = [(k[0] & ~0x3FFFF00) | (0x1300 << 8), True]
    if not carried() and pgn_of(k[0]) == 0xEB00:
        dec.append([0x1CECFF00 | (k[0] & 0xFF), [32, 21, 0, 3, 255, 0xFE, 0xFF, 0x03], False, "announcement"])
    if dec or "dec" in c:
        c["dec"] = dec
    return case


def jdec_case(rng, pf=None):
    """canmatrix.j1939_decoder.decode(id, payload, matrix): the matrix's own frame of that PGN comes first"""
    frames = []
    used = set()
    want = rand_jpgn(rng, pf) if pf is not None else None
    nfr = rng.randint(1, 4)
    at = rng.randrange(nfr)
    for k in range(nfr):
        if rng.random() < 0.25 and not (want is not None and k == at):
            i, ext = rng.randrange(1 << 11), False
        else:
            p = want if want is not None and k == at else rand_jpgn(rng)
            i, ext = (rng.randrange(8) << 26) | (p << 8) | rng.choice([0, 1, 5, 254]), True
            if (p >> 8) & 0xFF < 240 and rng.random() < 0.5:
                i |= rng.choice([0xFF, 0xFF, 0x21, rng.randrange(256)]) << 8      # PDU1 frames are defined with a destination, often the global one
        if (i, ext) in used:
            continue
        used.add((i, ext))
        frames.append(["f%d" % k, i, ext, ext])
    own = [pgn_of(f[1]) for f in frames if f[2]]
    c = rng.random()
    if want is not None and rng.random() < 0.8:
        p = pgn_of(want << 8)
    elif own and c < 0.6:
        p = rng.choice(own)
    elif c < 0.8:
        p = rng.choice(KNOWN_PGNS + OWN_PGNS + [0x1300])
    else:
        p = pgn_of(rand_jpgn(rng) << 8)
    kid = (rng.randrange(8) << 26) | (p << 8) | rng.randrange(256)
    if (p >> 8) & 0xFF < 240 and rng.random() < 0.5:
        kid |= rng.randrange(256) << 8          # PDU1: a destination address
    cc = {"frames": frames, "k": [kid, True]}
    if rng.random() < 0.6:
        cc["data"] = rand_payload(rng)
    if rng.random() < 0.5:
        cc["dec"] = rand_dec_history(rng, frames, cc["k"])
    return jdec_guard({"op": "jdec", "c": cc})


def resolve_case(rng, sweep_pf=None):
    frames = []
    pgns = [(rng.randint(0, 1), rng.randint(0, 1), rng.choice([0, 100, 239, 240, 241, 254, 255, 0xEA, 0xEB, 0xEC, 0xEE, rng.randrange(256)]),
             rng.choice([0, 1, 33, 255])) for _ in range(rng.randint(1, 4))]
    if sweep_pf is not None:
        # PDU format sweep: this PDU format is among the PGNs of the matrix (mostly without the page bits, as the protocol's own PGNs are)
        pgns[0] = (0 if rng.random() < 0.7 else rng.randint(0, 1), rng.randint(0, 1) if rng.random() < 0.4 else 0, sweep_pf, rng.choice([0, 1, 33, 255]))
    used = set()
    for k in range(rng.randint(1, 7)):
        if rng.random() < 0.3:
            i, ext, j = rng.randrange(1 << 11), False, False
        else:
            edp, dp, pf, ps = pgns[0] if sweep_pf is not None and not any(e for _, e in used) else rng.choice(pgns)
            i = compose(rng.randrange(8), edp, dp, pf, ps if pf >= 240 or rng.random() < 0.7 else rng.randrange(256), rng.choice([0, 1, 2, 254]))
            ext, j = True, rng.random() < 0.85
        if (i, ext) in used:
            continue
        used.add((i, ext))
        frames.append(["f%d" % k, i, ext, j])
    if rng.random() < 0.85 and not any(f[3] for f in frames):
        frames.append(["fj", compose(3, 0, 0, 254, 17, 5), True, True])
    rng.shuffle(frames)
    c = rng.random()
    std = [f for f in frames if not f[2]]
    if std and rng.random() < 0.15:
        # a received 29-bit identifier with the number of an 11-bit frame of the matrix is another identifier
        k = [rng.choice(std)[1], True]
    elif c < 0.55 or sweep_pf is not None:
        edp, dp, pf, ps = rng.choice(pgns) if sweep_pf is None or rng.random() < 0.2 else pgns[0]
        k = [compose(rng.randrange(8), edp, dp, pf, ps if pf >= 240 else rng.randrange(256), rng.randrange(256)), True]
    elif c < 0.75:
        f = rng.choice(frames)
        k = [f[1], f[2]]
    elif c < 0.9:
        k = [rand_ext(rng), True]
    else:
        k = [rng.randrange(1 << 11), False]
    return {"op": "resolve", "c": {"frames": frames, "k": k}}


# ---------------------------------------------------------------------------------------------------------------------------------
# matrix context: what a matrix carries besides its frames, and the paths of the public API a matrix comes from
# ---------------------------------------------------------------------------------------------------------------------------------
PROTOCOLS = ["J1939", "J1939", "NMEA2000", "ISO11783", "ExtendedCAN", "StandardCAN", "CAN", "CANopen", "j1939", "J1939PG", "", "OBD", "ISO15765", "0"]
GLOBAL_ATTRS = {"ProtocolType": PROTOCOLS, "BusType": ["CAN", "CAN FD", "J1939", ""], "DBName": ["net", "J1939", "CAN"],
                "NmType": ["J1939", "OSEK", ""], "Manufacturer": ["Vector", ""]}
LOADS = ["api", "api", "api", "deepcopy", "merge", "dbcdump", "dbctext", "dbctext"]
VFF = ["StandardCAN", "ExtendedCAN", "reserved", "J1939PG", "reserved", "reserved", "reserved", "reserved", "reserved", "reserved", "reserved",
       "reserved", "reserved", "reserved", "StandardCAN_FD", "ExtendedCAN_FD"]


def rand_ctx(rng, frames):
    load = rng.choice(LOADS)
    attrs = []
    names = []
    if rng.random() < 0.75:
        names.append("ProtocolType")
    for _ in range(rng.choice([0, 0, 1, 2])):
        names.append(rng.choice(sorted(GLOBAL_ATTRS)))
    for n in names:
        when = rng.choice(["before", "after", "after", "late"])
        how = rng.choice(["set", "set", "set", "set", "dict", "changed", "removed"])
        v = rng.choice(GLOBAL_ATTRS[n])
        # "changed": the attribute had another value first; "removed": it was set and is taken away again; "dict": written into
        # CanMatrix.attributes directly, as the readers do
        attrs.append([when, n, v, how, rng.choice(GLOBAL_ATTRS[n])])
    gdefs = []
    for n in sorted(set(names) | ({"ProtocolType"} if rng.random() < 0.3 else set())):
        if rng.random() < (0.85 if load == "dbctext" else 0.5) or load == "dbcdump":
            gdefs.append([n, "STRING", rng.choice(GLOBAL_ATTRS[n] + [None, None])])
    nfd = 0 if load == "dbcdump" or rng.random() < 0.7 else rng.choice([1, 1, 2])
    fd = sorted(rng.sample(range(len(frames)), min(nfd, len(frames))))
    ctx = {"load": load, "attrs": attrs, "gdefs": gdefs, "fattr": rng.choice([0, 0, 1, 1, 2]), "ecus": rng.choice([0, 0, 1, 3])}
    was = None
    if rng.random() < 0.4:
        # the frame kinds have a history: the matrix was built / read / exported while its frames were of other kinds, the flags the case
        # names are assigned afterwards (see build_matrix)
        mode = rng.choice(["plain", "plain", "j1939", "mixed"])
        was = [bool(f[2]) and (mode == "j1939" or (mode == "mixed" and rng.random() < 0.5)) for f in frames]
        ctx["was"] = was
        ctx["reflag"] = rng.choice(["assign", "assign", "assign", "ctor"])
        ctx["exported"] = rng.random() < 0.4
        ctx["convert"] = rng.choice(["", "", "j1939", "extended"]) if mode != "mixed" else ""
        if ctx["fattr"] == 0 and rng.random() < 0.5:
            ctx["fattr"] = 1
    if load == "dbctext":
        # in a DBC file a frame is of one kind: J1939PG or CAN FD
        fd = [x for x in fd if not frames[x][3] and not (was and was[x])]
    ctx["fd"] = fd
    return ctx


def with_ctx(rng, case):
    c = case["c"]
    c["ctx"] = ctx = rand_ctx(rng, c["frames"])
    if case["op"] == "resolve" and ctx.get("convert"):
        # canconvert flags every frame of the matrix, the 11-bit ones as well: --convertToJ1939 / --convertToExtended
        c["frames"] = [list(f[:3]) + [ctx["convert"] == "j1939"] + list(f[4:]) for f in c["frames"]]
    return case


def ctx_case(rng):
    x = rng.random()
    if x < 0.55:
        case = resolve_case(rng)
    elif x < 0.8:
        case = with_history(rng, resolve_case(rng))
    elif x < 0.93:
        case = jdec_case(rng)
    else:
        case = with_history(rng, jdec_case(rng))
    return with_ctx(rng, case)


def neighbours(case, rng, shard, nshards):
    for _ in range(200 // nshards + 1):
        if case["op"] in ("resolve", "jdec") and case["c"].get("ctx"):
            nb = ctx_case(rng)
            if nb["op"] == case["op"]:
                yield nb
            # the same matrix and received identifier in another context, and the same context around another matrix
            yield with_ctx(rng, {"op": case["op"], "c": {kk: vv for kk, vv in case["c"].items() if kk != "ctx"}})
            other = resolve_case(rng) if case["op"] == "resolve" else jdec_case(rng)
            other["c"]["ctx"] = dict(case["c"]["ctx"], fd=[x for x in case["c"]["ctx"].get("fd") or [] if x < len(other["c"]["frames"])
                                                          and not (case["c"]["ctx"].get("load") == "dbctext" and other["c"]["frames"][x][3])])
            yield other
        elif case["op"] == "resolve":
            yield with_history(rng, resolve_case(rng)) if rng.random() < 0.5 else resolve_case(rng)
        elif case["op"] == "jdec":
            yield with_history(rng, jdec_case(rng)) if rng.random() < 0.5 else jdec_case(rng)
        elif len(case["c"]) > {"fields": 2, "set": 4, "frompgn": 1, "compound": 1, "tocompound": 2, "mk": 2}.get(case["op"], 99):
            nb = hist_case(rng)
            if nb["op"] == case["op"]:
                yield nb
        elif case["op"] in ("fields", "tocompound"):
            yield {"op": case["op"], "c": [rand_ext(rng), True]}
        elif case["op"] == "set":
            yield {"op": "set", "c": [rand_ext(rng), True, case["c"][2], rng.randrange(1 << 18)]}
        else:
            yield {"op": case["op"], "c": [rng.randrange(1 << 32)] + case["c"][1:]}


def aid(a):
    return [a.id, bool(a.extended)]


GETTERS = ("pgn", "j1939_pgn", "j1939_priority", "j1939_edp", "j1939_dp", "j1939_pf", "j1939_ps", "j1939_source", "j1939_destination",
           "j1939_pdu_format", "j1939_tuple")


def touch(a):
    """read the whole view of an identifier once"""
    for n in GETTERS:
        try:
            getattr(a, n)
        except Exception:  # noqa
            pass
    try:
        a.to_compound_integer()
    except Exception:  # noqa
        pass


def build(i, ext, path, aux):
    """the identifier (i, ext) through one path of the public API"""
    A = cm.ArbitrationId
    if path == "ctor":
        return A(i, ext)
    if path == "fromcompound":
        return A.from_compound_integer(i)          # i: the integer as it stands
    if path == "compound":
        return A.from_compound_integer(i | (1 << 31) if ext else i)
    if path == "frompgn":
        return A.from_pgn(i)
    if path == "assign":
        # an object that carried another number (and was read) gets the number by plain assignment
        a = A(aux & M29, True)
        touch(a)
        a.id, a.extended = i, ext
        return a
    if not ext:
        return A(i, ext)
    pgn, prio, sa = (i >> 8) & 0x3FFFF, (i >> 26) & 7, i & 0xFF
    if path == "pgn":
        a = A.from_pgn(pgn)
        a.j1939_priority = prio
        a.j1939_source = sa
        return a
    if path == "frame":
        # a frame created for another PGN, re-targeted through the Frame properties
        fr = cm.Frame("x", arbitration_id=A.from_pgn(aux & 0x3FFFF), size=8)
        touch(fr.arbitration_id)
        fr.source = sa
        fr.pgn = pgn
        fr.priority = prio
        return fr.arbitration_id
    if path == "std":
        a = A(aux & 0x7FF, False)
        touch(a)
        a.pgn = pgn
        a.j1939_source = sa
        a.j1939_priority = prio
        return a
    if path == "setters":
        a = A(aux & M29, True)
        touch(a)
        a.j1939_priority = prio
        a.pgn = pgn
        a.j1939_source = sa
        return a
    raise ValueError(path)


def mutate(a, which, v):
    if which == "prio":
        a.j1939_priority = v
    elif which == "src":
        a.j1939_source = v
    elif which == "pgn":
        a.pgn = v
    elif which == "id":
        a.id = v
    elif which == "flag":
        a.extended = not a.extended


def obtain(i, ext, via):
    """the identifier under test; siblings obtained the same way with the same arguments are modified before and after"""
    if not via:
        return cm.ArbitrationId(i, ext)

    def sibling(when):
        for w, which, v in via["ghost"]:
            if w == when:
                try:
                    g = build(i, ext, via["path"], via["aux"])
                    touch(g)
                    mutate(g, which, v)
                    touch(g)
                except Exception:  # noqa
                    pass
    sibling("before")
    a = build(i, ext, via["path"], via["aux"])
    sibling("after")
    return a


def opt(c, n):
    return c[n] if len(c) > n else None


def run_history(db, c):
    """what the process does between building the matrix and decoding the received identifier"""
    k = c["k"]
    for h in c.get("hist") or []:
        try:
            if h[0] == "req":
                x = build(h[1], h[2], h[3], h[4])
                touch(x)
                mutate(x, h[5], h[6])
                touch(x)
            elif h[0] == "bypgn":
                db.frame_by_pgn(h[1])
            elif h[0] == "dec":
                db.decode(cm.ArbitrationId(h[1], h[2]), b"\x55" * 8)
            elif h[0] == "retarget" and db.frames:
                fr = db.frames[h[1] % len(db.frames)]
                if fr.arbitration_id.extended:
                    own = (fr.arbitration_id.id >> 8) & 0x3FFFF
                    fr.pgn = h[2]
                    try:
                        db.frame_by_pgn(h[2])
                        db.frame_by_id(fr.arbitration_id)
                        db.decode(cm.ArbitrationId(k[0], k[1]), b"\x55" * 8)
                    except Exception:  # noqa
                        pass
                    fr.pgn = own
        except Exception:  # noqa
            pass


def was_of(ctx, n, j):
    """the J1939 flag frame n had while the matrix was built / read / exported (the flag of the case is assigned afterwards)"""
    w = (ctx or {}).get("was")
    return bool(w[n]) if w is not None and n < len(w) else bool(j)


def vff_of(ext, j, fd):
    """the VFrameFormat text of a frame kind"""
    return "J1939PG" if j else ("ExtendedCAN" if ext else "StandardCAN") + ("_FD" if fd else "")


def set_global(db, a):
    """one global attribute of the matrix: [when, name, value, how, other value]"""
    _, name, v, how, other = a
    if how == "changed":
        db.add_attribute(name, other)
        db.attribute(name)
        db.add_attribute(name, v)
    elif how == "removed":
        db.add_attribute(name, v)
        db.attribute(name)
        db.attributes.pop(name, None)
    elif how == "dict":
        db.attributes[name] = v
    else:
        db.add_attribute(name, v)


def dbc_text(c, size):
    """the matrix of the case as a DBC file written by the harness (not by the exporter)"""
    ctx = c["ctx"]
    ecus = ["E%d" % n for n in range(ctx.get("ecus") or 0)]
    fd = set(ctx.get("fd") or [])
    out = ['VERSION ""', "", "NS_ :", "", "BS_:", "", "BU_: " + " ".join(ecus), ""]
    for n, f in enumerate(c["frames"]):
        name, i, ext = f[0], f[1], f[2]
        out.append("BO_ %d %s: %d %s" % (i | (1 << 31) if ext else i, name, size, ecus[n % len(ecus)] if ecus else "Vector__XXX"))
        out.append(' SG_ sig_%s : 0|8@1+ (1,0) [0|255] "" %s' % (name, ecus[-1] if ecus else "Vector__XXX"))
        out.append("")
    for name, kind, default in ctx.get("gdefs") or []:
        out.append('BA_DEF_  "%s" %s ;' % (name, kind))
    out.append('BA_DEF_ BO_  "VFrameFormat" ENUM  %s;' % ",".join('"%s"' % t for t in (VFF if fd else VFF[:4])))
    for name, kind, default in ctx.get("gdefs") or []:
        if default is not None:
            out.append('BA_DEF_DEF_  "%s" "%s";' % (name, default))
    out.append('BA_DEF_DEF_  "VFrameFormat" "StandardCAN";')
    for a in ctx.get("attrs") or []:
        if a[0] != "late":
            if a[3] == "changed":
                out.append('BA_ "%s" "%s";' % (a[1], a[4]))
            if a[3] != "removed":
                out.append('BA_ "%s" "%s";' % (a[1], a[2]))
    fattr = ctx.get("fattr") or 0
    for n, f in enumerate(c["frames"]):
        name, i, ext, j = f[:4]
        j = was_of(ctx, n, j)
        if j or n in fd or fattr == 1 or (fattr == 2 and n % 2):
            out.append('BA_ "VFrameFormat" BO_ %d %d;' % (i | (1 << 31) if ext else i, VFF.index(vff_of(ext, j, n in fd))))
    return ("\n".join(out) + "\n").encode("utf-8")


def build_matrix(c, size):
    """the matrix of a 'resolve' / 'jdec' case: its frames, and - with a context - what else a matrix carries, through the path of the
    public API the context names"""
    import contextlib
    import copy as pycopy
    import io
    ctx = c.get("ctx") or {}
    load = ctx.get("load") or "api"
    if load == "dbctext":
        import canmatrix.formats.dbc
        with contextlib.redirect_stdout(io.StringIO()):
            db = canmatrix.formats.dbc.load(io.BytesIO(dbc_text(c, size)), dbcImportEncoding="utf8")
        return reflag(db, c)
    db = cm.CanMatrix()
    for name, kind, default in ctx.get("gdefs") or []:
        db.add_global_defines(name, kind)
        if default is not None:
            db.add_define_default(name, default)
    for a in ctx.get("attrs") or []:
        if a[0] == "before":
            set_global(db, a)
    ecus = ["E%d" % n for n in range(ctx.get("ecus") or 0)]
    for e in ecus:
        db.add_ecu(cm.Ecu(e))
    fd = set(ctx.get("fd") or [])
    fattr = ctx.get("fattr") or 0
    if fattr:
        db.add_frame_defines("VFrameFormat", "ENUM  " + ",".join('"%s"' % t for t in VFF))
        db.add_define_default("VFrameFormat", "StandardCAN")
    for n, f in enumerate(c["frames"]):
        name, i, ext, j = f[:4]
        wj = was_of(ctx, n, j)
        # (frame kinds with a history: the frame is created as what it was then - or, 'ctor', with the flag it has now while the
        # attributes still name the earlier kind)
        fr = cm.Frame(name, arbitration_id=obtain(i, ext, opt(f, 4)), size=size, is_j1939=j if ctx.get("reflag") == "ctor" else wj)
        fr.add_signal(cm.Signal("sig_" + name, start_bit=0, size=8, is_signed=False))
        if n in fd:
            fr.is_fd = True
        if ecus:
            fr.add_transmitter(ecus[n % len(ecus)])
            fr.signals[0].add_receiver(ecus[-1])
        if fattr == 1 or (fattr == 2 and n % 2):
            fr.add_attribute("VFrameFormat", vff_of(ext, wj, n in fd))
        db.add_frame(fr)
    for a in ctx.get("attrs") or []:
        if a[0] == "after":
            set_global(db, a)
    if ctx.get("exported"):
        # the matrix was exported once (the exporter leaves VFrameFormat attributes, definitions and ProtocolType / BusType behind)
        import canmatrix.formats.dbc
        try:
            with contextlib.redirect_stdout(io.StringIO()):
                canmatrix.formats.dbc.dump(db, io.BytesIO())
        except Exception:  # noqa
            pass
    if load == "deepcopy":
        db.contains_j1939, db.contains_fd
        db = pycopy.deepcopy(db)
    elif load == "merge":
        target = cm.CanMatrix()
        target.merge([db])
        for a in ctx.get("attrs") or []:
            if a[0] == "after":
                set_global(target, a)
        db = target
    elif load == "dbcdump":
        import canmatrix.formats.dbc
        buf = io.BytesIO()
        with contextlib.redirect_stdout(io.StringIO()):
            canmatrix.formats.dbc.dump(db, buf)
            db = canmatrix.formats.dbc.load(io.BytesIO(buf.getvalue()))
    return reflag(db, c)


def reflag(db, c):
    """frame kinds with a history: the frames get the flags the case names by assignment, after the matrix was built / read / exported
    with the earlier ones (what canconvert's --convertToJ1939 / --convertToExtended do with a matrix they have read)"""
    if (c.get("ctx") or {}).get("was") is None:
        return db
    db.contains_j1939
    for f in c["frames"]:
        fr = db.frame_by_name(f[0])
        if fr is not None:
            fr.is_j1939 = bool(f[3])
    return db


def late_context(db, c):
    """attributes the matrix gets just before the received identifier is decoded"""
    for a in (c.get("ctx") or {}).get("attrs") or []:
        if a[0] == "late":
            set_global(db, a)


def observe_fresh(case):
    """the observation of one case in a fresh interpreter: what the process did before cannot contribute (used while a failing case is
    minimised, so that the replay file is a failing input on its own, and when such a replay is run)"""
    from lib import core
    harness = os.path.dirname(os.path.dirname(os.path.abspath(__file__)))
    code = ("import sys, json; sys.path.insert(0, %r); from props import c09; "
            "print('\\n@@' + json.dumps(c09.observe(json.loads(sys.argv[1]))))" % harness)
    try:
        p = subprocess.run([sys.executable, "-c", code, json.dumps({"op": case["op"], "c": case["c"]})], capture_output=True, text=True, timeout=300)
    except (OSError, subprocess.TimeoutExpired) as e:
        raise core.Infra("fresh observation could not run: %r" % e)
    for line in p.stdout.split("\n"):
        if line.startswith("@@"):
            return json.loads(line[2:])
    raise core.Infra("fresh observation failed: rc=%s %s" % (p.returncode, p.stderr[-800:]))


def observe(case):
    if case.get("fresh"):
        return observe_fresh(case)
    op, c = case["op"], case["c"]
    try:
        if op == "mk":
            return {"ok": aid(obtain(c[0], c[1], opt(c, 2)))}
        if op == "compound":
            a = obtain(c[0], False, opt(c, 1)) if opt(c, 1) else cm.ArbitrationId.from_compound_integer(c[0])
            return {"ok": aid(a) + [a.to_compound_integer()]}
        if op == "tocompound":
            a = obtain(c[0], c[1], opt(c, 2))
            n = a.to_compound_integer()
            try:
                back = {"ok": aid(cm.ArbitrationId.from_compound_integer(n))}
            except Exception as e:  # noqa
                back = {"err": F.errname(e)}
            return {"ok": [n, back]}
        if op == "fields":
            a = obtain(c[0], c[1], opt(c, 2))
            return {"ok": {"pgn": a.pgn, "prio": a.j1939_priority, "edp": a.j1939_edp, "dp": a.j1939_dp, "pf": a.j1939_pf,
                           "ps": a.j1939_ps, "sa": a.j1939_source, "dest": a.j1939_destination}}
        if op == "set":
            a = obtain(c[0], c[1], opt(c, 4))
            if c[2] == "prio":
                a.j1939_priority = c[3]
            elif c[2] == "src":
                a.j1939_source = c[3]
            else:
                a.pgn = c[3]
            return aid(a)
        if op == "frompgn":
            a = obtain(c[0], True, opt(c, 1)) if opt(c, 1) else cm.ArbitrationId.from_pgn(c[0])
            return {"ok": aid(a) + [a.pgn]}
        if op == "jdec":
            import canmatrix.j1939_decoder
            db = build_matrix(c, 8)
            run_history(db, c)
            late_context(db, c)
            dec = canmatrix.j1939_decoder.j1939_decoder()
            # the decoder object has a history of its own: what it decoded before (with the matrix or without one)
            for h in c.get("dec") or []:
                try:
                    dec.decode(cm.ArbitrationId(h[0], True), bytes(h[1]), db if h[2] else None)
                except Exception:  # noqa
                    pass
            res = dec.decode(cm.ArbitrationId(c["k"][0], c["k"][1]), bytes(c.get("data") or [1, 2, 3, 4, 5, 6, 7, 8]), db)
            # the connection management branches of the transport protocol answer with a bare text
            text, values = res if isinstance(res, tuple) else (res, {})
            kind = "regular" if text.startswith("regular ") else "known" if text.startswith("J1939 known: ") else "other"
            return {"kind": kind, "name": text[8:] if kind == "regular" else None, "signals": sorted(values.keys()) if kind == "regular" else None}
        if op == "resolve":
            db = build_matrix(c, 1)
            # the matrix has a history: one of its frames carried the received identifier a moment ago (and was found under it),
            # then got its own identifier back by assignment; the received identifier is decoded after that
            if db.frames:
                # ... and before that the frames were not flagged as J1939 frames yet (the flags are set afterwards, as
                # canconvert's J1939 option does)
                flags = [fx.is_j1939 for fx in db.frames]
                for fx in db.frames:
                    fx.is_j1939 = False
                try:
                    db.decode(cm.ArbitrationId(c["k"][0], c["k"][1]), b"\x55")
                except Exception:  # noqa
                    pass
                for fx, fl in zip(db.frames, flags):
                    fx.is_j1939 = fl
                f0 = db.frames[len(c["frames"]) // 2]
                own = (f0.arbitration_id.id, f0.arbitration_id.extended)
                if (c["k"][0], bool(c["k"][1])) != (own[0], bool(own[1])):
                    f0.arbitration_id.id, f0.arbitration_id.extended = c["k"][0], c["k"][1]
                    try:
                        db.decode(cm.ArbitrationId(c["k"][0], c["k"][1]), b"\x55")
                        db.frame_by_id(cm.ArbitrationId(c["k"][0], c["k"][1]))
                    except Exception:  # noqa
                        pass
                    f0.arbitration_id.id, f0.arbitration_id.extended = own
            run_history(db, c)
            late_context(db, c)
            d = db.decode(cm.ArbitrationId(c["k"][0], c["k"][1]), b"\x55")
            if not d:
                return {"ok": None}
            return {"ok": list(d.keys())[0][4:]}
    except AttributeError:
        return {"err": "keyError"}
    except Exception as e:  # noqa
        return {"err": F.errname(e)}


def project(impl):
    if "kind" in impl:
        return {"kind": impl["kind"], "name": impl["name"]} if impl["kind"] == "regular" else {"kind": "not-regular"}
    return impl


def features(case, impl):
    yield "op=" + case["op"]
    if isinstance(impl, dict):
        yield case["op"] + ":" + ("err:" + impl["err"] if "err" in impl else "ok")
    if case["op"] == "resolve":
        yield "resolve->" + ("none" if impl.get("ok", 1) is None else "frame" if "ok" in impl else "err")
        fr = case["c"]["frames"]
        if fr and not fr[0][2]:
            yield "11-bit frame first"
    c = case["c"]
    if isinstance(c, list) and c and isinstance(c[-1], dict):
        yield "via=" + c[-1]["path"]
        yield "siblings modified=%d" % len(c[-1]["ghost"])
    if isinstance(c, dict) and "hist" in c:
        yield "matrix with identifier history"
        for h in c["hist"]:
            yield "hist:" + h[0]
        for f in c["frames"]:
            if len(f) > 4 and f[4]:
                yield "frame id via=" + f[4]["path"]
    if isinstance(c, dict) and c.get("ctx"):
        ctx = c["ctx"]
        yield "matrix context: load=" + ctx["load"]
        hasj = any(f[3] for f in c["frames"])
        final = {}
        for a in ctx["attrs"]:
            yield "matrix context: attribute %s %s (%s)" % (a[1], a[3], a[0])
            if a[3] == "removed":
                final.pop(a[1], None)
            else:
                final[a[1]] = a[2]
        if not ctx["attrs"]:
            yield "matrix context: no global attribute"
        if "ProtocolType" in final and ctx["load"] != "dbcdump":
            pt = final["ProtocolType"]
            yield "matrix context: %s, ProtocolType %s" % ("J1939 frames" if hasj else "no J1939 frame",
                                                          "J1939" if pt == "J1939" else "empty" if pt == "" else "another text")
        yield "matrix context: global definitions=%d" % len(ctx["gdefs"])
        yield "matrix context: VFrameFormat attributes " + ["from the reader/exporter only", "on all frames", "on some frames"][ctx["fattr"]]
        yield "matrix context: ECUs=%d" % ctx["ecus"]
        if ctx.get("was") is not None:
            ch = [(was_of(ctx, n, f[3]), bool(f[3])) for n, f in enumerate(c["frames"])]
            yield "frame kinds with a history: %s%s" % (ctx.get("reflag"), ", exported before" if ctx.get("exported") else "")
            if any(w and not j for w, j in ch):
                yield "frame kinds with a history: a J1939 frame became a plain one"
            if any(j and not w for w, j in ch):
                yield "frame kinds with a history: a plain frame became a J1939 one" + (
                    ", none was one before" if not any(w for w, _ in ch) else "")
            if any(j and not f[2] for f in c["frames"] for j in [f[3]]):
                yield "frame kinds with a history: 11-bit frames flagged J1939 as well"
        if ctx["fd"]:
            yield "matrix context: CAN FD frames" + (" (one of them a J1939 frame)" if any(c["frames"][x][3] for x in ctx["fd"]) else "")
    if case["op"] in ("jdec", "resolve"):
        k = c["k"]
        if k[1]:
            p = pgn_of(k[0])
            carried = any(f[2] and pgn_of(f[1]) == p for f in c["frames"])
            yield case["op"] + ": received PGN " + ("carried by a frame" if carried else "not carried")
            if p in PROTO_PGNS:
                yield case["op"] + ": received PGN is one the protocol uses (0x%05X), %s" % (p, "carried" if carried else "not carried")
        if case["op"] == "jdec":
            yield "jdec: decoder history=%d" % len(c.get("dec") or [])
            yield "jdec: payload starts with " + ("a TP control byte" if (c.get("data") or [1])[0] in TP_CONTROL else "another byte")
            if isinstance(impl, dict) and impl.get("kind"):
                yield "jdec->" + impl["kind"]
    if case["op"] == "fields" and case["c"][1]:
        yield "pdu%d" % (1 if ((case["c"][0] >> 16) & 0xFF) < 240 else 2)


def nontrivial(case, impl):
    c = case["c"]
    return case["op"] in ("resolve", "jdec") or c[0] != 0


def keep_out(case):
    """smaller candidates stay inside the generated domain"""
    if case["op"] == "jdec":
        case = {"op": "jdec", "c": dict(case["c"], k=list(case["c"]["k"]), dec=[list(h) for h in case["c"].get("dec") or []])}
        return jdec_guard(case)
    return case


def _smaller(case):
    if case["op"] in ("resolve", "jdec"):
        c = case["c"]
        fr = c["frames"]
        hist = c.get("hist") or []
        ctx = c.get("ctx")
        for i in range(len(fr)):
            if len(fr) > 1 and not any(h[0] == "retarget" for h in hist):
                less = dict(c, frames=fr[:i] + fr[i + 1:])
                if ctx:
                    # (the VFrameFormat attributes "on some frames" go by position: the context keeps its shape, the frames move)
                    less["ctx"] = dict(ctx, fd=[x - (x > i) for x in ctx.get("fd") or [] if x != i])
                    if ctx.get("was") is not None:
                        less["ctx"]["was"] = ctx["was"][:i] + ctx["was"][i + 1:]
                yield keep_out({"op": case["op"], "c": less})
        if ctx:
            # a smaller context: the plain API path, fewer attributes, no definitions, no frame attributes, no ECUs, no CAN FD frames
            if ctx.get("load") not in (None, "api"):
                yield keep_out({"op": case["op"], "c": dict(c, ctx=dict(ctx, load="api"))})
            for i in range(len(ctx.get("attrs") or [])):
                yield keep_out({"op": case["op"], "c": dict(c, ctx=dict(ctx, attrs=ctx["attrs"][:i] + ctx["attrs"][i + 1:]))})
            for i, a in enumerate(ctx.get("attrs") or []):
                if a[3] != "set" or a[0] != "after":
                    yield keep_out({"op": case["op"], "c": dict(c, ctx=dict(ctx, attrs=ctx["attrs"][:i] + [["after", a[1], a[2], "set", a[4]]] + ctx["attrs"][i + 1:]))})
            if ctx.get("was") is not None:
                yield keep_out({"op": case["op"], "c": dict(c, ctx={kk: vv for kk, vv in ctx.items() if kk not in ("was", "reflag", "exported", "convert")})})
            for key, empty in (("gdefs", []), ("fattr", 0), ("ecus", 0), ("fd", []), ("exported", False)):
                if ctx.get(key):
                    yield keep_out({"op": case["op"], "c": dict(c, ctx=dict(ctx, **{key: empty}))})
        for i in range(len(hist)):
            yield keep_out({"op": case["op"], "c": dict(c, hist=hist[:i] + hist[i + 1:])})
        dech = c.get("dec") or []
        for i in range(len(dech)):
            if len(dech[i]) < 4:
                yield keep_out({"op": case["op"], "c": dict(c, dec=dech[:i] + dech[i + 1:])})
        if c.get("data"):
            yield keep_out({"op": case["op"], "c": {kk: vv for kk, vv in c.items() if kk != "data"}})
        for i, f in enumerate(fr):
            if len(f) > 4 and f[4]:
                yield {"op": case["op"], "c": dict(c, frames=fr[:i] + [list(f[:4]) + [None]] + fr[i + 1:])}
                if f[4]["ghost"]:
                    yield {"op": case["op"], "c": dict(c, frames=fr[:i] + [list(f[:4]) + [dict(f[4], ghost=[])]] + fr[i + 1:])}
    elif isinstance(case["c"], list) and case["c"] and isinstance(case["c"][-1], dict) and case["c"][-1].get("ghost"):
        via = case["c"][-1]
        for i in range(len(via["ghost"])):
            yield {"op": case["op"], "c": case["c"][:-1] + [dict(via, ghost=via["ghost"][:i] + via["ghost"][i + 1:])]}


PLAIN_LEN = {"fields": 2, "set": 4, "frompgn": 1, "compound": 1, "tocompound": 2, "mk": 2}


def _with_a_history(case):
    """a failing case without a history of its own failed because of what the process did before: the same input with the histories
    the generator attaches, a few of each kind (deterministic)"""
    import random
    rng = random.Random(12345)
    op, c = case["op"], case["c"]
    if op in ("resolve", "jdec"):
        for _ in range(6):
            yield with_history(rng, {"op": op, "c": dict(c, frames=[list(f) for f in c["frames"]], k=list(c["k"]))})
    elif op in PLAIN_LEN and len(c) == PLAIN_LEN[op]:
        own = {"frompgn": "frompgn", "compound": "fromcompound", "mk": "ctor"}.get(op)
        ext = True if op == "frompgn" else bool(c[1]) if op != "compound" else False
        for _ in range(6):
            via = {"path": own, "aux": 0, "ghost": rand_ghosts(rng)} if own else rand_via(rng, ext, p_ghost=1.0)
            yield {"op": op, "c": list(c) + [via]}


def shrink_candidates(case):
    """every candidate is observed in a fresh interpreter ("fresh"): identifiers and lookups must not depend on what the process did
    before, so a case that fails only after other cases is no failing input on its own - the replay must be one"""
    if not case.get("fresh"):
        yield dict(case, fresh=1)
        for cand in _with_a_history(case):
            yield dict(cand, fresh=1)
        return
    for cand in _smaller(case):
        yield dict(cand, fresh=1)
