import CanVerif.Model.DbcPrep
import CanVerif.Props.C05i
import CanVerif.Proofs.DbcText
import CanVerif.Proofs.DbcTablesRT
/-!
# C05 — a name longer than 32 characters: what the writer does to it and what the reader makes of that

`prepLong` is the writer's step (Model/DbcPrep.lean, compared with the matrix `dump` works on), `writtenValue` the quoting of STRING
values, `attrsOf` the dictionary the reader's `BA_` statements build (Props/C05k-l), `longName` the reader's post-processing
(Props/C05i, C05p).  For every name longer than 32 characters and every attribute dictionary with pairwise different keys: the name the
reader ends with is the original name, the short name is its first 32 characters, and the carrier attribute is gone again.
-/
namespace CanVerif.C05q
open CanVerif CanVerif.Dbc

theorem assocSet_keys_nodup (l : List (Str × Str)) (k v : Str) (h : (l.map (·.1)).Nodup) : ((assocSet l k v).map (·.1)).Nodup := by
  induction l with
  | nil => simp [assocSet]
  | cons a r ih =>
    obtain ⟨k', v'⟩ := a
    simp only [List.map_cons, List.nodup_cons] at h
    unfold assocSet
    split
    · simpa using h
    · rename_i hne
      simp only [List.map_cons, List.nodup_cons]
      refine ⟨?_, ih h.2⟩
      intro hmem
      have hne' : ¬ k' = k := by simpa using hne
      -- a key of `assocSet r k v` is a key of `r` or `k`
      have : ∀ (l : List (Str × Str)), ∀ x ∈ (assocSet l k v).map (·.1), x ∈ l.map (·.1) ∨ x = k := by
        intro l
        induction l with
        | nil => intro x hx; simp [assocSet] at hx; exact Or.inr hx
        | cons b t iht =>
          intro x hx
          obtain ⟨kb, vb⟩ := b
          unfold assocSet at hx
          split at hx
          · left; simpa using hx
          · simp only [List.map_cons, List.mem_cons] at hx
            rcases hx with rfl | hx
            · left; simp
            · rcases iht x hx with h1 | h1
              · left; simp [h1]
              · right; exact h1
      rcases this r k' hmem with h1 | h1
      · exact h.1 h1
      · exact hne' h1

theorem lookup_assocSet (l : List (Str × Str)) (k v : Str) : lookupAttr (assocSet l k v) k = some v := by
  induction l with
  | nil => simp [assocSet, lookupAttr]
  | cons a r ih =>
    obtain ⟨k', v'⟩ := a
    unfold assocSet
    split
    · rename_i he
      simp [lookupAttr, List.find?_cons, he]
    · rename_i hne
      have hne' : (k' == k) = false := by simpa using hne
      unfold lookupAttr at ih ⊢
      simp only [List.find?_cons, hne']
      exact ih

/-- the dictionary the `BA_` statements build from pairs with pairwise different keys is the list of pairs, values stripped -/
theorem attrsOf_nodup (kvs : List (Str × Str)) (h : (kvs.map (·.1)).Nodup) : attrsOf kvs = kvs.map fun kv => (kv.1, stripWs kv.2) := by
  unfold attrsOf
  have : ∀ (acc : List (Str × Str)), ((acc ++ kvs).map (·.1)).Nodup →
      kvs.foldl (fun a kv => assocSet a kv.1 (stripWs kv.2)) acc = acc ++ kvs.map fun kv => (kv.1, stripWs kv.2) := by
    induction kvs with
    | nil => intro acc _; simp
    | cons e r ih =>
      intro acc hn
      simp only [List.foldl_cons]
      have hnew : assocSet acc e.1 (stripWs e.2) = acc ++ [(e.1, stripWs e.2)] := by
        have hk : e.1 ∉ acc.map (·.1) := by
          have : ((acc.map (·.1)) ++ e.1 :: r.map (·.1)).Nodup := by simpa using hn
          rw [List.nodup_append] at this
          intro hmem
          exact this.2.2 e.1 hmem e.1 (by simp) rfl
        clear hn ih
        induction acc with
        | nil => rfl
        | cons a t iht =>
          obtain ⟨ka, va⟩ := a
          simp only [List.map_cons, List.mem_cons, not_or] at hk
          have hne : (ka == e.1) = false := by
            cases hb : (ka == e.1) with
            | false => rfl
            | true => exact absurd (by simpa using hb : ka = e.1).symm hk.1
          simp only [assocSet, hne, Bool.false_eq_true, if_false, List.cons_append, iht hk.2]
      rw [hnew, ih (by simp at h; exact h.2) (acc ++ [(e.1, stripWs e.2)]) (by simpa using hn)]
      simp
  have := this [] (by simpa using h)
  simpa using this

theorem stripWs_quoted (n : Str) : stripWs ('"' :: n ++ ['"']) = '"' :: n ++ ['"'] := by
  have hl : ('"' :: n ++ ['"']).getLast? = some '"' := by
    have : '"' :: n ++ ['"'] = ('"' :: n) ++ ['"'] := rfl
    rw [this, List.getLast?_append]
    rfl
  exact CanVerif.Dbc.stripWs_id _ '"' '"' rfl hl (by decide) (by decide)

/-- **a long name goes out and comes back**: shortened with its carrier attribute by the writer, written in quotes, read into the
attribute dictionary, restored by the post-processing -/
theorem long_name_roundtrip (attr : String) (name : Str) (attrs : List (Str × Str)) (isString : Str → Bool)
    (hlen : name.length > 32) (hnd : (attrs.map (·.1)).Nodup) (hstr : isString attr.toList = true) :
    let p := prepLong attr name attrs
    let read := attrsOf (p.2.map fun kv => (kv.1, writtenValue (isString kv.1) kv.2))
    p.1 = name.take 32 ∧ (longName attr p.1 read).1 = name ∧ lookupAttr (longName attr p.1 read).2 attr.toList = none := by
  simp only [prepLong, hlen, if_true]
  have hnd' := assocSet_keys_nodup attrs attr.toList name hnd
  have hkeys : ((assocSet attrs attr.toList name).map fun kv => (kv.1, writtenValue (isString kv.1) kv.2)).map (·.1) =
      (assocSet attrs attr.toList name).map (·.1) := by rw [List.map_map]; rfl
  rw [attrsOf_nodup _ (by rw [hkeys]; exact hnd')]
  have hlook : lookupAttr (((assocSet attrs attr.toList name).map fun kv => (kv.1, writtenValue (isString kv.1) kv.2)).map
      fun kv => (kv.1, stripWs kv.2)) attr.toList = some ('"' :: name ++ ['"']) := by
    have h1 := lookup_assocSet attrs attr.toList name
    unfold lookupAttr at h1 ⊢
    rw [List.map_map, List.find?_map]
    have hp : ((fun kv : Str × Str => kv.1 == attr.toList) ∘ ((fun kv : Str × Str => (kv.1, stripWs kv.2)) ∘ fun kv : Str × Str => (kv.1, writtenValue (isString kv.1) kv.2))) =
        fun kv : Str × Str => kv.1 == attr.toList := rfl
    rw [hp]
    cases hf : List.find? (fun kv : Str × Str => kv.1 == attr.toList) (assocSet attrs attr.toList name) with
    | none => rw [hf] at h1; simp at h1
    | some kv =>
      rw [hf] at h1
      simp only [Option.map_some, Option.some.injEq] at h1
      have hk : kv.1 = attr.toList := by
        have := List.find?_some hf
        simpa using this
      simp only [Option.map_some, Function.comp_apply, hk, hstr, writtenValue, if_true, h1, stripWs_quoted]
  exact ⟨trivial, (C05i.long_name_restored attr _ _ name hlook).1, (C05i.long_name_restored attr _ _ name hlook).2⟩

/-- **a text attribute goes out and comes back**: written in quotes because its definition is STRING, read with its quotes into the
dictionary, stripped of them by the post-processing (for every text, also one with blanks at its ends or quotes inside) -/
theorem string_attribute_roundtrip (defs : List RDef) (lvl : Level) (k v : Str)
    (hdef : defs.any (fun d => d.level == lvl && d.name == k && defType d.definition == "STRING".toList) = true) :
    stripStrings defs lvl (attrsOf [(k, writtenValue true v)]) = [(k, v)] := by
  simp only [attrsOf, List.foldl_cons, List.foldl_nil, assocSet, writtenValue, if_true, stripWs_quoted, stripStrings, List.map_cons, List.map_nil,
    hdef]
  simp [stripQuotes]

/-- a value of an attribute that is not defined as STRING on that level is left as it was read -/
theorem other_attribute_untouched (defs : List RDef) (lvl : Level) (k v : Str)
    (hdef : defs.any (fun d => d.level == lvl && d.name == k && defType d.definition == "STRING".toList) = false) :
    stripStrings defs lvl [(k, v)] = [(k, v)] := by
  simp only [stripStrings, List.map_cons, List.map_nil, hdef]
  rfl

/-- the text of a natural number is read as that number -/
theorem strToDec_nat (n : Nat) : strToDec (natDigits n) = some ⟨false, n, 0⟩ := by
  have h := Num.strToDec_shape false (natDigits n) [] [] n 0 (Num.natDigits_allDig n) (by intro c hc; simp at hc) (Num.natDigits_ne_nil n)
    (by simpa using Num.digitsToNat_natDigits' n) (Or.inl ⟨rfl, rfl⟩)
  simpa [Num.signStr, Num.dotStr] using h

theorem stripWs_natDigits (n : Nat) : stripWs (natDigits n) = natDigits n := by
  have hall := Num.natDigits_allDig n
  have hne := Num.natDigits_ne_nil n
  obtain ⟨a, ha⟩ : ∃ a, (natDigits n).head? = some a := by
    cases h : natDigits n with
    | nil => exact absurd h hne
    | cons x r => exact ⟨x, rfl⟩
  obtain ⟨b, hb⟩ : ∃ b, (natDigits n).getLast? = some b := by
    cases h : (natDigits n).getLast? with
    | none => simp [List.getLast?_eq_none_iff] at h; exact absurd h hne
    | some x => exact ⟨x, rfl⟩
  exact CanVerif.Dbc.stripWs_id _ a b ha hb
    (FileProofs.isDig_props a (hall a (List.mem_of_mem_head? ha))).2.1 (FileProofs.isDig_props b (hall b (List.mem_of_getLast? hb))).2.1

/-- **cycle times go out and come back**: the writer prints the number, the reader's post-processing converts the text of the attribute -
`int(float(..))` for a frame, `int(..)` for a signal - into the same number -/
theorem cycle_time_roundtrip (n : Nat) (attrs : List (Str × Str)) :
    frameCycle (assocSet attrs "GenMsgCycleTime".toList (natDigits n)) = n ∧
    sigCycle (assocSet attrs "GenSigCycleTime".toList (natDigits n)) = n := by
  constructor
  · unfold frameCycle
    rw [lookup_assocSet]
    simp [floatTextToInt, stripWs_natDigits, strToDec_nat]
  · unfold sigCycle
    rw [lookup_assocSet]
    simp [FileProofs.pyIntKey_natDigits]

/-- a cycle time attribute that is no number is ignored -/
example : frameCycle [("GenMsgCycleTime".toList, "abc".toList)] = 0 ∧ sigCycle [("GenSigCycleTime".toList, "2.5".toList)] = 0 ∧
    frameCycle [("GenMsgCycleTime".toList, "1e3".toList)] = 1000 ∧ frameCycle [("GenMsgCycleTime".toList, "12.9".toList)] = 12 := by decide +kernel

/-- a name of at most 32 characters is left alone by the writer -/
theorem short_name_untouched (attr : String) (name : Str) (attrs : List (Str × Str)) (h : name.length ≤ 32) :
    prepLong attr name attrs = (name, attrs) := by
  unfold prepLong
  have : ¬ name.length > 32 := by omega
  simp [this]

example : prepLong "SystemMessageLongSymbol" "A_frame_name_that_is_longer_than_32_characters".toList [("Note".toList, "x".toList)] =
    ("A_frame_name_that_is_longer_than".toList, [("Note".toList, "x".toList), ("SystemMessageLongSymbol".toList, "A_frame_name_that_is_longer_than_32_characters".toList)]) := by
  decide +kernel

end CanVerif.C05q
