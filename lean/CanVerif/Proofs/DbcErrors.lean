import CanVerif.Proofs.DbcRoundtripF
/-!
# Reading the written file prints no line error
-/
namespace CanVerif.Dbc.FileProofs
open CanVerif CanVerif.Dbc

/-- identifier and signal names of a frame: what the look-ups of the statements depend on -/
def sigShape (f : RFrame) : (Nat × Bool) × List Str := (f.key, f.sigs.map (·.sg.name))

/-- the signal a statement needs to find (a statement about a missing signal is an error only for these kinds) -/
def needsSig : Item → Option Str
  | .valtype _ name => some name
  | .ba ⟨_, .signal _ name, _⟩ => some name
  | _ => none

/-- the frame the statement names exists, and the signal where it must -/
def fine (KS : List ((Nat × Bool) × List Str)) (it : Item) : Prop :=
  ∃ n g, itemFrameUpdA it = some (n, g) ∧ ∃ k names, keyOfCompound n = some k ∧ (k, names) ∈ KS ∧
    ∀ name, needsSig it = some name → name ∈ names

def Shaped (KS : List ((Nat × Bool) × List Str)) (m : RMatrix) : Prop := KeysUnique m ∧ m.frames.map sigShape = KS

theorem modifyAt_names_sig (l : List RSig) (j : Nat) (g : RSig → RSig) (hg : ∀ s, (g s).sg.name = s.sg.name) :
    (modifyAt l j g).map (·.sg.name) = l.map (·.sg.name) := by
  induction l generalizing j with
  | nil => cases j <;> rfl
  | cons x r ih =>
    cases j with
    | zero => simp [modifyAt, hg]
    | succ i => simp only [modifyAt, List.map_cons]; rw [ih]

theorem modSigByName_shape (name : Str) (g : RSig → RSig) (hg : ∀ s, (g s).sg.name = s.sg.name) (f : RFrame) :
    sigShape (modSigByName name g f) = sigShape f := by
  unfold modSigByName
  cases sigIdx f name with
  | none => rfl
  | some j => simp only [sigShape, RFrame.modSig, modifyAt_names_sig _ _ _ hg]

theorem itemUpdA_shape (it : Item) (f : RFrame) : sigShape (itemUpdA it f) = sigShape f := by
  unfold itemUpdA
  cases it with
  | ba b =>
    obtain ⟨k, t, v⟩ := b
    cases t with
    | frame n => simp only [itemFrameUpdA, updByNumber]; split <;> rfl
    | signal n name =>
      simp only [itemFrameUpdA, updByNumber]; split
      · apply modSigByName_shape; intro _; rfl
      · rfl
    | global => rfl
    | ecu e => rfl
  | tx t => simp only [itemFrameUpdA, itemFrameUpd, updByNumber]; split <;> rfl
  | val v =>
    simp only [itemFrameUpdA, itemFrameUpd, updByNumber]; split
    · apply modSigByName_shape; intro _; rfl
    · rfl
  | valtype id name =>
    simp only [itemFrameUpdA, itemFrameUpd, updByNumber]; split
    · apply modSigByName_shape; intro _; rfl
    · rfl
  | grp g => simp only [itemFrameUpdA, itemFrameUpd, updByNumber]; split <;> rfl
  | mul ml =>
    simp only [itemFrameUpdA, itemFrameUpd, updByNumber]; split
    · cases hs : sigIdx f ml.sig with
      | none => simp [hs]
      | some j =>
        simp only [hs, sigShape, RFrame.modSig]
        congr 1
        apply modifyAt_names_sig; intro _; rfl
    · rfl
  | cm hd text =>
    cases hd with
    | bo id => simp only [itemFrameUpdA, itemFrameUpd, updByNumber]; split <;> rfl
    | sg id name =>
      simp only [itemFrameUpdA, itemFrameUpd, updByNumber]; split
      · apply modSigByName_shape; intro _; rfl
      · rfl
    | bu name => rfl
  | _ => rfl

theorem sigIdx_of_mem (f : RFrame) (name : Str) (h : name ∈ f.sigs.map (·.sg.name)) : ∃ j, sigIdx f name = some j := by
  unfold sigIdx
  have : (f.sigs.findIdx? (fun s => s.sg.name == name)).isSome = true := by
    rw [List.findIdx?_isSome]
    obtain ⟨s, hs, rfl⟩ := List.mem_map.mp h
    exact List.any_eq_true.mpr ⟨s, hs, by simp⟩
  exact Option.isSome_iff_exists.mp this

/-- a statement whose frame (and, where it must, signal) exists and whose value is accepted prints no error -/
theorem fine_errors (KS : List ((Nat × Bool) × List Str)) (m : RMatrix) (hP : Shaped KS m) (it : Item) (hf : fine KS it)
    (hok : baOk m.defs it = true) : (applyItem m it).errors = m.errors := by
  obtain ⟨n, g, hupd, k, names, hk, hmem, hsig⟩ := hf
  obtain ⟨hu, hshape⟩ := hP
  rw [← hshape] at hmem
  obtain ⟨f, hfm, hfs⟩ := List.mem_map.mp hmem
  obtain ⟨i, hget⟩ := List.getElem?_of_mem hfm
  have hkey : f.key = k := by have := congrArg Prod.fst hfs; simpa [sigShape] using this
  have hnames : f.sigs.map (·.sg.name) = names := by have := congrArg Prod.snd hfs; simpa [sigShape] using this
  have hfi : frameIdx m n = some i := lookup_by_identifier m hu i f n hget (by rw [hk, hkey])
  have hkn := key_of_frameIdx m n i hfi
  cases it with
  | ba b =>
    obtain ⟨a, t, v⟩ := b
    cases t with
    | frame id =>
      simp only [itemFrameUpdA, Option.some.injEq, Prod.mk.injEq] at hupd; obtain ⟨rfl, _⟩ := hupd
      have hnum : numericOk m .frame a v = true := (numericOk_defs { defs := m.defs } m rfl _ _ _).trans hok
      simp only [applyItem, Item.frameNo, hkn, Bool.false_eq_true, if_false, applyCore, hfi, hnum, Bool.not_true, RMatrix.modFrame]
    | signal id name =>
      simp only [itemFrameUpdA, Option.some.injEq, Prod.mk.injEq] at hupd; obtain ⟨rfl, _⟩ := hupd
      have hnum : numericOk m .signal a v = true := (numericOk_defs { defs := m.defs } m rfl _ _ _).trans hok
      obtain ⟨j, hj⟩ := sigIdx_of_mem f name (by rw [hnames]; exact hsig name rfl)
      simp only [applyItem, Item.frameNo, hkn, Bool.false_eq_true, if_false, applyCore, hfi, hnum, Bool.not_true, hget, Option.bind_some, hj,
        RMatrix.modFrame]
    | global => simp [itemFrameUpdA, itemFrameUpd] at hupd
    | ecu e => simp [itemFrameUpdA, itemFrameUpd] at hupd
  | tx t =>
    simp only [itemFrameUpdA, itemFrameUpd, Option.some.injEq, Prod.mk.injEq] at hupd; obtain ⟨rfl, _⟩ := hupd
    simp only [applyItem, Item.frameNo, hkn, Bool.false_eq_true, if_false, applyCore, hfi, RMatrix.modFrame]
  | val v =>
    simp only [itemFrameUpdA, itemFrameUpd, Option.some.injEq, Prod.mk.injEq] at hupd; obtain ⟨rfl, _⟩ := hupd
    simp only [applyItem, Item.frameNo, hkn, Bool.false_eq_true, if_false, applyCore, hfi, hget, Option.bind_some]
    split <;> rfl
  | valtype id name =>
    simp only [itemFrameUpdA, itemFrameUpd, Option.some.injEq, Prod.mk.injEq] at hupd; obtain ⟨rfl, _⟩ := hupd
    obtain ⟨j, hj⟩ := sigIdx_of_mem f name (by rw [hnames]; exact hsig name rfl)
    simp only [applyItem, Item.frameNo, hkn, Bool.false_eq_true, if_false, applyCore, hfi, hget, Option.bind_some, hj, RMatrix.modFrame]
  | grp gl =>
    simp only [itemFrameUpdA, itemFrameUpd, Option.some.injEq, Prod.mk.injEq] at hupd; obtain ⟨rfl, _⟩ := hupd
    simp only [applyItem, Item.frameNo, hkn, Bool.false_eq_true, if_false, applyCore, hfi, RMatrix.modFrame]
  | mul ml =>
    simp only [itemFrameUpdA, itemFrameUpd, Option.some.injEq, Prod.mk.injEq] at hupd; obtain ⟨rfl, _⟩ := hupd
    simp only [applyItem, Item.frameNo, hkn, Bool.false_eq_true, if_false, applyCore, hfi, hget, Option.bind_some]
    split <;> rfl
  | cm hd text =>
    cases hd with
    | bo id =>
      simp only [itemFrameUpdA, itemFrameUpd, Option.some.injEq, Prod.mk.injEq] at hupd; obtain ⟨rfl, _⟩ := hupd
      simp only [applyItem, Item.frameNo, hkn, Bool.false_eq_true, if_false, applyCore, hfi, RMatrix.modFrame]
    | sg id name =>
      simp only [itemFrameUpdA, itemFrameUpd, Option.some.injEq, Prod.mk.injEq] at hupd; obtain ⟨rfl, _⟩ := hupd
      simp only [applyItem, Item.frameNo, hkn, Bool.false_eq_true, if_false, applyCore, hfi, hget, Option.bind_some]
      split <;> rfl
    | bu name => simp [itemFrameUpdA, itemFrameUpd] at hupd
  | _ => simp [itemFrameUpdA, itemFrameUpd] at hupd

theorem fine_frames (m : RMatrix) (hu : KeysUnique m) (it : Item) (hs : (itemFrameUpdA it).isSome = true) (hok : baOk m.defs it = true) :
    (applyItem m it).frames = m.frames.map (itemUpdA it) := by
  by_cases hold : (itemFrameUpd it).isSome = true
  · rw [itemUpdA_old it hold]; exact applyItem_frames' m hu it hold
  · cases it with
    | ba b =>
      obtain ⟨p, hp⟩ := Option.isSome_iff_exists.mp hs
      obtain ⟨n, g⟩ := p
      rw [baItem_frames m hu b n g hp hok]
      apply List.map_congr_left
      intro f _
      simp [itemUpdA, hp]
    | _ => simp_all [itemFrameUpdA, itemFrameUpd]

theorem fine_defs (m : RMatrix) (it : Item) (hs : (itemFrameUpdA it).isSome = true) : (applyItem m it).defs = m.defs := by
  by_cases hold : (itemFrameUpd it).isSome = true
  · exact (item_defs m it (Or.inl hold)).1
  · cases it with
    | ba b => exact (baItem_rest m b hs).1
    | _ => simp_all [itemFrameUpdA, itemFrameUpd]

/-- a run of such statements prints no error and keeps identifiers and signal names -/
theorem fine_fold (KS : List ((Nat × Bool) × List Str)) (its : List Item) (m : RMatrix) (hP : Shaped KS m)
    (hall : ∀ it ∈ its, fine KS it ∧ baOk m.defs it = true) :
    (its.foldl applyItem m).errors = m.errors ∧ Shaped KS (its.foldl applyItem m) := by
  induction its generalizing m with
  | nil => exact ⟨rfl, hP⟩
  | cons it its ih =>
    simp only [List.foldl_cons]
    obtain ⟨hf, hok⟩ := hall it (by simp)
    have he := fine_errors KS m hP it hf hok
    have hsome : (itemFrameUpdA it).isSome = true := by
      obtain ⟨n, g, hupd, _⟩ := hf
      rw [hupd]; rfl
    have hfr := fine_frames m hP.1 it hsome hok
    have hP' : Shaped KS (applyItem m it) := by
      refine ⟨?_, ?_⟩
      · apply keysUnique_of_keys m _ _ hP.1
        rw [hfr, List.map_map]
        apply List.map_congr_left
        intro f _
        exact itemUpdA_key it f
      · rw [hfr, List.map_map, ← hP.2]
        apply List.map_congr_left
        intro f _
        exact itemUpdA_shape it f
    have := ih (applyItem m it) hP' (by
      intro x hx
      rw [fine_defs m it hsome]
      exact hall x (List.mem_cons_of_mem _ hx))
    exact ⟨this.1.trans he, this.2⟩

theorem ecu_fold_errors (KS : List ((Nat × Bool) × List Str)) (its : List Item) (h : ∀ it ∈ its, ∃ name text, it = .cm (.bu name) text)
    (m : RMatrix) (hP : Shaped KS m) : (its.foldl applyItem m).errors = m.errors ∧ Shaped KS (its.foldl applyItem m) := by
  induction its generalizing m with
  | nil => exact ⟨rfl, hP⟩
  | cons it its ih =>
    simp only [List.foldl_cons]
    obtain ⟨name, text, rfl⟩ := h it (by simp)
    have hfr := ecuItem_frames m (.cm (.bu name) text) rfl
    have he : (applyItem m (.cm (.bu name) text)).errors = m.errors := by
      simp only [applyItem, Item.frameNo, applyCore]
      split <;> rfl
    have hP' : Shaped KS (applyItem m (.cm (.bu name) text)) :=
      ⟨keysUnique_of_keys m _ (by rw [hfr]) hP.1, by rw [hfr]; exact hP.2⟩
    have := ih (fun x hx => h x (List.mem_cons_of_mem _ hx)) _ hP'
    exact ⟨this.1.trans he, this.2⟩

theorem baOk_old (D : List RDef) (it : Item) (h : (itemFrameUpd it).isSome = true) : baOk D it = true := by
  cases it with
  | ba b => simp [itemFrameUpd] at h
  | _ => rfl

/-- the statements a section writes for a frame name that frame, and the signal they need is one of its signals -/
def SecFine (sec : WFrame → List Item) : Prop :=
  ∀ f it, it ∈ sec f → (∃ g, itemFrameUpdA it = some (f.bo.id, g)) ∧ ∀ name, needsSig it = some name → name ∈ f.sigs.map (·.sg.name)

theorem txItems_fine : SecFine txItems := by
  intro f it h
  unfold txItems at h
  split at h
  · simp at h
  · simp only [List.mem_singleton] at h; subst h
    exact ⟨⟨_, rfl⟩, by intro name hn; simp [needsSig] at hn⟩

theorem cmItems_fine : SecFine cmItems := by
  intro f it h
  unfold cmItems at h
  cases hc : f.comment with
  | none => rw [hc] at h; simp at h
  | some c =>
    rw [hc] at h; simp only [List.mem_singleton] at h; subst h
    exact ⟨⟨_, rfl⟩, by intro name hn; simp [needsSig] at hn⟩

theorem sigCmItems_fine : SecFine sigCmItems := by
  intro f it h
  unfold sigCmItems at h
  obtain ⟨s, _, hs⟩ := List.mem_filterMap.mp h
  cases hc : s.comment with
  | none => rw [hc] at hs; simp at hs
  | some c =>
    rw [hc] at hs; simp only [Option.map_some, Option.some.injEq] at hs; subst hs
    exact ⟨⟨_, rfl⟩, by intro name hn; simp [needsSig] at hn⟩

theorem valItems_fine : SecFine valItems := by
  intro f it h
  unfold valItems at h
  obtain ⟨s, _, hs⟩ := List.mem_filterMap.mp h
  unfold valItem at hs; split at hs
  · simp at hs
  · simp only [Option.some.injEq] at hs; subst hs
    exact ⟨⟨_, rfl⟩, by intro name hn; simp [needsSig] at hn⟩

theorem valtypeItems_fine : SecFine valtypeItems := by
  intro f it h
  unfold valtypeItems at h
  obtain ⟨s, hsm, hs⟩ := List.mem_filterMap.mp h
  unfold valtypeItem at hs; split at hs
  · simp only [Option.some.injEq] at hs; subst hs
    refine ⟨⟨_, rfl⟩, ?_⟩
    intro name hn
    simp only [needsSig, Option.some.injEq] at hn
    subst hn
    exact List.mem_map.mpr ⟨s, hsm, rfl⟩
  · simp at hs

theorem grpItems_fine : SecFine grpItems := by
  intro f it h
  unfold grpItems at h
  obtain ⟨g, _, rfl⟩ := List.mem_map.mp h
  exact ⟨⟨_, rfl⟩, by intro name hn; simp [needsSig] at hn⟩

theorem mulItems_fine : SecFine mulItems := by
  intro f it h
  unfold mulItems at h
  obtain ⟨s, _, hs⟩ := List.mem_filterMap.mp h
  unfold mulItem at hs
  cases hm : s.muxer with
  | none => rw [hm] at hs; simp at hs
  | some mx =>
    rw [hm] at hs; simp only [Option.map_some, Option.some.injEq] at hs; subst hs
    exact ⟨⟨_, rfl⟩, by intro name hn; simp [needsSig] at hn⟩

theorem baItems_fine : SecFine baItems := by
  intro f it h
  obtain ⟨kv, _, rfl⟩ := List.mem_map.mp h
  exact ⟨⟨_, rfl⟩, by intro name hn; simp [needsSig] at hn⟩

theorem sigBaItems_fine : SecFine sigBaItems := by
  intro f it h
  obtain ⟨s, hsm, hs⟩ := List.mem_flatMap.mp h
  obtain ⟨kv, _, rfl⟩ := List.mem_map.mp hs
  refine ⟨⟨_, rfl⟩, ?_⟩
  intro name hn
  simp only [needsSig, Option.some.injEq] at hn
  subst hn
  exact List.mem_map.mpr ⟨s, hsm, rfl⟩

/-- identifiers and signal names of the written frames -/
def shapesOf (ps : List (WFrame × (Nat × Bool))) : List ((Nat × Bool) × List Str) := ps.map fun p => (p.2, p.1.sigs.map (·.sg.name))

theorem sec_all_fine (ps : List (WFrame × (Nat × Bool))) (hnum : ∀ q ∈ ps, keyOfCompound q.1.bo.id = some q.2)
    (sec : WFrame → List Item) (hs : SecFine sec) : ∀ it ∈ (ps.flatMap fun q => sec q.1), fine (shapesOf ps) it := by
  intro it hit
  obtain ⟨q, hq, h⟩ := List.mem_flatMap.mp hit
  obtain ⟨⟨g, hg⟩, hn⟩ := hs q.1 it h
  exact ⟨_, g, hg, q.2, _, hnum q hq, List.mem_map.mpr ⟨q, hq, rfl⟩, hn⟩

/-- the sections in front of the attribute statements, without the comments of the ECUs -/
def itemsA3 (ps : List (WFrame × (Nat × Bool))) : List Item :=
  (ps.flatMap fun q => txItems q.1) ++ (ps.flatMap fun q => cmItems q.1) ++ (ps.flatMap fun q => sigCmItems q.1)

theorem itemsA_split (es : List WEcu) (ps : List (WFrame × (Nat × Bool))) : itemsA es ps = itemsA3 ps ++ ecuCmItems es := rfl

theorem itemsA3_fine (ps : List (WFrame × (Nat × Bool))) (hnum : ∀ q ∈ ps, keyOfCompound q.1.bo.id = some q.2) (D : List RDef) :
    ∀ it ∈ itemsA3 ps, fine (shapesOf ps) it ∧ baOk D it = true := by
  intro it hit
  simp only [itemsA3, List.mem_append] at hit
  rcases hit with (h | h) | h
  · refine ⟨sec_all_fine ps hnum txItems txItems_fine it h, baOk_old D it ?_⟩
    obtain ⟨q, _, hq⟩ := List.mem_flatMap.mp h
    obtain ⟨g, hg⟩ := txItems_num q.1 it hq; rw [hg]; rfl
  · refine ⟨sec_all_fine ps hnum cmItems cmItems_fine it h, baOk_old D it ?_⟩
    obtain ⟨q, _, hq⟩ := List.mem_flatMap.mp h
    obtain ⟨g, hg⟩ := cmItems_num q.1 it hq; rw [hg]; rfl
  · refine ⟨sec_all_fine ps hnum sigCmItems sigCmItems_fine it h, baOk_old D it ?_⟩
    obtain ⟨q, _, hq⟩ := List.mem_flatMap.mp h
    obtain ⟨g, hg⟩ := sigCmItems_num q.1 it hq; rw [hg]; rfl

theorem itemsC_fine (ps : List (WFrame × (Nat × Bool))) (hnum : ∀ q ∈ ps, keyOfCompound q.1.bo.id = some q.2) (D : List RDef) :
    ∀ it ∈ itemsC ps, fine (shapesOf ps) it ∧ baOk D it = true := by
  intro it hit
  refine ⟨?_, baOk_old D it (kindsC ps it hit)⟩
  simp only [itemsC, List.mem_append] at hit
  rcases hit with ((h | h) | h) | h
  · exact sec_all_fine ps hnum valItems valItems_fine it h
  · exact sec_all_fine ps hnum valtypeItems valtypeItems_fine it h
  · exact sec_all_fine ps hnum grpItems grpItems_fine it h
  · exact sec_all_fine ps hnum mulItems mulItems_fine it h

theorem itemsF_fine (ps : List (WFrame × (Nat × Bool))) (hnum : ∀ q ∈ ps, keyOfCompound q.1.bo.id = some q.2) :
    ∀ it ∈ itemsF ps, fine (shapesOf ps) it := by
  intro it hit
  simp only [itemsF, List.mem_append] at hit
  rcases hit with h | h
  · exact sec_all_fine ps hnum baItems baItems_fine it h
  · exact sec_all_fine ps hnum sigBaItems sigBaItems_fine it h

theorem ecuCmItems_form (es : List WEcu) : ∀ it ∈ ecuCmItems es, ∃ name text, it = .cm (.bu name) text := by
  intro it h
  unfold ecuCmItems at h
  obtain ⟨e, _, he⟩ := List.mem_filterMap.mp h
  cases hc : e.comment with
  | none => rw [hc] at he; simp at he
  | some c => rw [hc] at he; simp only [Option.map_some, Option.some.injEq] at he; exact ⟨_, _, he.symm⟩

/-- **The core round trip of the whole matrix, without a line error.** -/
theorem roundtrip_coreG (es : List WEcu) (hes : wfEcus es = true) (ds : List DefLine) (hds : wfDefs ds = true)
    (dds : List DefDefLine) (hdds : wfDefaults ds dds = true)
    (ga : List (Str × Str)) (hga : wfAttrs (expectDefs ds dds) .global .global ga = true)
    (hea : ∀ e ∈ es, wfAttrs (expectDefs ds dds) .ecu (.ecu e.name) e.attrs = true)
    (ps : List (WFrame × (Nat × Bool))) (hwf : ∀ p ∈ ps, p.1.wf p.2 = true) (hdist : ps.Pairwise fun p q => p.2 ≠ q.2)
    (hfa : ∀ p ∈ ps, p.1.wfA (expectDefs ds dds) = true) :
    (readFile (writeCoreF es ds dds ga (ps.map (·.1)))).ecus = es.map WEcu.expectA ∧
    (readFile (writeCoreF es ds dds ga (ps.map (·.1)))).defs = expectDefs ds dds ∧
    (readFile (writeCoreF es ds dds ga (ps.map (·.1)))).attrs = attrsOf ga ∧
    (readFile (writeCoreF es ds dds ga (ps.map (·.1)))).frames = ps.map (fun p => p.1.expectA p.2) ∧
    (readFile (writeCoreF es ds dds ga (ps.map (·.1)))).pending = none ∧
    (readFile (writeCoreF es ds dds ga (ps.map (·.1)))).errors = 0 := by
  rw [writeCoreF_eq]
  unfold readFile
  have hes' := hes
  simp only [wfEcus, Bool.and_eq_true, List.all_eq_true, decide_eq_true_eq] at hes'
  obtain ⟨hall, hnd⟩ := hes'
  have hbuwf : (Stmt.bu (es.map (·.name))).wf = true := by
    simp only [Stmt.wf, List.all_eq_true, Bool.and_eq_true, decide_eq_true_eq]
    intro n hn
    obtain ⟨e, he, rfl⟩ := List.mem_map.mp hn
    exact (hall e he).1
  rw [List.foldl_append, List.foldl_append]
  have h0 : [renderBu (es.map (·.name)), ([] : Str)].foldl stepFile {} = { ecus := es.map plainEcu } := by
    simp only [List.foldl_cons, List.foldl_nil]
    have := step_stmt {} (.bu (es.map (·.name))) rfl hbuwf
    simp only [Stmt.line] at this
    rw [this, step_skip _ [] rfl (by decide)]
    simp [applyStmt, Stmt.item, applyItem, Item.frameNo, applyCore, plainEcu, Function.comp_def]
  rw [h0]
  have hblocks : (ps.map (·.1)).map WFrame.block = ps.map fun p => p.1.block := by rw [List.map_map]; rfl
  have hkeys : (ps.map fun p => p.1.block).map (fun b => boKey b.bo) = (ps.map (·.2)).map some := by
    rw [List.map_map, List.map_map]
    apply List.map_congr_left
    intro p hp
    exact (wf_unpack (hwf p hp)).2.1
  have hblk : ∀ b ∈ (ps.map fun p => p.1.block), wfBlock b = true := by
    intro b hb; obtain ⟨p, hp, rfl⟩ := List.mem_map.mp hb; exact (wf_unpack (hwf p hp)).1
  have hA := frames_fold (ps.map fun p => p.1.block) (ps.map (·.2)) { ecus := es.map plainEcu } rfl hblk hkeys
  have hA' := frames_fold_defs (ps.map fun p => p.1.block) (ps.map (·.2)) { ecus := es.map plainEcu } rfl hblk hkeys
  rw [hblocks]
  generalize hmA : (writeFrames (ps.map fun p => p.1.block)).foldl stepFile { ecus := es.map plainEcu } = mA at hA hA'
  obtain ⟨hAf, hAp, hAe, hAerr⟩ := hA
  obtain ⟨hAd, hAa⟩ := hA'
  rw [framesOfBlocks_ps] at hAf
  simp only [List.nil_append] at hAf hAe hAd hAa
  have hAkeys : mA.frames.map (·.key) = ps.map (·.2) := by
    rw [hAf, List.map_map]; rfl
  have hAnames : mA.ecus.map (·.name) = es.map (·.name) := by
    rw [hAe, List.map_map]; rfl
  have huA : KeysUnique mA := by
    unfold KeysUnique
    have : (mA.frames.map (·.key)).Pairwise (· ≠ ·) := by
      rw [hAkeys, List.pairwise_map]; exact hdist
    rwa [List.pairwise_map] at this
  -- the three states
  have hm1 : (stmtsA es (ps.map (·.1))).foldl FileStmt.apply mA = (itemsA es ps).foldl applyItem mA := by
    rw [apply_eq_items, stmtsA_items]
  have hm2 : ∀ m, (stmtsB es ds dds ga).foldl FileStmt.apply m = (itemsB es ds dds ga).foldl applyItem m := by
    intro m; rw [apply_eq_items, stmtsB_items]
  have hm3 : ∀ m, (stmtsC (ps.map (·.1))).foldl FileStmt.apply m = (itemsC ps).foldl applyItem m := by
    intro m; rw [apply_eq_items, stmtsC_items]
  generalize hm1d : (itemsA es ps).foldl applyItem mA = m1 at hm1
  have h1f : m1.frames = mA.frames.map fun f => (itemsA es ps).foldl (fun acc it => itemUpd it acc) f := by
    rw [← hm1d]; exact frames_after_items' _ mA huA (kindsA es ps)
  have h1e : m1.ecus = es.map WEcu.expect := by rw [← hm1d]; exact ecusA es hnd ps mA hAe
  have h1d : m1.defs = [] ∧ m1.attrs = [] := by
    have := items_defs (itemsA es ps) mA (kindsA es ps)
    rw [hm1d] at this
    exact ⟨this.1.trans hAd, this.2.trans hAa⟩
  have h1p : m1.pending = none := by
    rw [← hm1d]
    apply fold_pending _ mA hAp
    intro it hit hd first e
    subst e
    rcases kindsA es ps _ hit with h | h
    · simp [itemFrameUpd] at h
    · simp [isEcuItem] at h
  have h2 := stateB es hnd ds hds dds (wfDefaults_ok ds dds hdds) ga hga hea m1 h1d.1 h1d.2 h1e
  generalize hm2d : (itemsB es ds dds ga).foldl applyItem m1 = m2 at h2
  have h1keys : m1.frames.map (·.key) = ps.map (·.2) := by
    rw [h1f, List.map_map, ← hAkeys]
    apply List.map_congr_left
    intro f _
    simp only [Function.comp_apply]
    exact fold_key _ f
  have hu1 : KeysUnique m1 := keysUnique_of_keys mA m1 (by rw [h1keys, hAkeys]) huA
  have hu2 : KeysUnique m2 := keysUnique_of_keys m1 m2 (by rw [h2]) hu1
  -- the attribute statements of frames and signals
  have hm2f : ∀ m, (stmtsF (ps.map (·.1))).foldl FileStmt.apply m = (itemsF ps).foldl applyItem m := by
    intro m; rw [apply_eq_items, stmtsF_items]
  have hallF : ∀ it ∈ itemsF ps, isFrameBa it = true ∧ baOk m2.defs it = true := by
    intro it hit
    have hd2 : m2.defs = expectDefs ds dds := by rw [h2]
    rw [hd2]
    simp only [itemsF, List.mem_append, List.mem_flatMap] at hit
    rcases hit with ⟨p, hp, h⟩ | ⟨p, hp, h⟩
    · obtain ⟨kv, hkv, rfl⟩ := List.mem_map.mp h
      have := hfa p hp
      simp only [WFrame.wfA, wfAttrs, Bool.and_eq_true, List.all_eq_true] at this
      exact ⟨rfl, (this.1 kv hkv).2⟩
    · obtain ⟨s, hs, h'⟩ := List.mem_flatMap.mp h
      obtain ⟨kv, hkv, rfl⟩ := List.mem_map.mp h'
      have := hfa p hp
      simp only [WFrame.wfA, wfAttrs, Bool.and_eq_true, List.all_eq_true] at this
      exact ⟨rfl, (this.2 s hs kv hkv).2⟩
  have h3 := ba_fold (itemsF ps) m2 hu2 hallF
  generalize hm3d : (itemsF ps).foldl applyItem m2 = m3 at h3
  obtain ⟨h3f, h3d, h3e, h3a⟩ := h3
  have h2keys : m2.frames.map (·.key) = ps.map (·.2) := by rw [h2]; exact h1keys
  have h3keys : m3.frames.map (·.key) = ps.map (·.2) := by
    rw [h3f, List.map_map, ← h2keys]
    apply List.map_congr_left
    intro f _
    simp only [Function.comp_apply]
    exact fold_keyA _ f
  have hu3 : KeysUnique m3 := keysUnique_of_keys m2 m3 (by rw [h3keys, h2keys]) hu2
  have h2p : m2.pending = none := by rw [h2]; exact h1p
  have h3p : m3.pending = none := by
    rw [← hm3d]
    apply fold_pending _ m2 h2p
    intro it hit hd first e
    subst e
    have := (hallF _ hit).1
    simp [isFrameBa] at this
  -- every statement can be read at its point
  have hokA : okFile mA (stmtsA es (ps.map (·.1))) = true := by
    apply okFile_staticE _ mA huA
    intro s hs
    rw [hAkeys, hAnames]
    simp only [stmtsA, List.mem_append, List.mem_flatMap, List.mem_map] at hs
    rcases hs with ((⟨f, ⟨p, hp, rfl⟩, hsf⟩ | ⟨f, ⟨p, hp, rfl⟩, hsf⟩) | ⟨f, ⟨p, hp, rfl⟩, hsf⟩) | hsf
    · exact staticOkE_of _ _ _ (tx_static p.1 p.2 (hwf p hp) _ s hsf)
    · exact staticOkE_of _ _ _ (cm_static p.1 p.2 (hwf p hp) _ (List.mem_map.mpr ⟨p, hp, rfl⟩) s hsf)
    · exact staticOkE_of _ _ _ (sigcm_static p.1 p.2 (hwf p hp) _ (List.mem_map.mpr ⟨p, hp, rfl⟩) s hsf)
    · unfold ecuCmStmts at hsf
      obtain ⟨e, he, hse⟩ := List.mem_filterMap.mp hsf
      cases hc : e.comment with
      | none => rw [hc] at hse; simp at hse
      | some c =>
        rw [hc] at hse; simp only [Option.map_some, Option.some.injEq] at hse; subst hse
        have := hall e he
        rw [hc] at this
        refine ⟨?_, ?_, List.mem_map.mpr ⟨e, he, rfl⟩⟩
        · simp only [wfCmHead]; exact this.1.1
        · simpa using this.2
  have hokB : okFile m1 (stmtsB es ds dds ga) = true :=
    okFile_ones _ (stmtsB_ones es ds hds dds (wfDefaults_wf ds dds hdds) _ ga hga hea) m1
  have hokF : okFile m2 (stmtsF (ps.map (·.1))) = true := by
    apply okFile_ones
    intro s hs
    simp only [stmtsF, List.mem_append, List.mem_flatMap, List.mem_map] at hs
    rcases hs with ⟨f, ⟨p, hp, rfl⟩, h⟩ | ⟨f, ⟨p, hp, rfl⟩, h⟩
    · obtain ⟨kv, hkv, rfl⟩ := List.mem_map.mp h
      have := hfa p hp
      simp only [WFrame.wfA, wfAttrs, Bool.and_eq_true, List.all_eq_true] at this
      exact ⟨_, rfl, (this.1 kv hkv).1⟩
    · obtain ⟨sg, hsg, h'⟩ := List.mem_flatMap.mp h
      obtain ⟨kv, hkv, rfl⟩ := List.mem_map.mp h'
      have := hfa p hp
      simp only [WFrame.wfA, wfAttrs, Bool.and_eq_true, List.all_eq_true] at this
      exact ⟨_, rfl, (this.2 sg hsg kv hkv).1⟩
  have hokC : okFile m3 (stmtsC (ps.map (·.1))) = true := by
    apply okFile_staticE _ m3 hu3
    intro s hs
    rw [h3keys]
    simp only [stmtsC, List.mem_append, List.mem_flatMap, List.mem_map] at hs
    rcases hs with ((⟨f, ⟨p, hp, rfl⟩, hsf⟩ | ⟨f, ⟨p, hp, rfl⟩, hsf⟩) | ⟨f, ⟨p, hp, rfl⟩, hsf⟩) | ⟨f, ⟨p, hp, rfl⟩, hsf⟩
    · exact staticOkE_of _ _ _ (val_static p.1 p.2 (hwf p hp) _ s hsf)
    · exact staticOkE_of _ _ _ (valtype_static p.1 p.2 (hwf p hp) _ s hsf)
    · exact staticOkE_of _ _ _ (grp_static p.1 p.2 (hwf p hp) _ s hsf)
    · exact staticOkE_of _ _ _ (mul_static p.1 p.2 (hwf p hp) _ s hsf)
  have hok : okFile mA (stmtsA es (ps.map (·.1)) ++ (stmtsB es ds dds ga ++ (stmtsF (ps.map (·.1)) ++ stmtsC (ps.map (·.1))))) = true := by
    rw [okFile_append, okFile_append, okFile_append, hokA, hm1, hokB, hm2 m1, hm2d, hokF, hm2f m2, hm3d, hokC]
    rfl
  rw [read_file _ mA hAp hok, List.foldl_append, List.foldl_append, List.foldl_append, hm1, hm2 m1, hm2d, hm2f m2, hm3d, hm3 m3]
  have h4f := frames_after_items (itemsC ps) m3 hu3 (kindsC ps)
  have h4e := ecus_after_items (itemsC ps) m3 (fun it hit => Or.inl (kindsC ps it hit))
  have h4d := items_defs (itemsC ps) m3 (fun it hit => Or.inl (kindsC ps it hit))
  refine ⟨?_, ?_, ?_, ?_, ?_, ?_⟩
  · rw [h4e, fold_other_ecus _ (kindsC ps), h3e, h2]
  · rw [h4d.1, h3d, h2]
  · rw [h4d.2, h3a, h2]
  · rw [h4f, h3f, h2]
    simp only
    rw [h1f, hAf, List.map_map, List.map_map, List.map_map]
    apply List.map_congr_left
    intro p hp
    simp only [Function.comp_apply]
    exact per_frameF es ps hwf hdist p hp
  · apply fold_pending _ m3 h3p
    intro it hit hd first e
    subst e
    have := kindsC ps _ hit
    simp [itemFrameUpd] at this
  · -- no line error: every statement finds its frame (and, where it must, its signal), every value is accepted
    have hnumAll : ∀ q ∈ ps, keyOfCompound q.1.bo.id = some q.2 := fun q hq => (wf_unpack (hwf q hq)).2.2.1
    have hPA : Shaped (shapesOf ps) mA := by
      refine ⟨huA, ?_⟩
      rw [hAf, List.map_map]
      apply List.map_congr_left
      intro p _
      simp [sigShape, frameOfBlock, sigsOf, WFrame.block, rereadSg_name, Function.comp_def]
    have e1 : m1.errors = mA.errors ∧ Shaped (shapesOf ps) m1 := by
      rw [← hm1d, itemsA_split, List.foldl_append]
      have a1 := fine_fold _ (itemsA3 ps) mA hPA (itemsA3_fine ps hnumAll mA.defs)
      have a2 := ecu_fold_errors _ (ecuCmItems es) (ecuCmItems_form es) _ a1.2
      exact ⟨a2.1.trans a1.1, a2.2⟩
    have e2 : m2.errors = m1.errors ∧ Shaped (shapesOf ps) m2 := by
      rw [h2]
      exact ⟨rfl, ⟨keysUnique_of_keys m1 _ rfl e1.2.1, e1.2.2⟩⟩
    have e3 : m3.errors = m2.errors ∧ Shaped (shapesOf ps) m3 := by
      rw [← hm3d]
      exact fine_fold _ (itemsF ps) m2 e2.2 (fun it hit => ⟨itemsF_fine ps hnumAll it hit, (hallF it hit).2⟩)
    have e4 := fine_fold _ (itemsC ps) m3 e3.2 (itemsC_fine ps hnumAll m3.defs)
    rw [e4.1, e3.1, e2.1, e1.1, hAerr]

end CanVerif.Dbc.FileProofs
